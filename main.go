package main

import (
	"fmt"
	"math/big"
	"os"
	"time"

	"github.com/kstenerud/go-concise-encoding/ce"
	"github.com/kstenerud/go-concise-encoding/configuration"
)

func main() {
	doc := []byte("c0\n" + os.Args[1])
	cfg := configuration.New()
	var tmpl interface{}
	switch os.Args[2] {
	case "bigint":
		tmpl = (*big.Int)(nil)
	case "float":
		tmpl = float64(0)
	case "nil":
		tmpl = nil
	case "int":
		tmpl = int(0)
	}
	t0 := time.Now()
	done := make(chan string, 1)
	go func() {
		v, err := ce.UnmarshalFromCTEDocument(doc, tmpl, cfg)
		s := fmt.Sprintf("%v", err)
		if len(s) > 100 {
			s = s[:100]
		}
		_ = v
		done <- s
	}()
	select {
	case s := <-done:
		fmt.Println("done", time.Since(t0), s)
	case <-time.After(20 * time.Second):
		fmt.Println("STILL RUNNING after 20s")
	}
}
