# Per-property configuration for bin/check.
COMMON_TB = [
    "hand-written Lean models tied to /repo by (a) CE/GenCheck.lean equalities with tables regenerated from the source and "
    "(b) the Go correspondence harness (harness/) running the real code and the compiled Lean driver on the same operations",
]

PROPS = {
    "C01": dict(
        claim="Lean 4 model of the CBE encoder and decoder (CE/Cbe); per-event prefix-code round-trip theorems with arbitrary suffix "
              "(every integer width so far; ULEB128; little-endian); correspondence of model and implementation (encoder bytes, decoder events) "
              "on generated rules-valid streams; the property oracle canon(decoded)=canon(original) is evaluated by the Lean driver on the implementation's own output",
        note="partial: the stream-level induction is not proved yet; floats, decimals, arrays and times are covered by correspondence+oracle only. "
             "Trusted: Lean kernel; hand-written model tied by the correspondence harness; go-compact-time not modelled (time events: oracle on the implementation only)",
        level="proof", n_quick=6000, n_thorough=200000, shards=16,
        lean_modules=["CE.Props.C01"],
        rule="grammar-directed rules-valid event streams (harness/gen.go) from splitmix64(VERIF_SEED, index); "
             "non-trivial = more than the 4 header/footer events; distinct by event text",
        trusted_base=COMMON_TB + ["go-compact-time codec (external) is not modelled: streams with times are checked by the oracle on the implementation only"],
        assumptions=["IEEE-754 correct rounding of float64->float32 conversion (F32Conv)"],
    ),
    "C10": dict(
        claim="the 23x23 rule table is translated from /repo/rules/*.go into an action DSL on every run and proved equal to the model table (GenCheck); "
              "the clauses of the property that are table facts (header/terminal, key position, edge parts, node value, record types only at top level, marker targets) "
              "are kernel-checked by `decide` over the whole table; the interpreter + Context model runs in lock step with the real validator (verdict, rejection index, "
              "error class, forwarded events) and the independent recursive-descent grammar CE/Rules/Spec.lean judges every case (WF.REL)",
        note="partial: machine<->grammar equivalence is not yet a theorem (exercised by the oracle on random, mutated and exhaustive short sequences). "
             "Trusted: translator extract/extract.py; hand-modelled Context methods; Unicode identifier table extracted as ranges",
        level="proof", n_quick=8000, n_thorough=400000, shards=16,
        lean_modules=["CE.Props.C10", "CE.Gen.Check"],
        rule="valid streams from the grammar-directed generator and 1–2 random mutations of them (delete/duplicate/swap/replace/insert/tweak/copy), "
             "plus every sequence bd v:0 <≤4 (quick) / ≤6 (thorough) abstract events> explored exhaustively with prefix pruning; "
             "non-trivial = longer than the header; distinct by event text",
        trusted_base=COMMON_TB + ["rule table translated from /repo/rules/*.go by extract/extract.py (statement-by-statement, unknown statements rejected) "
                                  "and proved equal to the model table in CE/Gen/Check.lean on every run",
                                  "Context methods (context.go, context_array.go) and rules_event_rcv.go are hand-modelled in CE/Rules/Machine.lean and tied by the RULES correspondence"],
        assumptions=["the grammar CE/Rules/Spec.lean is the reading of the property text; its equivalence with the machine is exercised (WF.REL oracle), not yet proved"],
    ),
}

NOT_APPLICABLE = {}
