# Per-property configuration for bin/check.
COMMON_TB = [
    "hand-written Lean models tied to /repo by (a) CE/GenCheck.lean equalities with tables regenerated from the source and "
    "(b) the Go correspondence harness (harness/) running the real code and the compiled Lean driver on the same operations",
]

PROPS = {
    "C01": dict(
        level="proof", n_quick=6000, n_thorough=200000, shards=16,
        lean_modules=["CE.Props.C01"],
        rule="grammar-directed rules-valid event streams (harness/gen.go) from splitmix64(VERIF_SEED, index); "
             "non-trivial = more than the 4 header/footer events; distinct by event text",
        trusted_base=COMMON_TB + ["go-compact-time codec (external) is not modelled: streams with times are checked by the oracle on the implementation only"],
        assumptions=["IEEE-754 correct rounding of float64->float32 conversion (F32Conv)"],
    ),
}
