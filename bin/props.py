# Per-property configuration for bin/check.
COMMON_TB = [
    "hand-written Lean models tied to /repo by (a) CE/GenCheck.lean equalities with tables regenerated from the source and "
    "(b) the Go correspondence harness (harness/) running the real code and the compiled Lean driver on the same operations",
]

PROPS = {
    "C01": dict(
        claim="Lean 4 model of the CBE encoder and decoder (CE/Cbe). Theorem structural_document_roundtrip: for EVERY stream, of any length and nesting, made of containers, Booleans, null, padding, comments, integers of every width and sign in all three event forms, big integers of up to 8192 bits, binary floats (infinities, NaN kinds, zeros and every value stored in 16, 32 or 64 bits except doubles in the float32 subnormal range; narrowing and widening shown inverse by bit arithmetic: widen_exact_normal), decimal floats (all special values, int32 exponents and int64 coefficients; the field never collides with an escape code: decodeDecimal_field) and big decimals of any coefficient size, markers / references / records / record types with their identifiers, UIDs, strings and resource identifiers of any length, and typed arrays of every byte-multiple element kind sent whole (short form and chunk-header form), the encoder model fails nowhere, the decoder model reads the encoder's bytes back without error and to the end, and the events it delivers carry the same data (canon) - by induction over the stream, each step a prefix-code lemma (one decoder step reads back exactly this event and leaves the following bytes untouched: decodeOne_simple); corollary structural_encoding_determines_data: two such documents with the same bytes carry the same data; per-event prefix-code round trips with arbitrary suffix for every integer width, ULEB128 and little-endian fields. "
              "Correspondence of model and implementation (encoder bytes, decoder events) "
              "on generated rules-valid streams; the property oracle canon(decoded)=canon(original) is evaluated by the Lean driver on the implementation's own output",
        note="partial: the stream-level theorem covers the structural fragment; float32-subnormal doubles, times, bit arrays, media, custom types and arrays sent in several chunks (the encoder's array state) are covered by correspondence + oracle only. "
             "Trusted: Lean kernel; hand-written model tied by the correspondence harness; go-compact-time not modelled (time events: oracle on the implementation only)",
        level="proof", n_quick=6000, n_thorough=200000, shards=16,
        lean_modules=["CE.Props.C01", "CE.Cbe.StreamRoundTrip"],
        rule="grammar-directed rules-valid event streams (harness/gen.go) from splitmix64(VERIF_SEED, index); "
             "non-trivial = more than the 4 header/footer events; distinct by event text",
        trusted_base=COMMON_TB + ["go-compact-time codec (external) is not modelled: streams with times are checked by the oracle on the implementation only"],
        assumptions=["IEEE-754 correct rounding of float64->float32 conversion (F32Conv)"],
    ),
    "C10": dict(
        claim="the 23x23 rule table is translated from /repo/rules/*.go into an action DSL on every run and proved equal to the model table (GenCheck); "
              "the clauses of the property that are table facts (header/terminal, key position, edge parts, node value, record types only at top level, marker targets) "
              "are kernel-checked by `decide` over the whole table; the interpreter + Context model runs in lock step with the real validator (verdict, rejection index, "
              "error class, forwarded events) and the independent recursive-descent grammar CE/Rules/Spec.lean judges every case (WF.REL)",
        note="partial: machine<->grammar equivalence is not yet a theorem (exercised by the oracle on random, mutated and exhaustive short sequences). "
             "Trusted: translator extract/extract.py; hand-modelled Context methods; Unicode identifier table extracted as ranges",
        level="proof", n_quick=8000, n_thorough=400000, shards=16,
        lean_modules=["CE.Props.C10", "CE.Gen.Check"],
        rule="valid streams from the grammar-directed generator and 1–2 random mutations of them (delete/duplicate/swap/replace/insert/tweak/copy), "
             "plus every sequence bd v:0 <≤4 (quick) / ≤6 (thorough) abstract events> explored exhaustively with prefix pruning; "
             "non-trivial = longer than the header; distinct by event text",
        trusted_base=COMMON_TB + ["rule table translated from /repo/rules/*.go by extract/extract.py (statement-by-statement, unknown statements rejected) "
                                  "and proved equal to the model table in CE/Gen/Check.lean on every run",
                                  "Context methods (context.go, context_array.go) and rules_event_rcv.go are hand-modelled in CE/Rules/Machine.lean and tied by the RULES correspondence"],
        assumptions=["the grammar CE/Rules/Spec.lean is the reading of the property text; its equivalence with the machine is exercised (WF.REL oracle), not yet proved"],
    ),
    "C11": dict(
        claim="binary arrays: theorem binary_split_irrelevant — for any division of a chunk's bytes among any number of data events the validator ends in the same state (same error, same completion) as for one data event; overflow rejected at the exceeding event. "
              "Text arrays (streaming UTF-8 with carried remainder): every case is judged by the independent array specification (Spec.chunksP: data fills the chunks, last chunk final, each text chunk valid UTF-8) "
              "and four different data splittings of every generated chunking must give one verdict",
        note="partial: the text half (StreamStringData) is not yet a theorem; it is carried by model/implementation correspondence on every split (incl. inside multi-byte characters, zero-length events, truncated and invalid sequences) and the WF.REL oracle. Trusted: hand-modelled Context array methods",
        level="proof", n_quick=6000, n_thorough=300000, shards=16,
        lean_modules=["CE.Props.C11", "CE.Rules.ArraySplit", "CE.Gen.Check"],
        rule="one array per case: random type (all 19), 1-4 chunks, contents incl. multi-byte UTF-8, half of the cases with one injected defect (short/long data, last chunk not final, bad byte, chunk boundary inside a character, truncated character, count+1); each chunking is fed in 4 data splittings (whole, byte-wise, two random); distinct by event text",
        trusted_base=COMMON_TB + ["rule table translated from /repo/rules/*.go (extract/extract.py) and proved equal to the model table in CE/Gen/Check.lean on every run", "Context methods and rules_event_rcv.go hand-modelled in CE/Rules/Machine.lean, tied by the RULES correspondence (verdict, rejection index, error class, forwarded events)"],
    ),
    "C12": dict(
        claim="theorem normalize_eq_iff: NotifyKey's normalisation of the four integer event forms (uint64 / negint / int64 / *big.Int, as Go dynamic values incl. the word-array form) gives equal keys iff the events denote the same integer, for every magnitude; notifyKey rejects iff the key is present; table facts: every key position of maps and record types notifies the key. "
              "Harness: maps and record types with deliberately colliding / non-colliding keys in every event form (ints, strings whole/chunked, resource ids, uids, booleans, times) — the verdict must be DUPKEY iff two keys denote the same value",
        note="time keys are compared through the external Time.String(): correspondence/oracle only. Trusted: GoKey as the model of Go map-key identity (dynamic type + value)",
        level="proof", n_quick=8000, n_thorough=400000, shards=16,
        lean_modules=["CE.Props.C12", "CE.Gen.Check"],
        rule="2-5 keys per container, each later key colliding with an earlier one with p=1/3 (possibly in another event form); maps and record types; distinct by event text",
        trusted_base=COMMON_TB + ["rule table translated from /repo/rules/*.go (extract/extract.py) and proved equal to the model table in CE/Gen/Check.lean on every run", "Context methods and rules_event_rcv.go hand-modelled in CE/Rules/Machine.lean, tied by the RULES correspondence (verdict, rejection index, error class, forwarded events)"],
    ),
    "C13": dict(
        claim="mechanism theorems at full strength per function: marking an already marked id fails; a successful mark records id/type/count; backward references are type-checked at once; unknown ids become forward references; the document cannot end with an unresolved forward reference and endDocument is the only way into the terminal rule; key positions use the keyable mask; the marked object is registered on every path out of the marked-object rules; identifier validity. "
              "Harness: marker-heavy valid streams (forward/backward references, in keys and values, nested marked containers, marked keys) and marker-specific mutations, judged by the independent grammar's global conditions (WF.REL)",
        note="partial: the whole-document invariant (accepted => all clauses) is not yet a single theorem over run; builder-side reference resolution is checked under C06/C20. Trusted: as C10",
        level="proof", n_quick=8000, n_thorough=400000, shards=16,
        lean_modules=["CE.Props.C13", "CE.Gen.Check"],
        rule="marker-heavy generator (markers p=1/4, references p=1/5, forward references resolved later, markers on keys) plus mutations: unknown reference, duplicate marker, marker on marker/reference, bad identifier, deleted marker, key reference to a non-keyable object; non-trivial = contains a marker or reference",
        trusted_base=COMMON_TB + ["rule table translated from /repo/rules/*.go (extract/extract.py) and proved equal to the model table in CE/Gen/Check.lean on every run", "Context methods and rules_event_rcv.go hand-modelled in CE/Rules/Machine.lean, tied by the RULES correspondence (verdict, rejection index, error class, forwarded events)"],
    ),
    "C14": dict(
        claim="exactness theorems for every limit test of the validator: depth (beginContainer succeeds iff depth+1 <= max), object count, marker count (error iff exceeded, never spurious), identifier length, whole-array size, chunked-array running total; all container kinds go through beginContainer. "
              "Harness: for every generated document the structural usage is measured independently (Go and Lean measure must agree) and the validator is run with each limit at usage-1, usage, usage+1: rejected iff usage exceeds the limit",
        note="partial: the lift from the per-function exactness to whole documents (counters = structural measures) is exercised, not yet proved; MaxDocumentSizeBytes is a decoder limit (CBE reader) and is exercised through decoder runs only. MaxMarkerCount is never read by the code (markers are limited by MaxLocalReferenceCount, as the repository's own test expects): the check follows the code here",
        level="proof", n_quick=3000, n_thorough=100000, shards=16,
        lean_modules=["CE.Props.C14", "CE.Gen.Check"],
        rule="valid documents from the generator; limits depth/objects/array/id/markers each set to usage-1, usage, usage+1 (15 validator runs per document)",
        trusted_base=COMMON_TB + ["rule table translated from /repo/rules/*.go (extract/extract.py) and proved equal to the model table in CE/Gen/Check.lean on every run", "Context methods and rules_event_rcv.go hand-modelled in CE/Rules/Machine.lean, tied by the RULES correspondence (verdict, rejection index, error class, forwarded events)"],
    ),
    "C15": dict(
        claim="theorem forward_exact: whenever the model of RulesEventReceiver accepts an event it forwards exactly [forwardOf e] (identity except nil big number -> null and NaN float/decimal/big decimal -> NaN event of the same kind); forward_order and rejected_forwards_prefix lift it to whole streams (the forwarded stream is the accepted prefix, in order, nothing else). "
              "Harness: a recording receiver behind the real validator; forwarded events compared argument by argument with the model and with forwardOf on the implementation's output",
        note="Trusted: the model's per-method forwarding is hand-written from rules_event_rcv.go and tied by the correspondence on every run",
        level="proof", n_quick=8000, n_thorough=400000, shards=16,
        lean_modules=["CE.Props.C15", "CE.Gen.Check"],
        rule="valid streams with every scalar kind incl. nil big numbers and NaNs in float/decimal/big-decimal form; one in five mutated (prefix forwarded before the rejection)",
        trusted_base=COMMON_TB + ["rule table translated from /repo/rules/*.go (extract/extract.py) and proved equal to the model table in CE/Gen/Check.lean on every run", "Context methods and rules_event_rcv.go hand-modelled in CE/Rules/Machine.lean, tied by the RULES correspondence (verdict, rejection index, error class, forwarded events)"],
    ),
    "C22": dict(
        claim="theorems posInt_minimal / negInt_minimal: for every integer below 2^64 the encoder's output length is among the lengths of the encodings the format offers (forms written from the type table, independently of the encoder's switch) and no offered encoding is shorter; posInt_reencode / negInt_reencode: what the decoder emits for an encoder-written integer encodes to the same bytes; structural_encoding_is_a_fixed_point: for EVERY document of structural events (containers, Booleans, null, integers of all widths and forms, big integers up to 8192 bits, binary floats (except float32-subnormal doubles), decimal floats and big decimals, identifiers, UIDs, strings, resource identifiers and whole typed arrays in short and chunk-header form, comments, padding), of any length and nesting, decoding the encoder's bytes and encoding the delivered events again yields exactly the same bytes (CE/Cbe/Reencode.lean: induction over the stream on top of the C01 stream round trip). "
              "Harness: single values (integers in every event form around every width boundary, float bit patterns incl. bfloat16/float32 exactness boundaries and subnormals, strings/arrays of length 0,1,14..17,64,130) are encoded by the real encoder and the length is compared with the driver's independent minimal-length oracle (CBE.MINLEN: significant-bit test for floats, short-header rule for arrays); streams: decode(encode(evs)) encoded again must be byte-identical",
        note="partial: float narrowest-width and typed-array short-header minimality, and the fixed point for chunked arrays, media and custom types, are decided by the oracle on every run, not yet theorems. Trusted: as C01",
        level="proof", n_quick=9000, n_thorough=600000, shards=16,
        lean_modules=["CE.Props.C22", "CE.Cbe.Minimal", "CE.Cbe.Reencode"],
        rule="two thirds single values from boundary pools and random draws, one third generated rules-valid streams for the idempotence part; distinct by event text",
        trusted_base=COMMON_TB,
        assumptions=["IEEE-754 correct rounding of float64->float32 conversion (F32Conv)"],
    ),
    "C27": dict(
        claim="theorems over the dispatch/version facts extracted from /repo on this run (CE/Gen/Api.lean): universal decode and universal unmarshal detect the format identically for every byte; 'c', 'C' and 0x81 are recognised and nothing else; for every natural number v a header version is accepted iff v is 0 or 1, in both formats; both decoders forward the mapped version, the lexer admits exactly digits 0 and 1, marshalers emit the library version 0. "
              "Harness: every first byte 0-255 x versions x valid/invalid bodies through UniversalDecoder.DecodeDocument/Decode, UnmarshalFromCEDocument/UnmarshalCE and the format-specific entry points: events, values and error-ness must coincide; versions 0..300 (CBE, multi-byte ULEB incl. over-long forms) and 0..99 (CTE) accepted iff the model says so; marshalers write version 0",
        note="Trusted: the extractor's reading of chooseDecoder/chooseUnmarshaler (case labels), of the `if ver == 1 { ver = 0 }` steps and of the lexer's CTE_VERSION class; behaviour of the bodies after dispatch is compared, not modelled",
        level="proof", n_quick=1, n_thorough=1, shards=4,
        lean_modules=["CE.Props.C27"],
        rule="enumeration: 256 first bytes x (3 versions x 2 bodies + 3 tails), 11 CBE version encodings x 6 bodies, 2 header letters x 10 version spellings x 7 bodies, versions 0..300 / 0..99; distinct by document bytes",
        trusted_base=COMMON_TB,
    ),
    "C28": dict(
        claim="Lean model of the CBE reader layer (io.Reader source with an arbitrary delivery schedule, cbe.readerAdapter, readIntoBuffer, ReadTypeOrEOF) and theorems, for every legal schedule (any short reads, (0,nil) reads short of 100 in a row, final bytes with or without io.EOF): a full read returns exactly the next n bytes, the byte stream seen by the decoder is the document followed by end-of-file, two arbitrary deliveries are indistinguishable. "
              "Harness: valid, bit-flipped and truncated CBE and CTE documents through one-byte, short, mixed and zero-length-read readers with and without data+EOF, via UnmarshalCBE/CTE/CE and the three Decoder.Decode entry points; value, events and error-ness must equal the in-memory result",
        note="Modelled, not verified: that every byte access of the CBE decoder (and of the uleb128/compact-float/compact-time helpers) goes through the adapter; CTE (io.Copy) and the universal path (bufio) rely on the standard library's handling of the io.Reader contract. Trusted: Lean kernel, the correspondence harness",
        level="proof", n_quick=400, n_thorough=20000, shards=16,
        lean_modules=["CE.Props.C28", "CE.Io.ReaderProofs"],
        rule="per case 5 documents (valid/bitflip/truncated CBE, valid/truncated CTE) x 3 random delivery patterns x 5 entry points; distinct by document bytes",
        trusted_base=COMMON_TB,
    ),
    "C29": dict(
        claim="theorems: a source failing with a non-EOF error after k bytes (any k, error delivered with or without the preceding bytes, any legal schedule) makes byte-wise reading yield the k bytes and then the failure - never end-of-file - and a full read needing more than k bytes fail; a destination that stops accepting bytes before the document is complete always yields the error, whatever the division into Write calls. "
              "Harness: a single injected write failure at every byte offset (short and zero-length failing writes) for MarshalCBE/MarshalCTE and both event-level encoders, and a single injected read failure at every offset (with and without data) for UnmarshalCBE/CTE/CE and the three Decoder.Decode entry points, over generated values and documents: the call must return an error and no panic may escape",
        note="Modelled, not verified: the deferred recover of the entry points and that all writes go through writeBytes/WriteString. Trusted: as C28",
        level="proof", n_quick=60, n_thorough=3000, shards=16, timeout_quick=900,
        lean_modules=["CE.Props.C29", "CE.Io.FaultProofs", "CE.Io.Writer"],
        rule="every failure offset of every generated document/value (fault_enumeration style); non-trivial = a fault position strictly inside the data",
        trusted_base=COMMON_TB,
    ),
    "C06": dict(
        claim="Lean definition of 'same data' on value trees (CE/Tree.lean: parse events into a tree, records -> maps via the record-type table, references -> targets, markers and comments dropped, map entries order-insensitive) evaluated by the driver (TREE.EQ) on the implementation's own output: decode(doc) vs decode(marshal(unmarshal(doc, nil))), for CBE and CTE encodings of generated rules-valid streams. "
              "Sub-populations isolate each feature with a recorded finding (edge, node, remote reference, local reference, non-URL resource id, time, bit array, UID array, NaN in float arrays) so that the healthy core (scalars, strings, URLs, numeric typed arrays, media, lists, maps, records) is decided without exclusions",
        note="partial: no theorem yet about the builder model (M-MARSHAL.buildAny is not modelled); this check is the oracle half of the design (Lean spec of the data relation + implementation runs). Go map iteration order makes map order irrelevant by construction. float16 arrays are compared as float32 arrays (Go has no 16-bit float)",
        level="proof", n_quick=3900, n_thorough=200000, shards=16,
        lean_modules=["CE.Props.C06"],
        rule="13 sub-populations round-robin (4 core, 9 single-feature); each case encoded in CBE and CTE; distinct by event text; non-trivial = more than the header events",
        trusted_base=COMMON_TB,
    ),
    "C26": dict(
        claim="theorems over the model of internal/arrays (toLE/fromLE on element bit patterns, any element width): bytes->slice inverts slice->bytes for in-range elements; slice->bytes inverts bytes->slice on whole elements; byte i of an element is bits 8i..8i+7 (little-endian); length law. "
              "Harness: all 9 public helper pairs x lengths 0..65 x boundary/NaN-payload/random bit patterns: model correspondence both ways, both inverse laws decided directly, trailing partial element behaviour, and the CBE marshaler's array bytes compared with <T>SliceAsBytes",
        note="the theorems are about the byte-wise path; on this little-endian host the unsafe fast path is dead code because the endianness probe is inverted (DESIGN.md D29) - a change activating it is caught by the correspondence. Big-endian hosts are out of reach",
        level="proof", n_quick=2400, n_thorough=120000, shards=8,
        lean_modules=["CE.Props.C26", "CE.Arr.LE"],
        rule="case i: helper i mod 9, length (i div 9) mod 66, elements from a special pool (boundaries, sNaN/qNaN payloads) or random; distinct by type+elements",
        trusted_base=COMMON_TB,
    ),
    "C19": dict(
        claim="theorems over the model of builder/conversions.go (integer fragment): for every destination width and signedness, set{Int,Uint}From{Int,Uint,BigInt} succeed exactly when the mathematical value fits and then store that value (iff statements: never wraps, never truncates, never rejects a fitting value). "
              "Harness: every numeric event form (small/negative/wide/big ints, binary/decimal/big floats incl. NaN, infinities, -0, 2^53+-1, 2^63, 2^64-1) x 18 destination types (apd.Decimal and *apd.Decimal for integer sources, with a well-formedness check: the sign lives in Negative, never in the coefficient) through UnmarshalFromCBEDocument; the stored value is compared with the exact rational value of the source; the integer fragment is also compared with the Lean model (CONV)",
        note="partial: float-involving conversions are decided by the exact-rational oracle only (the post-store comparisons rely on amd64's out-of-range float->int result, which is not modelled). Known finding: decimal -> big.Float rounds. Repaired: 63b1ffa (a negative big integer became a malformed decimal: found by the C04 thorough tier, now caught here in the quick tier)",
        level="proof", n_quick=6000, n_thorough=300000, shards=16,
        lean_modules=["CE.Props.C19", "CE.Conv.Int"],
        rule="source event from boundary pools and random draws, against all 18 destinations in scope (float and decimal destinations only for integer sources); distinct by source text x destination",
        trusted_base=COMMON_TB,
    ),
    "C04": dict(
        claim="oracle on the implementation over reflect-generated types (random struct types via reflect.StructOf, nested slices/arrays/maps/pointers, all supported special types) and values (boundary magnitudes, arrays of length 0..33 so that the chunked path is taken): MarshalToCBE/CTEDocument then UnmarshalFrom...Document into a template of the same type must succeed and give a value equal by the property's equality (nil = empty, times by instant, big numbers by value, floats by bits, any NaN = NaN). "
              "The event-level legs of the round trip are carried by the theorems this check re-checks: CBE per-event round trips (C01), exact little-endian array bytes (C26), exact integer conversions (C19). Features with recorded findings are isolated in their own sub-populations",
        note="partial: the reflection layer (iterator/builder) is not modelled in Lean - M-MARSHAL of the design is not built - so the deciding part for the value-level statement is the oracle; the theorems cover only the legs named above. reflect itself is a black box",
        level="proof", n_quick=4000, n_thorough=300000, shards=16,
        lean_modules=["CE.Props.C01", "CE.Props.C26", "CE.Props.C19"],
        rule="type by recursive descent (depth 1-3), one third of the cases with special types; features found by scanning the type and the value pick the sub-population; distinct by type+value rendering",
        trusted_base=COMMON_TB,
    ),
    "C05": dict(
        claim="for reflect-generated values the events of the real iterator are (1) fed to the real rules validator and judged by the independent grammar (WF.REL, theorems of C10 apply to the table), (2) compared, as value trees up to map order (TREE.EQ), with an independent description of the value (every element, entry and non-omitted field once; typed arrays as exact little-endian/bit-packed contents), and (3) the CBE and CTE documents both marshalers write must decode with rules",
        note="partial: the iterator is not modelled in Lean; the deciding part is the oracle (Lean grammar + Lean tree equality on the implementation's events). Special types (times, big numbers, URL, UID, media, node) are checked for validity only, not described independently",
        level="proof", n_quick=4000, n_thorough=300000, shards=16,
        lean_modules=["CE.Props.C10", "CE.Props.C26", "CE.Gen.Check"],
        rule="as C04; distinct by type+value rendering",
        trusted_base=COMMON_TB,
    ),
    "C18": dict(
        claim="the Lean model of the CBE encoder returns, next to the bytes, the value the caller's *big.Int holds afterwards (encBigInt); theorem encode_preserves_bigint: it is the value that was passed in, for every sign and magnitude (the repaired OnBigInt negates into a copy). "
              "Harness: a cycle-safe structural dump (big.Int sign and digits, big.Float mantissa/exponent/precision, apd fields, slice contents, pointer graph) of every generated value before and after MarshalToCBE/CTEDocument must be identical; half of the cases are pointer-held big numbers around 2^63 and 2^64",
        note="partial: only the CBE big-integer path is a theorem; the iterator and the CTE writer are covered by the before/after oracle",
        level="proof", n_quick=4000, n_thorough=300000, shards=16,
        lean_modules=["CE.Props.C18"],
        rule="even cases: struct of *big.Int / *big.Float / *apd.Decimal with magnitudes around 2^63, 2^64 and random; odd cases: generated types/values as C04",
        trusted_base=COMMON_TB,
    ),
    "C09": dict(
        claim="theorem truncated_stream_rejected (all configurations, streams and cut positions): if the validator accepts every event of p ++ e :: rest and e is not the end-of-document, "
              "then p followed by the decoder's end-of-document is rejected, exactly at that final event (so a cut between two tokens never yields a silent success and everything decoded before it was delivered); "
              "theorem cbe_truncation_delivers_a_prefix (every byte string, every cut position, all 30 token kinds of the CBE decoder model): the events delivered for the first k bytes - not counting the end-of-document the decoder adds when it stops between tokens - are a prefix of the events delivered for the whole input (the decoder reads a prefix code: CE/Cbe/Prefix.lean, ext_decodeOne, ext_decodeChunks by induction over chunk chains, decodeLoop_prefix by induction over the document), and a document that decodes without error, cut anywhere, stops cleanly between two tokens or fails with end-of-input, never with another error (cbe_truncation_fails_only_with_end_of_input); theorems posInt_cut_rejected_partial / negInt_cut_rejected_partial: every strict prefix of an encoded integer of any width makes the CBE token decoder fail with end-of-file and deliver nothing. "
              "Harness: every cut position (all, or 120 evenly spaced ones for long documents) of generated valid CBE documents and of CTE documents whose top-level value is a container, untyped and typed templates: "
              "the unmarshal call must fail, and the partial value must be a prefix of the full value (lists by prefix, maps by sub-map, structs field-wise, decoded scalars unchanged; for CTE one trailing scalar cut inside its token may differ); "
              "the CBE decoder model is compared with the implementation at random cuts (CBE.DEC)",
        note="partial: that a cut INSIDE a token always fails (rather than decoding to a shorter token) is a theorem for integers only (other token kinds: CBE.DEC correspondence at random cuts + the oracle at every cut); the event-prefix theorem is about the CBE decoder model, the CTE side and the builders are not modelled, so the prefix order on values is decided by the oracle on the implementation. "
             "CTE documents are parsed as a whole by ANTLR before any event is delivered; repaired in this session (fix 5833ea3): events recovered from text after the first syntax error are no longer delivered",
        level="proof", n_quick=1600, n_thorough=60000, shards=16,
        lean_modules=["CE.Props.C09", "CE.Cbe.Prefix"],
        rule="even cases: grammar-directed rules-valid event streams (healthy core) encoded in CBE and, when the top-level value is a list or map, CTE, unmarshaled untyped; odd cases: reflect-generated type+value marshaled to CBE/CTE and unmarshaled into the same type; "
             "every cut 1 <= k < len (CTE: before the final closer); distinct by document bytes; non-trivial = longer than 3 bytes",
        trusted_base=COMMON_TB + ["the value-level prefix order (harness/run_trunc.go isPrefixValue) is Go code, not Lean"],
    ),
    "C16": dict(
        claim="Lean model of the per-session type caches (GetIteratorForType / GetBuilderGeneratorForType: Load, LoadOrStore of a WaitGroup placeholder, generate, Done, Store, and the failure branch) as a transition system over any number of goroutines; "
              "theorems for every history of calls in every interleaving: at any moment with no call in flight the cache entry is never a placeholder (quiescent_cache_has_no_placeholder), and after failed generations (unsupported kinds) it is exactly what a fresh session holds (failed_generation_leaves_fresh_cache); the model of the code before fix e509a33 is shown by `decide` to violate both. Many entries (CE/Cache/Multi.lean: the cache as a set of types with the dependency structure of Go types, recursive types included, the failure branch deleting every entry that reaches the failing type as common.TypeReaches does): theorem reused_session_answers_like_fresh - starting from a new session's empty cache, after ANY history of successful and failed requests for ANY types, each request succeeds exactly when a fresh session would generate the type (no unsupported kind reachable) and the cache never keeps a generator that stands on an unsupported kind (proved by mutual induction over the generation relation, with a path-splitting lemma for types in flight); an example derivation shows the *Link generator completed while Link was in flight being deleted with it. "
              "Regenerated facts (CE/Gen/Session.lean, proved equal to the model's expectations in CE/Gen/CheckSession.lean on every run): the protocol operations of both cache functions in source order, and for each per-document reset point (cbe Reader.SetReader, cbe Encoder.PrepareToEncode, rules Context.Reset, cte EncoderContext.Begin) the struct's fields and the fields the reset point assigns, which must cover the fields that influence the next document. "
              "Harness: histories of 2-8 operations on one marshaler / unmarshaler / decoder / event-level encoder / validator (valid and invalid documents and values, unsupported and never-seen types, declared recursive types with an unsupported field reached directly and through pointer / slice / struct wrappers, documents near MaxDocumentSizeBytes, encoders abandoned mid-document, streams rejected by the validator then Reset) compared call by call with fresh instances, with a watchdog for calls that never return",
        note="partial: the all-schedules theorems are over a ONE-entry model, the many-entry theorem is sequential (one goroutine) and relational (tied to the code by the extracted protocol tokens cache.Range / cache.Delete and by the history oracle, not by an executable correspondence); fix 7c58b8f was found by this check's recursive templates; the reset points are tied by extracted field facts + the history oracle, not by a theorem over a model of each component; marshaler outputs that differ only in Go's random map iteration order are compared as data (Lean TREE.EQ). Event-level encoders are exercised with valid streams and abandoned prefixes only (their behaviour on invalid event sequences is unspecified)",
        level="proof", n_quick=2400, n_thorough=120000, shards=16, timeout_quick=600,
        lean_modules=["CE.Props.C16", "CE.Cache.Proofs", "CE.Cache.MultiProofs", "CE.Gen.CheckSession"],
        rule="case i: instance kind i mod 12; 2-8 operations drawn per kind (see harness/run_reuse.go); distinct by kind + operation descriptions; non-trivial = at least 2 operations",
        trusted_base=COMMON_TB + ["extract/main.go cacheproto/resetfacts: go/ast reading of the cache functions and reset points", "sync.Map and sync.WaitGroup are assumed linearizable (Go runtime)"],
    ),
    "C17": dict(
        claim="theorems over the Lean transition system of the shared type caches (CE/Cache/Model.lean), for EVERY schedule - any list of goroutine ids, any number of goroutines: every call that finishes obtains exactly the result of running alone (every_call_returns_the_sequential_result); a goroutine blocked on a placeholder always has an owner that can step and every goroutine takes at most seven steps (no_goroutine_waits_forever, step_progress: no deadlock, no livelock). "
              "The protocol the model describes is re-extracted from both cache functions on every run and proved equal to the model's expectation (CE/Gen/CheckSession.lean). "
              "Runtime observation: the harness built with -race runs 2-64 goroutines under GOMAXPROCS 1-16, each with its own marshalers/unmarshalers/encoders/decoders/validators and all sharing one iterator.Session and one builder.Session, on reflect-made types no cache has seen (first use races on the caches), unsupported kinds included; every result is compared with the job run alone; any race report is a violation",
        note="partial (level other): data-race freedom of the compiled program is observed by the race detector, not proved - the Go memory model at access granularity is not modelled; the theorems assume sync.Map / sync.WaitGroup are linearizable with Done happening-before Wait's return. Documents that differ only in Go's random map order are compared as data (Lean TREE.EQ)",
        level="other", n_quick=160, n_thorough=3200, shards=8, race=True, timeout_quick=900, timeout_thorough=3600,
        lean_modules=["CE.Props.C17", "CE.Cache.Proofs", "CE.Gen.CheckSession"],
        rule="per case 3-7 fresh struct types (one in five of an unsupported kind) x 7 jobs each + 4 event-level jobs; goroutines in {2,3,4,8,16,32,(64)}, GOMAXPROCS in {1,2,4,8,16}; every goroutine runs all jobs in its own random order; distinct by job list",
        trusted_base=COMMON_TB + ["Go race detector (runtime observation only)", "sync.Map and sync.WaitGroup assumed linearizable"],
        technique="Lean 4 theorems over a transition-system model of the cache protocol for all schedules, tied by regenerated protocol facts; -race runs as supporting observation",
    ),
    "C25": dict(
        claim="theorem int_element_roundtrip / int_array_roundtrip: for each of the 8 integer array kinds, each of the 7 numeric format settings and every element bit pattern of the kind's width (arrays of any length), the decoder model's reading (strconv.ParseInt/ParseUint with the base the header selects, base 0 for decimal, range check) of the text the encoder model writes (Go fmt verbs %v %b %o %x with zero-padded widths that count the minus sign) is the original element; digit lemmas for every base 2..16 with arbitrary zero padding. "
              "The header and format tables and the routing of float kinds to the hex-float writer are re-extracted from cte/encoder_array.go and configuration/encoder.go on every run and proved equal to the model's (CE/Gen/CheckCte.lean). "
              "Harness, exhaustive over all 11 kinds x 7 settings: arrays of boundary/random/negative/subnormal/special elements in whole and chunked form through the real encoder and decoder; encoder text = model text (CTE.ARRFMT), decoder reading = model reading (CTE.ARRPARSE), and the decoded elements must be the original ones",
        note="partial: float kinds (decimal via %v / strconv shortest decimal, hex floats via strconv 'x') are external text codecs: decided by the oracle over all settings, not by a theorem; NaN elements keep only their kind (quiet/signalling) in CTE. Repaired in this session (fix a24be1c): float arrays under binary/octal/zero-filled-hex settings were unreadable",
        level="proof", n_quick=7700, n_thorough=770000, shards=16,
        lean_modules=["CE.Props.C25", "CE.Cte.Digits", "CE.Gen.CheckCte"],
        rule="case i: kind i mod 11, setting (i div 11) mod 7, 0-17 elements from boundary pools (powers of two +-1, all-ones, sign boundary), random patterns, float specials (+-0, inf, NaN kinds, subnormals, bfloat16 subnormals); one third in chunked form; distinct by kind+setting+elements",
        trusted_base=COMMON_TB + ["Go fmt verbs and strconv.ParseInt/ParseUint are modelled by hand (CE/Cte/ArrFmt.lean) and tied by the CTE.ARRFMT / CTE.ARRPARSE correspondence"],
    ),
    "C24": dict(
        claim="Lean reference semantics of CTE literals written from the property text (CE/Cte/Lit.lean): integers in base 2/8/10/16 with '_' separators and sign, decimal and hexadecimal floats as exact rationals (negative zero kept), specials, typed-array elements in every base with the range check of the element type (float kinds: exactly representable values and overflow), strings under the escape rules (named escapes, \\[hex] scalar values only, line continuations, verbatim sequences). "
              "Theorems: separators_are_transparent (a separated digit string denotes the positional reading of its digits: what the decoder computes after deleting '_'), digitsValue_natDigits (the semantics reads the standard spelling of n in any base 2..16 with any number of leading zeros as n; built on the digit lemmas of C25), leading_zeros_do_not_change_base. "
              "Harness: generated spellings (all prefixes and letter cases, separators, leading zeros, boundary magnitudes 2^k+-1 up to 2^100, exponents up to 1100, hex mantissas up to 40 digits, every escape kind, code points incl. surrogates and > 10FFFF, verbatim sequences with ASCII / non-ASCII sentinels and empty bodies, array elements around every range boundary) decoded by the real decoder with rules and compared with the semantics by the Lean driver (LIT.NUM, LIT.ELEM, LIT.STR)",
        note="partial: the listener functions (ExitValueInt/ExitValueFloat/parse*Element/escape handlers) are not modelled statement by statement; strconv / math/big / apd parsing is external, so the equality decoder = semantics is decided by the oracle on every run, not by a theorem. Float array elements that are not exactly representable are rounded by strconv: not judged (skipped lines are counted). Six defects found by this check were repaired (fixes 582acb1, daf46e2, b97377c, e566e43)",
        level="proof", n_quick=16000, n_thorough=800000, shards=16,
        lean_modules=["CE.Props.C24", "CE.Cte.Digits"],
        rule="case i mod 4: integer literal / float literal / one-element typed array (11 kinds x header bases) / quoted string of 0-6 segments; distinct by document text",
        trusted_base=COMMON_TB + ["CE/Cte/Lit.lean is the reading of the property text and of the CTE specification (reference parser)"],
    ),
    "C23": dict(
        claim="Lean model of arrayEncoderEngine.AddArrayData (the carry-over of a partial element between data events, statement by statement) and theorems for every element width and every division of an array's bytes into data events, mid-element splits and empty events included: the elements handed to the element writer are those of the concatenated bytes (elements_depend_only_on_bytes), two divisions of the same bytes give the same elements and hence the same text (rechunking_preserves_elements), nothing is lost or invented (nothing_lost_or_invented). "
              "Harness: every array of generated rules-valid streams (typed arrays of every kind, strings, resource ids, media, custom binary/text, bit arrays) is re-chunked at random element / character boundaries and its data split at random byte offsets (two re-chunkings per stream): the CTE text must be identical; decode(text) encoded again must reproduce the text; integer arrays fed as random data-event splits under random format settings must give the text the engine+format model predicts (CTE.ENGINE)",
        note="partial: strings/bit arrays/media/custom arrays and the layout decorators are not modelled (oracle only); the decode->encode half is an oracle on the implementation. Three defects found by this check were repaired (fixes 24ed4d4, 44b01ee)",
        level="proof", n_quick=6000, n_thorough=300000, shards=16,
        lean_modules=["CE.Props.C23", "CE.Cte.ArrEngineProofs", "CE.Gen.CheckCte"],
        rule="two thirds: generated rules-valid streams (CTE-encodable), each re-chunked twice and re-encoded once; one third: a single integer array of 0-11 boundary/random elements in chunked form with random data splits under a random format; distinct by event text; non-trivial = more than the header events",
        trusted_base=COMMON_TB,
    ),
    "C21": dict(
        claim="Lean model of struct field handling (CE/Marshal/Struct.lean): DecodeGoTags (omit / omit_empty / omit_zero / omit_never / name= / order=, panics included), shouldIncludeField under every default, extractFields' stable ordering, CamelCaseToSnakeCase (both regular expressions on ASCII) and ToStructFieldIdentifier, and the builder's key lookup (exact name, normalised identifier, case-insensitive setting). "
              "Theorems for every field list, tag set and configuration: the emitted fields are sorted by order tag (emitted_in_tag_order), fields of equal order keep declaration order (declaration_order_among_equal_orders), the emitted fields are exactly the kept ones, once each (each_kept_field_once, emitted_length), the case-insensitive matching key ignores letter case, underscores and spaces and is idempotent. "
              "Harness: random struct types (reflect.StructOf with random ce tags, names with acronyms and digits, int/string/slice/pointer fields in zero/empty/non-zero states) under both name styles x 4 omit defaults x both case settings: the keys the real iterator emits, in order, must be the model's (STRUCT.EMIT); documents with exact, re-cased, snake-cased, separator-laden and unknown keys: the field the real builder fills must be the model's (STRUCT.LOOKUP), unknown keys must not disturb other fields, and a struct must round-trip under its own configuration",
        note="partial: ASCII field names only (the regular expressions and lower-casing are ASCII-defined); embedded structs are exercised under C04/C05 (declared types), not with tags. Not judged (DESIGN.md D35): with snake-case names and case-SENSITIVE matching the builder does not know the snake-cased spelling, so the marshaler's own keys are skipped on the way back - the property only promises matching 'by name'. Field sets in which two fields claim the same document name (exactly or after normalisation) are excluded: Go's map iteration order decides there",
        level="proof", n_quick=12000, n_thorough=600000, shards=16,
        lean_modules=["CE.Props.C21"],
        rule="even cases: emission (1-6 fields, random tags/values/config); odd cases: lookup (all-int struct, one probed key of 8 kinds + possibly one known key); distinct by descriptor text",
        trusted_base=COMMON_TB + ["Go regexp semantics of the two snake-case expressions are modelled by hand and tied by STRUCT.EMIT on names with acronyms, digits and underscores"],
    ),
    "C20": dict(
        claim="Lean model of the iterator's recursion support over an arbitrary heap (CE/Marshal/Graph.lean: the duplicate-pointer pass, then marker on the first visit of a duplicated pointer, reference on later visits, pointee emitted once) and theorems for every heap, every shared set and every root: in the emitted stream every marker introduces a pointer not named before and every reference names a pointer whose marker was already emitted (references_follow_their_markers, proved by mutual induction over the three emission functions), the pointers named at the end are exactly the markers emitted. "
              "Harness: random pointer graphs over struct, slice and map nodes (1-12 nodes quick, 1-60 thorough; random sharing, back-edges, self-loops, nil pointers) marshaled with RecursionSupport to CBE and CTE under a watchdog and unmarshaled into the same type: the rebuilt graph must be isomorphic to the original (parallel walk building the bijection: same sharing, same cycles, equal values); for graphs without maps the real iterator's event stream must be the model's (GRAPH.EMIT)",
        note="partial: termination of the emission (the duplicate pass marks a pointer on every cycle) is not yet a theorem (watchdog + the GRAPH.EMIT correspondence, whose model side uses bounded fuel that is never exhausted); the builder's reference filler is not modelled: the isomorphism is decided by the oracle on the implementation. Unchanged tree: no violation found",
        level="proof", n_quick=3000, n_thorough=100000, shards=16, timeout_quick=900,
        lean_modules=["CE.Props.C20", "CE.Marshal.GraphProofs"],
        rule="case i: feature level i mod 4 (Next only / +Alt / +slices / +maps); graph = per node random Next, Alt, Kids, ByName targets (nil with p=1/3); distinct by graph descriptor; non-trivial = more than one node",
        trusted_base=COMMON_TB + ["github.com/kstenerud/go-duplicates FindDuplicatePointers is modelled (findDups) and tied by GRAPH.EMIT"],
    ),
    "C02": dict(
        claim="theorem escape_roundtrip / encoder_strings_roundtrip: for EVERY string (any code points) the escaping layer of the CTE encoder (escapeCharQuoted / unicodeEscape / WriteQuotedString: safe characters verbatim, otherwise a named escape or \\[hex]) followed by the reference semantics of string literals (CE/Cte/Lit.lean strValue, the reading the C24 check holds the decoder to) is the identity; the only facts needed from the safety table - it lets neither the quote nor the backslash through - are proved for the table extracted from internal/chars on this run (safe_table_ok; GenCheck stringlikeSafe_eq). "
              "Harness: generated rules-valid streams with every event kind (comments at every allowed position, markers, all time / time-zone forms incl. latitude/longitude, all numeric forms and edge values, custom text) plus documents of strings, resource ids, remote references, custom texts and comments built from control characters, separators, unassigned / private-use / non-character code points, delimiters and escapes: real CTE encoder with rules -> real CTE decoder with rules; the Lean definition of 'carries the same data' for text formats (canonText: comments kept with text, padding dropped, NaN array elements by kind, numbers by value) judges the result (CANON.EQ); the escape model is compared with the encoder string by string (CTE.ESCAPE)",
        note="partial: only the string-escaping layer is a theorem; numbers, times, the pretty-printer's decorator stack and the ANTLR reader are decided by the oracle (the printer/reader are not modelled beyond strings, array elements [C25], literals [C24] and the array engine [C23]). Defects found by this check and repaired: comment contents (533bdc4), negative zero big decimals (d1442ba)",
        level="proof", n_quick=10000, n_thorough=500000, shards=16,
        lean_modules=["CE.Props.C02", "CE.Cte.Digits", "CE.Gen.Check"],
        rule="4 of 5 cases: grammar-directed rules-valid streams (every fifth marker-heavy); 1 of 5: a list of 1-5 text-bearing events over a pool of 58 stress code points; streams the validator rejects are skipped and counted; distinct by event text",
        trusted_base=COMMON_TB + ["CE/Canon.lean canonText is the reading of 'equivalent stream carrying the same data'"],
    ),
    "C03": dict(
        claim="the gap between what the validator lets through and what the text grammar can spell, as theorems: for every time value of the three kinds Context.ValidateTime (model in CE/Rules/Machine.lean, run in lock step with the real validator) accepts exactly what the independent grammar-side definition in CE/Rules/Spec.lean calls spellable (time_accepted_iff_spellable: field ranges, UTC offsets, latitude/longitude, area/location names = TZ_AREALOC via area_accepted_iff_spellable over all byte strings); the same for single-line comments (line_comment_accepted_iff_spellable), for multi-line comments of any nesting (block_comment_accepted_iff_spellable: the validator's scan and the grammar's scan are the same computation, by functional induction) and for media types over all byte strings (media_type_accepted_iff_spellable: index-based check = FIRST NEXT* '/' NEXT+, character classes compared on all 128 ASCII values by the kernel); strings survive the escaping layer (C02). "
              "Harness: CBE documents accepted by the real decoder+rules - encoder output of generated streams, 1-2 random byte substitutions of them that are still accepted (area/location names, time fields and identifiers no encoder would write), media types rewritten with characters from the edges of the grammar's ranges, and a corpus of past failures (zero-value times) - are converted CBE -> CTE -> CBE through the real codecs with rules; accepted CTE texts without custom text (encoder output and lists of generated literal spellings) are converted to CBE; at every stage the Lean canonText equality decides 'same data' (comments dropped towards CBE)",
        note="partial: the conversion chains are decided by the oracle (the ANTLR reader is not modelled); the four validator = grammar equivalences are theorems, the grammar-side definitions themselves are a reading of CTELexer.g4. Known finding: a big binary float that is not a float64 value cannot be carried by CBE exactly (C01 bigfloat-inexact). Defects found by this check and repaired: remote references with invalid UTF-8 (ab826f1), unspellable media types / times / area-location names (a4d8583), zero-value times decoded as times (559524b)",
        level="proof", n_quick=9000, n_thorough=450000, shards=16,
        lean_modules=["CE.Props.C03", "CE.Props.C02", "CE.Gen.Check"],
        rule="case i mod 3: 0 = CBE encoder output, 1 = mutated CBE document still accepted by decoder+rules, 2 = accepted CTE text (half generated documents, half lists of literal spellings); distinct by document bytes",
        trusted_base=COMMON_TB,
    ),
    "C07": dict(
        claim="(1) panic containment: a Lean model of Go's panic propagation through an entry point's call tree (escapes: a deferred recover stops everything raised below it; code that is not itself an extracted entry point is arbitrary and may panic anywhere) and the theorem contained_sound: the syntactic predicate `contained` implies that no panic escapes, for EVERY behaviour of the code below. The facts (deferred recover, unchecked indexing of a parameter, callees) of all 27 exported error-returning functions of packages ce, cbe, cte are re-extracted from /repo by extract/main.go on every run and the obligation entry_points_contain_panics is decided over them by the kernel; no_panic_escapes_any_entry_point instantiates the theorem for the current source; entry_points_present keeps the 24 entry points the property names from disappearing. "
              "(2) termination of the CBE decoder model: every main-loop iteration and every chunk header consumes at least one byte (decodeOne_progress, decodeChunks_len), so a run takes at most len(document) iterations (loopIterations_le) and the fuel of the model is never what stops it (decode_never_stalls); the model is the one tied to cbe/decoder.go by the C01/C09/C27 correspondence. "
              "(3) no goroutine waits forever on the shared type caches (C17 no_goroutine_waits_forever, C16 failed_generation_leaves_fresh_cache: the hang of defect D09 cannot return). "
              "Harness: every input (empty, header-only, random, mutated / truncated / length-inflated valid CBE and CTE documents, huge array headers, containers nested 10 .. 3 000 000 deep through every opener kind (lists, maps, nodes, edges, records, record types, markers, and openers separated by complete typed arrays or comments), up to 50 000 (thorough: 200 000) tiny tokens) is given to all 14 decode/unmarshal entry points (universal, CBE, CTE; reader and document forms; with and without a rules receiver) with rules on and off and 10 template kinds incl. chan/func/struct-with-chan; every seventh case marshals a Go value (unsupported kinds at top level, in fields, in interfaces, never-seen struct types, generated supported values, values that contain themselves through a pointer / slice / map / two nodes, linked lists of 100-5000 nodes; recursion support on and off) through the 4 marshal entry points. In-process recover + 30 s watchdog; the process runs under RLIMIT_AS 8 GiB and writes the call it is about to make to a file first, so a process killed by a Go fatal error (stack overflow, out of memory) is reported with its input",
        note="partial (level other): Go run-time fatal errors (stack exhaustion, out of memory) and termination of the ANTLR-generated CTE parser are observed under a watchdog and an address-space limit, not proved; panic containment is proved from extracted syntactic facts (a recover that re-panics, or a goroutine started inside an entry point, would not be seen by the extractor: neither exists in the pinned source, and the harness observes escapes directly). Three defects found by this check or by the sub-agent that seeded it were repaired: fbf3506 (3 000 000 nested '[' : fatal stack overflow in the recursive-descent parser), aa3e03d (marshaling a cyclic value: fatal stack overflow in the iterator), and earlier 56ca86c, bd060b4",
        level="other", n_quick=1200, n_thorough=16000, shards=16, timeout_quick=1500, timeout_thorough=14000, rlimit_as_gb=8,
        lean_modules=["CE.Props.C07", "CE.Gen.CheckEntry", "CE.Cbe.Progress"],
        rule="case i: i mod 7 = 6 marshals a value of one of 9 kinds; otherwise one of 14 input classes x one of 10 template kinds x rules on (2/3) / off, given to all 14 entry points; distinct by input bytes; non-trivial = longer than 2 bytes",
        trusted_base=COMMON_TB + ["extract/main.go entrypoints: go/ast reading of deferred recover / parameter indexing / callees", "helpers listed in CE.Api.safeCallees (constructors, bufio/bytes wrappers, the two dispatch switches) are assumed not to panic", "Go runtime: recover() stops a panic raised in the same goroutine"],
        technique="Lean 4 theorems (panic-propagation soundness over regenerated entry-point facts; decoder progress by induction), plus watchdog / address-space-limited execution of every entry point as supporting observation for run-time fatal errors",
    ),
    "C08": dict(
        claim="Lean model of the CBE reader's buffer (Reader.readIntoBuffer / growBufferToward, statement by statement) as a function of the lengths a document DECLARES, the bytes it HOLDS and the way the io.Reader delivers them; theorem reader_buffer_paid_by_arrived_bytes: for every sequence of declared lengths however large, every document and every delivery schedule, the bytes ever allocated for the buffer are at most 4 x the bytes that arrived and the buffer is never longer than max(127, 2 x arrived) (invariant proved by induction over the read loop and over the sequence of reads); the model of the reader before fix 612489c violates the bound (old_reader_reserved_the_declared_length). "
              "Decoder steps: the CBE decoder model's main loop runs at most once per document byte and every chunk header consumes a byte (CE.Cbe.Progress: loopIterations_le, decodeChunks_len, decodeOne_progress). "
              "Correspondence (COST.READ): Reader.ReadBytes on a fresh reader (hook VerifReadBytes) for declared counts 0 .. 2^40 over documents of 0-3000 bytes delivered 1-5000 bytes per Read: success/EOF and the buffer capacity afterwards equal the model's. "
              "Oracle on the whole pipeline: 81 adversarial document families (an inflated length in every array/string/media/identifier/big-integer header, alone and after honest chunks; runs of nested lists/maps/nodes/edges/records; many tiny tokens, markers, pairs, comments; long strings, escapes, verbatim text, arrays, identifiers; numbers with absurd exponents; garbage) at size n and 4n, 5 decode/unmarshal modes, MaxArraySizeBytes in {64, 4 KiB, 1 MiB, 1 GiB}: bytes allocated during one decode (runtime.MemStats.TotalAlloc) <= 4096*len + 2*min(len, MaxArraySizeBytes) + 4 MiB and alloc(4n) <= 6*alloc(n) + 4 MiB; time: a decode must end within 60 s and a confirmed more-than-10-fold slowdown from n to 4n (measured at >= 250 ms) is reported",
        note="partial (level other): allocation of the event/rules/builder pipeline and of the ANTLR-generated CTE lexer/parser (which parses the whole document before any rule runs) is measured, not proved; wall-clock time is an observation. Six known findings (recursive block-comment lexer rule; math/big scanning of unboundedly long number literals: the configured digit-count limits are read nowhere). Two defects repaired in this session: fbf3506 (depth limit applied before the recursive-descent parse) and 683b3bc (no single-token repair after a syntax error: quadratic in nesting depth); 612489c (buffer sized by the declared length) was repaired earlier",
        level="other", n_quick=3200, n_thorough=48000, shards=16, timeout_quick=900, timeout_thorough=14000, rlimit_as_gb=10,
        lean_modules=["CE.Props.C08", "CE.Cbe.CostProofs", "CE.Cbe.Progress"],
        rule="case i: i mod 4 = 3: one ReadBytes(count) with random count/document length/delivery schedule (model correspondence); otherwise family (i) x scale in {64, 1000, 4000, 20000 (thorough: 100000, 250000)} x announced length in {2^31-1, 2^32, 2^40, 2^62-1, 10^5, 2^20} x MaxArraySizeBytes x mode; distinct by parameters",
        trusted_base=COMMON_TB + ["runtime.MemStats.TotalAlloc as the measure of allocation", "hook cbe.VerifReadBytes (build tag verif)", "math/big, apd, strconv and the ANTLR runtime are external code: measured only"],
        technique="Lean 4 theorems over a model of the reader's buffer growth (invariant by induction) and of decoder progress, tied by the COST.READ correspondence; allocation/time measurement of adversarial families as supporting observation",
    ),
    # NEW-ENTRIES-ABOVE
}

NOT_APPLICABLE = {}
