/-
  M-COST: the buffer of cbe/decoder_reader.go (`Reader.readIntoBuffer`, `growBufferToward`),
  statement by statement, as a function of
    * the lengths the document DECLARES (`count`, any natural number: adversarial),
    * the bytes the document actually HOLDS (`remaining`),
    * how the io.Reader delivers them (`sched`: the most each Read call hands over).

  The state carries the quantities the property is about: the length of the buffer and the
  number of bytes allocated for it so far.
-/
namespace CE.Cbe.Cost

/-- `decoderStartBufferSize` -/
def startSize : Nat := 127

structure RS where
  len : Nat        -- len(_this.buffer)
  alloc : Nat      -- bytes allocated by growBufferToward so far
  consumed : Nat   -- bytes the reader has delivered so far (≤ length of the document)
deriving Repr, DecidableEq

def RS.init : RS := { len := startSize, alloc := 0, consumed := 0 }

/-- `growBufferToward(targetSize)`: double, but to at most twice the target
    (the guard `targetSize <= maxInt/2` holds for every length the decoder accepts: validateLength) -/
def growTo (target len : Nat) : Nat :=
  if 2 * len > 2 * target then 2 * target else 2 * len

/-- outcome of one `readIntoBuffer(count)` -/
structure Out where
  s : RS
  remaining : Nat
  sched : List Nat
  ok : Bool          -- false: the reader reported EOF before `count` bytes arrived (the decoder stops)
deriving Repr, DecidableEq

/-- the loop of `readIntoBuffer`; fuel = count (every iteration stores at least one byte) -/
def readLoop (count : Nat) : Nat → Nat → RS → Nat → List Nat → Out
  | 0, filled, s, remaining, sched => { s := s, remaining := remaining, sched := sched, ok := decide (count ≤ filled) }
  | fuel + 1, filled, s, remaining, sched =>
    if count ≤ filled then { s := s, remaining := remaining, sched := sched, ok := true }
    else
      let s1 : RS := if filled = s.len then { s with len := growTo count s.len, alloc := s.alloc + growTo count s.len } else s
      let end_ := min s1.len count
      if remaining = 0 then { s := s1, remaining := 0, sched := sched, ok := false }
      else
        let d := max 1 (sched.headD 1)
        let n := min (min d (end_ - filled)) remaining
        readLoop count fuel (filled + n) { s1 with consumed := s1.consumed + n } (remaining - n) sched.tail

def readInto (count : Nat) (s : RS) (remaining : Nat) (sched : List Nat) : Out :=
  readLoop count count 0 s remaining sched

/-- a whole decode as far as the buffer is concerned: any sequence of declared lengths -/
def readMany : List Nat → RS → Nat → List Nat → RS
  | [], s, _, _ => s
  | c :: cs, s, remaining, sched =>
    let o := readInto c s remaining sched
    if o.ok then readMany cs o.s o.remaining o.sched else o.s

end CE.Cbe.Cost
