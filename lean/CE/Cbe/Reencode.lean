import CE.Cbe.StreamRoundTrip
/-
  Canonical form (C22): what the decoder delivers for an encoder-written stream of the structural
  fragment encodes to the very same bytes again — the encoding is a fixed point of
  decode-then-encode, for streams of any length and nesting.
-/
namespace CE.Cbe

theorem encodeFrom_append (l1 l2 : List Ev) (st : EncSt) :
    (encodeFrom st l1).2.1 = none →
    encodeFrom st (l1 ++ l2) =
      ((encodeFrom st l1).1 ++ (encodeFrom (encodeFrom st l1).2.2 l2).1,
       (encodeFrom (encodeFrom st l1).2.2 l2).2.1, (encodeFrom (encodeFrom st l1).2.2 l2).2.2) := by
  induction l1 generalizing st with
  | nil => intro _; simp [encodeFrom]
  | cons e es ih =>
    intro h
    cases he : encodeEv st e with
    | error err => simp [encodeFrom, he] at h
    | ok p =>
      obtain ⟨st', bs⟩ := p
      simp only [encodeFrom, he] at h ⊢
      simp only [List.cons_append, encodeFrom, he]
      rw [ih st' h]
      simp [List.append_assoc]

theorem posInt_reencode' (n : Nat) (st : EncSt) :
    encodeEv st (renormPos n) = .ok (st, encPosInt n) := by
  unfold renormPos
  by_cases h1 : n ≤ smallIntMax
  · simp [h1, encodeEv, encInt]
  · simp [h1, encodeEv]

theorem negInt_reencode' (n : Nat) (h : n < 2 ^ 64) (st : EncSt) :
    encodeEv st (renormNeg n) = .ok (st, encNegInt n) := by
  unfold renormNeg
  by_cases h0 : n = 0
  · simp [h0, encodeEv]
  · by_cases h1 : n ≤ smallIntMax
    · have hs : n ≤ 100 := by simpa [smallIntMax] using h1
      have hmod : n % 18446744073709551616 = n := by omega
      simp [h0, h1, encodeEv, encInt, hmod]
    · simp [h0, h1, encodeEv]

theorem encodeFrom_single (st : EncSt) (e : Ev) (bs : Bytes) (h : encodeEv st e = .ok (st, bs)) :
    encodeFrom st [e] = (bs, none, st) := by
  simp [encodeFrom, h]

/-- re-encoding the decoder's normal form of one fragment event gives the event's own bytes, and
    leaves the encoder outside an array -/
theorem reencode_event (e : Ev) (h : simple e = true) (st : EncSt) (hst : st.trySmall = false) (bs : Bytes)
    (henc : encodeEv st e = .ok (st, bs)) :
    (encodeFrom st (renorm e)).1 = bs ∧ (encodeFrom st (renorm e)).2.1 = none ∧
    (encodeFrom st (renorm e)).2.2.trySmall = false := by
  cases e
  case posInt n =>
    simp [encodeEv] at henc; subst henc
    simp only [renorm]
    rw [encodeFrom_single st _ _ (posInt_reencode' n st)]
    exact ⟨rfl, rfl, hst⟩
  case negInt n =>
    simp [simple] at h
    simp [encodeEv] at henc; subst henc
    simp only [renorm]
    rw [encodeFrom_single st _ _ (negInt_reencode' n h st)]
    exact ⟨rfl, rfl, hst⟩
  case int i =>
    simp [simple] at h
    simp [encodeEv] at henc; subst henc
    simp only [renorm, encInt]
    by_cases hi : 0 ≤ i
    · simp only [hi, if_true]
      rw [encodeFrom_single st _ _ (posInt_reencode' i.toNat st)]
      exact ⟨rfl, rfl, hst⟩
    · simp only [hi, if_false]
      have hlt : (-i).toNat < 2 ^ 64 := by omega
      rw [encodeFrom_single st _ _ (negInt_reencode' (-i).toNat hlt st), Nat.mod_eq_of_lt hlt]
      exact ⟨rfl, rfl, hst⟩
  case float b =>
    simp [encodeEv] at henc; subst henc
    simp only [renorm, renormFloat, encFloat]
    by_cases hinf : CE.F.isInf64 b = true
    · by_cases hs : (CE.F.sign64 b == 1) = true <;> simp [hinf, hs, encodeFrom, encodeEv, encDFloat, hst]
    · have hinf' : CE.F.isInf64 b = false := by simpa using hinf
      by_cases hnan : CE.F.isNaN64 b = true
      · by_cases hq : CE.F.quiet64 b = true <;> simp [hinf', hnan, hq, encodeFrom, encodeEv, encDFloat, hst]
      · have hnan' : CE.F.isNaN64 b = false := by simpa using hnan
        by_cases hz : CE.F.isZero64 b = true
        · by_cases hs : (CE.F.sign64 b == 1) = true <;>
            simp [hinf', hnan', hz, hs, encodeFrom, encodeEv, encZero, encNegInt, encInt, encPosInt, hst, u8]
        · have hz' : CE.F.isZero64 b = false := by simpa using hz
          simp [hinf', hnan', hz', encodeFrom, encodeEv, encFloat, hst]
  case dfloat d =>
    simp [encodeEv] at henc; subst henc
    simp only [renorm]
    cases d with
    | val e c =>
      by_cases hc0 : c = 0
      · simp [renormDF, hc0, encodeFrom, encodeEv, encDFloat, encZero, encInt, encPosInt, hst, u8]
      · simp [renormDF, hc0, encodeFrom, encodeEv, encDFloat, hst]
    | zero => simp [renormDF, encodeFrom, encodeEv, encDFloat, encZero, encInt, encPosInt, hst, u8]
    | negZero => simp [renormDF, encodeFrom, encodeEv, encDFloat, encZero, encNegInt, hst]
    | _ => simp [renormDF, encodeFrom, encodeEv, encDFloat, hst]
  case bigDecimal o =>
    cases o with
    | none =>
      simp [encodeEv] at henc; subst henc
      simp [renorm, encodeFrom, encodeEv, hst]
    | some d =>
      simp [encodeEv] at henc; subst henc
      simp only [renorm]
      cases d with
      | val neg c e =>
        by_cases hc0 : c = 0
        · cases neg <;> simp [renormBD, hc0, encodeFrom, encodeEv, encBigDec, encZero, encInt, encPosInt, encNegInt, hst, u8]
        · by_cases hc : c < 2 ^ 63
          · have hne : (if neg = true then -(c : Int) else (c : Int)) ≠ 0 := by cases neg <;> simp <;> omega
            have habs : (if neg = true then -(c : Int) else (c : Int)).natAbs = c := by cases neg <;> simp
            have hlt : ((if neg = true then -(c : Int) else (c : Int)) < 0) ↔ neg = true := by
              cases neg <;> simp <;> omega
            have hmod : c % 2 ^ 64 = c := Nat.mod_eq_of_lt (by omega)
            simp only [renormBD, hc0, hc, if_true, if_false, encodeFrom, encodeEv, encDFloat, hne, encDFloatVal, habs, hlt,
              hmod, encBigDec]
            simp [hst]
          · simp [renormBD, hc0, hc, encodeFrom, encodeEv, encBigDec, hst]
      | inf neg => cases neg <;> simp [renormBD, encodeFrom, encodeEv, encBigDec, encDFloat, hst]
      | nan => simp [renormBD, encodeFrom, encodeEv, encBigDec, encDFloat, hst]
      | snan => simp [renormBD, encodeFrom, encodeEv, encBigDec, encDFloat, hst]
  case bool b =>
    simp [encodeEv] at henc; subst henc
    cases b <;> simp [renorm, encodeFrom, encodeEv, hst]
  case bigInt o =>
    cases o with
    | some i =>
      simp only [encodeEv] at henc
      have hb : bs = (encBigInt i).1 := by simp at henc; exact henc.symm
      subst hb
      rw [encBigInt_bytes]
      simp only [renorm]
      by_cases h64 : i.natAbs < 2 ^ 64
      · simp only [h64, if_true]
        by_cases h0 : 0 ≤ i
        · simp only [h0, if_true]
          rw [encodeFrom_single st _ _ (posInt_reencode' i.natAbs st)]
          exact ⟨rfl, rfl, hst⟩
        · simp only [h0, if_false]
          rw [encodeFrom_single st _ _ (negInt_reencode' i.natAbs h64 st)]
          exact ⟨rfl, rfl, hst⟩
      · simp only [h64, if_false]
        have he : encodeEv st (Ev.bigInt (some i)) = .ok (st, (encBigInt i).1) := rfl
        rw [encodeFrom_single st _ _ he, encBigInt_bytes]
        simp only [h64, if_false]
        exact ⟨trivial, trivial, hst⟩
    | none => simp [encodeEv] at henc; subst henc; simp [renorm, encodeFrom, encodeEv, hst]
  case comment m s =>
    simp [encodeEv] at henc; subst henc; simp [renorm, encodeFrom, hst]
  case stringlike t s =>
    simp only [simple, Bool.and_eq_true, Bool.or_eq_true, beq_iff_eq, decide_eq_true_eq] at h
    simp only [encodeEv, bind, Except.bind, encArrayWhole] at henc
    simp only [renorm]
    by_cases hshort : t = .string ∧ s.length ≤ maxSmallArrayLength
    · obtain ⟨rfl, hle⟩ := hshort
      simp only [hle, and_self, if_true]
      cases hsm : smallHeader .string s.length with
      | none => simp [smallHeader, shortCode] at hsm; omega
      | some hd =>
        simp only [hsm] at henc
        simp at henc; subst henc
        simp [encodeFrom, encodeEv, encArrayWhole, hsm, hst, bind, Except.bind]
    · simp only [hshort, if_false]
      have hsm : smallHeader t s.length = none := by
        rcases h.1 with rfl | rfl
        · simp only [true_and] at hshort
          simp [smallHeader]; omega
        · simp [smallHeader, shortCode]
      simp only [hsm] at henc
      rcases h.1 with rfl | rfl
      · simp [arrayHeader, arrayCode, pure, Except.pure] at henc; subst henc
        by_cases h0 : s.length = 0
        · exact absurd ⟨rfl, by omega⟩ hshort
        · simp [h0, encodeFrom, encodeEv, hsm, arrayHeader, arrayCode, bind, Except.bind, pure, Except.pure]
      · simp [arrayHeader, arrayCode, pure, Except.pure] at henc; subst henc
        by_cases h0 : s.length = 0
        · have hs : s = [] := List.eq_nil_of_length_eq_zero h0
          subst hs
          simp [encodeFrom, encodeEv, smallHeader, shortCode, arrayHeader, arrayCode, bind, Except.bind, pure, Except.pure]
        · simp [h0, encodeFrom, encodeEv, hsm, arrayHeader, arrayCode, bind, Except.bind, pure, Except.pure]
  case array t c d =>
    simp only [simple, Bool.and_eq_true, decide_eq_true_eq] at h
    obtain ⟨⟨ht, hlen⟩, hc56⟩ := h
    simp only [renorm]
    by_cases hshort : (shortCode t).isSome = true ∧ c ≤ maxSmallArrayLength
    · simp only [hshort, and_self, if_true]
      rw [encodeFrom_single st _ _ henc]
      exact ⟨rfl, rfl, hst⟩
    · simp only [hshort, if_false]
      simp only [encodeEv, bind, Except.bind, encArrayWhole] at henc
      have hsm : smallHeader t c = none := by
        simp only [smallHeader]
        by_cases hgt : c > maxSmallArrayLength
        · simp [hgt]
        · have hnone : shortCode t = none := by
            cases hsc : shortCode t with
            | none => rfl
            | some v => exact absurd ⟨by simp [hsc], by omega⟩ hshort
          simp [hgt, hnone]
      simp only [hsm] at henc
      cases hah : arrayHeader t with
      | error err => simp [hah] at henc
      | ok hd =>
        simp [hah, pure, Except.pure] at henc; subst henc
        by_cases h0 : c = 0
        · have hd0 : d = [] := List.eq_nil_of_length_eq_zero (by rw [hlen, h0]; simp)
          subst hd0; subst h0
          simp [encodeFrom, encodeEv, hsm, hah, bind, Except.bind, pure, Except.pure]
        · simp [h0, encodeFrom, encodeEv, hsm, hah, bind, Except.bind, pure, Except.pure]
  all_goals first
    | (simp [simple] at h; done)
    | (simp only [renorm, encodeFrom, henc]; simp [hst])


/-- encoding a fragment stream never depends on (or disturbs) an encoder that is outside an array,
    except for the array type it remembers -/
theorem encodeFrom_simple_state : ∀ (l : List Ev) (st st' : EncSt), l.all simple = true →
    (encodeFrom st l).1 = (encodeFrom st' l).1 ∧ (encodeFrom st l).2.1 = none ∧ (encodeFrom st l).2.2 = st
  | [], st, st', _ => by simp [encodeFrom]
  | e :: es, st, st', h => by
    simp only [List.all_cons, Bool.and_eq_true] at h
    obtain ⟨bs, henc⟩ := encodeEv_simple st e h.1
    obtain ⟨bs', henc'⟩ := encodeEv_simple st' e h.1
    have hb : bs = bs' := by
      -- the bytes of a fragment event do not mention the state
      cases e
      case stringlike t s =>
        simp only [encodeEv, bind, Except.bind] at henc henc'
        cases hw : encArrayWhole t s.length s with
        | error err => simp [hw] at henc
        | ok w => simp [hw] at henc henc'; rw [← henc, ← henc']
      case bigInt o =>
        cases o with
        | none => simp [encodeEv] at henc henc'; rw [← henc, ← henc']
        | some i => simp [encodeEv] at henc henc'; rw [← henc, ← henc']
      case bigDecimal o =>
        cases o with
        | none => simp [encodeEv] at henc henc'; rw [← henc, ← henc']
        | some i => simp [encodeEv] at henc henc'; rw [← henc, ← henc']
      case array t c d =>
        simp only [encodeEv, bind, Except.bind] at henc henc'
        cases hw : encArrayWhole t c d with
        | error err => simp [hw] at henc
        | ok w => simp [hw] at henc henc'; rw [← henc, ← henc']
      all_goals first
        | (simp [simple] at h; done)
        | (simp [encodeEv] at henc henc'; rw [← henc, ← henc'])
        | (simp [encodeEv] at henc henc'; rw [henc, henc'])
    subst hb
    obtain ⟨i1, i2, i3⟩ := encodeFrom_simple_state es st st' h.2
    simp [encodeFrom, henc, henc', i1, i2, i3]

/-- the normal form of a fragment stream encodes to the stream's own bytes -/
theorem reencode_stream : ∀ (l : List Ev) (st : EncSt), l.all simple = true → st.trySmall = false →
    (encodeFrom st (l.flatMap renorm)).1 = (encodeFrom st l).1 ∧
    (encodeFrom st (l.flatMap renorm)).2.1 = none ∧
    (encodeFrom st (l.flatMap renorm)).2.2.trySmall = false
  | [], st, _, hst => by simp [encodeFrom, hst]
  | e :: es, st, h, hst => by
    simp only [List.all_cons, Bool.and_eq_true] at h
    obtain ⟨bs, henc⟩ := encodeEv_simple st e h.1
    obtain ⟨r1, r2, r3⟩ := reencode_event e h.1 st hst bs henc
    obtain ⟨i1, i2, i3⟩ := reencode_stream es (encodeFrom st (renorm e)).2.2 h.2 r3
    obtain ⟨s1, _, _⟩ := encodeFrom_simple_state es (encodeFrom st (renorm e)).2.2 st h.2
    simp only [List.flatMap_cons]
    rw [encodeFrom_append _ _ _ r2]
    simp only [encodeFrom, henc]
    exact ⟨by rw [r1, i1, s1], i2, i3⟩

/-- C22, canonical form: decode(encode(doc)) encodes to exactly encode(doc), for every document of
    the structural fragment -/
theorem canonical_fixed_point (evs : List Ev) (h : evs.all simple = true) :
    let doc := Ev.beginDoc :: Ev.version 0 :: (evs ++ [Ev.endDoc])
    ∃ back, decode (encode doc).1 = (back, none) ∧ encode back = encode doc := by
  intro doc
  refine ⟨_, decode_encode_doc evs h, ?_⟩
  obtain ⟨r1, r2, r3⟩ := reencode_stream evs {} h rfl
  simp only [doc]
  rw [encode_doc evs h]
  -- encode the decoder's events: header, version, the normal-form stream, end of document
  have happ := encodeFrom_append (evs.flatMap renorm) [Ev.endDoc] {} r2
  have hend : ∀ st : EncSt, st.trySmall = false → encodeFrom st [Ev.endDoc] = ([], none, st) := by
    intro st hst; simp [encodeFrom, encodeEv, hst]
  rw [hend _ r3] at happ
  simp only [List.append_nil] at happ
  simp only [encode, encodeFrom, encodeEv, happ, r1]
  rfl

end CE.Cbe
