import CE.Cbe.StreamRoundTrip
import CE.Cbe.Reencode
/-
  Stream-level CBE round trip and re-encode fixed point with ARRAYS SENT IN CHUNKS.

  An `Item` is one event of the structural fragment (CE/Cbe/StreamRoundTrip.lean: `simple`), or a whole
  array of a whole-byte element kind (strings, resource ids, remote references, u8 .. u64, i8 .. i64, f16 .. f64, uid) sent
  as `arrayBegin`, then any number of chunks (`arrayChunk n more`), the data of each chunk in any
  number of `arrayData` pieces; or a media object (`mediaBegin` with its media type) or custom binary
  data (`customBegin` with its type number) followed by chunks in the same way; or the one-event forms of
  a media object, custom binary data and a remote reference (the same bytes as begin + one chunk).  This is where the encoder's array state lives (`trySmall`: the first
  chunk decides between the short header and header + chunk length; `arrayType`), and where the
  decoder's chunk loop runs more than once.

  * `decodeChunks_step` / `decodeChunks_multi`: the chunk loop reads back any chunk sequence.
  * `enc_group`: the bytes the encoder state machine writes for such an array.
  * `items_document_roundtrip`: a whole document of items encodes without error, decodes without
    error and to the end, and the decoder's events carry the same data (`canon`).
  * `items_canonical_fixed_point`: encoding what the decoder delivered gives the same bytes.
-/
namespace CE.Cbe

/-- array kinds of the chunked fragment: whole-byte elements -/
def frag (t : ArrT) : Bool := typedArr t || t == .string || t == .rid || t == .remoteRef

theorem frag_bits (t : ArrT) (h : frag t = true) :
    t.elemBits = 8 * (t.elemBits / 8) ∧ 0 < t.elemBits / 8 ∧ t.elemBits / 8 ≤ 16 ∧ t ≠ .bit := by
  cases t <;> simp [frag, typedArr] at h <;> simp [ArrT.elemBits]

/-- the long-form header of a fragment array is read back as "an array of this type follows" -/
theorem decodeOne_arrayHeader (t : ArrT) (h : frag t = true) :
    ∃ hd, arrayHeader t = .ok hd ∧ hd ≠ [] ∧ ∀ X, decodeOne (hd ++ X) = decodeArray t X := by
  by_cases hs : t = .string
  · subst hs
    refine ⟨[u8 0x90], by simp [arrayHeader, arrayCode], by simp, ?_⟩
    intro X; rw [List.singleton_append, decodeOne_byte _ .str (by decide)]; rfl
  by_cases hr : t = .rid
  · subst hr
    refine ⟨[u8 0x91], by simp [arrayHeader, arrayCode], by simp, ?_⟩
    intro X; rw [List.singleton_append, decodeOne_byte _ .rid (by decide)]; rfl
  by_cases hrr : t = .remoteRef
  · subst hrr
    refine ⟨[u8 tPlane7f, u8 pRemoteRef], by simp [arrayHeader, arrayCode, pRemoteRef], by simp, ?_⟩
    intro X
    simp only [List.cons_append, List.nil_append]
    rw [decodeOne_byte _ .plane7f (by decide)]
    have h1 : plane7fShort (pRemoteRef / 16 * 16) = none := by decide
    have h2 : pRemoteRef ≠ pMarker ∧ pRemoteRef ≠ pRecordType := by decide
    have h3 : (u8 pRemoteRef).toNat = pRemoteRef := by decide
    simp only [decodeTok, decodePlane7f, h3, h1, h2.1, h2.2, if_false, if_true]
  have ht : typedArr t = true := by
    simp only [frag, Bool.or_eq_true, beq_iff_eq] at h
    rcases h with ((h | h) | h) | h
    · exact h
    · exact absurd h hs
    · exact absurd h hr
    · exact absurd h hrr
  by_cases hu8 : t = .u8
  · subst hu8
    refine ⟨[u8 0x93], by simp [arrayHeader, arrayCode], by simp, ?_⟩
    intro X; rw [List.singleton_append, decodeOne_byte _ .arrU8 (by decide)]; rfl
  · obtain ⟨code, hcode⟩ : ∃ code, arrayCode t = some (code, true) := by
      cases t <;> simp [typedArr] at ht <;> simp [arrayCode] at hu8 ⊢
    obtain ⟨g1, g2, g3, g4, g5, g6⟩ := long_typed t code ht hcode
    refine ⟨[u8 tPlane7f, u8 code], by simp [arrayHeader, hcode], by simp, ?_⟩
    intro X
    simp only [List.cons_append, List.nil_append]
    rw [decodeOne_byte _ .plane7f (by decide)]
    simp only [decodeTok, decodePlane7f, g1, g2, g3, g4, g5, g6, if_false]

/-- one chunk: header, data, and the following chunks if the header announces them -/
theorem decodeChunks_step (w n : Nat) (more : Bool) (hw : 0 < w) (hw16 : w ≤ 16) (hn : n < 2 ^ 56) (d rest : Bytes)
    (hd : d.length = n * w) (fuel : Nat) :
    decodeChunks (8 * w) (fuel + 1) (chunkHeader n more ++ (d ++ rest)) =
      let pre := if n = 0 then [Ev.arrayChunk 0 more] else [Ev.arrayChunk n more, Ev.arrayData d]
      if more then
        match decodeChunks (8 * w) fuel rest with
        | .error (e, evs) => .error (e, pre ++ evs)
        | .ok (evs, r) => .ok (pre ++ evs, r)
      else .ok (pre, rest) := by
  conv => lhs; unfold decodeChunks
  unfold chunkHeader
  have h2 : n * 2 % 2 ^ 64 = n * 2 := Nat.mod_eq_of_lt (by omega)
  have hor : (n * 2 ||| (if more = true then 1 else 0)) = n * 2 + (if more = true then 1 else 0) := by
    cases more
    · simp
    · simp only [if_true]
      have := Nat.two_pow_add_eq_or_of_lt (i := 1) (b := 1) (by decide) n
      simp only [Nat.pow_one] at this
      rw [Nat.mul_comm n 2, this]
  simp only [h2, hor]
  generalize hh : n * 2 + (if more = true then 1 else 0) = hdr
  have hhlt : hdr < 2 ^ 64 := by subst hh; split <;> omega
  have hu : readUleb (2 ^ 64 - 1) (uleb hdr ++ (d ++ rest)) = .ok (hdr, d ++ rest) := by
    unfold readUleb
    rw [unuleb_uleb hdr hhlt]
    have : ¬ hdr > 2 ^ 64 - 1 := by omega
    simp [this]
  simp only [hu]
  have hc : hdr / 2 = n := by subst hh; split <;> omega
  have hm : (hdr % 2 == 1) = more := by
    subst hh; cases more <;> simp <;> omega
  have hmax : ¬ n > maxInt := by simp [maxInt]; omega
  have hnw : n * w < 2 ^ 60 := by
    calc n * w ≤ n * 16 := Nat.mul_le_mul_left n hw16
      _ < 2 ^ 60 := by omega
  have hb : elemsToBytes (8 * w) n % 2 ^ 64 = n * w := by
    unfold elemsToBytes
    have e1 : n * (8 * w) = (n * w) * 8 := by rw [Nat.mul_comm 8 w, Nat.mul_assoc]
    have : n * (8 * w) % 2 ^ 64 = (n * w) * 8 := by rw [e1]; exact Nat.mod_eq_of_lt (by omega)
    have h81 : ¬ (8 * w = 1 ∧ n % 8 ≠ 0) := by omega
    simp only [this, h81, if_false]
    omega
  simp only [hc, hm, hmax, if_false, hb]
  by_cases h0 : n = 0
  · subst h0
    have : d = [] := List.eq_nil_of_length_eq_zero (by simpa using hd)
    subst this
    cases more <;> simp
    all_goals (rcases decodeChunks (8 * w) fuel rest with ⟨e, evs⟩ | ⟨evs, r⟩ <;> rfl)
  · have hne : ¬ n * w = 0 := by
      intro h; rcases Nat.mul_eq_zero.mp h with h | h <;> omega
    simp only [h0, hne, if_false]
    have := takeN_append d rest
    rw [hd] at this
    cases more <;> simp [this]
    all_goals (rcases decodeChunks (8 * w) fuel rest with ⟨e, evs⟩ | ⟨evs, r⟩ <;> rfl)

/-- a chunk as the sender delivers it: the element count and the data in any number of pieces -/
structure Chunk where
  count : Nat
  pieces : List Bytes
deriving Repr

def Chunk.data (c : Chunk) : Bytes := c.pieces.flatten

def chunkOK (w : Nat) (c : Chunk) : Prop := c.count < 2 ^ 56 ∧ c.data.length = c.count * w

/-- the bytes of a chunk sequence: `cs` are followed by more chunks, `last` is final -/
def chunksBytes : List Chunk → Chunk → Bytes
  | [], last => chunkHeader last.count false ++ last.data
  | c :: cs, last => chunkHeader c.count true ++ c.data ++ chunksBytes cs last

/-- what the decoder delivers for a chunk: the header, and the data in one piece if there is any -/
def chunkBack (c : Chunk) (more : Bool) : List Ev :=
  if c.count = 0 then [Ev.arrayChunk 0 more] else [Ev.arrayChunk c.count more, Ev.arrayData c.data]

def chunksBack : List Chunk → Chunk → List Ev
  | [], last => chunkBack last false
  | c :: cs, last => chunkBack c true ++ chunksBack cs last

theorem decodeChunks_multi (w : Nat) (hw : 0 < w) (hw16 : w ≤ 16) (rest : Bytes) :
    ∀ (cs : List Chunk) (last : Chunk) (fuel : Nat), (∀ c ∈ cs, chunkOK w c) → chunkOK w last → cs.length < fuel →
      decodeChunks (8 * w) fuel (chunksBytes cs last ++ rest) = .ok (chunksBack cs last, rest)
  | [], last, fuel, _, hl, hf => by
    obtain ⟨fuel, rfl⟩ : ∃ k, fuel = k + 1 := ⟨fuel - 1, by simp at hf; omega⟩
    simp only [chunksBytes, List.append_assoc]
    rw [decodeChunks_step w last.count false hw hw16 hl.1 last.data rest hl.2 fuel]
    simp [chunksBack, chunkBack]
  | c :: cs, last, fuel, hcs, hl, hf => by
    obtain ⟨fuel, rfl⟩ : ∃ k, fuel = k + 1 := ⟨fuel - 1, by simp at hf; omega⟩
    have hc := hcs c (by simp)
    simp only [chunksBytes, List.append_assoc]
    rw [decodeChunks_step w c.count true hw hw16 hc.1 c.data _ hc.2 fuel]
    rw [decodeChunks_multi w hw hw16 rest cs last fuel (fun x hx => hcs x (by simp [hx])) hl (by simp at hf; omega)]
    simp [chunksBack, chunkBack]

/-- the events of a chunk as sent -/
def chunkEvs (c : Chunk) (more : Bool) : List Ev := Ev.arrayChunk c.count more :: c.pieces.map Ev.arrayData

def chunksEvs : List Chunk → Chunk → List Ev
  | [], last => chunkEvs last false
  | c :: cs, last => chunkEvs c true ++ chunksEvs cs last

theorem enc_pieces (st : EncSt) (tail : List Ev) : ∀ ps : List Bytes,
    encodeFrom st (ps.map Ev.arrayData ++ tail) =
      (ps.flatten ++ (encodeFrom st tail).1, (encodeFrom st tail).2.1, (encodeFrom st tail).2.2)
  | [] => by simp
  | p :: ps => by
    simp only [List.map_cons, List.cons_append, encodeFrom, encodeEv, enc_pieces st tail ps, List.flatten_cons,
      List.append_assoc]

theorem enc_chunk (t : ArrT) (c : Chunk) (more : Bool) (tail : List Ev) :
    encodeFrom { arrayType := t } (chunkEvs c more ++ tail) =
      (chunkHeader c.count more ++ c.data ++ (encodeFrom { arrayType := t } tail).1,
       (encodeFrom { arrayType := t } tail).2.1, (encodeFrom { arrayType := t } tail).2.2) := by
  simp only [chunkEvs, List.cons_append, encodeFrom, encodeEv, Bool.false_eq_true, if_false, enc_pieces,
    Chunk.data, List.append_assoc]

theorem enc_chunks (t : ArrT) (tail : List Ev) : ∀ (cs : List Chunk) (last : Chunk),
    encodeFrom { arrayType := t } (chunksEvs cs last ++ tail) =
      (chunksBytes cs last ++ (encodeFrom { arrayType := t } tail).1,
       (encodeFrom { arrayType := t } tail).2.1, (encodeFrom { arrayType := t } tail).2.2)
  | [], last => by simp only [chunksEvs, chunksBytes, enc_chunk]
  | c :: cs, last => by
    simp only [chunksEvs, chunksBytes, List.append_assoc, enc_chunk, enc_chunks t tail cs last]

/-- the bytes of a whole array sent in chunks -/
def groupBytes (t : ArrT) (hd : Bytes) (cs : List Chunk) (last : Chunk) : Bytes :=
  match cs, smallHeader t last.count with
  | [], some h => h ++ last.data
  | _, _ => hd ++ chunksBytes cs last

theorem enc_group (st : EncSt) (t : ArrT) (hd : Bytes) (hah : arrayHeader t = .ok hd) (cs : List Chunk) (last : Chunk)
    (tail : List Ev) :
    encodeFrom st (Ev.arrayBegin t :: (chunksEvs cs last ++ tail)) =
      (groupBytes t hd cs last ++ (encodeFrom { arrayType := t } tail).1,
       (encodeFrom { arrayType := t } tail).2.1, (encodeFrom { arrayType := t } tail).2.2) := by
  cases cs with
  | nil =>
    simp only [chunksEvs, chunkEvs, List.cons_append, encodeFrom, encodeEv, if_true, Bool.false_eq_true, if_false,
      List.nil_append, groupBytes]
    cases hsm : smallHeader t last.count with
    | some h => simp only [enc_pieces, Chunk.data, List.append_assoc]
    | none =>
      simp only [hah, bind, Except.bind, enc_pieces, Chunk.data, chunksBytes, List.append_assoc]
  | cons c cs =>
    simp only [chunksEvs, chunkEvs, List.cons_append, encodeFrom, encodeEv, if_true, List.nil_append, groupBytes,
      hah, bind, Except.bind, List.append_assoc, enc_pieces]
    have := enc_chunks t tail cs last
    simp only [this, chunksBytes, Chunk.data, List.append_assoc]

/-- what the decoder delivers for a whole array sent in chunks -/
def groupBack (t : ArrT) (cs : List Chunk) (last : Chunk) : List Ev :=
  match cs, smallHeader t last.count with
  | [], some _ => [Ev.array t last.count last.data]
  | _, _ => Ev.arrayBegin t :: chunksBack cs last

theorem chunkHeader_length (n : Nat) (more : Bool) : 1 ≤ (chunkHeader n more).length := by
  unfold chunkHeader
  rw [uleb_length]
  generalize (n * 2 % 2 ^ 64 ||| if more = true then 1 else 0) = k
  unfold ulebLen; split <;> omega

theorem chunksBytes_length : ∀ (cs : List Chunk) (last : Chunk), cs.length + 1 ≤ (chunksBytes cs last).length
  | [], last => by
    have := chunkHeader_length last.count false
    simp only [chunksBytes, List.length_append, List.length_nil]; omega
  | c :: cs, last => by
    have := chunkHeader_length c.count true
    have := chunksBytes_length cs last
    simp only [chunksBytes, List.length_append, List.length_cons]; omega

theorem decodeOne_group (t : ArrT) (hf : frag t = true) (hd : Bytes) (hah : arrayHeader t = .ok hd)
    (cs : List Chunk) (last : Chunk) (hcs : ∀ c ∈ cs, chunkOK (t.elemBits / 8) c) (hl : chunkOK (t.elemBits / 8) last)
    (rest : Bytes) :
    groupBytes t hd cs last ≠ [] ∧
    decodeOne (groupBytes t hd cs last ++ rest) = .ok (groupBack t cs last, rest) := by
  obtain ⟨hbits, hw, hw16, hnb⟩ := frag_bits t hf
  obtain ⟨hd', hah', hne, hdec⟩ := decodeOne_arrayHeader t hf
  have : hd' = hd := by rw [hah] at hah'; injection hah' with h; exact h.symm
  subst this
  have hlong : hd' ++ chunksBytes cs last ≠ [] ∧
      decodeOne (hd' ++ chunksBytes cs last ++ rest) = .ok (Ev.arrayBegin t :: chunksBack cs last, rest) := by
    refine ⟨by simp [hne], ?_⟩
    rw [List.append_assoc, hdec]
    unfold decodeArray
    rw [hbits]
    have hlen := chunksBytes_length cs last
    rw [decodeChunks_multi _ hw hw16 rest cs last _ hcs hl (by simp only [List.length_append]; omega)]
  cases cs with
  | cons c cs => simpa [groupBytes, groupBack] using hlong
  | nil =>
    cases hsm : smallHeader t last.count with
    | none => simpa [groupBytes, groupBack, hsm] using hlong
    | some h =>
      simp only [groupBytes, groupBack, hsm]
      -- the short form: the same bytes as the whole-array event
      by_cases hs : t = .string
      · subst hs
        have hlen : last.data.length = last.count := by simpa [ArrT.elemBits] using hl.2
        have hsimple : simple (.stringlike .string last.data) = true := by
          simp only [simple, beq_self_eq_true, Bool.true_or, Bool.true_and, decide_eq_true_eq, hlen]
          have := hl.1; omega
        have henc : encodeEv {} (.stringlike .string last.data) = .ok ({}, h ++ last.data) := by
          simp [encodeEv, encArrayWhole, hlen, hsm, bind, Except.bind]
        have := decodeOne_simple {} _ hsimple (h ++ last.data) rest henc (by intro m s; simp)
        have hle : last.count ≤ maxSmallArrayLength := by
          unfold smallHeader at hsm; split at hsm
          · simp at hsm
          · omega
        simpa [renorm, hlen, hle] using this
      · have ht : typedArr t = true := by
          simp only [frag, Bool.or_eq_true, beq_iff_eq] at hf
          rcases hf with ((h1 | h1) | h1) | h1
          · exact h1
          · exact absurd h1 hs
          · subst h1; simp [smallHeader, shortCode] at hsm
          · subst h1; simp [smallHeader, shortCode] at hsm
        have hsimple : simple (.array t last.count last.data) = true := by
          simp only [simple, ht, Bool.true_and, Bool.and_eq_true, decide_eq_true_eq]
          exact ⟨hl.2, hl.1⟩
        have henc : encodeEv {} (.array t last.count last.data) = .ok ({}, h ++ last.data) := by
          simp [encodeEv, encArrayWhole, hsm, bind, Except.bind]
        have := decodeOne_simple {} _ hsimple (h ++ last.data) rest henc (by intro m s; simp)
        have hcond : (shortCode t).isSome = true ∧ last.count ≤ maxSmallArrayLength := by
          unfold smallHeader at hsm; split at hsm
          · simp at hsm
          · refine ⟨?_, by omega⟩
            cases hsc : shortCode t with
            | none => simp [hsc] at hsm
            | some v => rfl
        simpa [renorm, hcond] using this

/-- a stream item: one event of the structural fragment, or a whole array sent in chunks -/
inductive Item
  | ev (e : Ev)
  | arr (t : ArrT) (cs : List Chunk) (last : Chunk)
  | media (mt : Bytes) (cs : List Chunk) (last : Chunk)
  | custom (ty : Nat) (cs : List Chunk) (last : Chunk)
  | mediaWhole (mt d : Bytes)          -- the one-event forms: same bytes as begin + one chunk
  | customWhole (ty : Nat) (d : Bytes)
  | rrefWhole (s : Bytes)

def Item.events : Item → List Ev
  | .ev e => [e]
  | .arr t cs last => Ev.arrayBegin t :: chunksEvs cs last
  | .media mt cs last => Ev.mediaBegin mt :: chunksEvs cs last
  | .custom ty cs last => Ev.customBegin .customBinary ty :: chunksEvs cs last
  | .mediaWhole mt d => [Ev.media mt d]
  | .customWhole ty d => [Ev.customBinary ty d]
  | .rrefWhole s => [Ev.stringlike .remoteRef s]

/-- the single chunk a one-event form stands for -/
def oneChunk (d : Bytes) : Chunk := ⟨d.length, [d]⟩

theorem oneChunk_ok (d : Bytes) (h : d.length < 2 ^ 56) : chunkOK 1 (oneChunk d) := by
  simp [chunkOK, oneChunk, Chunk.data, h]

def Item.ok : Item → Prop
  | .ev e => simple e = true
  | .arr t cs last => frag t = true ∧ (∀ c ∈ cs, chunkOK (t.elemBits / 8) c) ∧ chunkOK (t.elemBits / 8) last
  | .media mt cs last => mt.length ≤ maxMediaTypeLength ∧ (∀ c ∈ cs, chunkOK 1 c) ∧ chunkOK 1 last
  | .custom ty cs last => ty ≤ maxCustomType ∧ (∀ c ∈ cs, chunkOK 1 c) ∧ chunkOK 1 last
  | .mediaWhole mt d => mt.length ≤ maxMediaTypeLength ∧ d.length < 2 ^ 56
  | .customWhole ty d => ty ≤ maxCustomType ∧ d.length < 2 ^ 56
  | .rrefWhole s => s.length < 2 ^ 56

/-- what the decoder delivers for the item's bytes -/
def Item.back : Item → List Ev
  | .ev e => renorm e
  | .arr t cs last => groupBack t cs last
  | .media mt cs last => Ev.mediaBegin mt :: chunksBack cs last
  | .custom ty cs last => Ev.customBegin .customBinary ty :: chunksBack cs last
  | .mediaWhole mt d => Ev.mediaBegin mt :: chunksBack [] (oneChunk d)
  | .customWhole ty d => Ev.customBegin .customBinary ty :: chunksBack [] (oneChunk d)
  | .rrefWhole s => groupBack .remoteRef [] (oneChunk s)

/-- media: the header carries the media type; the data always comes in chunk form -/
theorem enc_media (st : EncSt) (mt : Bytes) (cs : List Chunk) (last : Chunk) (tail : List Ev) :
    encodeFrom st (Ev.mediaBegin mt :: (chunksEvs cs last ++ tail)) =
      (encMediaBegin mt ++ chunksBytes cs last ++ (encodeFrom { arrayType := .media } tail).1,
       (encodeFrom { arrayType := .media } tail).2.1, (encodeFrom { arrayType := .media } tail).2.2) := by
  simp only [encodeFrom, encodeEv, enc_chunks .media tail cs last, List.append_assoc]

theorem enc_custom (st : EncSt) (ty : Nat) (cs : List Chunk) (last : Chunk) (tail : List Ev) :
    encodeFrom st (Ev.customBegin .customBinary ty :: (chunksEvs cs last ++ tail)) =
      (u8 tCustom :: uleb ty ++ chunksBytes cs last ++ (encodeFrom { arrayType := .customBinary } tail).1,
       (encodeFrom { arrayType := .customBinary } tail).2.1, (encodeFrom { arrayType := .customBinary } tail).2.2) := by
  simp only [encodeFrom, encodeEv, enc_chunks .customBinary tail cs last, List.append_assoc, List.cons_append]

theorem decodeChunks8 (cs : List Chunk) (last : Chunk) (hcs : ∀ c ∈ cs, chunkOK 1 c) (hl : chunkOK 1 last) (rest : Bytes) :
    decodeChunks 8 ((chunksBytes cs last ++ rest).length + 1) (chunksBytes cs last ++ rest) = .ok (chunksBack cs last, rest) := by
  have hlen := chunksBytes_length cs last
  have := decodeChunks_multi 1 (by decide) (by decide) rest cs last ((chunksBytes cs last ++ rest).length + 1) hcs hl
    (by simp only [List.length_append]; omega)
  simpa using this

theorem decodeOne_media (mt : Bytes) (hmt : mt.length ≤ maxMediaTypeLength) (cs : List Chunk) (last : Chunk)
    (hcs : ∀ c ∈ cs, chunkOK 1 c) (hl : chunkOK 1 last) (rest : Bytes) :
    decodeOne (encMediaBegin mt ++ chunksBytes cs last ++ rest) = .ok (Ev.mediaBegin mt :: chunksBack cs last, rest) := by
  unfold encMediaBegin
  simp only [List.cons_append, List.nil_append, List.append_assoc]
  rw [decodeOne_byte _ .plane7f (by decide)]
  have hlt : mt.length < 2 ^ 64 := by simp [maxMediaTypeLength] at hmt; omega
  have hu : readUleb maxMediaTypeLength (uleb mt.length ++ (mt ++ (chunksBytes cs last ++ rest))) =
      .ok (mt.length, mt ++ (chunksBytes cs last ++ rest)) := by
    unfold readUleb
    rw [unuleb_uleb mt.length hlt]
    have : ¬ mt.length > maxMediaTypeLength := by omega
    simp [this]
  have h1 : plane7fShort (pMedia / 16 * 16) = none := by decide
  have h2 : pMedia ≠ pMarker ∧ pMedia ≠ pRecordType ∧ pMedia ≠ pRemoteRef := by decide
  have h3 : (u8 pMedia).toNat = pMedia := by decide
  simp only [decodeTok, decodePlane7f, h3, h1, h2.1, h2.2.1, h2.2.2, if_false, if_true, decodeMedia, hu,
    takeN_append mt _, decodeChunks8 cs last hcs hl rest]

theorem decodeOne_custom (ty : Nat) (hty : ty ≤ maxCustomType) (cs : List Chunk) (last : Chunk)
    (hcs : ∀ c ∈ cs, chunkOK 1 c) (hl : chunkOK 1 last) (rest : Bytes) :
    decodeOne (u8 tCustom :: uleb ty ++ chunksBytes cs last ++ rest) =
      .ok (Ev.customBegin .customBinary ty :: chunksBack cs last, rest) := by
  simp only [List.cons_append, List.append_assoc]
  rw [decodeOne_byte _ .custom (by decide)]
  have hlt : ty < 2 ^ 64 := by simp [maxCustomType] at hty; omega
  have hu : readUleb maxCustomType (uleb ty ++ (chunksBytes cs last ++ rest)) = .ok (ty, chunksBytes cs last ++ rest) := by
    unfold readUleb
    rw [unuleb_uleb ty hlt]
    have : ¬ ty > maxCustomType := by omega
    simp [this]
  simp only [decodeTok, decodeCustom, hu]
  rw [decodeChunks8 cs last hcs hl rest]

theorem enc_mediaWhole (st : EncSt) (mt d : Bytes) (tail : List Ev) :
    encodeFrom st (Ev.media mt d :: tail) =
      (encMediaBegin mt ++ chunksBytes [] (oneChunk d) ++ (encodeFrom { arrayType := .media } tail).1,
       (encodeFrom { arrayType := .media } tail).2.1, (encodeFrom { arrayType := .media } tail).2.2) := by
  simp only [encodeFrom, encodeEv, chunksBytes, oneChunk, Chunk.data, List.flatten_cons, List.flatten_nil,
    List.append_nil, List.append_assoc]

theorem enc_customWhole (st : EncSt) (ty : Nat) (d : Bytes) (tail : List Ev) :
    encodeFrom st (Ev.customBinary ty d :: tail) =
      (u8 tCustom :: uleb ty ++ chunksBytes [] (oneChunk d) ++ (encodeFrom st tail).1,
       (encodeFrom st tail).2.1, (encodeFrom st tail).2.2) := by
  simp only [encodeFrom, encodeEv, chunksBytes, oneChunk, Chunk.data, List.flatten_cons, List.flatten_nil,
    List.append_nil, List.append_assoc, List.cons_append]

theorem rref_header : arrayHeader .remoteRef = .ok [u8 tPlane7f, u8 pRemoteRef] := by
  simp [arrayHeader, arrayCode, pRemoteRef]

theorem enc_rrefWhole (st : EncSt) (s : Bytes) (tail : List Ev) :
    encodeFrom st (Ev.stringlike .remoteRef s :: tail) =
      (groupBytes .remoteRef [u8 tPlane7f, u8 pRemoteRef] [] (oneChunk s) ++ (encodeFrom st tail).1,
       (encodeFrom st tail).2.1, (encodeFrom st tail).2.2) := by
  have hsm : ∀ n, smallHeader .remoteRef n = none := by
    intro n; simp [smallHeader, shortCode]
  simp only [encodeFrom, encodeEv, encArrayWhole, hsm, rref_header, bind, Except.bind, pure, Except.pure, groupBytes,
    oneChunk, chunksBytes, Chunk.data, List.flatten_cons, List.flatten_nil, List.append_nil, List.append_assoc]

theorem decodeLoop_cons (bs R : Bytes) (evs : List Ev) (hne : bs ≠ []) (hdec : decodeOne (bs ++ R) = .ok (evs, R))
    (fuel : Nat) (hf : (bs ++ R).length ≤ fuel) (tailEvs : List Ev)
    (ih : ∀ fuel, R.length ≤ fuel → decodeLoop fuel R = (tailEvs, none)) :
    decodeLoop fuel (bs ++ R) = (evs ++ tailEvs, none) := by
  cases hbs : bs with
  | nil => exact (hne hbs).elim
  | cons b bs' =>
    rw [hbs] at hdec hf
    cases fuel with
    | zero => simp at hf
    | succ fuel =>
      simp only [List.cons_append] at hdec ⊢
      simp only [decodeLoop, hdec]
      rw [ih fuel (by simp at hf; omega)]

theorem items_roundtrip : ∀ (items : List Item) (st : EncSt), (∀ i ∈ items, i.ok) →
    (encodeFrom st (items.flatMap Item.events)).2.1 = none ∧
    (st.trySmall = false → (encodeFrom st (items.flatMap Item.events)).2.2.trySmall = false) ∧
    ∀ fuel, (encodeFrom st (items.flatMap Item.events)).1.length ≤ fuel →
      decodeLoop fuel (encodeFrom st (items.flatMap Item.events)).1 = (items.flatMap Item.back ++ [.endDoc], none)
  | [], st, _ => by
    refine ⟨rfl, fun h => h, ?_⟩
    intro fuel _
    cases fuel <;> rfl
  | .ev e :: rest, st, h => by
    have he : simple e = true := h (.ev e) (by simp)
    obtain ⟨bs, henc⟩ := encodeEv_simple st e he
    obtain ⟨ih1, ih2, ih3⟩ := items_roundtrip rest st (fun i hi => h i (by simp [hi]))
    have hfrom : encodeFrom st ((Item.ev e :: rest).flatMap Item.events) =
        (bs ++ (encodeFrom st (rest.flatMap Item.events)).1, (encodeFrom st (rest.flatMap Item.events)).2.1,
         (encodeFrom st (rest.flatMap Item.events)).2.2) := by
      simp [Item.events, encodeFrom, henc]
    rw [hfrom]
    refine ⟨ih1, ih2, ?_⟩
    intro fuel hf
    by_cases hcom : ∃ m s, e = .comment m s
    · obtain ⟨m, s, rfl⟩ := hcom
      simp [encodeEv] at henc
      subst henc
      simpa [Item.back, renorm] using ih3 fuel (by simpa using hf)
    · have hc : ∀ m s, e ≠ .comment m s := fun m s he => hcom ⟨m, s, he⟩
      obtain ⟨hne, hdec⟩ := decodeOne_simple st e he bs (encodeFrom st (rest.flatMap Item.events)).1 henc hc
      simp only [List.flatMap_cons, Item.back, List.append_assoc]
      exact decodeLoop_cons bs _ _ hne hdec fuel hf _ ih3
  | .arr t cs last :: rest, st, h => by
    obtain ⟨hf, hcs, hl⟩ : (Item.arr t cs last).ok := h _ (by simp)
    obtain ⟨hd, hah, _, _⟩ := decodeOne_arrayHeader t hf
    obtain ⟨ih1, ih2, ih3⟩ := items_roundtrip rest { arrayType := t } (fun i hi => h i (by simp [hi]))
    have hfrom := enc_group st t hd hah cs last (rest.flatMap Item.events)
    have hev : (Item.arr t cs last :: rest).flatMap Item.events =
        Ev.arrayBegin t :: (chunksEvs cs last ++ rest.flatMap Item.events) := by
      simp [Item.events]
    rw [hev, hfrom]
    refine ⟨ih1, fun _ => ih2 rfl, ?_⟩
    intro fuel hfuel
    obtain ⟨hne, hdec⟩ := decodeOne_group t hf hd hah cs last hcs hl (encodeFrom { arrayType := t } (rest.flatMap Item.events)).1
    simp only [List.flatMap_cons, Item.back, List.append_assoc]
    exact decodeLoop_cons _ _ _ hne hdec fuel hfuel _ ih3
  | .media mt cs last :: rest, st, h => by
    obtain ⟨hmt, hcs, hl⟩ : (Item.media mt cs last).ok := h _ (by simp)
    obtain ⟨ih1, ih2, ih3⟩ := items_roundtrip rest { arrayType := .media } (fun i hi => h i (by simp [hi]))
    have hfrom := enc_media st mt cs last (rest.flatMap Item.events)
    have hev : (Item.media mt cs last :: rest).flatMap Item.events =
        Ev.mediaBegin mt :: (chunksEvs cs last ++ rest.flatMap Item.events) := by simp [Item.events]
    rw [hev, hfrom]
    refine ⟨ih1, fun _ => ih2 rfl, ?_⟩
    intro fuel hfuel
    have hdec := decodeOne_media mt hmt cs last hcs hl (encodeFrom { arrayType := .media } (rest.flatMap Item.events)).1
    have hne : encMediaBegin mt ++ chunksBytes cs last ≠ [] := by simp [encMediaBegin]
    simp only [List.flatMap_cons, Item.back, List.append_assoc, List.cons_append]
    have := decodeLoop_cons _ _ _ hne hdec fuel hfuel _ ih3
    simpa [List.append_assoc] using this
  | .custom ty cs last :: rest, st, h => by
    obtain ⟨hty, hcs, hl⟩ : (Item.custom ty cs last).ok := h _ (by simp)
    obtain ⟨ih1, ih2, ih3⟩ := items_roundtrip rest { arrayType := .customBinary } (fun i hi => h i (by simp [hi]))
    have hfrom := enc_custom st ty cs last (rest.flatMap Item.events)
    have hev : (Item.custom ty cs last :: rest).flatMap Item.events =
        Ev.customBegin .customBinary ty :: (chunksEvs cs last ++ rest.flatMap Item.events) := by simp [Item.events]
    rw [hev, hfrom]
    refine ⟨ih1, fun _ => ih2 rfl, ?_⟩
    intro fuel hfuel
    have hdec := decodeOne_custom ty hty cs last hcs hl (encodeFrom { arrayType := .customBinary } (rest.flatMap Item.events)).1
    have hne : u8 tCustom :: uleb ty ++ chunksBytes cs last ≠ [] := by simp
    simp only [List.flatMap_cons, Item.back, List.append_assoc, List.cons_append]
    have := decodeLoop_cons _ _ _ hne hdec fuel hfuel _ ih3
    simpa [List.append_assoc] using this

  | .mediaWhole mt d :: rest, st, h => by
    obtain ⟨hmt, hd⟩ : (Item.mediaWhole mt d).ok := h _ (by simp)
    obtain ⟨ih1, ih2, ih3⟩ := items_roundtrip rest { arrayType := .media } (fun i hi => h i (by simp [hi]))
    have hev : (Item.mediaWhole mt d :: rest).flatMap Item.events = Ev.media mt d :: rest.flatMap Item.events := by
      simp [Item.events]
    rw [hev, enc_mediaWhole]
    refine ⟨ih1, fun _ => ih2 rfl, ?_⟩
    intro fuel hfuel
    have hdec := decodeOne_media mt hmt [] (oneChunk d) (by simp) (oneChunk_ok d hd)
      (encodeFrom { arrayType := .media } (rest.flatMap Item.events)).1
    have hne : encMediaBegin mt ++ chunksBytes [] (oneChunk d) ≠ [] := by simp [encMediaBegin]
    simp only [List.flatMap_cons, Item.back, List.append_assoc, List.cons_append]
    have := decodeLoop_cons _ _ _ hne hdec fuel hfuel _ ih3
    simpa [List.append_assoc] using this
  | .customWhole ty d :: rest, st, h => by
    obtain ⟨hty, hd⟩ : (Item.customWhole ty d).ok := h _ (by simp)
    obtain ⟨ih1, ih2, ih3⟩ := items_roundtrip rest st (fun i hi => h i (by simp [hi]))
    have hev : (Item.customWhole ty d :: rest).flatMap Item.events = Ev.customBinary ty d :: rest.flatMap Item.events := by
      simp [Item.events]
    rw [hev, enc_customWhole]
    refine ⟨ih1, ih2, ?_⟩
    intro fuel hfuel
    have hdec := decodeOne_custom ty hty [] (oneChunk d) (by simp) (oneChunk_ok d hd)
      (encodeFrom st (rest.flatMap Item.events)).1
    have hne : u8 tCustom :: uleb ty ++ chunksBytes [] (oneChunk d) ≠ [] := by simp
    simp only [List.flatMap_cons, Item.back, List.append_assoc, List.cons_append]
    have := decodeLoop_cons _ _ _ hne hdec fuel hfuel _ ih3
    simpa [List.append_assoc] using this
  | .rrefWhole s :: rest, st, h => by
    have hs : (Item.rrefWhole s).ok := h _ (by simp)
    obtain ⟨ih1, ih2, ih3⟩ := items_roundtrip rest st (fun i hi => h i (by simp [hi]))
    have hev : (Item.rrefWhole s :: rest).flatMap Item.events = Ev.stringlike .remoteRef s :: rest.flatMap Item.events := by
      simp [Item.events]
    rw [hev, enc_rrefWhole]
    refine ⟨ih1, ih2, ?_⟩
    intro fuel hfuel
    obtain ⟨hne, hdec⟩ := decodeOne_group .remoteRef rfl _ rref_header [] (oneChunk s) (by simp)
      (by simpa [ArrT.elemBits] using oneChunk_ok s hs) (encodeFrom st (rest.flatMap Item.events)).1
    simp only [List.flatMap_cons, Item.back, List.append_assoc]
    exact decodeLoop_cons _ _ _ hne hdec fuel hfuel _ ih3

/-! ### same data -/

theorem gather_pieces (ps : List Bytes) (xs : List Ev) (c0 : List Nat) (d0 : Bytes) :
    gather (ps.map Ev.arrayData ++ xs) c0 d0 = gather xs c0 (d0 ++ ps.flatten) := by
  induction ps generalizing d0 with
  | nil => simp
  | cons p ps ih => simp [gather, ih, List.append_assoc]

theorem gather_chunkEvs (c : Chunk) (more : Bool) (xs : List Ev) (c0 : List Nat) (d0 : Bytes) :
    gather (chunkEvs c more ++ xs) c0 d0 = gather xs (c0 ++ [c.count]) (d0 ++ c.data) := by
  simp [chunkEvs, gather, gather_pieces, Chunk.data]

theorem gather_chunkBack (c : Chunk) (more : Bool) (w : Nat) (hc : chunkOK w c) (xs : List Ev) (c0 : List Nat) (d0 : Bytes) :
    gather (chunkBack c more ++ xs) c0 d0 = gather xs (c0 ++ [c.count]) (d0 ++ c.data) := by
  unfold chunkBack
  by_cases h0 : c.count = 0
  · have : c.data = [] := List.eq_nil_of_length_eq_zero (by rw [hc.2, h0]; simp)
    simp [h0, gather, this]
  · simp [h0, gather]

def chunkCounts (cs : List Chunk) (last : Chunk) : List Nat := cs.map Chunk.count ++ [last.count]
def chunkData (cs : List Chunk) (last : Chunk) : Bytes := (cs.map Chunk.data).flatten ++ last.data

theorem gather_chunksEvs (xs : List Ev) (hcl : clean xs = true) : ∀ (cs : List Chunk) (last : Chunk) (c0 : List Nat) (d0 : Bytes),
    gather (chunksEvs cs last ++ xs) c0 d0 = (c0 ++ chunkCounts cs last, d0 ++ chunkData cs last, xs)
  | [], last, c0, d0 => by
    simp [chunksEvs, gather_chunkEvs, gather_clean xs _ _ hcl, chunkCounts, chunkData]
  | c :: cs, last, c0, d0 => by
    simp only [chunksEvs, List.append_assoc, gather_chunkEvs, gather_chunksEvs xs hcl cs last]
    simp [chunkCounts, chunkData, List.append_assoc]

theorem gather_chunksBack (w : Nat) (xs : List Ev) (hcl : clean xs = true) : ∀ (cs : List Chunk) (last : Chunk)
    (c0 : List Nat) (d0 : Bytes), (∀ c ∈ cs, chunkOK w c) → chunkOK w last →
    gather (chunksBack cs last ++ xs) c0 d0 = (c0 ++ chunkCounts cs last, d0 ++ chunkData cs last, xs)
  | [], last, c0, d0, _, hl => by
    simp [chunksBack, gather_chunkBack last false w hl, gather_clean xs _ _ hcl, chunkCounts, chunkData]
  | c :: cs, last, c0, d0, hcs, hl => by
    simp only [chunksBack, List.append_assoc, gather_chunkBack c true w (hcs c (by simp)),
      gather_chunksBack w xs hcl cs last _ _ (fun x hx => hcs x (by simp [hx])) hl]
    simp [chunkCounts, chunkData, List.append_assoc]

theorem canonArr_nonbit (t : ArrT) (h : t ≠ .bit) (cs : List Nat) (d : Bytes) : canonArr t cs d = CEv.arr t d := by
  cases t <;> first | (exact absurd rfl h) | rfl

/-- an array sent in chunks and what the decoder delivers for its bytes carry the same data -/
theorem canon_group (t : ArrT) (hf : frag t = true) (cs : List Chunk) (last : Chunk)
    (hcs : ∀ c ∈ cs, chunkOK (t.elemBits / 8) c) (hl : chunkOK (t.elemBits / 8) last)
    (xs ys : List Ev) (hclx : clean xs = true) (hcly : clean ys = true) (hxy : canon false xs = canon false ys) :
    canon false (groupBack t cs last ++ xs) = canon false (Ev.arrayBegin t :: (chunksEvs cs last ++ ys)) := by
  obtain ⟨_, _, _, hnb⟩ := frag_bits t hf
  have hR : canon false (Ev.arrayBegin t :: (chunksEvs cs last ++ ys)) = CEv.arr t (chunkData cs last) :: canon false ys := by
    rw [canon]
    simp only [gather_chunksEvs ys hcly cs last [] [], List.nil_append, canonArr_nonbit t hnb]
  have hLong : canon false (Ev.arrayBegin t :: chunksBack cs last ++ xs) = CEv.arr t (chunkData cs last) :: canon false ys := by
    rw [List.cons_append, canon]
    simp only [gather_chunksBack _ xs hclx cs last [] [] hcs hl, List.nil_append, hxy, canonArr_nonbit t hnb]
  rw [hR]
  cases cs with
  | cons c cs => simpa [groupBack] using hLong
  | nil =>
    cases hsm : smallHeader t last.count with
    | none => simpa [groupBack, hsm] using hLong
    | some h =>
      simp only [groupBack, hsm, List.singleton_append]
      rw [canon]
      simp only [chunkData, List.map_nil, List.flatten_nil, List.nil_append, hxy, canonArr_nonbit t hnb]

theorem clean_head (a xs : List Ev) (e : Ev) (h : clean (a ++ [e]) = true) (hx : clean xs = true) : clean (a ++ xs) = true := by
  cases a with
  | nil => simpa using hx
  | cons x a' => cases x <;> simp_all [clean]

theorem clean_simple (e : Ev) (xs : List Ev) (h : simple e = true) : clean (e :: xs) = true := by
  cases e <;> simp_all [simple, clean]

theorem clean_groupBack (t : ArrT) (cs : List Chunk) (last : Chunk) (xs : List Ev) : clean (groupBack t cs last ++ xs) = true := by
  unfold groupBack
  split <;> rfl

theorem clean_events : ∀ (items : List Item), (∀ i ∈ items, i.ok) → clean (items.flatMap Item.events ++ [Ev.endDoc]) = true
  | [], _ => rfl
  | .ev e :: rest, h => by
    simp only [List.flatMap_cons, Item.events, List.singleton_append, List.cons_append]
    exact clean_simple e _ (h (.ev e) (by simp))
  | .arr t cs last :: rest, _ => rfl
  | .media mt cs last :: rest, _ => rfl
  | .custom ty cs last :: rest, _ => rfl
  | .mediaWhole mt d :: rest, _ => rfl
  | .customWhole ty d :: rest, _ => rfl
  | .rrefWhole s :: rest, _ => rfl

theorem clean_back : ∀ (items : List Item), (∀ i ∈ items, i.ok) → clean (items.flatMap Item.back ++ [Ev.endDoc]) = true
  | [], _ => rfl
  | .ev e :: rest, h => by
    have ih := clean_back rest (fun i hi => h i (by simp [hi]))
    have he : simple e = true := h (.ev e) (by simp)
    have h1 := clean_renorm [e] (by simp [he])
    simp only [List.flatMap_cons, List.flatMap_nil, List.append_nil] at h1
    simp only [List.flatMap_cons, Item.back, List.append_assoc]
    exact clean_head _ _ _ h1 ih
  | .arr t cs last :: rest, _ => by
    simp only [List.flatMap_cons, Item.back, List.append_assoc]
    exact clean_groupBack t cs last _
  | .media mt cs last :: rest, _ => rfl
  | .custom ty cs last :: rest, _ => rfl
  | .mediaWhole mt d :: rest, _ => rfl
  | .customWhole ty d :: rest, _ => rfl
  | .rrefWhole s :: rest, _ => by
    simp only [List.flatMap_cons, Item.back, List.append_assoc]
    exact clean_groupBack _ _ _ _

theorem chunkData_one (d : Bytes) : chunkData [] (oneChunk d) = d := by
  simp [chunkData, oneChunk, Chunk.data]

/-- the one-event forms carry the same data as what the decoder delivers for them -/
theorem canon_mediaWhole (mt d : Bytes) (hd : d.length < 2 ^ 56) (xs ys : List Ev) (hclx : clean xs = true)
    (hxy : canon false xs = canon false ys) :
    canon false (Ev.mediaBegin mt :: (chunksBack [] (oneChunk d) ++ xs)) = canon false (Ev.media mt d :: ys) := by
  rw [canon, canon]
  simp only [gather_chunksBack 1 xs hclx [] (oneChunk d) [] [] (by simp) (oneChunk_ok d hd), chunkData_one, hxy,
    List.nil_append]

theorem canon_customWhole (ty : Nat) (d : Bytes) (hd : d.length < 2 ^ 56) (xs ys : List Ev) (hclx : clean xs = true)
    (hxy : canon false xs = canon false ys) :
    canon false (Ev.customBegin .customBinary ty :: (chunksBack [] (oneChunk d) ++ xs)) =
      canon false (Ev.customBinary ty d :: ys) := by
  rw [canon, canon]
  simp only [gather_chunksBack 1 xs hclx [] (oneChunk d) [] [] (by simp) (oneChunk_ok d hd), chunkData_one, hxy,
    List.nil_append]
  rfl

theorem canon_rrefWhole (s : Bytes) (hs : s.length < 2 ^ 56) (xs ys : List Ev) (hclx : clean xs = true)
    (hxy : canon false xs = canon false ys) :
    canon false (groupBack .remoteRef [] (oneChunk s) ++ xs) = canon false (Ev.stringlike .remoteRef s :: ys) := by
  have hgb : groupBack .remoteRef [] (oneChunk s) = Ev.arrayBegin .remoteRef :: chunksBack [] (oneChunk s) := by
    simp [groupBack, smallHeader, shortCode]
  rw [hgb, List.cons_append, canon, canon]
  simp only [gather_chunksBack 1 xs hclx [] (oneChunk s) [] [] (by simp) (oneChunk_ok s hs), chunkData_one, hxy,
    List.nil_append, canonArr]

/-- media and custom data: the begin event, then the chunks -/
theorem canon_media (mt : Bytes) (cs : List Chunk) (last : Chunk) (hcs : ∀ c ∈ cs, chunkOK 1 c) (hl : chunkOK 1 last)
    (xs ys : List Ev) (hclx : clean xs = true) (hcly : clean ys = true) (hxy : canon false xs = canon false ys) :
    canon false (Ev.mediaBegin mt :: (chunksBack cs last ++ xs)) = canon false (Ev.mediaBegin mt :: (chunksEvs cs last ++ ys)) := by
  rw [canon, canon]
  simp only [gather_chunksBack 1 xs hclx cs last [] [] hcs hl, gather_chunksEvs ys hcly cs last [] [], hxy]

theorem canon_custom (ty : Nat) (cs : List Chunk) (last : Chunk) (hcs : ∀ c ∈ cs, chunkOK 1 c) (hl : chunkOK 1 last)
    (xs ys : List Ev) (hclx : clean xs = true) (hcly : clean ys = true) (hxy : canon false xs = canon false ys) :
    canon false (Ev.customBegin .customBinary ty :: (chunksBack cs last ++ xs)) =
      canon false (Ev.customBegin .customBinary ty :: (chunksEvs cs last ++ ys)) := by
  rw [canon, canon]
  simp only [gather_chunksBack 1 xs hclx cs last [] [] hcs hl, gather_chunksEvs ys hcly cs last [] [], hxy]

/-- the whole stream: what the decoder delivers carries the same data as what was sent -/
theorem items_canon : ∀ (items : List Item), (∀ i ∈ items, i.ok) →
    canon false (items.flatMap Item.back ++ [Ev.endDoc]) = canon false (items.flatMap Item.events ++ [Ev.endDoc])
  | [], _ => rfl
  | .ev e :: rest, h => by
    have hrest : ∀ i ∈ rest, i.ok := fun i hi => h i (by simp [hi])
    have ih := items_canon rest hrest
    simp only [List.flatMap_cons, Item.back, Item.events, List.append_assoc, List.singleton_append]
    exact canon_renorm e (h (.ev e) (by simp)) _ _ (clean_back rest hrest) ih
  | .arr t cs last :: rest, h => by
    have hrest : ∀ i ∈ rest, i.ok := fun i hi => h i (by simp [hi])
    obtain ⟨hf, hcs, hl⟩ : (Item.arr t cs last).ok := h _ (by simp)
    have ih := items_canon rest hrest
    simp only [List.flatMap_cons, Item.back, Item.events, List.append_assoc, List.cons_append]
    exact canon_group t hf cs last hcs hl _ _ (clean_back rest hrest) (clean_events rest hrest) ih
  | .media mt cs last :: rest, h => by
    have hrest : ∀ i ∈ rest, i.ok := fun i hi => h i (by simp [hi])
    obtain ⟨_, hcs, hl⟩ : (Item.media mt cs last).ok := h _ (by simp)
    have ih := items_canon rest hrest
    simp only [List.flatMap_cons, Item.back, Item.events, List.append_assoc, List.cons_append]
    exact canon_media mt cs last hcs hl _ _ (clean_back rest hrest) (clean_events rest hrest) ih
  | .custom ty cs last :: rest, h => by
    have hrest : ∀ i ∈ rest, i.ok := fun i hi => h i (by simp [hi])
    obtain ⟨_, hcs, hl⟩ : (Item.custom ty cs last).ok := h _ (by simp)
    have ih := items_canon rest hrest
    simp only [List.flatMap_cons, Item.back, Item.events, List.append_assoc, List.cons_append]
    exact canon_custom ty cs last hcs hl _ _ (clean_back rest hrest) (clean_events rest hrest) ih
  | .mediaWhole mt d :: rest, h => by
    have hrest : ∀ i ∈ rest, i.ok := fun i hi => h i (by simp [hi])
    obtain ⟨_, hd⟩ : (Item.mediaWhole mt d).ok := h _ (by simp)
    have ih := items_canon rest hrest
    simp only [List.flatMap_cons, Item.back, Item.events, List.append_assoc, List.cons_append, List.singleton_append]
    exact canon_mediaWhole mt d hd _ _ (clean_back rest hrest) ih
  | .customWhole ty d :: rest, h => by
    have hrest : ∀ i ∈ rest, i.ok := fun i hi => h i (by simp [hi])
    obtain ⟨_, hd⟩ : (Item.customWhole ty d).ok := h _ (by simp)
    have ih := items_canon rest hrest
    simp only [List.flatMap_cons, Item.back, Item.events, List.append_assoc, List.cons_append, List.singleton_append]
    exact canon_customWhole ty d hd _ _ (clean_back rest hrest) ih
  | .rrefWhole s :: rest, h => by
    have hrest : ∀ i ∈ rest, i.ok := fun i hi => h i (by simp [hi])
    have hs : (Item.rrefWhole s).ok := h _ (by simp)
    have ih := items_canon rest hrest
    simp only [List.flatMap_cons, Item.back, Item.events, List.append_assoc, List.singleton_append]
    exact canon_rrefWhole s hs _ _ (clean_back rest hrest) ih

/-- the bytes of a whole document of items -/
theorem items_encode_doc (items : List Item) (h : ∀ i ∈ items, i.ok) :
    encode (Ev.beginDoc :: Ev.version 0 :: (items.flatMap Item.events ++ [Ev.endDoc])) =
      (u8 signature :: (uleb 0 ++ (encodeFrom {} (items.flatMap Item.events)).1), none) := by
  obtain ⟨h1, h2, _⟩ := items_roundtrip items {} h
  have hts := h2 rfl
  have happ := encodeFrom_append (items.flatMap Item.events) [Ev.endDoc] {} h1
  have hend : encodeFrom (encodeFrom {} (items.flatMap Item.events)).2.2 [Ev.endDoc] =
      ([], none, (encodeFrom {} (items.flatMap Item.events)).2.2) := by
    simp [encodeFrom, encodeEv, hts]
  have e1 : ∀ rest : List Ev, encodeFrom {} (Ev.beginDoc :: Ev.version 0 :: rest) =
      (u8 signature :: (uleb 0 ++ (encodeFrom {} rest).1), (encodeFrom {} rest).2.1, (encodeFrom {} rest).2.2) := by
    intro rest; simp [encodeFrom, encodeEv]
  unfold encode
  rw [e1, happ, hend]
  simp

theorem items_decode_encode_doc (items : List Item) (h : ∀ i ∈ items, i.ok) :
    decode (encode (Ev.beginDoc :: Ev.version 0 :: (items.flatMap Item.events ++ [Ev.endDoc]))).1 =
      (Ev.beginDoc :: Ev.version 0 :: (items.flatMap Item.back ++ [Ev.endDoc]), none) := by
  obtain ⟨_, _, h3⟩ := items_roundtrip items {} h
  rw [items_encode_doc items h]
  simp only [decode]
  have hsig : ¬ (u8 signature).toNat ≠ signature := by decide
  simp only [hsig, if_false]
  have hv : readUleb (2 ^ 64 - 1) (uleb 0 ++ (encodeFrom {} (items.flatMap Item.events)).1) =
      .ok (0, (encodeFrom {} (items.flatMap Item.events)).1) := by
    unfold readUleb
    rw [unuleb_uleb 0 (by decide)]
    simp
  simp only [hv]
  rw [h3 _ (Nat.le_refl _)]
  simp

/-- A COMPLETE DOCUMENT of structural events and arrays sent in chunks (any number of chunks, the
    data of each in any number of pieces) round-trips through CBE: no error on either side, and what
    the decoder delivers carries the same data. -/
theorem items_document_roundtrip (items : List Item) (h : ∀ i ∈ items, i.ok) :
    let doc := Ev.beginDoc :: Ev.version 0 :: (items.flatMap Item.events ++ [Ev.endDoc])
    (encode doc).2 = none ∧
    ∃ back, decode (encode doc).1 = (back, none) ∧ canon false back = canon false doc := by
  intro doc
  refine ⟨by simp only [doc]; rw [items_encode_doc items h], _, items_decode_encode_doc items h, ?_⟩
  simp only [doc, canon]
  rw [items_canon items h]

/-! ### the encoding is a fixed point of decode-then-encode -/

/-- a chunk as the decoder delivers it: no data event for an empty chunk, one otherwise -/
def Chunk.norm (c : Chunk) : Chunk := { count := c.count, pieces := if c.count = 0 then [] else [c.data] }

theorem norm_data (w : Nat) (c : Chunk) (h : chunkOK w c) : c.norm.data = c.data := by
  by_cases h0 : c.count = 0
  · have : c.data = [] := List.eq_nil_of_length_eq_zero (by rw [h.2, h0]; simp)
    rw [this]
    simp [Chunk.norm, Chunk.data, h0]
  · simp [Chunk.norm, Chunk.data, h0]

theorem chunkBack_norm (c : Chunk) (more : Bool) : chunkBack c more = chunkEvs c.norm more := by
  unfold chunkBack chunkEvs Chunk.norm
  by_cases h0 : c.count = 0 <;> simp [h0]

theorem chunksBack_norm : ∀ (cs : List Chunk) (last : Chunk), chunksBack cs last = chunksEvs (cs.map Chunk.norm) last.norm
  | [], last => by simp [chunksBack, chunksEvs, chunkBack_norm]
  | c :: cs, last => by simp [chunksBack, chunksEvs, chunkBack_norm, chunksBack_norm cs last]

theorem chunksBytes_norm (w : Nat) : ∀ (cs : List Chunk) (last : Chunk), (∀ c ∈ cs, chunkOK w c) → chunkOK w last →
    chunksBytes (cs.map Chunk.norm) last.norm = chunksBytes cs last
  | [], last, _, hl => by
    have hc : last.norm.count = last.count := rfl
    simp only [List.map_nil, chunksBytes, norm_data w last hl, hc]
  | c :: cs, last, hcs, hl => by
    have hc : c.norm.count = c.count := rfl
    simp only [List.map_cons, chunksBytes, norm_data w c (hcs c (by simp)), hc,
      chunksBytes_norm w cs last (fun x hx => hcs x (by simp [hx])) hl]

theorem items_reencode : ∀ (items : List Item) (st1 st2 : EncSt), (∀ i ∈ items, i.ok) →
    st1.trySmall = false → st2.trySmall = false →
    (encodeFrom st1 (items.flatMap Item.back)).1 = (encodeFrom st2 (items.flatMap Item.events)).1 ∧
    (encodeFrom st1 (items.flatMap Item.back)).2.1 = none ∧
    (encodeFrom st1 (items.flatMap Item.back)).2.2.trySmall = false
  | [], st1, st2, _, h1, _ => by simp [encodeFrom, h1]
  | .ev e :: rest, st1, st2, h, h1, h2 => by
    have hrest : ∀ i ∈ rest, i.ok := fun i hi => h i (by simp [hi])
    have he : simple e = true := h (.ev e) (by simp)
    obtain ⟨bs1, henc1⟩ := encodeEv_simple st1 e he
    obtain ⟨bs2, henc2⟩ := encodeEv_simple st2 e he
    have hb : bs1 = bs2 := by
      have := (encodeFrom_simple_state [e] st1 st2 (by simp [he])).1
      simpa [encodeFrom, henc1, henc2] using this
    obtain ⟨r1, r2, r3⟩ := reencode_event e he st1 h1 bs1 henc1
    have happ := encodeFrom_append (renorm e) (rest.flatMap Item.back) st1 r2
    obtain ⟨i1, i2, i3⟩ := items_reencode rest (encodeFrom st1 (renorm e)).2.2 st2 hrest r3 h2
    simp only [List.flatMap_cons, Item.back, Item.events, List.singleton_append]
    rw [happ]
    refine ⟨?_, i2, i3⟩
    simp only [encodeFrom, henc2, r1, hb, i1]
  | .arr t cs last :: rest, st1, st2, h, h1, h2 => by
    have hrest : ∀ i ∈ rest, i.ok := fun i hi => h i (by simp [hi])
    obtain ⟨hf, hcs, hl⟩ : (Item.arr t cs last).ok := h _ (by simp)
    obtain ⟨hd, hah, _, _⟩ := decodeOne_arrayHeader t hf
    have hR := enc_group st2 t hd hah cs last (rest.flatMap Item.events)
    have hev : (Item.arr t cs last :: rest).flatMap Item.events =
        Ev.arrayBegin t :: (chunksEvs cs last ++ rest.flatMap Item.events) := by simp [Item.events]
    rw [hev, hR]
    simp only [List.flatMap_cons, Item.back]
    -- the two forms the decoder can deliver
    by_cases hshort : cs = [] ∧ (smallHeader t last.count).isSome = true
    · obtain ⟨rfl, hsome⟩ := hshort
      obtain ⟨hh, hsm⟩ := Option.isSome_iff_exists.mp hsome
      obtain ⟨i1, i2, i3⟩ := items_reencode rest st1 { arrayType := t } hrest h1 rfl
      have hencA : encodeEv st1 (Ev.array t last.count last.data) = .ok (st1, hh ++ last.data) := by
        simp [encodeEv, encArrayWhole, hsm, bind, Except.bind]
      simp only [groupBack, hsm, groupBytes, List.singleton_append, encodeFrom, hencA]
      exact ⟨by rw [i1], i2, i3⟩
    · have hback : groupBack t cs last = Ev.arrayBegin t :: chunksBack cs last := by
        unfold groupBack
        cases cs with
        | cons c cs => rfl
        | nil =>
          cases hsm : smallHeader t last.count with
          | none => rfl
          | some v => exact absurd ⟨rfl, by simp [hsm]⟩ hshort
      have hbytes : groupBytes t hd cs last = hd ++ chunksBytes cs last := by
        unfold groupBytes
        cases cs with
        | cons c cs => rfl
        | nil =>
          cases hsm : smallHeader t last.count with
          | none => rfl
          | some v => exact absurd ⟨rfl, by simp [hsm]⟩ hshort
      have hbytesN : groupBytes t hd (cs.map Chunk.norm) last.norm = hd ++ chunksBytes cs last := by
        rw [← chunksBytes_norm _ cs last hcs hl]
        unfold groupBytes
        cases cs with
        | cons c cs => rfl
        | nil =>
          have : last.norm.count = last.count := rfl
          simp only [List.map_nil, this]
          cases hsm : smallHeader t last.count with
          | none => rfl
          | some v => exact absurd ⟨rfl, by simp [hsm]⟩ hshort
      obtain ⟨i1, i2, i3⟩ := items_reencode rest { arrayType := t } { arrayType := t } hrest rfl rfl
      have hL := enc_group st1 t hd hah (cs.map Chunk.norm) last.norm (rest.flatMap Item.back)
      rw [hback, chunksBack_norm, List.cons_append, hL, hbytesN, hbytes]
      exact ⟨by rw [i1], i2, i3⟩
  | .media mt cs last :: rest, st1, st2, h, h1, h2 => by
    have hrest : ∀ i ∈ rest, i.ok := fun i hi => h i (by simp [hi])
    obtain ⟨_, hcs, hl⟩ : (Item.media mt cs last).ok := h _ (by simp)
    have hR := enc_media st2 mt cs last (rest.flatMap Item.events)
    have hL := enc_media st1 mt (cs.map Chunk.norm) last.norm (rest.flatMap Item.back)
    obtain ⟨i1, i2, i3⟩ := items_reencode rest { arrayType := .media } { arrayType := .media } hrest rfl rfl
    simp only [List.flatMap_cons, Item.back, Item.events, List.cons_append]
    rw [hR, chunksBack_norm, hL, chunksBytes_norm 1 cs last hcs hl]
    exact ⟨by rw [i1], i2, i3⟩
  | .custom ty cs last :: rest, st1, st2, h, h1, h2 => by
    have hrest : ∀ i ∈ rest, i.ok := fun i hi => h i (by simp [hi])
    obtain ⟨_, hcs, hl⟩ : (Item.custom ty cs last).ok := h _ (by simp)
    have hR := enc_custom st2 ty cs last (rest.flatMap Item.events)
    have hL := enc_custom st1 ty (cs.map Chunk.norm) last.norm (rest.flatMap Item.back)
    obtain ⟨i1, i2, i3⟩ := items_reencode rest { arrayType := .customBinary } { arrayType := .customBinary } hrest rfl rfl
    simp only [List.flatMap_cons, Item.back, Item.events, List.cons_append]
    rw [hR, chunksBack_norm, hL, chunksBytes_norm 1 cs last hcs hl]
    exact ⟨by rw [i1], i2, i3⟩
  | .mediaWhole mt d :: rest, st1, st2, h, h1, h2 => by
    have hrest : ∀ i ∈ rest, i.ok := fun i hi => h i (by simp [hi])
    obtain ⟨_, hd⟩ : (Item.mediaWhole mt d).ok := h _ (by simp)
    have hL := enc_media st1 mt ([].map Chunk.norm) (oneChunk d).norm (rest.flatMap Item.back)
    obtain ⟨i1, i2, i3⟩ := items_reencode rest { arrayType := .media } { arrayType := .media } hrest rfl rfl
    simp only [List.flatMap_cons, Item.back, Item.events, List.cons_append, List.singleton_append]
    rw [enc_mediaWhole, chunksBack_norm, hL, chunksBytes_norm 1 [] (oneChunk d) (by simp) (oneChunk_ok d hd)]
    exact ⟨by simp [i1], i2, i3⟩
  | .customWhole ty d :: rest, st1, st2, h, h1, h2 => by
    have hrest : ∀ i ∈ rest, i.ok := fun i hi => h i (by simp [hi])
    obtain ⟨_, hd⟩ : (Item.customWhole ty d).ok := h _ (by simp)
    have hL := enc_custom st1 ty ([].map Chunk.norm) (oneChunk d).norm (rest.flatMap Item.back)
    obtain ⟨i1, i2, i3⟩ := items_reencode rest { arrayType := .customBinary } st2 hrest rfl h2
    simp only [List.flatMap_cons, Item.back, Item.events, List.cons_append, List.singleton_append]
    rw [enc_customWhole, chunksBack_norm, hL, chunksBytes_norm 1 [] (oneChunk d) (by simp) (oneChunk_ok d hd)]
    exact ⟨by simp [i1], i2, i3⟩
  | .rrefWhole s :: rest, st1, st2, h, h1, h2 => by
    have hrest : ∀ i ∈ rest, i.ok := fun i hi => h i (by simp [hi])
    have hs : (Item.rrefWhole s).ok := h _ (by simp)
    have hgb : groupBack .remoteRef [] (oneChunk s) = Ev.arrayBegin .remoteRef :: chunksBack [] (oneChunk s) := by
      simp [groupBack, smallHeader, shortCode]
    have hbytes : ∀ c : Chunk, groupBytes .remoteRef [u8 tPlane7f, u8 pRemoteRef] [] c =
        [u8 tPlane7f, u8 pRemoteRef] ++ chunksBytes [] c := by
      intro c; simp [groupBytes, smallHeader, shortCode]
    have hL := enc_group st1 .remoteRef _ rref_header ([].map Chunk.norm) (oneChunk s).norm (rest.flatMap Item.back)
    obtain ⟨i1, i2, i3⟩ := items_reencode rest { arrayType := .remoteRef } st2 hrest rfl h2
    simp only [List.flatMap_cons, Item.back, Item.events, List.singleton_append]
    rw [enc_rrefWhole, hgb, chunksBack_norm, List.cons_append, hL]
    have hn := chunksBytes_norm 1 [] (oneChunk s) (by simp) (oneChunk_ok s hs)
    simp only [List.map_nil] at hn
    simp only [List.map_nil, hbytes, hn]
    exact ⟨by simp [i1], i2, i3⟩

/-- decoding the encoder's bytes and encoding what was delivered gives the same bytes again -/
theorem items_canonical_fixed_point (items : List Item) (h : ∀ i ∈ items, i.ok) :
    let doc := Ev.beginDoc :: Ev.version 0 :: (items.flatMap Item.events ++ [Ev.endDoc])
    (encode (decode (encode doc).1).1) = ((encode doc).1, none) := by
  intro doc
  simp only [doc]
  rw [items_decode_encode_doc items h, items_encode_doc items h]
  obtain ⟨r1, r2, r3⟩ := items_reencode items {} {} h rfl rfl
  have happ := encodeFrom_append (items.flatMap Item.back) [Ev.endDoc] {} r2
  have hend : encodeFrom (encodeFrom {} (items.flatMap Item.back)).2.2 [Ev.endDoc] =
      ([], none, (encodeFrom {} (items.flatMap Item.back)).2.2) := by
    simp [encodeFrom, encodeEv, r3]
  have e1 : ∀ rest : List Ev, encodeFrom {} (Ev.beginDoc :: Ev.version 0 :: rest) =
      (u8 signature :: (uleb 0 ++ (encodeFrom {} rest).1), (encodeFrom {} rest).2.1, (encodeFrom {} rest).2.2) := by
    intro rest; simp [encodeFrom, encodeEv]
  unfold encode
  rw [e1, happ, hend]
  simp [r1]

end CE.Cbe
