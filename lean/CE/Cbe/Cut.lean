import CE.Cbe.Prefix
import CE.Cbe.ItemRoundTrip
namespace CE.Cbe

/-- A CUT INSIDE A TOKEN FAILS.  If `bs` is read back as one token whatever follows it (which the
    round-trip lemmas show for every token the encoder writes for the fragment), then every
    non-empty strict prefix of `bs` fails with "input ended", having delivered a prefix of the
    token's events - it is never read as some other, shorter token. -/
theorem token_cut_fails (bs : Bytes) (evs : List Ev) (h : ∀ rest, decodeOne (bs ++ rest) = .ok (evs, rest))
    (p : Bytes) (hp : p <+: bs) (hne : p ≠ []) (hlt : p.length < bs.length) :
    ∃ part, decodeOne p = .error (.eof, part) ∧ part <+: evs := by
  obtain ⟨y, hy⟩ := hp
  have hylen : y ≠ [] := by
    intro h0; subst h0; simp at hy; subst hy; omega
  have hbs : decodeOne bs = .ok (evs, []) := by simpa using h []
  have hext := ext_decodeOne p y hne
  rw [hy, hbs] at hext
  cases hd : decodeOne p with
  | ok r =>
    obtain ⟨evs', r'⟩ := r
    rw [hd] at hext
    simp only [Ext, Except.ok.injEq, Prod.mk.injEq] at hext
    have : r' ++ y = [] := hext.2.symm
    simp at this
    exact (hylen this.2).elim
  | error e =>
    obtain ⟨e, part⟩ := e
    rw [hd] at hext
    simp only [Ext] at hext
    by_cases he : e = .eof
    · subst he
      simp only [if_true] at hext
      exact ⟨part, rfl, hext⟩
    · simp only [he, if_false] at hext
      cases hext

/-- every event of the structural fragment: a cut inside its encoding fails with "input ended" -/
theorem simple_token_cut_fails (st : EncSt) (e : Ev) (hs : simple e = true) (bs : Bytes)
    (henc : encodeEv st e = .ok (st, bs)) (hc : ∀ m s, e ≠ .comment m s)
    (p : Bytes) (hp : p <+: bs) (hne : p ≠ []) (hlt : p.length < bs.length) :
    ∃ part, decodeOne p = .error (.eof, part) ∧ part <+: renorm e :=
  token_cut_fails bs (renorm e) (fun rest => (decodeOne_simple st e hs bs rest henc hc).2) p hp hne hlt

/-- an array sent in chunks: a cut anywhere inside its bytes - in the header, in a chunk length,
    in the data - fails with "input ended", having delivered a prefix of its events -/
theorem group_cut_fails (t : ArrT) (hf : frag t = true) (hd : Bytes) (hah : arrayHeader t = .ok hd)
    (cs : List Chunk) (last : Chunk) (hcs : ∀ c ∈ cs, chunkOK (t.elemBits / 8) c) (hl : chunkOK (t.elemBits / 8) last)
    (p : Bytes) (hp : p <+: groupBytes t hd cs last) (hne : p ≠ []) (hlt : p.length < (groupBytes t hd cs last).length) :
    ∃ part, decodeOne p = .error (.eof, part) ∧ part <+: groupBack t cs last :=
  token_cut_fails _ _ (fun rest => (decodeOne_group t hf hd hah cs last hcs hl rest).2) p hp hne hlt

end CE.Cbe
