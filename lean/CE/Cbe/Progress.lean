import CE.Cbe.Decode
/-
  Progress of the CBE decoder model: every iteration of the main decode loop consumes at least
  one byte, every chunk header consumes at least one byte, so the fuel the model's loops carry
  (remaining length) is never the reason a run stops.  Used by C07 (no input makes the decoder
  loop forever) and C08 (the number of loop iterations is at most the document length).
-/
namespace CE.Cbe

theorem unulebRaw_len : ∀ (bs : Bytes) (v k : Nat) (r : Bytes),
    unulebRaw bs = some (v, k, r) → r.length + k = bs.length ∧ 0 < k
  | [], v, k, r, h => by simp [unulebRaw] at h
  | b :: rest, v, k, r, h => by
    unfold unulebRaw at h
    by_cases hb : b.toNat < 128
    · simp [hb] at h
      obtain ⟨_, hk, hr⟩ := h
      subst hk; subst hr; simp
    · simp [hb] at h
      cases hrec : unulebRaw rest with
      | none => simp [hrec] at h
      | some p =>
        obtain ⟨v', k', r'⟩ := p
        simp [hrec] at h
        obtain ⟨_, hk, hr⟩ := h
        have := unulebRaw_len rest v' k' r' hrec
        subst hk; subst hr
        simp; omega

theorem unuleb_len (bs : Bytes) (v k : Nat) (r : Bytes) (h : unuleb bs = .ok (v, k, r)) :
    r.length + k = bs.length ∧ 0 < k := by
  unfold unuleb at h
  cases hraw : unulebRaw bs with
  | none => simp [hraw] at h
  | some p =>
    obtain ⟨v', k', r'⟩ := p
    simp [hraw] at h
    split at h
    · simp at h
      obtain ⟨_, hk, hr⟩ := h
      subst hk; subst hr
      exact unulebRaw_len bs v' k' r' hraw
    · simp at h

theorem readUleb_len (m : Nat) (bs : Bytes) (v : Nat) (r : Bytes) (h : readUleb m bs = .ok (v, r)) :
    r.length < bs.length := by
  unfold readUleb at h
  cases hu : unuleb bs with
  | error e => cases e <;> simp [hu] at h
  | ok p =>
    obtain ⟨v', k', r'⟩ := p
    simp [hu] at h
    split at h
    · simp at h
    · simp at h
      obtain ⟨_, hr⟩ := h
      subst hr
      have := unuleb_len bs v' k' r' hu
      omega

theorem takeN_len (n : Nat) (bs d r : Bytes) (h : takeN n bs = .ok (d, r)) : r.length + n = bs.length := by
  unfold takeN at h
  split at h
  · simp at h
    obtain ⟨_, hr⟩ := h
    subst hr
    simp; omega
  · simp at h

theorem readId_len (bs id r : Bytes) (h : readId bs = .ok (id, r)) : r.length < bs.length := by
  unfold readId at h
  cases hu : readUleb maxIdentifierLength bs with
  | error e => simp [hu, bind, Except.bind] at h
  | ok p =>
    obtain ⟨n, r1⟩ := p
    simp [hu, bind, Except.bind] at h
    split at h
    · simp at h
    · have h1 := readUleb_len _ _ _ _ hu
      have h2 := takeN_len _ _ _ _ h
      omega

/-- a chunk sequence that is read completely consumed at least its first header byte, and the
    fuel `remaining length + 1` is never what stops it -/
theorem decodeChunks_len (bits : Nat) : ∀ (fuel : Nat) (bs : Bytes) (evs : List Ev) (r : Bytes),
    decodeChunks bits fuel bs = .ok (evs, r) → r.length < bs.length
  | 0, bs, evs, r, h => by simp [decodeChunks] at h
  | fuel + 1, bs, evs, r, h => by
    unfold decodeChunks at h
    cases hu : readUleb (2 ^ 64 - 1) bs with
    | error e => simp [hu] at h
    | ok p =>
      obtain ⟨hd, r1⟩ := p
      have h1 := readUleb_len _ _ _ _ hu
      simp only [hu] at h
      split at h
      · simp at h
      · split at h
        · split at h
          · cases hrec : decodeChunks bits fuel r1 with
            | error e => obtain ⟨e1, e2⟩ := e; simp [hrec] at h
            | ok q =>
              obtain ⟨evs', r'⟩ := q
              simp [hrec] at h
              have := decodeChunks_len bits fuel r1 evs' r' hrec
              obtain ⟨_, hr⟩ := h
              subst hr; omega
          · simp at h
            obtain ⟨_, hr⟩ := h
            subst hr; omega
        · cases ht : takeN (elemsToBytes bits (hd / 2) % 2 ^ 64) r1 with
          | error e => simp [ht] at h
          | ok q =>
            obtain ⟨d, r2⟩ := q
            have h2 := takeN_len _ _ _ _ ht
            simp only [ht] at h
            split at h
            · cases hrec : decodeChunks bits fuel r2 with
              | error e => obtain ⟨e1, e2⟩ := e; simp [hrec] at h
              | ok q2 =>
                obtain ⟨evs', r'⟩ := q2
                simp [hrec] at h
                have := decodeChunks_len bits fuel r2 evs' r' hrec
                obtain ⟨_, hr⟩ := h
                subst hr; omega
            · simp at h
              obtain ⟨_, hr⟩ := h
              subst hr; omega

theorem decodeChunks_no_stall (bits : Nat) : ∀ (fuel : Nat) (bs : Bytes) (evs : List Ev),
    bs.length < fuel → decodeChunks bits fuel bs ≠ .error (.noProgress, evs)
  | 0, bs, evs, hf => by omega
  | fuel + 1, bs, evs, hf => by
    unfold decodeChunks
    cases hu : readUleb (2 ^ 64 - 1) bs with
    | error e =>
      simp only []
      intro hc
      injection hc with hc
      injection hc with hc1 _
      subst hc1
      unfold readUleb at hu
      cases hx : unuleb bs with
      | error e' => cases e' <;> simp [hx] at hu
      | ok p => obtain ⟨a, b, c⟩ := p; simp [hx] at hu; split at hu <;> simp at hu
    | ok p =>
      obtain ⟨hd, r1⟩ := p
      have h1 := readUleb_len _ _ _ _ hu
      simp only []
      split
      · simp
      · split
        · split
          · cases hrec : decodeChunks bits fuel r1 with
            | error e =>
              obtain ⟨e1, e2⟩ := e
              simp only []
              intro hc
              injection hc with hc
              injection hc with hc1 _
              subst hc1
              exact decodeChunks_no_stall bits fuel r1 e2 (by omega) hrec
            | ok q => obtain ⟨a, b⟩ := q; simp
          · simp
        · cases ht : takeN (elemsToBytes bits (hd / 2) % 2 ^ 64) r1 with
          | error e =>
            simp only []
            intro hc
            injection hc with hc
            injection hc with hc1 _
            subst hc1
            unfold takeN at ht
            split at ht <;> simp at ht
          | ok q =>
            obtain ⟨d, r2⟩ := q
            have h2 := takeN_len _ _ _ _ ht
            simp only []
            split
            · cases hrec : decodeChunks bits fuel r2 with
              | error e =>
                obtain ⟨e1, e2⟩ := e
                simp only []
                intro hc
                injection hc with hc
                injection hc with hc1 _
                subst hc1
                exact decodeChunks_no_stall bits fuel r2 e2 (by omega) hrec
              | ok q2 => obtain ⟨a, b⟩ := q2; simp
            · simp


theorem decodeArray_len (t : ArrT) (bs : Bytes) (evs : List Ev) (r : Bytes)
    (h : decodeArray t bs = .ok (evs, r)) : r.length < bs.length := by
  unfold decodeArray at h
  cases hc : decodeChunks t.elemBits (bs.length + 1) bs with
  | error e => obtain ⟨a, b⟩ := e; simp [hc] at h
  | ok q =>
    obtain ⟨evs', r'⟩ := q
    simp [hc] at h
    obtain ⟨_, hr⟩ := h
    subst hr
    exact decodeChunks_len _ _ _ _ _ hc

theorem decodeArray_no_stall (t : ArrT) (bs : Bytes) (evs : List Ev) :
    decodeArray t bs ≠ .error (.noProgress, evs) := by
  unfold decodeArray
  cases hc : decodeChunks t.elemBits (bs.length + 1) bs with
  | error e =>
    obtain ⟨a, b⟩ := e
    simp only []
    intro h
    injection h with h
    injection h with h1 _
    subst h1
    exact decodeChunks_no_stall _ _ _ b (by omega) hc
  | ok q => obtain ⟨a, b⟩ := q; simp

theorem lift_ok_inv {α} (x : Except DecErr α) (a : α) (h : lift x = .ok a) : x = .ok a := by
  cases x <;> simp [lift] at h ⊢; exact h

theorem lift_err_inv {α} (x : Except DecErr α) (e : DecErr) (evs : List Ev) (h : lift x = .error (e, evs)) :
    x = .error e := by
  cases x <;> simp [lift] at h ⊢; exact h.1

theorem takeN_err (n : Nat) (bs : Bytes) (e : DecErr) (h : takeN n bs = .error e) : e = .eof := by
  unfold takeN at h; split at h <;> simp at h; exact h.symm

theorem readUleb_err (m : Nat) (bs : Bytes) (e : DecErr) (h : readUleb m bs = .error e) : e ≠ .noProgress := by
  unfold readUleb at h
  cases hx : unuleb bs with
  | error e' => cases e' <;> simp [hx] at h <;> subst h <;> simp
  | ok p => obtain ⟨a, b, c⟩ := p; simp [hx] at h; split at h <;> simp at h; subst h; simp

theorem readId_err (bs : Bytes) (e : DecErr) (h : readId bs = .error e) : e ≠ .noProgress := by
  unfold readId at h
  cases hu : readUleb maxIdentifierLength bs with
  | error e' =>
    simp [hu, bind, Except.bind] at h
    subst h
    exact readUleb_err _ _ _ hu
  | ok p =>
    obtain ⟨n, r1⟩ := p
    simp [hu, bind, Except.bind] at h
    split at h
    · simp at h; subst h; simp
    · have := takeN_err _ _ _ h; subst this; simp


theorem bind_ok {α β} (x : Except DecErr β) (g : β → α) (a : α)
   (h : lift (do let p ← x; pure (g p)) = .ok a) : ∃ p, x = .ok p ∧ g p = a := by
  have h := lift_ok_inv _ _ h
  cases x with
  | error e => simp [bind, Except.bind] at h
  | ok p =>
    simp [bind, Except.bind, pure, Except.pure] at h
    exact ⟨p, rfl, h⟩

theorem bind_err {α β} (x : Except DecErr β) (g : β → α) (e : DecErr) (evs : List Ev)
   (h : lift (do let p ← x; pure (g p)) = .error (e, evs)) : x = .error e := by
  have h := lift_err_inv _ _ _ h
  cases x with
  | error e' => simp [bind, Except.bind] at h; rw [h]
  | ok p => simp [bind, Except.bind, pure, Except.pure] at h

theorem decodeVarInt_len (neg : Bool) (bs : Bytes) (e : Ev) (r : Bytes) (h : decodeVarInt neg bs = .ok (e, r)) :
    r.length < bs.length := by
  unfold decodeVarInt at h
  cases hu : readUleb maxBigIntBytes bs with
  | error e' => simp [hu, bind, Except.bind] at h
  | ok p =>
    obtain ⟨n, r1⟩ := p
    have h1 := readUleb_len _ _ _ _ hu
    simp only [hu, bind, Except.bind] at h
    cases ht : takeN n r1 with
    | error e' => simp [ht] at h
    | ok q =>
      obtain ⟨d, r2⟩ := q
      have h2 := takeN_len _ _ _ _ ht
      simp only [ht] at h
      split at h <;> (simp at h; obtain ⟨_, hr⟩ := h; subst hr; omega)

theorem decodeVarInt_err (neg : Bool) (bs : Bytes) (e : DecErr) (h : decodeVarInt neg bs = .error e) :
    e ≠ .noProgress := by
  unfold decodeVarInt at h
  cases hu : readUleb maxBigIntBytes bs with
  | error e' => simp [hu, bind, Except.bind] at h; subst h; exact readUleb_err _ _ _ hu
  | ok p =>
    obtain ⟨n, r1⟩ := p
    simp only [hu, bind, Except.bind] at h
    cases ht : takeN n r1 with
    | error e' => simp [ht] at h; subst h; have := takeN_err _ _ _ ht; subst this; simp
    | ok q =>
      obtain ⟨d, r2⟩ := q
      simp only [ht] at h
      split at h <;> simp at h

theorem decodeDecimal_shape (bs : Bytes) (f k : Nat) (r1 : Bytes) (hu : unuleb bs = .ok (f, k, r1)) :
    (∃ e, decodeDecimal bs = .ok (e, r1)) ∨ decodeDecimal bs = .error .tooBig ∨
    (unulebRaw r1 = none ∧ decodeDecimal bs = .error .eof) ∨
    (∃ c k2 r2 e, unulebRaw r1 = some (c, k2, r2) ∧ decodeDecimal bs = .ok (e, r2)) := by
  unfold decodeDecimal
  simp only [hu]
  by_cases c1 : k = 1 ∧ f = 2
  · rw [if_pos c1]; exact .inl ⟨_, rfl⟩
  rw [if_neg c1]
  by_cases c2 : k = 1 ∧ f = 3
  · rw [if_pos c2]; exact .inl ⟨_, rfl⟩
  rw [if_neg c2]
  by_cases c3 : k = 2 ∧ f = 0
  · rw [if_pos c3]; exact .inl ⟨_, rfl⟩
  rw [if_neg c3]
  by_cases c4 : k = 2 ∧ f = 1
  · rw [if_pos c4]; exact .inl ⟨_, rfl⟩
  rw [if_neg c4]
  by_cases c5 : k = 2 ∧ f = 2
  · rw [if_pos c5]; exact .inl ⟨_, rfl⟩
  rw [if_neg c5]
  by_cases c6 : k = 2 ∧ f = 3
  · rw [if_pos c6]; exact .inl ⟨_, rfl⟩
  rw [if_neg c6]
  by_cases c7 : f > 0x1ffffffff
  · rw [if_pos c7]; exact .inr (.inl rfl)
  rw [if_neg c7]
  cases hraw : unulebRaw r1 with
  | none => exact .inr (.inr (.inl ⟨rfl, rfl⟩))
  | some q =>
    obtain ⟨c, k2, r2⟩ := q
    refine .inr (.inr (.inr ⟨c, k2, r2, ?_⟩))
    by_cases c8 : k2 ≤ 18 ∧ c < 2 ^ 63
    · exact ⟨_, rfl, by dsimp only; rw [if_pos c8]⟩
    · exact ⟨_, rfl, by dsimp only; rw [if_neg c8]⟩

theorem decodeDecimal_len (bs : Bytes) (e : Ev) (r : Bytes) (h : decodeDecimal bs = .ok (e, r)) :
    r.length < bs.length := by
  cases hu : unuleb bs with
  | error e' => unfold decodeDecimal at h; cases e' <;> simp [hu] at h
  | ok p =>
    obtain ⟨f, k, r1⟩ := p
    have h1 := unuleb_len _ _ _ _ hu
    rcases decodeDecimal_shape bs f k r1 hu with ⟨e', h'⟩ | h' | ⟨_, h'⟩ | ⟨c, k2, r2, e', hraw, h'⟩
    · rw [h] at h'; cases h'; omega
    · rw [h] at h'; cases h'
    · rw [h] at h'; cases h'
    · rw [h] at h'; cases h'
      have := unulebRaw_len _ _ _ _ hraw
      omega

theorem decodeDecimal_err (bs : Bytes) (e : DecErr) (h : decodeDecimal bs = .error e) : e ≠ .noProgress := by
  cases hu : unuleb bs with
  | error e' => unfold decodeDecimal at h; cases e' <;> simp [hu] at h <;> subst h <;> simp
  | ok p =>
    obtain ⟨f, k, r1⟩ := p
    rcases decodeDecimal_shape bs f k r1 hu with ⟨e', h'⟩ | h' | ⟨_, h'⟩ | ⟨c, k2, r2, e', hraw, h'⟩
    · rw [h] at h'; cases h'
    · rw [h] at h'; cases h'; simp
    · rw [h] at h'; cases h'; simp
    · rw [h] at h'; cases h'

theorem decodeCustom_len (bs : Bytes) (evs : List Ev) (r : Bytes) (h : decodeCustom bs = .ok (evs, r)) :
    r.length < bs.length := by
  unfold decodeCustom at h
  cases hu : readUleb maxCustomType bs with
  | error e => simp [hu] at h
  | ok p =>
    obtain ⟨ct, r1⟩ := p
    have h1 := readUleb_len _ _ _ _ hu
    simp only [hu] at h
    cases hc : decodeChunks 8 (r1.length + 1) r1 with
    | error e => obtain ⟨a, b⟩ := e; simp [hc] at h
    | ok q =>
      obtain ⟨evs', r2⟩ := q
      have := decodeChunks_len _ _ _ _ _ hc
      simp [hc] at h
      obtain ⟨_, hr⟩ := h
      subst hr; omega

theorem decodeCustom_no_stall (bs : Bytes) (evs : List Ev) : decodeCustom bs ≠ .error (.noProgress, evs) := by
  unfold decodeCustom
  cases hu : readUleb maxCustomType bs with
  | error e =>
    simp only []
    intro h; injection h with h; injection h with h1 _; subst h1
    exact readUleb_err _ _ _ hu rfl
  | ok p =>
    obtain ⟨ct, r1⟩ := p
    simp only []
    cases hc : decodeChunks 8 (r1.length + 1) r1 with
    | error e =>
      obtain ⟨a, b⟩ := e
      simp only []
      intro h; injection h with h; injection h with h1 _; subst h1
      exact decodeChunks_no_stall _ _ _ b (by omega) hc
    | ok q => obtain ⟨a, b⟩ := q; simp

theorem decodeMedia_len (bs : Bytes) (evs : List Ev) (r : Bytes) (h : decodeMedia bs = .ok (evs, r)) :
    r.length < bs.length := by
  unfold decodeMedia at h
  cases hu : readUleb maxMediaTypeLength bs with
  | error e => simp [hu] at h
  | ok p =>
    obtain ⟨n, r1⟩ := p
    have h1 := readUleb_len _ _ _ _ hu
    simp only [hu] at h
    cases ht : takeN n r1 with
    | error e => simp [ht] at h
    | ok q0 =>
      obtain ⟨mt, r3⟩ := q0
      have h2 := takeN_len _ _ _ _ ht
      simp only [ht] at h
      cases hc : decodeChunks 8 (r3.length + 1) r3 with
      | error e => obtain ⟨a, b⟩ := e; simp [hc] at h
      | ok q =>
        obtain ⟨evs', r2⟩ := q
        have := decodeChunks_len _ _ _ _ _ hc
        simp [hc] at h
        obtain ⟨_, hr⟩ := h
        subst hr; omega

theorem decodeMedia_no_stall (bs : Bytes) (evs : List Ev) : decodeMedia bs ≠ .error (.noProgress, evs) := by
  unfold decodeMedia
  cases hu : readUleb maxMediaTypeLength bs with
  | error e =>
    simp only []
    intro h; injection h with h; injection h with h1 _; subst h1
    exact readUleb_err _ _ _ hu rfl
  | ok p =>
    obtain ⟨n, r1⟩ := p
    simp only []
    cases ht : takeN n r1 with
    | error e =>
      simp only []
      intro h; injection h with h; injection h with h1 _; subst h1
      have := takeN_err _ _ _ ht; cases this
    | ok q0 =>
      obtain ⟨mt, r3⟩ := q0
      simp only []
      cases hc : decodeChunks 8 (r3.length + 1) r3 with
      | error e =>
        obtain ⟨a, b⟩ := e
        simp only []
        intro h; injection h with h; injection h with h1 _; subst h1
        exact decodeChunks_no_stall _ _ _ b (by omega) hc
      | ok q => obtain ⟨a, b⟩ := q; simp

theorem decodePlane7f_len (bs : Bytes) (evs : List Ev) (r : Bytes) (h : decodePlane7f bs = .ok (evs, r)) :
    r.length < bs.length := by
  unfold decodePlane7f at h
  cases bs with
  | nil => simp at h
  | cons c r1 =>
    simp only [] at h
    cases hs : plane7fShort (c.toNat / 16 * 16) with
    | some at_ =>
      simp only [hs] at h
      obtain ⟨⟨b, r2⟩, hb, hg⟩ := bind_ok _ _ _ h
      have := takeN_len _ _ _ _ hb
      cases hg; dsimp only at *; simp; omega
    | none =>
      simp only [hs] at h
      repeat' split at h
      all_goals first
        | (obtain ⟨⟨b, r2⟩, hb, hg⟩ := bind_ok _ _ _ h; have := readId_len _ _ _ hb; cases hg; dsimp only at *; simp; omega)
        | (have := decodeArray_len _ _ _ _ h; simp; omega)
        | (have := decodeMedia_len _ _ _ h; simp; omega)
        | (simp at h; done)

theorem decodeTok_len (t : Tok) (r : Bytes) (evs : List Ev) (r' : Bytes)
    (h : decodeTok t r = .ok (evs, r')) : r'.length ≤ r.length := by
  cases t <;> simp only [decodeTok] at h
  case posFix k => obtain ⟨⟨b, r1⟩, hb, hg⟩ := bind_ok _ _ _ h; have := takeN_len _ _ _ _ hb; cases hg; dsimp only at *; omega
  case negFix k => obtain ⟨⟨b, r1⟩, hb, hg⟩ := bind_ok _ _ _ h; have := takeN_len _ _ _ _ hb; cases hg; dsimp only at *; omega
  case f16 => obtain ⟨⟨b, r1⟩, hb, hg⟩ := bind_ok _ _ _ h; have := takeN_len _ _ _ _ hb; cases hg; dsimp only at *; omega
  case f32 => obtain ⟨⟨b, r1⟩, hb, hg⟩ := bind_ok _ _ _ h; have := takeN_len _ _ _ _ hb; cases hg; dsimp only at *; omega
  case f64 => obtain ⟨⟨b, r1⟩, hb, hg⟩ := bind_ok _ _ _ h; have := takeN_len _ _ _ _ hb; cases hg; dsimp only at *; omega
  case uid => obtain ⟨⟨b, r1⟩, hb, hg⟩ := bind_ok _ _ _ h; have := takeN_len _ _ _ _ hb; cases hg; dsimp only at *; omega
  case shortStr n => obtain ⟨⟨b, r1⟩, hb, hg⟩ := bind_ok _ _ _ h; have := takeN_len _ _ _ _ hb; cases hg; dsimp only at *; omega
  case decimal => obtain ⟨⟨b, r1⟩, hb, hg⟩ := bind_ok _ _ _ h; have := decodeDecimal_len _ _ _ hb; cases hg; dsimp only at *; omega
  case posVar => obtain ⟨⟨b, r1⟩, hb, hg⟩ := bind_ok _ _ _ h; have := decodeVarInt_len _ _ _ _ hb; cases hg; dsimp only at *; omega
  case negVar => obtain ⟨⟨b, r1⟩, hb, hg⟩ := bind_ok _ _ _ h; have := decodeVarInt_len _ _ _ _ hb; cases hg; dsimp only at *; omega
  case record => obtain ⟨⟨b, r1⟩, hb, hg⟩ := bind_ok _ _ _ h; have := readId_len _ _ _ hb; cases hg; dsimp only at *; omega
  case localRef => obtain ⟨⟨b, r1⟩, hb, hg⟩ := bind_ok _ _ _ h; have := readId_len _ _ _ hb; cases hg; dsimp only at *; omega
  all_goals first
    | (simp at h; obtain ⟨_, hr⟩ := h; subst hr; omega)
    | (simp at h; done)
    | (exact Nat.le_of_lt (decodeArray_len _ _ _ _ h))
    | (exact Nat.le_of_lt (decodeCustom_len _ _ _ h))
    | (exact Nat.le_of_lt (decodePlane7f_len _ _ _ h))

theorem decodePlane7f_no_stall (bs : Bytes) (evs : List Ev) : decodePlane7f bs ≠ .error (.noProgress, evs) := by
  unfold decodePlane7f
  cases bs with
  | nil => simp
  | cons c r1 =>
    simp only []
    cases hs : plane7fShort (c.toNat / 16 * 16) with
    | some at_ =>
      simp only []
      intro h
      have := bind_err _ _ _ _ h
      have := takeN_err _ _ _ this; cases this
    | none =>
      simp only []
      repeat' split
      all_goals first
        | (intro h; have h2 := bind_err _ _ _ _ h; exact readId_err _ _ h2 rfl)
        | exact decodeArray_no_stall _ _ _
        | exact decodeMedia_no_stall _ _
        | simp

theorem decodeTok_no_stall (t : Tok) (r : Bytes) (evs : List Ev) : decodeTok t r ≠ .error (.noProgress, evs) := by
  cases t <;> simp only [decodeTok]
  all_goals first
    | (intro h; have h2 := bind_err _ _ _ _ h; have := takeN_err _ _ _ h2; cases this)
    | (intro h; have h2 := bind_err _ _ _ _ h; exact readId_err _ _ h2 rfl)
    | (intro h; have h2 := bind_err _ _ _ _ h; exact decodeVarInt_err _ _ _ h2 rfl)
    | (intro h; have h2 := bind_err _ _ _ _ h; exact decodeDecimal_err _ _ h2 rfl)
    | exact decodeArray_no_stall _ _ _
    | exact decodeCustom_no_stall _ _
    | exact decodePlane7f_no_stall _ _
    | simp

/-- every iteration of the main decode loop consumes at least one byte -/
theorem decodeOne_progress (bs : Bytes) (evs : List Ev) (r : Bytes) (h : decodeOne bs = .ok (evs, r)) :
    r.length < bs.length := by
  unfold decodeOne at h
  cases bs with
  | nil => simp at h
  | cons b rest =>
    have := decodeTok_len _ _ _ _ h
    simp; omega

theorem decodeOne_no_stall (bs : Bytes) (evs : List Ev) : decodeOne bs ≠ .error (.noProgress, evs) := by
  unfold decodeOne
  cases bs with
  | nil => simp
  | cons b rest => exact decodeTok_no_stall _ _ _

/-- with fuel = remaining length the loop never runs out of fuel: it stops because the input is
    used up or because a value is malformed, after at most `bs.length` iterations -/
theorem decodeLoop_no_stall : ∀ (fuel : Nat) (bs : Bytes), bs.length ≤ fuel →
    (decodeLoop fuel bs).2 ≠ some .noProgress
  | _, [], _ => by simp [decodeLoop]
  | 0, b :: r, h => by simp at h
  | fuel + 1, b :: r, h => by
    unfold decodeLoop
    cases hd : decodeOne (b :: r) with
    | error e =>
      obtain ⟨e1, e2⟩ := e
      simp only []
      intro hc
      injection hc with hc
      subst hc
      exact decodeOne_no_stall _ _ hd
    | ok p =>
      obtain ⟨evs, r'⟩ := p
      have hp := decodeOne_progress _ _ _ hd
      simp only []
      exact decodeLoop_no_stall fuel r' (by simp at h hp; omega)

theorem decode_never_stalls (bs : Bytes) : (decode bs).2 ≠ some .noProgress := by
  unfold decode
  cases bs with
  | nil => simp
  | cons h r =>
    simp only []
    split
    · simp
    · cases hu : readUleb (2 ^ 64 - 1) r with
      | error e => simp only []; intro hc; injection hc with hc; exact readUleb_err _ _ _ hu hc
      | ok p =>
        obtain ⟨v, r'⟩ := p
        simp only []
        exact decodeLoop_no_stall _ _ (Nat.le_refl _)

/-- number of main-loop iterations of a run -/
def loopIterations : Nat → Bytes → Nat
  | _, [] => 0
  | 0, _ => 0
  | fuel + 1, bs =>
    match decodeOne bs with
    | .error _ => 1
    | .ok (_, r) => 1 + loopIterations fuel r

/-- the main loop runs at most once per input byte -/
theorem loopIterations_le : ∀ (fuel : Nat) (bs : Bytes), loopIterations fuel bs ≤ bs.length
  | _, [] => by simp [loopIterations]
  | 0, b :: r => by simp [loopIterations]
  | fuel + 1, b :: r => by
    unfold loopIterations
    cases hd : decodeOne (b :: r) with
    | error e => simp
    | ok p =>
      obtain ⟨evs, r'⟩ := p
      have hp := decodeOne_progress _ _ _ hd
      have := loopIterations_le fuel r'
      simp only []
      omega


end CE.Cbe
