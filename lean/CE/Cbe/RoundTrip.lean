import CE.Cbe.Encode
import CE.Cbe.Decode
/-
  Helper lemmas for the CBE round trip (C01, C22): per-event prefix-code lemmas
  `decodeOne (enc e ++ rest) = ok ([renorm e], rest)`.
-/
namespace CE.Cbe

theorem u8_toNat (n : Nat) (h : n < 256) : (u8 n).toNat = n := by
  simp [u8, Nat.toUInt8, UInt8.toNat_ofNat', Nat.mod_eq_of_lt h]

theorem takeN_append (d rest : Bytes) : takeN d.length (d ++ rest) = .ok (d, rest) := by
  simp [takeN]

theorem takeN_leBytes (k n : Nat) (rest : Bytes) :
    takeN k (leBytes k n ++ rest) = .ok (leBytes k n, rest) := by
  have := takeN_append (leBytes k n) rest
  simpa using this

/-- what the decoder emits for an encoded non-negative integer -/
def renormPos (n : Nat) : Ev := if n ≤ smallIntMax then .int n else .posInt n

/-- what the decoder emits for an encoded negative-integer event (magnitude n) -/
def renormNeg (n : Nat) : Ev :=
  if n = 0 then .negInt 0 else if n ≤ smallIntMax then .int (-(n : Int)) else .negInt n

theorem byteLen_le (n k : Nat) (h : n < 256 ^ k) : byteLen n ≤ k := by
  induction k generalizing n with
  | zero => unfold byteLen; simp at h; simp [h]
  | succ k ih =>
    unfold byteLen
    split
    · omega
    · have : n / 256 < 256 ^ k := by
        rw [Nat.pow_succ] at h
        exact Nat.div_lt_of_lt_mul (by rw [Nat.mul_comm]; exact h)
      have := ih _ this
      omega

theorem lt_pow_byteLen (n : Nat) : n < 256 ^ byteLen n := by
  induction n using Nat.strongRecOn with
  | _ n ih =>
    unfold byteLen
    split
    · omega
    · rename_i h
      have := ih (n / 256) (by omega)
      rw [Nat.add_comm, Nat.pow_succ]
      omega

theorem leNat_leBytes_byteLen (n : Nat) : leNat (leBytes (byteLen n) n) = n := by
  rw [leNat_leBytes, Nat.mod_eq_of_lt (lt_pow_byteLen n)]

end CE.Cbe

namespace CE.Cbe

theorem classify_small : ∀ n, n ≤ 100 → classify n = .small n := by decide +kernel
theorem classify_smallNeg : ∀ n, n < 256 → 156 ≤ n → classify n = .small ((n : Int) - 256) := by
  decide +kernel

@[simp] theorem lift_ok {α} (a : α) : lift (.ok a : Except DecErr α) = .ok a := rfl

theorem leBytes_succ_lt (k n : Nat) (h : n < 256 ^ k) : leNat (leBytes k n) = n := by
  rw [leNat_leBytes, Nat.mod_eq_of_lt h]

/-- fixed-width positive forms -/
theorem decodeTok_posFix (k n : Nat) (h : n < 256 ^ k) (rest : Bytes) :
    decodeTok (.posFix k) (leBytes k n ++ rest) = .ok ([.posInt n], rest) := by
  simp [decodeTok, takeN_leBytes, leBytes_succ_lt k n h, bind, Except.bind, pure, Except.pure]

theorem decodeTok_negFix (k n : Nat) (h : n < 256 ^ k) (rest : Bytes) :
    decodeTok (.negFix k) (leBytes k n ++ rest) = .ok ([.negInt n], rest) := by
  simp [decodeTok, takeN_leBytes, leBytes_succ_lt k n h, bind, Except.bind, pure, Except.pure]

theorem byteLen_lt_128 (v : Nat) (h : v < 2 ^ 64) : byteLen v < 128 := by
  have := byteLen_le v 8 (by simpa using h)
  omega

theorem decodeVarInt_enc (neg : Bool) (v : Nat) (h : v < 2 ^ 64) (rest : Bytes) :
    decodeVarInt neg (u8 (byteLen v) :: (leBytes (byteLen v) v ++ rest))
      = .ok (if neg then Ev.negInt v else Ev.posInt v, rest) := by
  have hb := byteLen_le v 8 (by simpa using h)
  have hlt : byteLen v < 128 := by omega
  have hu : (u8 (byteLen v)).toNat = byteLen v := u8_toNat _ (by omega)
  have hule : unuleb (u8 (byteLen v) :: (leBytes (byteLen v) v ++ rest))
      = .ok (byteLen v, 1, leBytes (byteLen v) v ++ rest) := by
    simp [unuleb, unulebRaw, hu, hlt]
    omega
  simp only [decodeVarInt, readUleb, hule]
  have : ¬ byteLen v > maxBigIntBytes := by simp [maxBigIntBytes]; omega
  simp only [this, if_false, bind, Except.bind, takeN_leBytes, leNat_leBytes_byteLen]
  simp [hb]

theorem decodeOne_encPosInt (n : Nat) (h : n < 2 ^ 64) (rest : Bytes) :
    decodeOne (encPosInt n ++ rest) = .ok ([renormPos n], rest) := by
  unfold encPosInt renormPos
  by_cases h1 : n ≤ smallIntMax
  · simp only [h1, if_true, List.cons_append, List.nil_append, decodeOne]
    rw [u8_toNat n (by simp [smallIntMax] at h1; omega), classify_small n h1]
    rfl
  · simp only [h1, if_false]
    by_cases h2 : n ≤ 0xff
    · simp only [h2, if_true, List.cons_append, List.nil_append, decodeOne]
      have : classify (u8 tPosInt8).toNat = .posFix 1 := by decide
      rw [this]
      have := decodeTok_posFix 1 n (by omega) rest
      simpa [leBytes, u8, Nat.mod_eq_of_lt (show n < 256 by omega)] using this
    · simp only [h2, if_false]
      by_cases h3 : n ≤ 0xffff
      · simp only [h3, if_true, List.cons_append, decodeOne]
        have : classify (u8 tPosInt16).toNat = .posFix 2 := by decide
        rw [this]
        exact decodeTok_posFix 2 n (by omega) rest
      · simp only [h3, if_false]
        by_cases h4 : n ≤ 0xffffffff
        · simp only [h4, if_true, List.cons_append, decodeOne]
          have : classify (u8 tPosInt32).toNat = .posFix 4 := by decide
          rw [this]
          exact decodeTok_posFix 4 n (by omega) rest
        · simp only [h4, if_false]
          by_cases h5 : n < 2 ^ 48
          · simp only [h5, if_true, List.cons_append, decodeOne]
            have : classify (u8 tPosInt).toNat = .posVar := by decide
            rw [this]
            simp only [decodeTok, decodeVarInt_enc false n h rest]
            rfl
          · simp only [h5, if_false, List.cons_append, decodeOne]
            have : classify (u8 tPosInt64).toNat = .posFix 8 := by decide
            rw [this]
            exact decodeTok_posFix 8 n (by simpa using h) rest

theorem decodeOne_encNegInt (n : Nat) (h : n < 2 ^ 64) (rest : Bytes) :
    decodeOne (encNegInt n ++ rest) = .ok ([renormNeg n], rest) := by
  unfold encNegInt renormNeg
  by_cases h0 : n = 0
  · subst h0
    simp only [if_true, List.cons_append, List.nil_append, decodeOne]
    have : classify (u8 tNegInt8).toNat = .negFix 1 := by decide
    rw [this]
    have := decodeTok_negFix 1 0 (by omega) rest
    simpa [leBytes] using this
  · simp only [h0, if_false]
    by_cases h1 : n ≤ smallIntMax
    · simp only [h1, if_true, List.cons_append, List.nil_append, decodeOne]
      have hs : n ≤ 100 := by simpa [smallIntMax] using h1
      rw [u8_toNat (256 - n) (by omega), classify_smallNeg (256 - n) (by omega) (by omega)]
      simp only [decodeTok]
      have e : ((256 - n : Nat) : Int) - 256 = -(n : Int) := by omega
      rw [e]
    · simp only [h1, if_false]
      by_cases h2 : n ≤ 0xff
      · simp only [h2, if_true, List.cons_append, List.nil_append, decodeOne]
        have : classify (u8 tNegInt8).toNat = .negFix 1 := by decide
        rw [this]
        have := decodeTok_negFix 1 n (by omega) rest
        simpa [leBytes, u8, Nat.mod_eq_of_lt (show n < 256 by omega)] using this
      · simp only [h2, if_false]
        by_cases h3 : n ≤ 0xffff
        · simp only [h3, if_true, List.cons_append, decodeOne]
          have : classify (u8 tNegInt16).toNat = .negFix 2 := by decide
          rw [this]
          exact decodeTok_negFix 2 n (by omega) rest
        · simp only [h3, if_false]
          by_cases h4 : n ≤ 0xffffffff
          · simp only [h4, if_true, List.cons_append, decodeOne]
            have : classify (u8 tNegInt32).toNat = .negFix 4 := by decide
            rw [this]
            exact decodeTok_negFix 4 n (by omega) rest
          · simp only [h4, if_false]
            by_cases h5 : n < 2 ^ 48
            · simp only [h5, if_true, List.cons_append, decodeOne]
              have : classify (u8 tNegInt).toNat = .negVar := by decide
              rw [this]
              simp only [decodeTok, decodeVarInt_enc true n h rest]
              rfl
            · simp only [h5, if_false, List.cons_append, decodeOne]
              have : classify (u8 tNegInt64).toNat = .negFix 8 := by decide
              rw [this]
              exact decodeTok_negFix 8 n (by simpa using h) rest

end CE.Cbe
