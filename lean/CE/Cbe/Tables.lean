import CE.Event
/-
  CBE type codes and array tables as the model uses them (hand-written).
  `CE/GenCheck.lean` equates these with the tables extracted from /repo on every run.
-/
namespace CE.Cbe

abbrev tUID : Nat := 0x65
abbrev tPosInt : Nat := 0x66
abbrev tNegInt : Nat := 0x67
abbrev tPosInt8 : Nat := 0x68
abbrev tNegInt8 : Nat := 0x69
abbrev tPosInt16 : Nat := 0x6a
abbrev tNegInt16 : Nat := 0x6b
abbrev tPosInt32 : Nat := 0x6c
abbrev tNegInt32 : Nat := 0x6d
abbrev tPosInt64 : Nat := 0x6e
abbrev tNegInt64 : Nat := 0x6f
abbrev tFloat16 : Nat := 0x70
abbrev tFloat32 : Nat := 0x71
abbrev tFloat64 : Nat := 0x72
abbrev tDecimal : Nat := 0x76
abbrev tLocalRef : Nat := 0x77
abbrev tFalse : Nat := 0x78
abbrev tTrue : Nat := 0x79
abbrev tDate : Nat := 0x7a
abbrev tTime : Nat := 0x7b
abbrev tTimestamp : Nat := 0x7c
abbrev tNull : Nat := 0x7d
abbrev tPlane7f : Nat := 0x7f
abbrev tString0 : Nat := 0x80
abbrev tString : Nat := 0x90
abbrev tRID : Nat := 0x91
abbrev tCustom : Nat := 0x92
abbrev tArrayU8 : Nat := 0x93
abbrev tArrayBit : Nat := 0x94
abbrev tPadding : Nat := 0x95
abbrev tRecord : Nat := 0x96
abbrev tEdge : Nat := 0x97
abbrev tNode : Nat := 0x98
abbrev tMap : Nat := 0x99
abbrev tList : Nat := 0x9a
abbrev tEnd : Nat := 0x9b
-- plane 7f
abbrev pMarker : Nat := 0xf0
abbrev pRecordType : Nat := 0xf1
abbrev pRemoteRef : Nat := 0xf2
abbrev pMedia : Nat := 0xf3

abbrev signature : Nat := 0x81
abbrev smallIntMax : Nat := 100
abbrev maxSmallArrayLength : Nat := 15
/-- decoder maxima -/
abbrev maxIdentifierLength : Nat := 100000
abbrev maxBigIntBytes : Nat := 1024
abbrev maxMediaTypeLength : Nat := 0xffffffff
abbrev maxCustomType : Nat := 0xffffffff

/-- `arrayTypeToCBEType` together with `isPlane7fArray`: (code, plane7f); `none` = index
    out of the Go table (run-time panic). -/
def arrayCode : ArrT → Option (Nat × Bool)
  | .invalid => some (0, false)         -- zero entries of both Go tables
  | .string => some (0x90, false)
  | .rid => some (0x91, false)
  | .remoteRef => some (0xf2, true)
  | .customText => some (0x92, false)
  | .customBinary => some (0x92, false)
  | .bit => some (0x94, false)
  | .u8 => some (0x93, false)
  | .u16 => some (0xe2, true)
  | .u32 => some (0xe4, true)
  | .u64 => some (0xe6, true)
  | .i8 => some (0xe1, true)
  | .i16 => some (0xe3, true)
  | .i32 => some (0xe5, true)
  | .i64 => some (0xe7, true)
  | .f16 => some (0xe8, true)
  | .f32 => some (0xe9, true)
  | .f64 => some (0xea, true)
  | .uid => some (0xe0, true)
  | .media => some (0xf3, true)
  | .mediaData => none

/-- `arrayInfo`: short-form base code and plane flag, for types with small-array support. -/
def shortCode : ArrT → Option (Nat × Bool)
  | .string => some (0x80, false)
  | .u16 => some (0x20, true)
  | .u32 => some (0x40, true)
  | .u64 => some (0x60, true)
  | .i8 => some (0x10, true)
  | .i16 => some (0x30, true)
  | .i32 => some (0x50, true)
  | .i64 => some (0x70, true)
  | .f16 => some (0x80, true)
  | .f32 => some (0x90, true)
  | .f64 => some (0xa0, true)
  | .uid => some (0x00, true)
  | _ => none

/-- `cbePlane7fTypeToArrayType` restricted to the long-form array codes (decoder `default:` arm) -/
def plane7fArray (code : Nat) : Option ArrT :=
  if code = 0x94 then some .bit
  else if code = 0x93 then some .u8
  else if code = 0xe2 then some .u16
  else if code = 0xe4 then some .u32
  else if code = 0xe6 then some .u64
  else if code = 0xe1 then some .i8
  else if code = 0xe3 then some .i16
  else if code = 0xe5 then some .i32
  else if code = 0xe7 then some .i64
  else if code = 0xe8 then some .f16
  else if code = 0xe9 then some .f32
  else if code = 0xea then some .f64
  else if code = 0xe0 then some .uid
  else if code = 0xf3 then some .media
  else none

/-- plane-7f short-array dispatch on the high nibble (decoder `switch cbeType & 0xf0`) -/
def plane7fShort (hi : Nat) : Option ArrT :=
  if hi = 0x10 then some .i8
  else if hi = 0x20 then some .u16
  else if hi = 0x30 then some .i16
  else if hi = 0x40 then some .u32
  else if hi = 0x50 then some .i32
  else if hi = 0x60 then some .u64
  else if hi = 0x70 then some .i64
  else if hi = 0x80 then some .f16
  else if hi = 0x90 then some .f32
  else if hi = 0xa0 then some .f64
  else if hi = 0x00 then some .uid
  else none

end CE.Cbe
