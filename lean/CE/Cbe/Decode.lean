import CE.Basic.Uleb
import CE.Basic.Float
import CE.Cbe.Tables
/-
  Model of cbe/decoder.go + cbe/decoder_reader.go over an in-memory byte string
  (bytes.Buffer semantics: Read returns what is there, then io.EOF).
-/
namespace CE.Cbe

inductive DecErr
  | eof             -- unexpected end of input inside a value
  | badHeader       -- first byte is not 0x81
  | badType         -- unsupported type / plane-7f type
  | tooBig          -- a ULEB128 field exceeds its maximum (or 64 bits)
  | emptyId         -- identifier length 0
  | tooLong         -- chunk length > max int
  | timeUnmodelled
  | noProgress      -- unreachable (see decodeOne_progress)
deriving DecidableEq, Repr, Inhabited

def takeN (n : Nat) (bs : Bytes) : Except DecErr (Bytes × Bytes) :=
  if n ≤ bs.length then .ok (bs.take n, bs.drop n) else .error .eof

/-- `readSmallULEB128(name, max)` -/
def readUleb (max : Nat) (bs : Bytes) : Except DecErr (Nat × Bytes) :=
  match unuleb bs with
  | .error .eof => .error .eof
  | .error .tooBig => .error .tooBig
  | .ok (v, _, r) => if v > max then .error .tooBig else .ok (v, r)

def readId (bs : Bytes) : Except DecErr (Bytes × Bytes) := do
  let (n, r) ← readUleb maxIdentifierLength bs
  if n = 0 then .error .emptyId else takeN n r

def maxInt : Nat := 2 ^ 63 - 1

/-- `decodeArrayChunks`: fuel = remaining length + 1 (every chunk header consumes a byte) -/
def decodeChunks (bits : Nat) : Nat → Bytes → Except (DecErr × List Ev) (List Ev × Bytes)
  | 0, _ => .error (.noProgress, [])
  | fuel + 1, bs =>
    match readUleb (2 ^ 64 - 1) bs with
    | .error e => .error (e, [])
    | .ok (h, r) =>
      let count := h / 2
      let more := h % 2 == 1
      if count > maxInt then .error (.tooLong, [])
      else
        let nbytes := elemsToBytes bits count % 2 ^ 64
        let chunkEv := Ev.arrayChunk count more
        if nbytes = 0 then
          if more then
            match decodeChunks bits fuel r with
            | .error (e, evs) => .error (e, chunkEv :: evs)
            | .ok (evs, r') => .ok (chunkEv :: evs, r')
          else .ok ([chunkEv], r)
        else
          match takeN nbytes r with
          | .error e => .error (e, [chunkEv])
          | .ok (d, r') =>
            if more then
              match decodeChunks bits fuel r' with
              | .error (e, evs) => .error (e, chunkEv :: Ev.arrayData d :: evs)
              | .ok (evs, r'') => .ok (chunkEv :: Ev.arrayData d :: evs, r'')
            else .ok ([chunkEv, Ev.arrayData d], r')

def decodeArray (t : ArrT) (bs : Bytes) : Except (DecErr × List Ev) (List Ev × Bytes) :=
  match decodeChunks t.elemBits (bs.length + 1) bs with
  | .error (e, evs) => .error (e, Ev.arrayBegin t :: evs)
  | .ok (evs, r) => .ok (Ev.arrayBegin t :: evs, r)

def lift {α} (x : Except DecErr α) : Except (DecErr × List Ev) α :=
  match x with | .ok a => .ok a | .error e => .error (e, [])

def floatFrom32 (s : Nat) : Ev :=
  -- NaN: signalling kind → Float64SignalingNan; quiet kind → payload-preserving widening,
  -- canonicalised (a NaN keeps only its kind on the wire to the harness)
  .float (F.canonNaN (F.widen32 s))

/-- `ReadUint` after the length field -/
def decodeVarInt (neg : Bool) (bs : Bytes) : Except DecErr (Ev × Bytes) := do
  let (n, r) ← readUleb maxBigIntBytes bs
  let (d, r') ← takeN n r
  if n ≤ 8 then .ok (if neg then Ev.negInt (leNat d) else Ev.posInt (leNat d), r')
  else .ok (Ev.bigInt (some (if neg then -(leNat d : Int) else (leNat d : Int))), r')

/-- compact_float.DecodeWithByteBuffer -/
def decodeDecimal (bs : Bytes) : Except DecErr (Ev × Bytes) :=
  match unuleb bs with
  | .error .eof => .error .eof
  | .error .tooBig => .error .tooBig
  | .ok (f, k, r) =>
    if k = 1 ∧ f = 2 then .ok (.dfloat .zero, r)
    else if k = 1 ∧ f = 3 then .ok (.dfloat .negZero, r)
    else if k = 2 ∧ f = 0 then .ok (.dfloat .nan, r)
    else if k = 2 ∧ f = 1 then .ok (.dfloat .snan, r)
    else if k = 2 ∧ f = 2 then .ok (.dfloat .inf, r)
    else if k = 2 ∧ f = 3 then .ok (.dfloat .negInf, r)
    else if f > 0x1ffffffff then .error .tooBig
    else
      let neg := f % 2 == 1
      let eneg := f / 2 % 2 == 1
      -- int32(asUint>>2): wraps at 2^31
      let emag := f / 4
      let e32 : Int := if emag < 2 ^ 31 then (emag : Int) else (emag : Int) - 2 ^ 32
      let e : Int := if eneg then -e32 else e32
      match unulebRaw r with
      | none => .error .eof
      | some (c, k2, r') =>
        -- uint64 path of the word-based ULEB decoder: ≤ 18 bytes and < 2^64; bit 63 set → big
        if k2 ≤ 18 ∧ c < 2 ^ 63 then
          .ok (.dfloat (DF.mk e (if neg then -(c : Int) else (c : Int))), r')
        else .ok (.bigDecimal (some (.val neg c e)), r')

/-- the type-code dispatch of `runMainDecodeLoop` (`switch cbeType`) -/
inductive Tok
  | decimal | posVar | negVar | posFix (k : Nat) | negFix (k : Nat) | f16 | f32 | f64 | uid
  | map | list | record | edge | node | endC | false_ | true_ | null | padding
  | shortStr (n : Nat) | str | rid | custom | plane7f | arrBit | arrU8 | localRef | time
  | small (i : Int) | bad
deriving DecidableEq, Repr

def classify (t : Nat) : Tok :=
  if t = tDecimal then .decimal
  else if t = tPosInt then .posVar
  else if t = tNegInt then .negVar
  else if t = tPosInt8 then .posFix 1
  else if t = tNegInt8 then .negFix 1
  else if t = tPosInt16 then .posFix 2
  else if t = tNegInt16 then .negFix 2
  else if t = tPosInt32 then .posFix 4
  else if t = tNegInt32 then .negFix 4
  else if t = tPosInt64 then .posFix 8
  else if t = tNegInt64 then .negFix 8
  else if t = tFloat16 then .f16
  else if t = tFloat32 then .f32
  else if t = tFloat64 then .f64
  else if t = tUID then .uid
  else if t = tMap then .map
  else if t = tList then .list
  else if t = tRecord then .record
  else if t = tEdge then .edge
  else if t = tNode then .node
  else if t = tEnd then .endC
  else if t = tFalse then .false_
  else if t = tTrue then .true_
  else if t = tNull then .null
  else if t = tPadding then .padding
  else if tString0 ≤ t ∧ t ≤ tString0 + 15 then .shortStr (t - tString0)
  else if t = tString then .str
  else if t = tRID then .rid
  else if t = tCustom then .custom
  else if t = tPlane7f then .plane7f
  else if t = tArrayBit then .arrBit
  else if t = tArrayU8 then .arrU8
  else if t = tLocalRef then .localRef
  else if t = tDate ∨ t = tTime ∨ t = tTimestamp then .time
  else if t ≤ smallIntMax then .small t          -- int8(t) in -100..100
  else if 256 - smallIntMax ≤ t then .small ((t : Int) - 256)
  else .bad

def decodeCustom (r : Bytes) : Except (DecErr × List Ev) (List Ev × Bytes) :=
  match readUleb maxCustomType r with
  | .error e => .error (e, [])
  | .ok (ct, r') =>
    match decodeChunks 8 (r'.length + 1) r' with
    | .error (e, evs) => .error (e, Ev.customBegin .customBinary ct :: evs)
    | .ok (evs, r'') => .ok (Ev.customBegin .customBinary ct :: evs, r'')

def decodeMedia (r1 : Bytes) : Except (DecErr × List Ev) (List Ev × Bytes) :=
  match readUleb maxMediaTypeLength r1 with
  | .error e => .error (e, [])
  | .ok (n, r2) =>
    match takeN n r2 with
    | .error e => .error (e, [])
    | .ok (mt, r3) =>
      match decodeChunks 8 (r3.length + 1) r3 with
      | .error (e, evs) => .error (e, Ev.mediaBegin mt :: evs)
      | .ok (evs, r4) => .ok (Ev.mediaBegin mt :: evs, r4)

/-- `decodePlane7f` -/
def decodePlane7f (r : Bytes) : Except (DecErr × List Ev) (List Ev × Bytes) :=
  match r with
  | [] => .error (.eof, [])
  | c :: r1 =>
    let ct := c.toNat
    match plane7fShort (ct / 16 * 16) with
    | some at_ =>
      lift (do
        let n := ct % 16
        let (d, r') ← takeN (n * (at_.elemBits / 8)) r1
        pure ([.array at_ n d], r'))
    | none =>
      if ct = pMarker then lift (do let (id, r') ← readId r1; pure ([.marker id], r'))
      else if ct = pRecordType then lift (do let (id, r') ← readId r1; pure ([.recordType id], r'))
      else if ct = pRemoteRef then decodeArray .remoteRef r1
      else if ct = pMedia then decodeMedia r1
      else match plane7fArray ct with
        | some at_ => decodeArray at_ r1
        | none => .error (.badType, [])

def decodeTok : Tok → Bytes → Except (DecErr × List Ev) (List Ev × Bytes)
  | .decimal, r => lift (do let (e, r') ← decodeDecimal r; pure ([e], r'))
  | .posVar, r => lift (do let (e, r') ← decodeVarInt false r; pure ([e], r'))
  | .negVar, r => lift (do let (e, r') ← decodeVarInt true r; pure ([e], r'))
  | .posFix k, r => lift (do let (d, r') ← takeN k r; pure ([.posInt (leNat d)], r'))
  | .negFix k, r => lift (do let (d, r') ← takeN k r; pure ([.negInt (leNat d)], r'))
  | .f16, r => lift (do let (d, r') ← takeN 2 r; pure ([floatFrom32 (leNat d * 65536)], r'))
  | .f32, r => lift (do let (d, r') ← takeN 4 r; pure ([floatFrom32 (leNat d)], r'))
  | .f64, r => lift (do let (d, r') ← takeN 8 r; pure ([.float (F.canonNaN (leNat d))], r'))
  | .uid, r => lift (do let (d, r') ← takeN 16 r; pure ([.uid d], r'))
  | .map, r => .ok ([.map], r)
  | .list, r => .ok ([.list], r)
  | .record, r => lift (do let (id, r') ← readId r; pure ([.record id], r'))
  | .edge, r => .ok ([.edge], r)
  | .node, r => .ok ([.node], r)
  | .endC, r => .ok ([.endContainer], r)
  | .false_, r => .ok ([.false_], r)
  | .true_, r => .ok ([.true_], r)
  | .null, r => .ok ([.null], r)
  | .padding, r => .ok ([.padding], r)
  | .shortStr n, r => lift (do let (d, r') ← takeN n r; pure ([.array .string n d], r'))
  | .str, r => decodeArray .string r
  | .rid, r => decodeArray .rid r
  | .custom, r => decodeCustom r
  | .plane7f, r => decodePlane7f r
  | .arrBit, r => decodeArray .bit r
  | .arrU8, r => decodeArray .u8 r
  | .localRef, r => lift (do let (id, r') ← readId r; pure ([.refLocal id], r'))
  | .time, _ => .error (.timeUnmodelled, [])
  | .small i, r => .ok ([.int i], r)
  | .bad, _ => .error (.badType, [])

/-- one iteration of `runMainDecodeLoop` on a non-empty input -/
def decodeOne (bs : Bytes) : Except (DecErr × List Ev) (List Ev × Bytes) :=
  match bs with
  | [] => .error (.eof, [])
  | b :: r => decodeTok (classify b.toNat) r

/-- main loop until end of input; fuel = remaining length (each iteration consumes ≥ 1 byte) -/
def decodeLoop : Nat → Bytes → List Ev × Option DecErr
  | _, [] => ([.endDoc], none)
  | 0, _ => ([], some .noProgress)
  | fuel + 1, bs =>
    match decodeOne bs with
    | .error (e, evs) => (evs, some e)
    | .ok (evs, r) =>
      let (rest, err) := decodeLoop fuel r
      (evs ++ rest, err)

/-- `Decoder.Decode`: events delivered to the receiver, and the error if any -/
def decode (bs : Bytes) : List Ev × Option DecErr :=
  match bs with
  | [] => ([.beginDoc], some .eof)
  | h :: r =>
    if h.toNat ≠ signature then ([.beginDoc], some .badHeader)
    else match readUleb (2 ^ 64 - 1) r with
      | .error e => ([.beginDoc], some e)
      | .ok (v, r') =>
        let v' := if v = 1 then 0 else v
        let (evs, err) := decodeLoop r'.length r'
        (.beginDoc :: .version v' :: evs, err)

end CE.Cbe
