import CE.Cbe.Decode
import CE.Cbe.Progress
/-
  The CBE decoder model reads a prefix code: whatever it has delivered for some input, it delivers
  the same (and possibly more) when bytes are appended.  Consequently the events delivered for a
  truncated document are a prefix of the events delivered for the whole document (C09), for ALL
  inputs and every event kind the model covers.
-/
namespace CE.Cbe

theorem unulebRaw_ext : ∀ (bs y : Bytes) (v k : Nat) (r : Bytes),
    unulebRaw bs = some (v, k, r) → unulebRaw (bs ++ y) = some (v, k, r ++ y)
  | [], y, v, k, r, h => by simp [unulebRaw] at h
  | b :: rest, y, v, k, r, h => by
    unfold unulebRaw at h
    simp only [List.cons_append]
    unfold unulebRaw
    by_cases hb : b.toNat < 128
    · simp only [hb, if_true] at h ⊢
      simp only [Option.some.injEq, Prod.mk.injEq] at h
      obtain ⟨h1, h2, h3⟩ := h
      subst h1; subst h2; subst h3; rfl
    · simp only [hb, if_false] at h ⊢
      cases hrec : unulebRaw rest with
      | none => simp [hrec] at h
      | some p =>
        obtain ⟨v', k', r'⟩ := p
        simp only [hrec, Option.some.injEq, Prod.mk.injEq] at h
        obtain ⟨h1, h2, h3⟩ := h
        rw [unulebRaw_ext rest y v' k' r' hrec]
        subst h1; subst h2; subst h3; rfl

theorem unuleb_ext (bs y : Bytes) (v k : Nat) (r : Bytes) (h : unuleb bs = .ok (v, k, r)) :
    unuleb (bs ++ y) = .ok (v, k, r ++ y) := by
  unfold unuleb at h ⊢
  cases hraw : unulebRaw bs with
  | none => simp [hraw] at h
  | some p =>
    obtain ⟨v', k', r'⟩ := p
    rw [unulebRaw_ext bs y v' k' r' hraw]
    simp only [hraw] at h
    split at h
    · rename_i hc
      simp only [Except.ok.injEq, Prod.mk.injEq] at h
      obtain ⟨h1, h2, h3⟩ := h
      subst h1; subst h2; subst h3
      simp [hc]
    · simp at h

theorem unuleb_tooBig_ext (bs y : Bytes) (h : unuleb bs = .error .tooBig) : unuleb (bs ++ y) = .error .tooBig := by
  unfold unuleb at h ⊢
  cases hraw : unulebRaw bs with
  | none => simp [hraw] at h
  | some p =>
    obtain ⟨v', k', r'⟩ := p
    rw [unulebRaw_ext bs y v' k' r' hraw]
    simp only [hraw] at h
    split at h
    · simp at h
    · rename_i hc; simp [hc]

theorem readUleb_ext (m : Nat) (bs y : Bytes) (v : Nat) (r : Bytes) (h : readUleb m bs = .ok (v, r)) :
    readUleb m (bs ++ y) = .ok (v, r ++ y) := by
  unfold readUleb at h ⊢
  cases hu : unuleb bs with
  | error e => cases e <;> simp [hu] at h
  | ok p =>
    obtain ⟨v', k', r'⟩ := p
    rw [unuleb_ext bs y v' k' r' hu]
    simp only [hu] at h ⊢
    split at h
    · simp at h
    · rename_i hc
      simp only [Except.ok.injEq, Prod.mk.injEq] at h
      obtain ⟨h1, h2⟩ := h
      subst h1; subst h2
      simp [hc]

/-- a length field that is over its maximum stays so -/
theorem readUleb_tooBig_ext (m : Nat) (bs y : Bytes) (h : readUleb m bs = .error .tooBig) :
    readUleb m (bs ++ y) = .error .tooBig := by
  unfold readUleb at h ⊢
  cases hu : unuleb bs with
  | error e =>
    cases e with
    | eof => simp [hu] at h
    | tooBig => rw [unuleb_tooBig_ext bs y hu]
  | ok p =>
    obtain ⟨v', k', r'⟩ := p
    rw [unuleb_ext bs y v' k' r' hu]
    simp only [hu] at h ⊢
    split at h
    · rename_i hc; simp [hc]
    · simp at h

theorem takeN_ext (n : Nat) (bs y d r : Bytes) (h : takeN n bs = .ok (d, r)) :
    takeN n (bs ++ y) = .ok (d, r ++ y) := by
  unfold takeN at h ⊢
  split at h
  · rename_i hle
    simp only [Except.ok.injEq, Prod.mk.injEq] at h
    obtain ⟨h1, h2⟩ := h
    subst h1; subst h2
    have hle2 : n ≤ bs.length + y.length := by omega
    simp [hle2, List.take_append_of_le_length hle, List.drop_append_of_le_length hle]
  · simp at h


abbrev Res := Except (DecErr × List Ev) (List Ev × Bytes)

/-- `r2` (the result on `x ++ y`) extends `r1` (the result on `x`): a success is the same success with
    `y` left over; an error other than "input ended" is the same error; when the input ended, what had
    been delivered until then is a prefix of what is delivered now -/
def Ext (y : Bytes) (r1 r2 : Res) : Prop :=
  match r1 with
  | .ok (evs, r) => r2 = .ok (evs, r ++ y)
  | .error (e, p) =>
    if e = .eof then (match r2 with | .ok (evs, _) => p <+: evs | .error (_, p') => p <+: p')
    else r2 = .error (e, p)

/-- the same for the field readers, which deliver no events -/
def ExtI {α} (y : Bytes) (r1 r2 : Except DecErr (α × Bytes)) : Prop :=
  match r1 with
  | .ok (a, r) => r2 = .ok (a, r ++ y)
  | .error e => e ≠ .eof → r2 = .error e

theorem extI_takeN (n : Nat) (x y : Bytes) : ExtI y (takeN n x) (takeN n (x ++ y)) := by
  unfold ExtI
  cases h : takeN n x with
  | ok p => obtain ⟨d, r⟩ := p; exact takeN_ext n x y d r h
  | error e =>
    intro hne
    unfold takeN at h; split at h <;> simp at h
    exact (hne h.symm).elim

theorem extI_readUleb (m : Nat) (x y : Bytes) : ExtI y (readUleb m x) (readUleb m (x ++ y)) := by
  unfold ExtI
  cases h : readUleb m x with
  | ok p => obtain ⟨v, r⟩ := p; exact readUleb_ext m x y v r h
  | error e =>
    intro hne
    have : e = .tooBig := by
      unfold readUleb at h
      cases hu : unuleb x with
      | error e' => cases e' <;> simp [hu] at h <;> first | exact (hne h.symm).elim | exact h.symm
      | ok p => obtain ⟨a, b, c⟩ := p; simp [hu] at h; split at h <;> simp at h; exact h.symm
    subst this
    exact readUleb_tooBig_ext m x y h

theorem extI_readId (x y : Bytes) : ExtI y (readId x) (readId (x ++ y)) := by
  have hu := extI_readUleb maxIdentifierLength x y
  unfold ExtI at hu ⊢
  unfold readId
  cases h : readUleb maxIdentifierLength x with
  | error e =>
    simp only [h, bind, Except.bind] at hu ⊢
    intro hne
    rw [hu hne]
  | ok p =>
    obtain ⟨n, r⟩ := p
    simp only [h] at hu
    simp only [hu, bind, Except.bind]
    by_cases h0 : n = 0
    · simp [h0]
    · simp only [h0, if_false]
      exact extI_takeN n r y

/-- lifting a field reader into a token decoder -/
theorem ext_lift {α} (y : Bytes) (r1 r2 : Except DecErr (α × Bytes)) (g : α → List Ev) (h : ExtI y r1 r2) :
    Ext y (lift (do let p ← r1; pure (g p.1, p.2))) (lift (do let p ← r2; pure (g p.1, p.2))) := by
  unfold ExtI at h
  unfold Ext
  cases r1 with
  | ok p =>
    obtain ⟨a, r⟩ := p
    simp only at h
    subst h
    rfl
  | error e =>
    simp only [lift, bind, Except.bind]
    by_cases he : e = .eof
    · simp only [he, if_true]
      cases r2 with
      | ok q => simp [pure, Except.pure]
      | error e' => simp
    · simp only [he, if_false]
      rw [h he]


theorem extI_decodeVarInt (neg : Bool) (x y : Bytes) : ExtI y (decodeVarInt neg x) (decodeVarInt neg (x ++ y)) := by
  have hu := extI_readUleb maxBigIntBytes x y
  unfold ExtI at hu ⊢
  unfold decodeVarInt
  cases h : readUleb maxBigIntBytes x with
  | error e =>
    simp only [h, bind, Except.bind] at hu ⊢
    intro hne
    rw [hu hne]
  | ok p =>
    obtain ⟨n, r⟩ := p
    simp only [h] at hu
    simp only [hu, bind, Except.bind]
    have ht := extI_takeN n r y
    unfold ExtI at ht
    cases h2 : takeN n r with
    | error e =>
      simp only [h2] at ht ⊢
      intro hne
      rw [ht hne]
    | ok q =>
      obtain ⟨d, r'⟩ := q
      simp only [h2] at ht
      simp only [ht]
      by_cases h8 : n ≤ 8 <;> simp [h8]

theorem extI_decodeDecimal (x y : Bytes) : ExtI y (decodeDecimal x) (decodeDecimal (x ++ y)) := by
  unfold ExtI
  unfold decodeDecimal
  cases hu : unuleb x with
  | error e =>
    cases e with
    | eof => simp
    | tooBig => simp only []; intro _; rw [unuleb_tooBig_ext x y hu]
  | ok p =>
    obtain ⟨f, k, r⟩ := p
    rw [unuleb_ext x y f k r hu]
    simp only []
    by_cases c1 : k = 1 ∧ f = 2
    · simp [c1]
    by_cases c2 : k = 1 ∧ f = 3
    · simp [c2]
    by_cases c3 : k = 2 ∧ f = 0
    · simp [c3]
    by_cases c4 : k = 2 ∧ f = 1
    · simp [c4]
    by_cases c5 : k = 2 ∧ f = 2
    · simp [c5]
    by_cases c6 : k = 2 ∧ f = 3
    · simp [c6]
    by_cases c7 : f > 0x1ffffffff
    · simp only [c1, c2, c3, c4, c5, c6, c7, if_true, if_false]; intro _; trivial
    simp only [c1, c2, c3, c4, c5, c6, c7, if_false]
    cases hraw : unulebRaw r with
    | none => simp
    | some q =>
      obtain ⟨c, k2, r2⟩ := q
      rw [unulebRaw_ext r y c k2 r2 hraw]
      simp only []
      by_cases c8 : k2 ≤ 18 ∧ c < 2 ^ 63
      · rw [if_pos c8, if_pos c8]
      · rw [if_neg c8, if_neg c8]


def consEv (ev : Ev) (r : Res) : Res :=
  match r with
  | .error (e, evs) => .error (e, ev :: evs)
  | .ok (evs, r) => .ok (ev :: evs, r)

/-- prepending an already delivered event keeps the relation -/
theorem Ext.cons (y : Bytes) (ev : Ev) (r1 r2 : Res) (h : Ext y r1 r2) : Ext y (consEv ev r1) (consEv ev r2) := by
  unfold Ext at h ⊢
  cases r1 with
  | ok p =>
    obtain ⟨evs, r⟩ := p
    simp only [consEv] at h ⊢
    subst h; rfl
  | error q =>
    obtain ⟨e, p⟩ := q
    simp only [consEv] at h ⊢
    by_cases he : e = .eof
    · simp only [he, if_true] at h ⊢
      cases r2 with
      | ok p2 => obtain ⟨evs2, r2'⟩ := p2; simp only at h ⊢; exact List.cons_prefix_cons.mpr ⟨rfl, h⟩
      | error q2 => obtain ⟨e2, p2⟩ := q2; simp only at h ⊢; exact List.cons_prefix_cons.mpr ⟨rfl, h⟩
    · simp only [he, if_false] at h ⊢
      subst h; rfl

/-- the chunk reader on an extended input, for any two sufficient amounts of fuel -/
theorem ext_decodeChunks (bits : Nat) (y : Bytes) : ∀ (f1 f2 : Nat) (x : Bytes), x.length < f1 → (x ++ y).length < f2 →
    Ext y (decodeChunks bits f1 x) (decodeChunks bits f2 (x ++ y))
  | 0, _, x, h1, _ => by omega
  | _, 0, x, _, h2 => by omega
  | f1 + 1, f2 + 1, x, h1, h2 => by
    unfold decodeChunks
    have hu := extI_readUleb (2 ^ 64 - 1) x y
    unfold ExtI at hu
    cases hr : readUleb (2 ^ 64 - 1) x with
    | error e =>
      simp only [hr] at hu ⊢
      unfold Ext
      by_cases he : e = .eof
      · simp only [he, if_true]
        split <;> simp
      · simp only [he, if_false]
        rw [hu he]
    | ok p =>
      obtain ⟨hd, r⟩ := p
      simp only [hr] at hu
      simp only [hu]
      -- the rest of the input is shorter than what was read (a header takes at least one byte)
      have hrlen : r.length < x.length := by
        unfold readUleb at hr
        cases hx : unuleb x with
        | error e => cases e <;> simp [hx] at hr
        | ok q =>
          obtain ⟨v', k', r'⟩ := q
          simp only [hx] at hr
          split at hr
          · simp at hr
          · simp only [Except.ok.injEq, Prod.mk.injEq] at hr
            obtain ⟨_, hr2⟩ := hr
            subst hr2
            unfold unuleb at hx
            cases hraw : unulebRaw x with
            | none => simp [hraw] at hx
            | some t =>
              obtain ⟨a, b, c⟩ := t
              simp only [hraw] at hx
              split at hx
              · simp only [Except.ok.injEq, Prod.mk.injEq] at hx
                obtain ⟨_, _, hc⟩ := hx
                subst hc
                have : ∀ (bs : Bytes) (v k : Nat) (r : Bytes), unulebRaw bs = some (v, k, r) → r.length < bs.length := by
                  intro bs
                  induction bs with
                  | nil => intro v k r h; simp [unulebRaw] at h
                  | cons b rest ih =>
                    intro v k r h
                    unfold unulebRaw at h
                    by_cases hb : b.toNat < 128
                    · simp [hb] at h; obtain ⟨_, _, h3⟩ := h; subst h3; simp
                    · simp [hb] at h
                      cases hrec : unulebRaw rest with
                      | none => simp [hrec] at h
                      | some t2 =>
                        obtain ⟨v2, k2, r2⟩ := t2
                        simp [hrec] at h
                        obtain ⟨_, _, h3⟩ := h
                        subst h3
                        have := ih v2 k2 r2 hrec
                        simp; omega
                exact this x a b c hraw
              · simp at hx
      by_cases hmax : hd / 2 > maxInt
      · simp only [hmax, if_true]
        unfold Ext; simp
      · simp only [hmax, if_false]
        by_cases hz : elemsToBytes bits (hd / 2) % 2 ^ 64 = 0
        · simp only [hz, if_true]
          by_cases hm : (hd % 2 == 1) = true
          · simp only [hm, if_true]
            have ih := ext_decodeChunks bits y f1 f2 r (by omega) (by simp at h2 ⊢; omega)
            have hc := Ext.cons y (Ev.arrayChunk (hd / 2) true) _ _ ih
            cases hA : decodeChunks bits f1 r <;> cases hB : decodeChunks bits f2 (r ++ y) <;> simpa [consEv, hA, hB] using hc
          · have hm' : (hd % 2 == 1) = false := by simpa using hm
            simp only [hm', Bool.false_eq_true, if_false]
            unfold Ext; simp
        · simp only [hz, if_false]
          have ht := extI_takeN (elemsToBytes bits (hd / 2) % 2 ^ 64) r y
          unfold ExtI at ht
          cases htk : takeN (elemsToBytes bits (hd / 2) % 2 ^ 64) r with
          | error e =>
            have heof : e = .eof := by unfold takeN at htk; split at htk <;> simp at htk; exact htk.symm
            subst heof
            unfold Ext
            simp only [if_true]
            -- whatever happens now, the chunk event comes first
            cases htk2 : takeN (elemsToBytes bits (hd / 2) % 2 ^ 64) (r ++ y) with
            | error e2 => simp
            | ok q =>
              obtain ⟨d, r'⟩ := q
              simp only []
              by_cases hm : (hd % 2 == 1) = true
              · simp only [hm, if_true]
                cases decodeChunks bits f2 r' with
                | error e3 => obtain ⟨a, b⟩ := e3; simp
                | ok q3 => obtain ⟨a, b⟩ := q3; simp
              · simp [hm]
          | ok q =>
            obtain ⟨d, r'⟩ := q
            simp only [htk] at ht
            simp only [ht]
            have hr'len : r'.length ≤ r.length := by
              unfold takeN at htk; split at htk <;> simp at htk
              obtain ⟨_, h2'⟩ := htk; subst h2'; simp
            by_cases hm : (hd % 2 == 1) = true
            · simp only [hm, if_true]
              have ih := ext_decodeChunks bits y f1 f2 r' (by omega) (by simp at h2 ⊢; omega)
              have hc := Ext.cons y (Ev.arrayChunk (hd / 2) true) _ _ (Ext.cons y (Ev.arrayData d) _ _ ih)
              cases hA : decodeChunks bits f1 r' <;> cases hB : decodeChunks bits f2 (r' ++ y) <;> simpa [consEv, hA, hB] using hc
            · have hm' : (hd % 2 == 1) = false := by simpa using hm
              simp only [hm', Bool.false_eq_true, if_false]
              unfold Ext; simp


theorem ext_cons_match (y : Bytes) (ev : Ev) (A B : Res) : Ext y A B →
    Ext y (match A with | .error (e, evs) => .error (e, ev :: evs) | .ok (evs, r) => .ok (ev :: evs, r))
          (match B with | .error (e, evs) => .error (e, ev :: evs) | .ok (evs, r) => .ok (ev :: evs, r)) := by
  intro h
  have hc := Ext.cons y ev A B h
  cases A <;> cases B <;> simpa [consEv] using hc

theorem ext_decodeArray (t : ArrT) (x y : Bytes) : Ext y (decodeArray t x) (decodeArray t (x ++ y)) := by
  unfold decodeArray
  exact ext_cons_match y (Ev.arrayBegin t) _ _
    (ext_decodeChunks t.elemBits y (x.length + 1) ((x ++ y).length + 1) x (by omega) (by omega))

/-- first branch of every composite reader: the field read fails -/
theorem ext_field_error (y : Bytes) (e : DecErr) (r2 : Res) (h : e ≠ .eof → r2 = .error (e, [])) :
    Ext y (.error (e, [])) r2 := by
  unfold Ext
  by_cases he : e = .eof
  · simp only [he, if_true]
    cases r2 with
    | ok q => simp
    | error q => simp
  · simp only [he, if_false]
    exact h he

theorem ext_decodeCustom (x y : Bytes) : Ext y (decodeCustom x) (decodeCustom (x ++ y)) := by
  unfold decodeCustom
  have hu := extI_readUleb maxCustomType x y
  unfold ExtI at hu
  cases hr : readUleb maxCustomType x with
  | error e =>
    simp only [hr] at hu ⊢
    apply ext_field_error
    intro he
    rw [hu he]
  | ok p =>
    obtain ⟨ct, r⟩ := p
    simp only [hr] at hu
    simp only [hu]
    exact ext_cons_match y (Ev.customBegin .customBinary ct) _ _
      (ext_decodeChunks 8 y (r.length + 1) ((r ++ y).length + 1) r (by omega) (by omega))

theorem ext_decodeMedia (x y : Bytes) : Ext y (decodeMedia x) (decodeMedia (x ++ y)) := by
  unfold decodeMedia
  have hu := extI_readUleb maxMediaTypeLength x y
  unfold ExtI at hu
  cases hr : readUleb maxMediaTypeLength x with
  | error e =>
    simp only [hr] at hu ⊢
    apply ext_field_error
    intro he
    rw [hu he]
  | ok p =>
    obtain ⟨n, r⟩ := p
    simp only [hr] at hu
    simp only [hu]
    have ht := extI_takeN n r y
    unfold ExtI at ht
    cases htk : takeN n r with
    | error e =>
      simp only [htk] at ht ⊢
      apply ext_field_error
      intro he
      rw [ht he]
    | ok q =>
      obtain ⟨mt, r3⟩ := q
      simp only [htk] at ht
      simp only [ht]
      exact ext_cons_match y (Ev.mediaBegin mt) _ _
        (ext_decodeChunks 8 y (r3.length + 1) ((r3 ++ y).length + 1) r3 (by omega) (by omega))


theorem ext_decodePlane7f (x y : Bytes) (hx : x ≠ []) : Ext y (decodePlane7f x) (decodePlane7f (x ++ y)) := by
  cases x with
  | nil => exact (hx rfl).elim
  | cons c r1 =>
    simp only [List.cons_append, decodePlane7f]
    cases hs : plane7fShort (c.toNat / 16 * 16) with
    | some at_ =>
      simp only []
      exact ext_lift y _ _ (fun d => [Ev.array at_ (c.toNat % 16) d]) (extI_takeN _ r1 y)
    | none =>
      simp only []
      by_cases h1 : c.toNat = pMarker
      · simp only [h1, if_true]
        exact ext_lift y _ _ (fun id => [Ev.marker id]) (extI_readId r1 y)
      · simp only [h1, if_false]
        by_cases h2 : c.toNat = pRecordType
        · simp only [h2, if_true]
          exact ext_lift y _ _ (fun id => [Ev.recordType id]) (extI_readId r1 y)
        · simp only [h2, if_false]
          by_cases h3 : c.toNat = pRemoteRef
          · simp only [h3, if_true]
            exact ext_decodeArray .remoteRef r1 y
          · simp only [h3, if_false]
            by_cases h4 : c.toNat = pMedia
            · simp only [h4, if_true]
              exact ext_decodeMedia r1 y
            · simp only [h4, if_false]
              cases plane7fArray c.toNat with
              | some at_ => exact ext_decodeArray at_ r1 y
              | none => unfold Ext; simp

/-- a token decoder that consumes nothing more, or fails on its type byte alone -/
theorem ext_ok (y : Bytes) (evs : List Ev) (r : Bytes) : Ext y (.ok (evs, r)) (.ok (evs, r ++ y)) := by
  unfold Ext; rfl

theorem ext_err (y : Bytes) (e : DecErr) (he : e ≠ .eof) : Ext y (.error (e, [])) (.error (e, [])) := by
  unfold Ext; simp [he]

theorem ext_decodeTok (t : Tok) (r y : Bytes) (hp : t = .plane7f → r ≠ []) :
    Ext y (decodeTok t r) (decodeTok t (r ++ y)) := by
  cases t <;> simp only [decodeTok]
  case decimal => exact ext_lift y _ _ (fun e => [e]) (extI_decodeDecimal r y)
  case posVar => exact ext_lift y _ _ (fun e => [e]) (extI_decodeVarInt false r y)
  case negVar => exact ext_lift y _ _ (fun e => [e]) (extI_decodeVarInt true r y)
  case posFix k => exact ext_lift y _ _ (fun d => [Ev.posInt (leNat d)]) (extI_takeN k r y)
  case negFix k => exact ext_lift y _ _ (fun d => [Ev.negInt (leNat d)]) (extI_takeN k r y)
  case f16 => exact ext_lift y _ _ (fun d => [floatFrom32 (leNat d * 65536)]) (extI_takeN 2 r y)
  case f32 => exact ext_lift y _ _ (fun d => [floatFrom32 (leNat d)]) (extI_takeN 4 r y)
  case f64 => exact ext_lift y _ _ (fun d => [Ev.float (F.canonNaN (leNat d))]) (extI_takeN 8 r y)
  case uid => exact ext_lift y _ _ (fun d => [Ev.uid d]) (extI_takeN 16 r y)
  case record => exact ext_lift y _ _ (fun id => [Ev.record id]) (extI_readId r y)
  case localRef => exact ext_lift y _ _ (fun id => [Ev.refLocal id]) (extI_readId r y)
  case shortStr n => exact ext_lift y _ _ (fun d => [Ev.array .string n d]) (extI_takeN n r y)
  case str => exact ext_decodeArray .string r y
  case rid => exact ext_decodeArray .rid r y
  case arrBit => exact ext_decodeArray .bit r y
  case arrU8 => exact ext_decodeArray .u8 r y
  case custom => exact ext_decodeCustom r y
  case plane7f => exact ext_decodePlane7f r y (hp rfl)
  case time => exact ext_err y _ (by decide)
  case bad => exact ext_err y _ (by decide)
  all_goals exact ext_ok y _ _


theorem ext_decodeOne (x y : Bytes) (hx : x ≠ []) : Ext y (decodeOne x) (decodeOne (x ++ y)) := by
  cases x with
  | nil => exact (hx rfl).elim
  | cons b r =>
    simp only [List.cons_append, decodeOne]
    by_cases hp : classify b.toNat = .plane7f ∧ r = []
    · obtain ⟨h1, h2⟩ := hp
      subst h2
      rw [h1]
      simp only [decodeTok, decodePlane7f]
      unfold Ext
      simp only [if_true]
      split <;> simp
    · exact ext_decodeTok _ r y (fun ht hr => hp ⟨ht, hr⟩)

/-- what a run has delivered, not counting the end-of-document event the decoder adds when the input
    is used up -/
def delivered (r : List Ev × Option DecErr) : List Ev := if r.2 = none then r.1.dropLast else r.1

theorem decodeLoop_nonempty : ∀ (f : Nat) (x : Bytes), (decodeLoop f x).2 = none → (decodeLoop f x).1 ≠ []
  | _, [], _ => by simp [decodeLoop]
  | 0, b :: r, h => by simp [decodeLoop] at h
  | f + 1, b :: r, h => by
    unfold decodeLoop at h ⊢
    cases hd : decodeOne (b :: r) with
    | error e => obtain ⟨e1, e2⟩ := e; simp [hd] at h
    | ok p =>
      obtain ⟨evs, r'⟩ := p
      simp only [hd] at h ⊢
      have := decodeLoop_nonempty f r' h
      simp [this]

/-- C09 at the decoder: whatever has been delivered for an input is a prefix of what is delivered when
    more bytes follow -/
theorem decodeLoop_prefix : ∀ (f1 f2 : Nat) (x y : Bytes), x.length ≤ f1 → (x ++ y).length ≤ f2 →
    delivered (decodeLoop f1 x) <+: (decodeLoop f2 (x ++ y)).1
  | _, _, [], y, _, _ => by simp [decodeLoop, delivered]
  | 0, _, b :: r, y, h1, _ => by simp at h1
  | _, 0, b :: r, y, _, h2 => by simp at h2
  | f1 + 1, f2 + 1, b :: r, y, h1, h2 => by
    have hext := ext_decodeOne (b :: r) y (by simp)
    unfold Ext at hext
    simp only [List.cons_append] at hext ⊢
    unfold decodeLoop
    cases hd : decodeOne (b :: r) with
    | error q =>
      obtain ⟨e, p⟩ := q
      simp only [hd] at hext ⊢
      simp only [delivered]
      by_cases he : e = .eof
      · simp only [he, if_true] at hext
        cases hd2 : decodeOne (b :: (r ++ y)) with
        | error q2 => obtain ⟨e2, p2⟩ := q2; simp only [hd2] at hext ⊢; simpa using hext
        | ok q2 =>
          obtain ⟨evs2, r2⟩ := q2
          simp only [hd2] at hext ⊢
          simp only [reduceCtorEq, if_false]
          exact List.IsPrefix.trans hext (List.prefix_append _ _)
      · simp only [he, if_false] at hext
        simp only [hext]
        simp
    | ok q =>
      obtain ⟨evs, r'⟩ := q
      simp only [hd] at hext ⊢
      simp only [hext]
      have hlen : r'.length < (b :: r).length := decodeOne_progress _ _ _ hd
      have ih := decodeLoop_prefix f1 f2 r' y (by simp at hlen h1 ⊢; omega) (by simp at hlen h2 ⊢; omega)
      simp only [delivered] at ih ⊢
      by_cases hn : (decodeLoop f1 r').2 = none
      · simp only [hn, if_true] at ih ⊢
        have hne := decodeLoop_nonempty f1 r' hn
        rw [List.dropLast_append_of_ne_nil hne]
        exact (List.prefix_append_right_inj evs).mpr ih
      · simp only [hn, if_false] at ih ⊢
        exact (List.prefix_append_right_inj evs).mpr ih


/-- the same for whole documents (header byte, version, events) -/
theorem decode_prefix (x y : Bytes) : delivered (decode x) <+: (decode (x ++ y)).1 := by
  cases x with
  | nil =>
    simp only [List.nil_append]
    unfold decode delivered
    simp only [reduceCtorEq, if_false]
    cases y with
    | nil => simp
    | cons h r =>
      simp only []
      split
      · simp
      · cases readUleb (2 ^ 64 - 1) r with
        | error e => simp
        | ok p => obtain ⟨v, r'⟩ := p; simp only []; simp
  | cons h r =>
    simp only [List.cons_append]
    unfold decode
    simp only []
    by_cases hs : h.toNat ≠ signature
    · simp [hs, delivered]
    · simp only [hs, if_false]
      have hu := extI_readUleb (2 ^ 64 - 1) r y
      unfold ExtI at hu
      cases hr : readUleb (2 ^ 64 - 1) r with
      | error e =>
        simp only [hr] at hu ⊢
        simp only [delivered, reduceCtorEq, if_false]
        cases readUleb (2 ^ 64 - 1) (r ++ y) with
        | error e2 => simp
        | ok p => obtain ⟨v, r'⟩ := p; simp only []; simp
      | ok p =>
        obtain ⟨v, r'⟩ := p
        simp only [hr] at hu
        simp only [hu]
        have hl := decodeLoop_prefix r'.length (r' ++ y).length r' y (Nat.le_refl _) (Nat.le_refl _)
        simp only [delivered] at hl ⊢
        by_cases hn : (decodeLoop r'.length r').2 = none
        · simp only [hn, if_true] at hl ⊢
          have hne := decodeLoop_nonempty _ _ hn
          have : (Ev.beginDoc :: Ev.version (if v = 1 then 0 else v) :: (decodeLoop r'.length r').1).dropLast =
              Ev.beginDoc :: Ev.version (if v = 1 then 0 else v) :: (decodeLoop r'.length r').1.dropLast := by
            cases hL : (decodeLoop r'.length r').1 with
            | nil => exact (hne hL).elim
            | cons a l => simp [List.dropLast]
          rw [this]
          exact List.cons_prefix_cons.mpr ⟨rfl, List.cons_prefix_cons.mpr ⟨rfl, hl⟩⟩
        · simp only [hn, if_false] at hl ⊢
          exact List.cons_prefix_cons.mpr ⟨rfl, List.cons_prefix_cons.mpr ⟨rfl, hl⟩⟩

/-- every cut of every document: the events delivered for the first k bytes are a prefix of the events
    delivered for the whole document -/
theorem truncation_delivers_a_prefix (doc : Bytes) (k : Nat) :
    delivered (decode (doc.take k)) <+: (decode doc).1 := by
  have := decode_prefix (doc.take k) (doc.drop k)
  rwa [List.take_append_drop] at this


/-- an error other than "input ended" is not an artefact of truncation: it is there for every
    continuation of the input -/
theorem decodeLoop_error_persists : ∀ (f1 f2 : Nat) (x y : Bytes) (e : DecErr), x.length ≤ f1 → (x ++ y).length ≤ f2 →
    (decodeLoop f1 x).2 = some e → e ≠ .eof → (decodeLoop f2 (x ++ y)).2 = some e
  | _, _, [], y, e, _, _, h, _ => by simp [decodeLoop] at h
  | 0, _, b :: r, y, e, h1, _, _, _ => by simp at h1
  | _, 0, b :: r, y, e, _, h2, _, _ => by simp at h2
  | f1 + 1, f2 + 1, b :: r, y, e, h1, h2, h, hne => by
    have hext := ext_decodeOne (b :: r) y (by simp)
    unfold Ext at hext
    simp only [List.cons_append] at hext ⊢
    unfold decodeLoop at h ⊢
    cases hd : decodeOne (b :: r) with
    | error q =>
      obtain ⟨e', p⟩ := q
      simp only [hd] at hext h
      simp only [Option.some.injEq] at h
      subst h
      simp only [hne, if_false] at hext
      simp [hext]
    | ok q =>
      obtain ⟨evs, r'⟩ := q
      simp only [hd] at hext h
      simp only [hext]
      have hlen : r'.length < (b :: r).length := decodeOne_progress _ _ _ hd
      exact decodeLoop_error_persists f1 f2 r' y e (by simp at hlen h1 ⊢; omega) (by simp at hlen h2 ⊢; omega) h hne

theorem decode_error_persists (x y : Bytes) (e : DecErr) (h : (decode x).2 = some e) (hne : e ≠ .eof) :
    (decode (x ++ y)).2 = some e := by
  cases x with
  | nil => simp [decode] at h; exact (hne h.symm).elim
  | cons hb r =>
    simp only [List.cons_append]
    unfold decode at h ⊢
    simp only [] at h ⊢
    by_cases hs : hb.toNat ≠ signature
    · rw [if_pos hs] at h ⊢; exact h
    · rw [if_neg hs] at h ⊢
      have hu := extI_readUleb (2 ^ 64 - 1) r y
      unfold ExtI at hu
      cases hr : readUleb (2 ^ 64 - 1) r with
      | error e' =>
        simp only [hr] at hu h
        simp only [Option.some.injEq] at h
        subst h
        rw [hu hne]
      | ok p =>
        obtain ⟨v, r'⟩ := p
        simp only [hr] at hu h
        simp only [hu]
        exact decodeLoop_error_persists r'.length (r' ++ y).length r' y e (Nat.le_refl _) (Nat.le_refl _) h hne

/-- cutting a document that decodes without error can only produce a clean stop between two tokens or
    an "input ended" error, never another kind of error -/
theorem truncation_error_is_eof (doc : Bytes) (k : Nat) (h : (decode doc).2 = none) :
    (decode (doc.take k)).2 = none ∨ (decode (doc.take k)).2 = some .eof := by
  cases hk : (decode (doc.take k)).2 with
  | none => exact .inl rfl
  | some e =>
    by_cases he : e = .eof
    · exact .inr (by rw [he])
    · have := decode_error_persists (doc.take k) (doc.drop k) e hk he
      rw [List.take_append_drop] at this
      rw [h] at this
      cases this

end CE.Cbe
