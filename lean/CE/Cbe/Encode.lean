import CE.Basic.Uleb
import CE.Basic.Float
import CE.Cbe.Tables
/-
  Model of cbe/encoder.go + cbe/encoder_writer.go: events → bytes.
  One Lean function per Go method; state = (arrayType, trySmallArrayHeader).
-/
namespace CE.Cbe

structure EncSt where
  arrayType : ArrT := .invalid
  trySmall : Bool := false
deriving DecidableEq, Repr, Inhabited

inductive EncErr
  | customText          -- "CBE encoder cannot encode custom text"
  | badArrayType        -- index out of range in the array tables
  | timeUnmodelled
  | bigFloatUnmodelled
deriving DecidableEq, Repr, Inhabited

def u8 (n : Nat) : UInt8 := n.toUInt8

/-- number of bytes needed for n (0 for 0): the loop in WriteTypedInt / WriteTypedBigInt -/
def byteLen (n : Nat) : Nat := if n = 0 then 0 else 1 + byteLen (n / 256)
decreasing_by omega

def encPosInt (v : Nat) : Bytes :=
  if v ≤ smallIntMax then [u8 v]
  else if v ≤ 0xff then [u8 tPosInt8, u8 v]
  else if v ≤ 0xffff then u8 tPosInt16 :: leBytes 2 v
  else if v ≤ 0xffffffff then u8 tPosInt32 :: leBytes 4 v
  else if v < 2 ^ 48 then u8 tPosInt :: u8 (byteLen v) :: leBytes (byteLen v) v
  else u8 tPosInt64 :: leBytes 8 v

def encNegInt (v : Nat) : Bytes :=
  if v = 0 then [u8 tNegInt8, 0]
  else if v ≤ smallIntMax then [u8 (256 - v)]
  else if v ≤ 0xff then [u8 tNegInt8, u8 v]
  else if v ≤ 0xffff then u8 tNegInt16 :: leBytes 2 v
  else if v ≤ 0xffffffff then u8 tNegInt32 :: leBytes 4 v
  else if v < 2 ^ 48 then u8 tNegInt :: u8 (byteLen v) :: leBytes (byteLen v) v
  else u8 tNegInt64 :: leBytes 8 v

/-- `OnInt` : int64 -/
def encInt (i : Int) : Bytes :=
  if 0 ≤ i then encPosInt i.toNat else encNegInt ((-i).toNat % 2 ^ 64)

def encTypedBig (ty : Nat) (mag : Nat) : Bytes :=
  u8 ty :: (uleb (byteLen mag) ++ leBytes (byteLen mag) mag)

/-- `OnBigInt`; second component = the value the caller's *big.Int holds afterwards (C18). -/
def encBigInt (i : Int) : Bytes × Int :=
  if i < 0 then
    if -(2:Int) ^ 63 ≤ i then (encNegInt (-i).toNat, i)
    else if (-i).toNat < 2 ^ 64 then (encNegInt (-i).toNat, i)
    else (encTypedBig tNegInt (-i).toNat, i)
  else
    if i.toNat < 2 ^ 64 then (encPosInt i.toNat, i)
    else (encTypedBig tPosInt i.toNat, i)

def encNaN (signaling : Bool) : Bytes := [u8 tDecimal, if signaling then 0x81 else 0x80, 0]
def encInf (neg : Bool) : Bytes := [u8 tDecimal, if neg then 0x83 else 0x82, 0]
def encZero (neg : Bool) : Bytes := if neg then [u8 tNegInt8, 0] else [0]

/-- `OnFloat` on a binary64 bit pattern -/
def encFloat (b : Nat) : Bytes :=
  if F.isInf64 b then encInf (F.sign64 b == 1)
  else if F.isNaN64 b then encNaN (!F.quiet64 b)
  else if F.isZero64 b then encZero (F.sign64 b == 1)
  else match F.exactF32? b with
    | some s =>
      if s % 65536 = 0 then u8 tFloat16 :: leBytes 2 (s / 65536)
      else u8 tFloat32 :: leBytes 4 s
    | none => u8 tFloat64 :: leBytes 8 b

/-- compact_float.EncodeToBytes for an ordinary DFloat (exp int32, coeff int64, coeff ≠ 0) -/
def encDFloatVal (e c : Int) : Bytes :=
  let ea := e.natAbs
  let field := ea * 4 + (if e < 0 then 2 else 0) + (if c < 0 then 1 else 0)
  uleb (field % 2 ^ 64) ++ uleb (c.natAbs % 2 ^ 64)

def encDFloat : DF → Bytes
  | .negZero => encZero true
  | .zero => encZero false
  | .inf => encInf false
  | .negInf => encInf true
  | .nan => encNaN false
  | .snan => encNaN true
  | .val e c => if c = 0 then encZero false else u8 tDecimal :: encDFloatVal e c

/-- big ULEB128 (`uleb128.EncodeToBytes`) coincides with `uleb` on naturals of any size -/
def encBigDec : BigDec → Bytes
  | .val neg c e =>
    if c = 0 then encZero neg        -- after the fix: the shortest zero form, as for every other zero
    else
      let field := e.natAbs * 4 + (if e < 0 then 2 else 0) + (if neg then 1 else 0)
      u8 tDecimal :: (uleb (field % 2 ^ 64) ++ uleb c)
  | .inf neg => encInf neg
  | .nan => encNaN false
  | .snan => encNaN true

def encId (id : Bytes) : Bytes := uleb id.length ++ id

def chunkHeader (count : Nat) (more : Bool) : Bytes :=
  uleb ((count * 2 % 2 ^ 64) ||| (if more then 1 else 0))

def arrayHeader (t : ArrT) : Except EncErr Bytes :=
  match arrayCode t with
  | none => .error .badArrayType
  | some (c, true) => .ok [u8 tPlane7f, u8 c]
  | some (c, false) => .ok [u8 c]

/-- `writeSmallArrayHeader` -/
def smallHeader (t : ArrT) (count : Nat) : Option Bytes :=
  if count > maxSmallArrayLength then none
  else match shortCode t with
    | none => none
    | some (c, true) => some [u8 tPlane7f, u8 (c ||| count)]
    | some (c, false) => some [u8 (c ||| count)]

def encArrayWhole (t : ArrT) (count : Nat) (data : Bytes) : Except EncErr Bytes :=
  match smallHeader t count with
  | some h => .ok (h ++ data)
  | none => do
    let h ← arrayHeader t
    .ok (h ++ chunkHeader count false ++ data)

def encMediaBegin (mt : Bytes) : Bytes :=
  [u8 tPlane7f, u8 pMedia] ++ uleb mt.length ++ mt

def encodeEv (st : EncSt) : Ev → Except EncErr (EncSt × Bytes)
  | .beginDoc => .ok (st, [u8 signature])
  | .endDoc =>
    if st.trySmall then do
      let h ← arrayHeader st.arrayType
      .ok (st, h)
    else .ok (st, [])
  | .version v => .ok (st, uleb v)
  | .padding => .ok (st, [u8 tPadding])
  | .comment _ _ => .ok (st, [])
  | .null => .ok (st, [u8 tNull])
  | .bool b => .ok (st, [u8 (if b then tTrue else tFalse)])
  | .true_ => .ok (st, [u8 tTrue])
  | .false_ => .ok (st, [u8 tFalse])
  | .posInt n => .ok (st, encPosInt n)
  | .negInt n => .ok (st, encNegInt n)
  | .int i => .ok (st, encInt i)
  | .bigInt none => .ok (st, [u8 tNull])
  | .bigInt (some i) => .ok (st, (encBigInt i).1)
  | .float b => .ok (st, encFloat b)
  | .bigFloat none => .ok (st, [u8 tNull])
  | .bigFloat (some _) => .error .bigFloatUnmodelled
  | .dfloat d => .ok (st, encDFloat d)
  | .bigDecimal none => .ok (st, [u8 tNull])
  | .bigDecimal (some d) => .ok (st, encBigDec d)
  | .uid b => .ok (st, u8 tUID :: b)
  | .nan s => .ok (st, encNaN s)
  | .time _ => .error .timeUnmodelled
  | .list => .ok (st, [u8 tList])
  | .map => .ok (st, [u8 tMap])
  | .recordType id => .ok (st, [u8 tPlane7f, u8 pRecordType] ++ encId id)
  | .record id => .ok (st, u8 tRecord :: encId id)
  | .edge => .ok (st, [u8 tEdge])
  | .node => .ok (st, [u8 tNode])
  | .endContainer => .ok (st, [u8 tEnd])
  | .marker id => .ok (st, [u8 tPlane7f, u8 pMarker] ++ encId id)
  | .refLocal id => .ok (st, u8 tLocalRef :: encId id)
  | .array t c d => do .ok (st, ← encArrayWhole t c d)
  | .stringlike t s => do .ok (st, ← encArrayWhole t s.length s)
  | .media mt d =>
    .ok ({ arrayType := .media, trySmall := false }, encMediaBegin mt ++ chunkHeader d.length false ++ d)
  | .customBinary ty d => .ok (st, u8 tCustom :: (uleb ty ++ chunkHeader d.length false ++ d))
  | .customText _ _ => .error .customText
  | .arrayBegin t => .ok ({ arrayType := t, trySmall := true }, [])
  | .mediaBegin mt => .ok ({ arrayType := .media, trySmall := false }, encMediaBegin mt)
  | .customBegin _ ty => .ok ({ arrayType := .customBinary, trySmall := false }, u8 tCustom :: uleb ty)
  | .arrayChunk n more =>
    let st' := { st with trySmall := false }
    if st.trySmall then
      match (if more then none else smallHeader st.arrayType n) with
      | some h => .ok (st', h)
      | none => do
        let h ← arrayHeader st.arrayType
        .ok (st', h ++ chunkHeader n more)
    else .ok (st', chunkHeader n more)
  | .arrayData d => .ok (st, d)

/-- whole stream; on error returns the bytes written so far -/
def encodeFrom (st : EncSt) : List Ev → Bytes × Option EncErr × EncSt
  | [] => ([], none, st)
  | e :: es =>
    match encodeEv st e with
    | .error err => ([], some err, st)
    | .ok (st', bs) =>
      let (r, err, st'') := encodeFrom st' es
      (bs ++ r, err, st'')

def encode (evs : List Ev) : Bytes × Option EncErr := let r := encodeFrom {} evs; (r.1, r.2.1)

end CE.Cbe
