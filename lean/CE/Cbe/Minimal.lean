import CE.Cbe.RoundTrip
/-
  C22: every encoding the CBE format offers for a value (independent of the encoder's
  `switch`), and the minimal length among them.
-/
namespace CE.Cbe

/-- lengths of all encodings the format offers for the non-negative integer n < 2^64 -/
def posFormLens (n : Nat) : List Nat :=
  (if n ≤ 100 then [1] else []) ++        -- small int
  (if n < 2 ^ 8 then [2] else []) ++      -- type + 8 bits
  (if n < 2 ^ 16 then [3] else []) ++
  (if n < 2 ^ 32 then [5] else []) ++
  [9] ++                                  -- 64 bit, always available below 2^64
  [2 + byteLen n]                         -- variable length: type, length byte, bytes

/-- negative integer of magnitude n (n = 0 is negative zero, which has no small-int form) -/
def negFormLens (n : Nat) : List Nat :=
  (if 1 ≤ n ∧ n ≤ 100 then [1] else []) ++
  (if n < 2 ^ 8 then [2] else []) ++
  (if n < 2 ^ 16 then [3] else []) ++
  (if n < 2 ^ 32 then [5] else []) ++
  [9] ++ [2 + byteLen n]

def listMin : List Nat → Nat
  | [] => 0
  | [x] => x
  | x :: xs => min x (listMin xs)

theorem byteLen_ge (n k : Nat) (h : 256 ^ k ≤ n) : k + 1 ≤ byteLen n := by
  induction k generalizing n with
  | zero => unfold byteLen; have : n ≠ 0 := by simp at h; omega
            simp [this]
  | succ k ih =>
    unfold byteLen
    have hn : n ≠ 0 := by
      have : 0 < 256 ^ (k + 1) := Nat.pow_pos (by decide)
      omega
    simp only [hn, if_false]
    have : 256 ^ k ≤ n / 256 := by
      rw [Nat.pow_succ] at h
      exact (Nat.le_div_iff_mul_le (by decide)).mpr h
    have := ih (n / 256) this
    omega

theorem encPosInt_length (n : Nat) :
    (encPosInt n).length =
      if n ≤ 100 then 1 else if n ≤ 0xff then 2 else if n ≤ 0xffff then 3 else if n ≤ 0xffffffff then 5
      else if n < 2 ^ 48 then 2 + byteLen n else 9 := by
  unfold encPosInt
  simp only [smallIntMax]
  repeat' split
  all_goals (simp; try omega)

theorem encNegInt_length (n : Nat) :
    (encNegInt n).length =
      if n = 0 then 2 else if n ≤ 100 then 1 else if n ≤ 0xff then 2 else if n ≤ 0xffff then 3
      else if n ≤ 0xffffffff then 5 else if n < 2 ^ 48 then 2 + byteLen n else 9 := by
  unfold encNegInt
  simp only [smallIntMax]
  repeat' split
  all_goals (simp; try omega)

end CE.Cbe

namespace CE.Cbe

/-- number of trailing zero bits of a positive number (fuel-bounded) -/
def trailingZeros : Nat → Nat → Nat
  | 0, _ => 0
  | f + 1, n => if n % 2 = 0 ∧ n ≠ 0 then 1 + trailingZeros f (n / 2) else 0

/-- Is the finite non-zero binary64 pattern exactly representable with `p` significant bits
    and binary32's exponent range?  (p = 24: binary32; p = 8: bfloat16.)  Stated on the value
    m·2^e itself: number of significant bits and position of the lowest set bit. -/
def fitsNarrow (p : Nat) (b : Nat) : Bool :=
  let e := F.exp64 b
  let m := F.mant64 b
  if e = 0 ∨ e = 2047 then false
  else
    let M := 2 ^ 52 + m
    let tz := trailingZeros 53 M
    let L := 53 - tz                      -- significant bits
    let top : Int := (e : Int) - 1023     -- exponent of the leading bit
    let low : Int := top - (L - 1 : Nat)  -- exponent of the lowest set bit
    top ≤ 127 && (if top ≥ -126 then L ≤ p else low ≥ -126 - ((p : Int) - 1))

/-- minimal encoded length of one scalar/array event, from the format's offers -/
def minLen : Ev → Option Nat
  | .posInt n => some (listMin (posFormLens n))
  | .negInt n => some (listMin (negFormLens n))
  | .int i => some (if 0 ≤ i then listMin (posFormLens i.toNat) else listMin (negFormLens (-i).toNat))
  | .bigInt (some i) =>
    if i.natAbs < 2 ^ 64 then
      some (if 0 ≤ i then listMin (posFormLens i.toNat) else listMin (negFormLens i.natAbs))
    else some (1 + ulebLen (byteLen i.natAbs) + byteLen i.natAbs)
  | .float b =>
    if F.isNaN64 b ∨ F.isInf64 b then some 3
    else if F.isZero64 b then some (if F.sign64 b = 1 then 2 else 1)
    else if fitsNarrow 8 b then some 3
    else if fitsNarrow 24 b then some 5
    else some 9
  | .array t c d =>
    let hasShort : Bool := match t with
      | .string | .u16 | .u32 | .u64 | .i8 | .i16 | .i32 | .i64 | .f16 | .f32 | .f64 | .uid => true
      | _ => false
    let plane : Bool := match t with
      | .string | .rid | .customText | .customBinary | .bit | .u8 => false
      | _ => true
    some (d.length + (if plane then 2 else 1) + (if c ≤ 15 && hasShort then 0 else ulebLen (c * 2)))
  | .stringlike t d =>
    let hasShort : Bool := match t with | .string => true | _ => false
    let plane : Bool := match t with | .remoteRef => true | _ => false
    some (d.length + (if plane then 2 else 1) + (if d.length ≤ 15 && hasShort then 0 else ulebLen (d.length * 2)))
  | _ => none

end CE.Cbe
