import CE.Cbe.Cost
/-
  The reader's buffer is paid for by bytes that arrived, never by bytes that were announced.
-/
namespace CE.Cbe.Cost

/-- the invariant of the reader's buffer -/
structure Inv (s : RS) : Prop where
  a : s.alloc + 2 * startSize ≤ 2 * s.len
  b : s.len ≤ max startSize (2 * s.consumed)
  d : startSize ≤ s.len

theorem Inv.init : Inv RS.init := by
  constructor <;> simp [RS.init, startSize]

theorem growTo_eq (count len : Nat) (h : len < count) : growTo count len = 2 * len := by
  unfold growTo
  rw [if_neg (by omega)]

theorem readLoop_inv (count : Nat) : ∀ (fuel filled : Nat) (s : RS) (remaining : Nat) (sched : List Nat),
    Inv s → filled ≤ s.consumed →
    Inv (readLoop count fuel filled s remaining sched).s ∧
    s.consumed ≤ (readLoop count fuel filled s remaining sched).s.consumed ∧
    (readLoop count fuel filled s remaining sched).s.consumed + (readLoop count fuel filled s remaining sched).remaining = s.consumed + remaining
  | 0, filled, s, remaining, sched, hi, hc => by simp [readLoop, hi]
  | fuel + 1, filled, s, remaining, sched, hi, hc => by
    unfold readLoop
    by_cases h1 : count ≤ filled
    · simp [h1, hi]
    · rw [if_neg h1]
      -- the state after the (possible) growth still satisfies the invariant
      have hs1 : ∀ s1 : RS, s1 = (if filled = s.len then { s with len := growTo count s.len, alloc := s.alloc + growTo count s.len } else s) →
          Inv s1 ∧ s1.consumed = s.consumed := by
        intro s1 he
        by_cases hg : filled = s.len
        · rw [if_pos hg] at he
          have hlt : s.len < count := by omega
          have hgt := growTo_eq count s.len hlt
          subst he
          refine ⟨⟨?_, ?_, ?_⟩, rfl⟩
          · simp only [hgt]; have := hi.a; omega
          · simp only [hgt]; have := hi.d; omega
          · simp only [hgt]; have := hi.d; omega
        · rw [if_neg hg] at he; subst he; exact ⟨hi, rfl⟩
      generalize hs1def : (if filled = s.len then ({ s with len := growTo count s.len, alloc := s.alloc + growTo count s.len } : RS) else s) = s1
      obtain ⟨hi1, hc1⟩ := hs1 s1 hs1def.symm
      simp only []
      by_cases hr : remaining = 0
      · rw [if_pos hr]; simp [hi1, hc1, hr]
      · rw [if_neg hr]
        have ih := readLoop_inv count fuel
          (filled + min (min (max 1 (sched.headD 1)) (min s1.len count - filled)) remaining)
          { s1 with consumed := s1.consumed + min (min (max 1 (sched.headD 1)) (min s1.len count - filled)) remaining }
          (remaining - min (min (max 1 (sched.headD 1)) (min s1.len count - filled)) remaining) sched.tail
          ⟨by simpa using hi1.a, by have := hi1.b; simp only []; omega, by simpa using hi1.d⟩
          (by simp only []; omega)
        obtain ⟨i1, i2, i3⟩ := ih
        refine ⟨i1, ?_, ?_⟩
        · simp only [] at i2; omega
        · simp only [] at i3; omega

theorem readInto_inv (count : Nat) (s : RS) (remaining : Nat) (sched : List Nat) (hi : Inv s) :
    Inv (readInto count s remaining sched).s ∧
    (readInto count s remaining sched).s.consumed + (readInto count s remaining sched).remaining = s.consumed + remaining := by
  obtain ⟨i1, _, i3⟩ := readLoop_inv count count 0 s remaining sched hi (Nat.zero_le _)
  exact ⟨i1, i3⟩

theorem readMany_inv : ∀ (counts : List Nat) (s : RS) (remaining : Nat) (sched : List Nat),
    Inv s → Inv (readMany counts s remaining sched) ∧
    (readMany counts s remaining sched).consumed ≤ s.consumed + remaining
  | [], s, remaining, sched, hi => by simp [readMany, hi]
  | c :: cs, s, remaining, sched, hi => by
    unfold readMany
    obtain ⟨i1, i3⟩ := readInto_inv c s remaining sched hi
    simp only []
    by_cases hok : (readInto c s remaining sched).ok = true
    · rw [if_pos hok]
      obtain ⟨j1, j2⟩ := readMany_inv cs _ (readInto c s remaining sched).remaining (readInto c s remaining sched).sched i1
      exact ⟨j1, by omega⟩
    · rw [if_neg hok]
      exact ⟨i1, by omega⟩

/-- the bound itself: what the buffer cost so far is at most four times what has arrived -/
theorem Inv.alloc_le (s : RS) (h : Inv s) : s.alloc ≤ 4 * s.consumed ∧ s.len ≤ max startSize (2 * s.consumed) := by
  have ha := h.a; have hb := h.b; have hd := h.d
  refine ⟨?_, hb⟩
  by_cases hc : startSize ≤ 2 * s.consumed
  · have : s.len ≤ 2 * s.consumed := by omega
    omega
  · have : s.len ≤ startSize := by omega
    omega

end CE.Cbe.Cost
