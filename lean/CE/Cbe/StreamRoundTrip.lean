import CE.Cbe.RoundTrip
import CE.Basic.FloatProofs
import CE.Cbe.Minimal
import CE.Cbe.Progress
import CE.Canon
/-
  Stream-level CBE round trip for the structural fragment of the event alphabet: containers,
  Booleans, null, padding, comments, integers of every width and sign (all three integer event
  forms), big integers up to 8192 bits, binary floats of every kind except doubles in the float32
  subnormal range, decimal floats and big decimals (exponent within int32), identifiers (markers, references, records, record types), UIDs, strings and resource
  identifiers of any length and typed arrays of byte-multiple elements sent whole (short form
  and chunk-header form) — streams of any length and
  nesting.  What is NOT in the fragment: float32-subnormal doubles, times,
  bit arrays, media, custom types and arrays sent in several chunks (their per-event behaviour is tied by the CBE.ENC / CBE.DEC correspondence and
  the round-trip oracle of `bin/check C01`).
-/
namespace CE.Cbe

open CE.F in
/-- floats whose narrowing (if any) stays in the float32 normal range -/
def floatOK (b : Nat) : Bool :=
  decide (b < 2 ^ 64) && !(decide (874 ≤ exp64 b) && decide (exp64 b < 897) && (exactF32? b).isSome)

open CE.F in
def renormFloat (b : Nat) : List Ev :=
  if isInf64 b then [.dfloat (if sign64 b == 1 then .negInf else .inf)]
  else if isNaN64 b then [.dfloat (if quiet64 b then .nan else .snan)]
  else if isZero64 b then (if sign64 b == 1 then [.negInt 0] else [.int 0])
  else [.float b]


/-- decimal floats within the ranges of their Go types (exponent int32, coefficient int64) -/
def dfOK : DF → Bool
  | .val e c => decide (e.natAbs < 2 ^ 31) && decide (c.natAbs < 2 ^ 63)
  | _ => true

def renormDF : DF → List Ev
  | .zero => [.int 0]
  | .negZero => [.negInt 0]
  | .val e c => if c = 0 then [.int 0] else [.dfloat (.val e c)]
  | d => [.dfloat d]

/-- big decimals: any coefficient, exponent within int32 -/
def bdOK : BigDec → Bool
  | .val _ _ e => decide (e.natAbs < 2 ^ 31)
  | _ => true

def renormBD : BigDec → List Ev
  | .val neg c e =>
    if c = 0 then (if neg then [.negInt 0] else [.int 0])
    else if c < 2 ^ 63 then [.dfloat (.val e (if neg then -(c : Int) else c))]
    else [.bigDecimal (some (.val neg c e))]
  | .inf neg => [.dfloat (if neg then .negInf else .inf)]
  | .nan => [.dfloat .nan]
  | .snan => [.dfloat .snan]

/-- typed arrays whose elements are whole bytes -/
def typedArr : ArrT → Bool
  | .u8 | .u16 | .u32 | .u64 | .i8 | .i16 | .i32 | .i64 | .f16 | .f32 | .f64 | .uid => true
  | _ => false

/-- the events of the fragment, with the side conditions the encoder's callers guarantee -/
def simple : Ev → Bool
  | .null | .true_ | .false_ | .bool _ | .padding | .comment _ _ | .bigInt none
  | .list | .map | .edge | .node | .endContainer => true
  | .posInt n | .negInt n => decide (n < 2 ^ 64)
  | .int i => decide (-(2 : Int) ^ 63 ≤ i ∧ i < 2 ^ 63)
  | .float b => floatOK b
  | .dfloat d => dfOK d
  | .bigDecimal none => true
  | .bigDecimal (some d) => bdOK d
  | .bigInt (some i) => decide (i.natAbs < 2 ^ 8192)
  | .marker id | .refLocal id | .record id | .recordType id =>
    decide (0 < id.length ∧ id.length ≤ maxIdentifierLength)
  | .uid b => decide (b.length = 16)
  | .stringlike t s => (t == .string || t == .rid) && decide (s.length < 2 ^ 61)
  | .array t c d => typedArr t && decide (d.length = c * (t.elemBits / 8)) && decide (c < 2 ^ 56)
  | _ => false

/-- what the decoder emits for the encoding of a fragment event -/
def renorm : Ev → List Ev
  | .comment _ _ => []
  | .bool b => [if b then .true_ else .false_]
  | .bigInt none => [.null]
  | .bigInt (some i) =>
    if i.natAbs < 2 ^ 64 then (if 0 ≤ i then [renormPos i.natAbs] else [renormNeg i.natAbs]) else [.bigInt (some i)]
  | .float b => renormFloat b
  | .dfloat d => renormDF d
  | .bigDecimal none => [.null]
  | .bigDecimal (some d) => renormBD d
  | .posInt n => [renormPos n]
  | .negInt n => [renormNeg n]
  | .int i => if 0 ≤ i then [renormPos i.toNat] else [renormNeg (-i).toNat]
  | .stringlike t s =>
    if t = .string ∧ s.length ≤ maxSmallArrayLength then [.array .string s.length s]
    else if s.length = 0 then [.arrayBegin t, .arrayChunk 0 false]
    else [.arrayBegin t, .arrayChunk s.length false, .arrayData s]
  | .array t c d =>
    if (shortCode t).isSome = true ∧ c ≤ maxSmallArrayLength then [.array t c d]
    else if c = 0 then [.arrayBegin t, .arrayChunk 0 false]
    else [.arrayBegin t, .arrayChunk c false, .arrayData d]
  | e => [e]

theorem readId_encId (id rest : Bytes) (h0 : 0 < id.length) (h1 : id.length ≤ maxIdentifierLength) :
    readId (encId id ++ rest) = .ok (id, rest) := by
  unfold readId encId readUleb
  have hlt : id.length < 2 ^ 64 := by simp [maxIdentifierLength] at h1; omega
  rw [List.append_assoc, unuleb_uleb id.length hlt (id ++ rest)]
  have : ¬ id.length > maxIdentifierLength := by omega
  simp only [this, if_false, bind, Except.bind]
  have hne : ¬ id.length = 0 := by omega
  simp only [hne, if_false]
  exact takeN_append id rest


/-- the bytes the encoder writes for a fragment event (its state is not involved) -/
theorem encodeEv_simple (st : EncSt) (e : Ev) (h : simple e = true) :
    ∃ bs, encodeEv st e = .ok (st, bs) := by
  cases e
  case stringlike t s =>
    simp only [simple, Bool.and_eq_true, Bool.or_eq_true, beq_iff_eq, decide_eq_true_eq] at h
    simp only [encodeEv, bind, Except.bind, encArrayWhole]
    cases hsm : smallHeader t s.length with
    | some hd => exact ⟨_, rfl⟩
    | none => rcases h.1 with rfl | rfl <;> exact ⟨_, rfl⟩
  case bigInt o => cases o <;> exact ⟨_, rfl⟩
  case bigDecimal o => cases o <;> exact ⟨_, rfl⟩
  case dfloat d => exact ⟨_, rfl⟩
  case array t c d =>
    simp only [simple, Bool.and_eq_true, decide_eq_true_eq] at h
    simp only [encodeEv, bind, Except.bind, encArrayWhole]
    cases hsm : smallHeader t c with
    | some hd => exact ⟨_, rfl⟩
    | none => cases t <;> simp [typedArr] at h <;> exact ⟨_, rfl⟩
  all_goals (simp [simple] at h <;> first
    | exact ⟨_, rfl⟩
    | (rename_i o; cases o <;> simp [simple] at h; exact ⟨_, rfl⟩))

theorem decodeChunks_single8 (n : Nat) (hn : n < 2 ^ 61) (d rest : Bytes) (hd : d.length = n) (fuel : Nat) :
    decodeChunks 8 (fuel + 1) (chunkHeader n false ++ (d ++ rest)) =
      .ok (if n = 0 then [Ev.arrayChunk 0 false] else [Ev.arrayChunk n false, Ev.arrayData d], rest) := by
  unfold decodeChunks chunkHeader
  have h2 : n * 2 % 2 ^ 64 = n * 2 := Nat.mod_eq_of_lt (by omega)
  simp only [Bool.false_eq_true, if_false, Nat.or_zero, h2]
  have hu : readUleb (2 ^ 64 - 1) (uleb (n * 2) ++ (d ++ rest)) = .ok (n * 2, d ++ rest) := by
    unfold readUleb
    rw [unuleb_uleb (n * 2) (by omega)]
    have : ¬ n * 2 > 2 ^ 64 - 1 := by omega
    simp [this]
  simp only [hu]
  have hc : n * 2 / 2 = n := by omega
  have hm : (n * 2 % 2 == 1) = false := by simp
  have hmax : ¬ n > maxInt := by simp [maxInt]; omega
  have hb : elemsToBytes 8 n % 2 ^ 64 = n := by
    unfold elemsToBytes
    have : n * 8 % 2 ^ 64 = n * 8 := Nat.mod_eq_of_lt (by omega)
    simp [this]
    omega
  simp only [hc, hm, hmax, if_false, hb]
  by_cases h0 : n = 0
  · subst h0
    have : d = [] := List.eq_nil_of_length_eq_zero hd
    subst this
    simp
  · simp only [h0, if_false]
    have := takeN_append d rest
    rw [hd] at this
    simp [this]


/-- the short-string type byte: 0x80 | n = 0x80 + n for n ≤ 15, and it classifies as a short string -/
theorem short_code : ∀ n : Fin 16, (u8 (0x80 ||| n.val)).toNat = 0x80 + n.val ∧ classify (0x80 + n.val) = .shortStr n.val := by
  decide +kernel

/-- a magnitude of 65 .. 8192 bits written in the typed-length form is read back as a big integer -/
theorem decodeVarInt_big (neg : Bool) (mag : Nat) (h1 : 2 ^ 64 ≤ mag) (h2 : mag < 2 ^ 8192) (rest : Bytes) :
    decodeVarInt neg (uleb (byteLen mag) ++ (leBytes (byteLen mag) mag ++ rest)) =
      .ok (Ev.bigInt (some (if neg then -(mag : Int) else (mag : Int))), rest) := by
  have hL9 : 9 ≤ byteLen mag := byteLen_ge mag 8 (by simpa using h1)
  have hL : byteLen mag ≤ 1024 := byteLen_le mag 1024 (by
    have : (256 : Nat) ^ 1024 = 2 ^ 8192 := by rw [show (256 : Nat) = 2 ^ 8 by rfl, ← Nat.pow_mul]
    omega)
  unfold decodeVarInt readUleb
  rw [unuleb_uleb (byteLen mag) (by omega)]
  have : ¬ byteLen mag > maxBigIntBytes := by simp [maxBigIntBytes]; omega
  simp only [this, if_false, bind, Except.bind, takeN_leBytes, leNat_leBytes_byteLen]
  have h8 : ¬ byteLen mag ≤ 8 := by omega
  simp [h8]


theorem decodeChunks_single (w n : Nat) (hw : 0 < w) (hw16 : w ≤ 16) (hn : n < 2 ^ 56) (d rest : Bytes)
    (hd : d.length = n * w) (fuel : Nat) :
    decodeChunks (8 * w) (fuel + 1) (chunkHeader n false ++ (d ++ rest)) =
      .ok (if n = 0 then [Ev.arrayChunk 0 false] else [Ev.arrayChunk n false, Ev.arrayData d], rest) := by
  unfold decodeChunks chunkHeader
  have h2 : n * 2 % 2 ^ 64 = n * 2 := Nat.mod_eq_of_lt (by omega)
  simp only [Bool.false_eq_true, if_false, Nat.or_zero, h2]
  have hu : readUleb (2 ^ 64 - 1) (uleb (n * 2) ++ (d ++ rest)) = .ok (n * 2, d ++ rest) := by
    unfold readUleb
    rw [unuleb_uleb (n * 2) (by omega)]
    have : ¬ n * 2 > 2 ^ 64 - 1 := by omega
    simp [this]
  simp only [hu]
  have hc : n * 2 / 2 = n := by omega
  have hm : (n * 2 % 2 == 1) = false := by simp
  have hmax : ¬ n > maxInt := by simp [maxInt]; omega
  have hnw : n * w < 2 ^ 60 := by
    calc n * w ≤ n * 16 := Nat.mul_le_mul_left n hw16
      _ < 2 ^ 60 := by omega
  have hb : elemsToBytes (8 * w) n % 2 ^ 64 = n * w := by
    unfold elemsToBytes
    have e1 : n * (8 * w) = (n * w) * 8 := by rw [Nat.mul_comm 8 w, Nat.mul_assoc]
    have : n * (8 * w) % 2 ^ 64 = (n * w) * 8 := by rw [e1]; exact Nat.mod_eq_of_lt (by omega)
    have h81 : ¬ (8 * w = 1 ∧ n % 8 ≠ 0) := by omega
    simp only [this, h81, if_false]
    omega
  simp only [hc, hm, hmax, if_false, hb]
  by_cases h0 : n = 0
  · subst h0
    have : d = [] := List.eq_nil_of_length_eq_zero (by simpa using hd)
    subst this
    simp
  · have hne : ¬ n * w = 0 := by
      intro h; rcases Nat.mul_eq_zero.mp h with h | h <;> omega
    simp only [h0, hne, if_false]
    have := takeN_append d rest
    rw [hd] at this
    simp [this]


/-- short form: type byte = code | count, count ≤ 15 -/
theorem short_typed : ∀ (t : ArrT) (code : Nat), shortCode t = some (code, true) → ∀ c : Fin 16,
    plane7fShort ((u8 (code ||| c.val)).toNat / 16 * 16) = some t ∧ (u8 (code ||| c.val)).toNat % 16 = c.val := by
  intro t code h
  cases t <;> simp [shortCode] at h <;> subst h <;> decide +kernel

theorem long_typed : ∀ (t : ArrT) (code : Nat), typedArr t = true → arrayCode t = some (code, true) →
    plane7fShort ((u8 code).toNat / 16 * 16) = none ∧ (u8 code).toNat ≠ pMarker ∧ (u8 code).toNat ≠ pRecordType ∧
    (u8 code).toNat ≠ pRemoteRef ∧ (u8 code).toNat ≠ pMedia ∧ plane7fArray (u8 code).toNat = some t := by
  intro t code ht h
  cases t <;> simp [typedArr] at ht <;> simp [arrayCode] at h <;> subst h <;> decide


theorem encBigInt_bytes (i : Int) :
    (encBigInt i).1 =
      if i.natAbs < 2 ^ 64 then (if 0 ≤ i then encPosInt i.natAbs else encNegInt i.natAbs)
      else encTypedBig (if 0 ≤ i then tPosInt else tNegInt) i.natAbs := by
  unfold encBigInt
  by_cases hneg : i < 0
  · have h0 : ¬ 0 ≤ i := by omega
    have hn : (-i).toNat = i.natAbs := by omega
    simp only [hneg, if_true, h0, if_false, hn]
    by_cases h63 : -(2 : Int) ^ 63 ≤ i
    · have : i.natAbs < 2 ^ 64 := by omega
      simp [h63, this]
    · simp only [h63, if_false]
      by_cases h64 : i.natAbs < 2 ^ 64 <;> simp [h64]
  · have h0 : 0 ≤ i := by omega
    have hn : i.toNat = i.natAbs := by omega
    simp only [hneg, if_false, h0, if_true, hn]
    by_cases h64 : i.natAbs < 2 ^ 64 <;> simp [h64]

theorem decodeOne_byte (c : Nat) (tok : Tok) (hc : classify (u8 c).toNat = tok) (rest : Bytes) :
    decodeOne (u8 c :: rest) = decodeTok tok rest := by
  simp [decodeOne, hc]

theorem lift_bind_ok {α β} (x : Except DecErr β) (b : β) (g : β → α) (hx : x = .ok b) :
    lift (do let p ← x; pure (g p)) = .ok (g b) := by
  subst hx; rfl

open CE.F in
theorem decodeDecimal_special (c : UInt8) (hc : 128 ≤ c.toNat) (rest : Bytes) :
    decodeDecimal (c :: 0 :: rest) =
      (if c.toNat - 128 = 2 then .ok (.dfloat .inf, rest)
       else if c.toNat - 128 = 3 then .ok (.dfloat .negInf, rest)
       else if c.toNat - 128 = 0 then .ok (.dfloat .nan, rest)
       else if c.toNat - 128 = 1 then .ok (.dfloat .snan, rest)
       else decodeDecimal (c :: 0 :: rest)) := by
  have hraw : unulebRaw (c :: 0 :: rest) = some (c.toNat - 128, 2, rest) := by
    simp [unulebRaw]
    omega
  have hu : unuleb (c :: 0 :: rest) = .ok (c.toNat - 128, 2, rest) := by
    unfold unuleb
    rw [hraw]
    have : c.toNat - 128 < 2 ^ 64 := by have := c.toNat_lt; omega
    simp [this]
  by_cases h2 : c.toNat - 128 = 2
  · simp [h2, decodeDecimal, hu]
  by_cases h3 : c.toNat - 128 = 3
  · simp [h3, decodeDecimal, hu]
  by_cases h0 : c.toNat - 128 = 0
  · simp [h0, decodeDecimal, hu]
  by_cases h1 : c.toNat - 128 = 1
  · simp [h1, decodeDecimal, hu]
  simp [h2, h3, h0, h1]


open CE.F in
theorem canonNaN_of_not_nan (b : Nat) (h : isNaN64 b = false) : canonNaN b = b := by
  unfold canonNaN; simp [h]

theorem leNat_leBytes_lt (k n : Nat) (h : n < 256 ^ k) : leNat (leBytes k n) = n := by
  rw [leNat_leBytes, Nat.mod_eq_of_lt h]

open CE.F in
theorem decodeOne_encFloat (b : Nat) (hok : floatOK b = true) (rest : Bytes) :
    encFloat b ≠ [] ∧ decodeOne (encFloat b ++ rest) = .ok (renormFloat b, rest) := by
  simp only [floatOK, Bool.and_eq_true, decide_eq_true_eq, Bool.not_eq_true'] at hok
  obtain ⟨hb, hsub⟩ := hok
  unfold encFloat renormFloat
  by_cases hinf : isInf64 b = true
  · simp only [hinf, if_true, encInf]
    refine ⟨by simp, ?_⟩
    rw [List.cons_append, decodeOne_byte _ .decimal (by decide)]
    simp only [decodeTok]
    by_cases hs : (sign64 b == 1) = true
    · simp only [hs, if_true, List.cons_append, List.nil_append]
      have := decodeDecimal_special 0x83 (by decide) rest
      simp at this
      rw [lift_bind_ok _ _ (fun p : Ev × Bytes => ([p.1], p.2)) this]
    · have hs' : (sign64 b == 1) = false := by simpa using hs
      simp only [hs', Bool.false_eq_true, if_false, List.cons_append, List.nil_append]
      have := decodeDecimal_special 0x82 (by decide) rest
      simp at this
      rw [lift_bind_ok _ _ (fun p : Ev × Bytes => ([p.1], p.2)) this]
  · have hinf' : isInf64 b = false := by simpa using hinf
    simp only [hinf', Bool.false_eq_true, if_false]
    by_cases hnan : isNaN64 b = true
    · simp only [hnan, if_true, encNaN]
      refine ⟨by simp, ?_⟩
      rw [List.cons_append, decodeOne_byte _ .decimal (by decide)]
      simp only [decodeTok]
      by_cases hq : quiet64 b = true
      · simp only [hq, Bool.not_true, Bool.false_eq_true, if_false, if_true, List.cons_append, List.nil_append]
        have := decodeDecimal_special 0x80 (by decide) rest
        simp at this
        rw [lift_bind_ok _ _ (fun p : Ev × Bytes => ([p.1], p.2)) this]
      · have hq' : quiet64 b = false := by simpa using hq
        simp only [hq', Bool.not_false, Bool.false_eq_true, if_true, if_false, List.cons_append, List.nil_append]
        have := decodeDecimal_special 0x81 (by decide) rest
        simp at this
        rw [lift_bind_ok _ _ (fun p : Ev × Bytes => ([p.1], p.2)) this]
    · have hnan' : isNaN64 b = false := by simpa using hnan
      simp only [hnan', Bool.false_eq_true, if_false]
      by_cases hz : isZero64 b = true
      · simp only [hz, if_true, encZero]
        by_cases hs : (sign64 b == 1) = true
        · simp only [hs, if_true]
          have h := decodeOne_encNegInt 0 (by decide) rest
          simp only [encNegInt, if_true, renormNeg] at h
          exact ⟨by simp, h⟩
        · have hs' : (sign64 b == 1) = false := by simpa using hs
          simp only [hs', Bool.false_eq_true, if_false]
          have h := decodeOne_encPosInt 0 (by decide) rest
          simp only [encPosInt, renormPos] at h
          refine ⟨by simp, ?_⟩
          simpa [smallIntMax, u8] using h
      · have hz' : isZero64 b = false := by simpa using hz
        simp only [hz', Bool.false_eq_true, if_false]
        cases hx : exactF32? b with
        | none =>
          simp only []
          refine ⟨by simp, ?_⟩
          rw [List.cons_append, decodeOne_byte _ .f64 (by decide)]
          simp only [decodeTok]
          rw [lift_bind_ok _ _ (fun p : Bytes × Bytes => ([Ev.float (canonNaN (leNat p.1))], p.2)) (takeN_leBytes 8 b rest)]
          simp only []
          rw [leNat_leBytes_lt 8 b (by simpa using hb), canonNaN_of_not_nan b hnan']
        | some s =>
          simp only []
          -- the narrowing is in the float32 normal range
          have hrange : 897 ≤ exp64 b ∧ exp64 b ≤ 1150 := by
            have hsome : (exactF32? b).isSome = true := by simp [hx]
            unfold exactF32? at hx
            by_cases h1 : exp64 b = 0 ∨ exp64 b = 2047
            · simp [h1] at hx
            · simp only [h1, if_false] at hx
              by_cases h2 : 897 ≤ exp64 b ∧ exp64 b ≤ 1150
              · exact h2
              · simp only [h2, if_false] at hx
                by_cases h3 : 874 ≤ exp64 b ∧ exp64 b < 897
                · simp [h3.1, h3.2, hsome] at hsub
                · simp [h3] at hx
          have hw := widen_exact_normal b s hb hrange.1 hrange.2 hx
          have hs32 : s < 2 ^ 32 := by
            unfold exactF32? at hx
            have h1 : ¬ (exp64 b = 0 ∨ exp64 b = 2047) := by omega
            simp only [h1, if_false, hrange.1, hrange.2, and_self, if_true] at hx
            split at hx
            · simp only [Option.some.injEq] at hx
              subst hx
              have hsg : sign64 b ≤ 1 := by unfold sign64; omega
              have hm : mant64 b / 2 ^ 29 < 2 ^ 23 := by unfold mant64; omega
              generalize sign64 b = S at *
              generalize mant64 b / 2 ^ 29 = q at *
              generalize exp64 b = E at *
              clear hw hsub hinf hnan hnan' hz h1
              omega
            · simp at hx
          by_cases h16 : s % 65536 = 0
          · simp only [h16, if_true]
            refine ⟨by simp, ?_⟩
            rw [List.cons_append, decodeOne_byte _ .f16 (by decide)]
            simp only [decodeTok]
            rw [lift_bind_ok _ _ (fun p : Bytes × Bytes => ([floatFrom32 (leNat p.1 * 65536)], p.2)) (takeN_leBytes 2 (s / 65536) rest)]
            simp only [floatFrom32]
            have h2 : s / 65536 < 256 ^ 2 := by omega
            rw [leNat_leBytes_lt 2 _ h2]
            have : s / 65536 * 65536 = s := by omega
            rw [this, hw, canonNaN_of_not_nan b hnan']
          · simp only [h16, if_false]
            refine ⟨by simp, ?_⟩
            rw [List.cons_append, decodeOne_byte _ .f32 (by decide)]
            simp only [decodeTok]
            rw [lift_bind_ok _ _ (fun p : Bytes × Bytes => ([floatFrom32 (leNat p.1)], p.2)) (takeN_leBytes 4 s rest)]
            simp only [floatFrom32]
            rw [leNat_leBytes_lt 4 s (by simpa using hs32), hw, canonNaN_of_not_nan b hnan']


/-- one decoder step reads back exactly the event (in the decoder's normal form) and leaves
    whatever follows untouched -/
theorem ulebLen_one (f : Nat) (h : ulebLen f = 1) : f < 128 := by
  unfold ulebLen at h
  split at h
  · assumption
  · have : 1 ≤ ulebLen (f / 128) := by unfold ulebLen; split <;> omega
    omega

theorem ulebLen_63 (c : Nat) (h : c < 2 ^ 63) : ulebLen c ≤ 9 := by
  apply ulebLen_le c 9 _ (by omega)
  have : (2 : Nat) ^ 63 = 128 ^ 9 := by decide
  omega

theorem decodeDecimal_field (e : Int) (neg : Bool) (c : Nat) (he : e.natAbs < 2 ^ 31) (hc0 : c ≠ 0) (rest : Bytes) :
    decodeDecimal (uleb ((e.natAbs * 4 + (if e < 0 then 2 else 0) + (if neg then 1 else 0)) % 2 ^ 64) ++ uleb c ++ rest) =
      .ok (if c < 2 ^ 63 then .dfloat (.val e (if neg then -(c : Int) else c))
           else .bigDecimal (some (.val neg c e)), rest) := by
  generalize hfield : e.natAbs * 4 + (if e < 0 then 2 else 0) + (if neg then 1 else 0) = field
  have hf33 : field < 2 ^ 33 := by subst hfield; split <;> split <;> omega
  have hmodf : field % 2 ^ 64 = field := Nat.mod_eq_of_lt (by omega)
  simp only [hmodf]
  unfold decodeDecimal
  rw [List.append_assoc, unuleb_uleb field (by omega)]
  simp only []
  -- the field is never one of the escape codes
  have hne2 : field ≠ 2 := by subst hfield; split <;> split <;> omega
  have hne3 : field ≠ 3 := by subst hfield; split <;> split <;> omega
  have c1 : ¬ (ulebLen field = 1 ∧ field = 2) := fun h => hne2 h.2
  have c2 : ¬ (ulebLen field = 1 ∧ field = 3) := fun h => hne3 h.2
  have hk2 : ∀ v, v < 128 → ¬ (ulebLen field = 2 ∧ field = v) := by
    intro v hv h
    have : ulebLen field = 1 := by rw [h.2]; unfold ulebLen; simp [hv]
    omega
  simp only [c1, c2, hk2 0 (by decide), hk2 1 (by decide), hk2 2 (by decide), hk2 3 (by decide), if_false]
  have hbig : ¬ field > 0x1ffffffff := by omega
  simp only [hbig, if_false]
  rw [unulebRaw_uleb c rest]
  simp only []
  -- recover exponent and sign from the field
  have hneg : (field % 2 == 1) = neg := by
    by_cases h1 : e < 0 <;> cases neg <;> simp only [h1, if_true, if_false, Bool.false_eq_true] at hfield <;>
      simp only [beq_iff_eq, beq_eq_false_iff_ne, ne_eq] <;> omega
  have heneg : (field / 2 % 2 == 1) = decide (e < 0) := by
    by_cases h1 : e < 0 <;> cases neg <;> simp only [h1, if_true, if_false, Bool.false_eq_true] at hfield <;>
      simp only [h1, decide_true, decide_false, beq_iff_eq, beq_eq_false_iff_ne, ne_eq] <;> omega
  have hmag : field / 4 = e.natAbs := by subst hfield; split <;> split <;> omega
  simp only [hneg, heneg, hmag]
  have hlt : e.natAbs < 2 ^ 31 := he
  simp only [hlt, if_true]
  have he' : (if decide (e < 0) = true then -(e.natAbs : Int) else (e.natAbs : Int)) = e := by
    by_cases h : e < 0 <;> simp [h] <;> omega
  rw [he']
  by_cases hc : c < 2 ^ 63
  · have hk : ulebLen c ≤ 18 ∧ c < 2 ^ 63 := ⟨by have := ulebLen_63 _ hc; omega, hc⟩
    simp only [hk, and_self, if_true, hc]
    have : (if neg = true then -(c : Int) else (c : Int)) ≠ 0 := by cases neg <;> simp <;> omega
    simp [DF.mk, this]
  · have hk : ¬ (ulebLen c ≤ 18 ∧ c < 2 ^ 63) := fun h => hc h.2
    simp [hc]

theorem decodeDecimal_val (e c : Int) (he : e.natAbs < 2 ^ 31) (hc : c.natAbs < 2 ^ 63) (hc0 : c ≠ 0) (rest : Bytes) :
    decodeDecimal (encDFloatVal e c ++ rest) = .ok (.dfloat (.val e c), rest) := by
  unfold encDFloatVal
  simp only []
  have hmodc : c.natAbs % 2 ^ 64 = c.natAbs := Nat.mod_eq_of_lt (by omega)
  have := decodeDecimal_field e (decide (c < 0)) c.natAbs he (by omega) rest
  simp only [decide_eq_true_eq, hc, if_true] at this
  rw [hmodc, this]
  have hc' : (if c < 0 then -(c.natAbs : Int) else (c.natAbs : Int)) = c := by
    by_cases h : c < 0 <;> simp [h] <;> omega
  rw [hc']

theorem decodeOne_encDFloat (d : DF) (hok : dfOK d = true) (rest : Bytes) :
    encDFloat d ≠ [] ∧ decodeOne (encDFloat d ++ rest) = .ok (renormDF d, rest) := by
  cases d with
  | zero =>
    have h := decodeOne_encPosInt 0 (by decide) rest
    simp only [encPosInt, renormPos] at h
    refine ⟨by simp [encDFloat, encZero], ?_⟩
    simpa [smallIntMax, u8, encDFloat, encZero, renormDF] using h
  | negZero =>
    have h := decodeOne_encNegInt 0 (by decide) rest
    simp only [encNegInt, if_true, renormNeg] at h
    exact ⟨by simp [encDFloat, encZero], by simpa [encDFloat, encZero, renormDF] using h⟩
  | inf =>
    refine ⟨by simp [encDFloat, encInf], ?_⟩
    simp only [encDFloat, encInf, renormDF, Bool.false_eq_true, if_false]
    rw [List.cons_append, decodeOne_byte _ .decimal (by decide)]
    simp only [decodeTok, List.cons_append, List.nil_append]
    have := decodeDecimal_special 0x82 (by decide) rest
    simp at this
    rw [lift_bind_ok _ _ (fun p : Ev × Bytes => ([p.1], p.2)) this]
  | negInf =>
    refine ⟨by simp [encDFloat, encInf], ?_⟩
    simp only [encDFloat, encInf, renormDF, if_true]
    rw [List.cons_append, decodeOne_byte _ .decimal (by decide)]
    simp only [decodeTok, List.cons_append, List.nil_append]
    have := decodeDecimal_special 0x83 (by decide) rest
    simp at this
    rw [lift_bind_ok _ _ (fun p : Ev × Bytes => ([p.1], p.2)) this]
  | nan =>
    refine ⟨by simp [encDFloat, encNaN], ?_⟩
    simp only [encDFloat, encNaN, renormDF, Bool.false_eq_true, if_false]
    rw [List.cons_append, decodeOne_byte _ .decimal (by decide)]
    simp only [decodeTok, List.cons_append, List.nil_append]
    have := decodeDecimal_special 0x80 (by decide) rest
    simp at this
    rw [lift_bind_ok _ _ (fun p : Ev × Bytes => ([p.1], p.2)) this]
  | snan =>
    refine ⟨by simp [encDFloat, encNaN], ?_⟩
    simp only [encDFloat, encNaN, renormDF, if_true]
    rw [List.cons_append, decodeOne_byte _ .decimal (by decide)]
    simp only [decodeTok, List.cons_append, List.nil_append]
    have := decodeDecimal_special 0x81 (by decide) rest
    simp at this
    rw [lift_bind_ok _ _ (fun p : Ev × Bytes => ([p.1], p.2)) this]
  | val e c =>
    simp only [dfOK, Bool.and_eq_true, decide_eq_true_eq] at hok
    by_cases hc0 : c = 0
    · subst hc0
      have h := decodeOne_encPosInt 0 (by decide) rest
      simp only [encPosInt, renormPos] at h
      refine ⟨by simp [encDFloat, encZero], ?_⟩
      simpa [smallIntMax, u8, encDFloat, encZero, renormDF] using h
    · refine ⟨by simp [encDFloat, hc0], ?_⟩
      simp only [encDFloat, hc0, if_false, renormDF]
      rw [List.cons_append, decodeOne_byte _ .decimal (by decide)]
      simp only [decodeTok]
      rw [lift_bind_ok _ _ (fun p : Ev × Bytes => ([p.1], p.2)) (decodeDecimal_val e c hok.1 hok.2 hc0 rest)]

theorem decodeOne_encBigDec (d : BigDec) (hok : bdOK d = true) (rest : Bytes) :
    encBigDec d ≠ [] ∧ decodeOne (encBigDec d ++ rest) = .ok (renormBD d, rest) := by
  cases d with
  | inf neg =>
    refine ⟨by simp [encBigDec, encInf], ?_⟩
    simp only [encBigDec, encInf, renormBD]
    rw [List.cons_append, decodeOne_byte _ .decimal (by decide)]
    simp only [decodeTok, List.cons_append, List.nil_append]
    cases neg
    · have := decodeDecimal_special 0x82 (by decide) rest
      simp at this
      simp only [Bool.false_eq_true, if_false]
      rw [lift_bind_ok _ _ (fun p : Ev × Bytes => ([p.1], p.2)) this]
    · have := decodeDecimal_special 0x83 (by decide) rest
      simp at this
      simp only [if_true]
      rw [lift_bind_ok _ _ (fun p : Ev × Bytes => ([p.1], p.2)) this]
  | nan =>
    refine ⟨by simp [encBigDec, encNaN], ?_⟩
    simp only [encBigDec, encNaN, renormBD, Bool.false_eq_true, if_false]
    rw [List.cons_append, decodeOne_byte _ .decimal (by decide)]
    simp only [decodeTok, List.cons_append, List.nil_append]
    have := decodeDecimal_special 0x80 (by decide) rest
    simp at this
    rw [lift_bind_ok _ _ (fun p : Ev × Bytes => ([p.1], p.2)) this]
  | snan =>
    refine ⟨by simp [encBigDec, encNaN], ?_⟩
    simp only [encBigDec, encNaN, renormBD, if_true]
    rw [List.cons_append, decodeOne_byte _ .decimal (by decide)]
    simp only [decodeTok, List.cons_append, List.nil_append]
    have := decodeDecimal_special 0x81 (by decide) rest
    simp at this
    rw [lift_bind_ok _ _ (fun p : Ev × Bytes => ([p.1], p.2)) this]
  | val neg c e =>
    simp only [bdOK, decide_eq_true_eq] at hok
    by_cases hc0 : c = 0
    · subst hc0
      cases neg
      · have h := decodeOne_encPosInt 0 (by decide) rest
        simp only [encPosInt, renormPos] at h
        refine ⟨by simp [encBigDec, encZero], ?_⟩
        simpa [smallIntMax, u8, encBigDec, encZero, renormBD] using h
      · have h := decodeOne_encNegInt 0 (by decide) rest
        simp only [encNegInt, if_true, renormNeg] at h
        exact ⟨by simp [encBigDec, encZero], by simpa [encBigDec, encZero, renormBD] using h⟩
    · refine ⟨by simp [encBigDec, hc0], ?_⟩
      simp only [encBigDec, hc0, if_false, renormBD]
      rw [List.cons_append, decodeOne_byte _ .decimal (by decide)]
      simp only [decodeTok]
      rw [lift_bind_ok _ _ (fun p : Ev × Bytes => ([p.1], p.2)) (decodeDecimal_field e neg c hok hc0 rest)]
      by_cases hc : c < 2 ^ 63 <;> simp [hc]

theorem decodeOne_simple (st : EncSt) (e : Ev) (h : simple e = true) (bs rest : Bytes)
    (henc : encodeEv st e = .ok (st, bs)) (hc : ∀ m s, e ≠ .comment m s) :
    bs ≠ [] ∧ decodeOne (bs ++ rest) = .ok (renorm e, rest) := by
  cases e
  case null =>
    simp [encodeEv] at henc; subst henc
    exact ⟨by simp, by rw [List.singleton_append, decodeOne_byte _ .null (by decide)]; rfl⟩
  case true_ =>
    simp [encodeEv] at henc; subst henc
    exact ⟨by simp, by rw [List.singleton_append, decodeOne_byte _ .true_ (by decide)]; rfl⟩
  case false_ =>
    simp [encodeEv] at henc; subst henc
    exact ⟨by simp, by rw [List.singleton_append, decodeOne_byte _ .false_ (by decide)]; rfl⟩
  case bool b =>
    simp [encodeEv] at henc; subst henc
    cases b
    · exact ⟨by simp, by rw [List.singleton_append]; simp only [Bool.false_eq_true, if_false]; rw [decodeOne_byte _ .false_ (by decide)]; rfl⟩
    · exact ⟨by simp, by rw [List.singleton_append]; simp only [if_true]; rw [decodeOne_byte _ .true_ (by decide)]; rfl⟩
  case padding =>
    simp [encodeEv] at henc; subst henc
    exact ⟨by simp, by rw [List.singleton_append, decodeOne_byte _ .padding (by decide)]; rfl⟩
  case list =>
    simp [encodeEv] at henc; subst henc
    exact ⟨by simp, by rw [List.singleton_append, decodeOne_byte _ .list (by decide)]; rfl⟩
  case map =>
    simp [encodeEv] at henc; subst henc
    exact ⟨by simp, by rw [List.singleton_append, decodeOne_byte _ .map (by decide)]; rfl⟩
  case edge =>
    simp [encodeEv] at henc; subst henc
    exact ⟨by simp, by rw [List.singleton_append, decodeOne_byte _ .edge (by decide)]; rfl⟩
  case node =>
    simp [encodeEv] at henc; subst henc
    exact ⟨by simp, by rw [List.singleton_append, decodeOne_byte _ .node (by decide)]; rfl⟩
  case endContainer =>
    simp [encodeEv] at henc; subst henc
    exact ⟨by simp, by rw [List.singleton_append, decodeOne_byte _ .endC (by decide)]; rfl⟩
  case comment m s => exact (hc m s rfl).elim
  case float b =>
    simp only [simple] at h
    simp [encodeEv] at henc; subst henc
    exact decodeOne_encFloat b h rest
  case dfloat d =>
    simp only [simple] at h
    simp [encodeEv] at henc; subst henc
    exact decodeOne_encDFloat d h rest
  case bigDecimal o =>
    cases o with
    | none =>
      simp [encodeEv] at henc; subst henc
      exact ⟨by simp, by rw [List.singleton_append, decodeOne_byte _ .null (by decide)]; rfl⟩
    | some d =>
      simp only [simple] at h
      simp [encodeEv] at henc; subst henc
      exact decodeOne_encBigDec d h rest
  case posInt n =>
    simp [simple] at h
    simp [encodeEv] at henc; subst henc
    refine ⟨?_, decodeOne_encPosInt n h rest⟩
    unfold encPosInt; repeat' split
    all_goals simp
  case negInt n =>
    simp [simple] at h
    simp [encodeEv] at henc; subst henc
    refine ⟨?_, decodeOne_encNegInt n h rest⟩
    unfold encNegInt; repeat' split
    all_goals simp
  case int i =>
    simp [simple] at h
    simp [encodeEv] at henc; subst henc
    unfold encInt renorm
    by_cases hi : 0 ≤ i
    · simp only [hi, if_true]
      have hlt : i.toNat < 2 ^ 64 := by omega
      refine ⟨?_, decodeOne_encPosInt _ hlt rest⟩
      unfold encPosInt; repeat' split
      all_goals simp
    · simp only [hi, if_false]
      have hlt : (-i).toNat < 2 ^ 64 := by omega
      rw [Nat.mod_eq_of_lt hlt]
      refine ⟨?_, decodeOne_encNegInt _ hlt rest⟩
      unfold encNegInt; repeat' split
      all_goals simp
  case bigInt o =>
    cases o with
    | some i =>
      simp [simple] at h
      simp only [encodeEv] at henc
      have hb : bs = (encBigInt i).1 := by simp at henc; exact henc.symm
      subst hb
      rw [encBigInt_bytes]
      simp only [renorm]
      by_cases h64 : i.natAbs < 2 ^ 64
      · simp only [h64, if_true]
        by_cases h0 : 0 ≤ i
        · simp only [h0, if_true]
          refine ⟨?_, decodeOne_encPosInt _ h64 rest⟩
          unfold encPosInt; repeat' split
          all_goals simp
        · simp only [h0, if_false]
          refine ⟨?_, decodeOne_encNegInt _ h64 rest⟩
          unfold encNegInt; repeat' split
          all_goals simp
      · simp only [h64, if_false]
        have hge : 2 ^ 64 ≤ i.natAbs := by omega
        refine ⟨by simp [encTypedBig], ?_⟩
        unfold encTypedBig
        by_cases h0 : 0 ≤ i
        · simp only [h0, if_true]
          rw [List.cons_append, List.append_assoc, decodeOne_byte _ .posVar (by decide)]
          simp only [decodeTok]
          have hd := decodeVarInt_big false i.natAbs hge h rest
          have hv : ((i.natAbs : Nat) : Int) = i := by omega
          simp only [Bool.false_eq_true, if_false, hv] at hd
          rw [lift_bind_ok _ _ (fun p : Ev × Bytes => ([p.1], p.2)) hd]
        · simp only [h0, if_false]
          rw [List.cons_append, List.append_assoc, decodeOne_byte _ .negVar (by decide)]
          simp only [decodeTok]
          have hd := decodeVarInt_big true i.natAbs hge h rest
          have hv : -((i.natAbs : Nat) : Int) = i := by omega
          simp only [if_true, hv] at hd
          rw [lift_bind_ok _ _ (fun p : Ev × Bytes => ([p.1], p.2)) hd]
    | none =>
      simp [encodeEv] at henc; subst henc
      exact ⟨by simp, by rw [List.singleton_append, decodeOne_byte _ .null (by decide)]; rfl⟩
  case uid b =>
    simp [simple] at h
    simp [encodeEv] at henc; subst henc
    refine ⟨by simp, ?_⟩
    rw [List.cons_append, decodeOne_byte _ .uid (by decide)]
    simp only [decodeTok]
    have := takeN_append b rest
    rw [h] at this
    rw [lift_bind_ok _ _ (fun p : Bytes × Bytes => ([Ev.uid p.1], p.2)) this]
    rfl
  case record id =>
    simp [simple] at h
    simp [encodeEv] at henc; subst henc
    refine ⟨by simp, ?_⟩
    rw [List.cons_append, decodeOne_byte _ .record (by decide)]
    simp only [decodeTok]
    rw [lift_bind_ok _ _ (fun p : Bytes × Bytes => ([Ev.record p.1], p.2)) (readId_encId id rest h.1 h.2)]
    rfl
  case refLocal id =>
    simp [simple] at h
    simp [encodeEv] at henc; subst henc
    refine ⟨by simp, ?_⟩
    rw [List.cons_append, decodeOne_byte _ .localRef (by decide)]
    simp only [decodeTok]
    rw [lift_bind_ok _ _ (fun p : Bytes × Bytes => ([Ev.refLocal p.1], p.2)) (readId_encId id rest h.1 h.2)]
    rfl
  case marker id =>
    simp [simple] at h
    simp [encodeEv] at henc; subst henc
    refine ⟨by simp, ?_⟩
    rw [List.cons_append, List.cons_append, decodeOne_byte _ .plane7f (by decide)]
    simp only [decodeTok, decodePlane7f]
    have hs : plane7fShort ((u8 pMarker).toNat / 16 * 16) = none := by decide
    have hm : (u8 pMarker).toNat = pMarker := by decide
    simp only [hs, hm, if_true]
    rw [lift_bind_ok _ _ (fun p : Bytes × Bytes => ([Ev.marker p.1], p.2)) (readId_encId id rest h.1 h.2)]
    rfl
  case recordType id =>
    simp [simple] at h
    simp [encodeEv] at henc; subst henc
    refine ⟨by simp, ?_⟩
    rw [List.cons_append, List.cons_append, decodeOne_byte _ .plane7f (by decide)]
    simp only [decodeTok, decodePlane7f]
    have hs : plane7fShort ((u8 pRecordType).toNat / 16 * 16) = none := by decide
    have hm : (u8 pRecordType).toNat = pRecordType := by decide
    have hne : ¬ pRecordType = pMarker := by decide
    simp only [hs, hm, hne, if_true, if_false]
    rw [lift_bind_ok _ _ (fun p : Bytes × Bytes => ([Ev.recordType p.1], p.2)) (readId_encId id rest h.1 h.2)]
    rfl
  case array t c d =>
    simp only [simple, Bool.and_eq_true, decide_eq_true_eq] at h
    obtain ⟨⟨ht, hlen⟩, hc56⟩ := h
    simp only [encodeEv, bind, Except.bind, encArrayWhole] at henc
    have hbits : t.elemBits = 8 * (t.elemBits / 8) ∧ 0 < t.elemBits / 8 ∧ t.elemBits / 8 ≤ 16 := by
      cases t <;> simp [typedArr] at ht <;> simp [ArrT.elemBits]
    simp only [renorm]
    by_cases hshort : (shortCode t).isSome = true ∧ c ≤ maxSmallArrayLength
    · obtain ⟨hs, hle⟩ := hshort
      have hle' : c ≤ 15 := by simpa [maxSmallArrayLength] using hle
      obtain ⟨⟨code, p7⟩, hsc⟩ := Option.isSome_iff_exists.mp hs
      have hp7 : p7 = true := by
        cases t <;> simp [typedArr] at ht <;> simp [shortCode] at hsc <;> simp [hsc]
      subst hp7
      have hsm : smallHeader t c = some [u8 tPlane7f, u8 (code ||| c)] := by
        simp only [smallHeader, hsc]
        have : ¬ c > maxSmallArrayLength := by omega
        simp [this]
      simp only [hsm] at henc
      simp at henc; subst henc
      obtain ⟨hf1, hf2⟩ := short_typed t code hsc ⟨c, by omega⟩
      refine ⟨by simp, ?_⟩
      have hf1' : plane7fShort ((u8 (code ||| c)).toNat / 16 * 16) = some t := hf1
      have hf2' : (u8 (code ||| c)).toNat % 16 = c := hf2
      simp only [hs, hle, and_self, if_true, List.cons_append, List.nil_append]
      rw [decodeOne_byte _ .plane7f (by decide)]
      simp only [decodeTok, decodePlane7f, hf1', hf2']
      have htk : takeN (c * (t.elemBits / 8)) (d ++ rest) = .ok (d, rest) := by
        have := takeN_append d rest
        rwa [hlen] at this
      rw [lift_bind_ok _ _ (fun p : Bytes × Bytes => ([Ev.array t c p.1], p.2)) htk]
    · have hsm : smallHeader t c = none := by
        simp only [smallHeader]
        by_cases hgt : c > maxSmallArrayLength
        · simp [hgt]
        · have hnone : shortCode t = none := by
            cases hsc : shortCode t with
            | none => rfl
            | some v => exact absurd ⟨by simp [hsc], by omega⟩ hshort
          simp [hgt, hnone]
      simp only [hsm] at henc
      simp only [hshort, if_false]
      have hd' : d.length = c * (t.elemBits / 8) := hlen
      by_cases hu8 : t = .u8
      · subst hu8
        simp [arrayHeader, arrayCode, pure, Except.pure] at henc; subst henc
        refine ⟨by simp, ?_⟩
        rw [List.cons_append, List.append_assoc, decodeOne_byte _ .arrU8 (by decide)]
        simp only [decodeTok, decodeArray]
        have := decodeChunks_single 1 c (by decide) (by decide) hc56 d rest (by simpa [ArrT.elemBits] using hd')
          (chunkHeader c false ++ (d ++ rest)).length
        simp only [ArrT.elemBits, Nat.mul_one] at this ⊢
        rw [this]
        by_cases h0 : c = 0 <;> simp [h0]
      · obtain ⟨code, hcode⟩ : ∃ code, arrayCode t = some (code, true) := by
          cases t <;> simp [typedArr] at ht <;> simp [arrayCode] at hu8 ⊢
        have hah : arrayHeader t = .ok [u8 tPlane7f, u8 code] := by simp [arrayHeader, hcode]
        simp only [hah] at henc
        simp [pure, Except.pure] at henc; subst henc
        obtain ⟨g1, g2, g3, g4, g5, g6⟩ := long_typed t code ht hcode
        refine ⟨by simp, ?_⟩
        simp only [List.cons_append, List.nil_append, List.append_assoc]
        rw [decodeOne_byte _ .plane7f (by decide)]
        simp only [decodeTok, decodePlane7f, g1, g2, g3, g4, g5, g6, if_false, decodeArray]
        have := decodeChunks_single (t.elemBits / 8) c hbits.2.1 hbits.2.2 hc56 d rest hd'
          (chunkHeader c false ++ (d ++ rest)).length
        rw [← hbits.1] at this
        rw [this]
        by_cases h0 : c = 0 <;> simp [h0]
  case stringlike t s =>
    simp only [simple, Bool.and_eq_true, Bool.or_eq_true, beq_iff_eq, decide_eq_true_eq] at h
    obtain ⟨ht, hlen⟩ := h
    simp only [encodeEv, bind, Except.bind, encArrayWhole] at henc
    by_cases hshort : t = .string ∧ s.length ≤ maxSmallArrayLength
    · obtain ⟨rfl, hle⟩ := hshort
      have hle' : s.length ≤ 15 := by simpa [maxSmallArrayLength] using hle
      have hsm : smallHeader .string s.length = some [u8 (0x80 ||| s.length)] := by
        simp [smallHeader, shortCode, maxSmallArrayLength]; omega
      simp only [hsm] at henc
      simp at henc; subst henc
      obtain ⟨hc1, hc2⟩ := short_code ⟨s.length, by omega⟩
      refine ⟨by simp, ?_⟩
      simp only [renorm, hle, and_self, if_true, List.cons_append, List.nil_append, decodeOne, hc1, hc2, decodeTok]
      rw [lift_bind_ok _ _ (fun p : Bytes × Bytes => ([Ev.array .string s.length p.1], p.2)) (takeN_append s rest)]
    · have hsm : smallHeader t s.length = none := by
        rcases ht with rfl | rfl
        · simp only [true_and] at hshort
          simp [smallHeader]; omega
        · simp [smallHeader, shortCode]
      simp only [hsm] at henc
      rcases ht with rfl | rfl
      · simp [arrayHeader, arrayCode, pure, Except.pure] at henc; subst henc
        refine ⟨by simp, ?_⟩
        simp only [renorm, hshort, if_false]
        rw [List.cons_append, List.append_assoc, decodeOne_byte _ .str (by decide)]
        simp only [decodeTok, decodeArray, ArrT.elemBits]
        rw [decodeChunks_single8 s.length hlen s rest rfl]
        have hgt : maxSmallArrayLength < s.length := by simp only [true_and] at hshort; omega
        have hne : ¬ s.length = 0 := by omega
        simp [hne] <;> omega
      · simp [arrayHeader, arrayCode, pure, Except.pure] at henc; subst henc
        refine ⟨by simp, ?_⟩
        have hs2 : ¬ (ArrT.rid = ArrT.string ∧ s.length ≤ maxSmallArrayLength) := by simp
        simp only [renorm, hs2, if_false]
        rw [List.cons_append, List.append_assoc, decodeOne_byte _ .rid (by decide)]
        simp only [decodeTok, decodeArray, ArrT.elemBits]
        rw [decodeChunks_single8 s.length hlen s rest rfl]
        by_cases h0 : s.length = 0 <;> simp [h0]
  all_goals simp [simple] at h


/-- the next event is not a stray array chunk or data event -/
def clean : List Ev → Bool
  | .arrayChunk _ _ :: _ => false
  | .arrayData _ :: _ => false
  | _ => true

theorem gather_clean (xs : List Ev) (cs : List Nat) (d : Bytes) (h : clean xs = true) :
    gather xs cs d = (cs, d, xs) := by
  cases xs with
  | nil => simp [gather]
  | cons x xs' => cases x <;> simp [clean] at h <;> simp [gather]

theorem canon_arrayBegin1 (t : ArrT) (s : Bytes) (xs : List Ev) (hcl : clean xs = true) (htb : t ≠ .bit) :
    canon false (Ev.arrayBegin t :: Ev.arrayChunk s.length false :: Ev.arrayData s :: xs) = CEv.arr t s :: canon false xs := by
  rw [canon]
  have hg : gather (Ev.arrayChunk s.length false :: Ev.arrayData s :: xs) [] [] = ([s.length], s, xs) := by
    simp [gather, gather_clean xs _ _ hcl]
  rw [hg]
  cases t <;> simp_all [canonArr]

theorem canon_arrayBegin1' (t : ArrT) (c : Nat) (d : Bytes) (xs : List Ev) (hcl : clean xs = true) (htb : t ≠ .bit) :
    canon false (Ev.arrayBegin t :: Ev.arrayChunk c false :: Ev.arrayData d :: xs) = CEv.arr t d :: canon false xs := by
  rw [canon]
  have hg : gather (Ev.arrayChunk c false :: Ev.arrayData d :: xs) [] [] = ([c], d, xs) := by
    simp [gather, gather_clean xs _ _ hcl]
  rw [hg]
  cases t <;> simp_all [canonArr]

theorem canon_arrayBegin0 (t : ArrT) (xs : List Ev) (hcl : clean xs = true) (htb : t ≠ .bit) :
    canon false (Ev.arrayBegin t :: Ev.arrayChunk 0 false :: xs) = CEv.arr t [] :: canon false xs := by
  rw [canon]
  have hg : gather (Ev.arrayChunk 0 false :: xs) [] [] = ([0], [], xs) := by
    simp [gather, gather_clean xs _ _ hcl]
  rw [hg]
  cases t <;> simp_all [canonArr]

/-- the decoder's normal form of a fragment event carries the same data as the event -/
theorem canon_renorm (e : Ev) (h : simple e = true) (xs ys : List Ev) (hcl : clean xs = true)
    (hxy : canon false xs = canon false ys) : canon false (renorm e ++ xs) = canon false (e :: ys) := by
  cases e
  case array t c d =>
    simp only [simple, Bool.and_eq_true, decide_eq_true_eq] at h
    have htb : t ≠ .bit := by cases t <;> simp [typedArr] at h <;> simp
    simp only [renorm]
    by_cases hshort : (shortCode t).isSome = true ∧ c ≤ maxSmallArrayLength
    · simp only [hshort, and_self, if_true]
      simp [canon, hxy]
    · simp only [hshort, if_false]
      have hcan : canon false (Ev.array t c d :: ys) = CEv.arr t d :: canon false ys := by
        cases t <;> simp_all [canon, canonArr]
      by_cases h0 : c = 0
      · have hd0 : d = [] := List.eq_nil_of_length_eq_zero (by rw [h.1.2, h0]; simp)
        subst hd0; subst h0
        simp only [if_true, List.cons_append, List.nil_append]
        rw [canon_arrayBegin0 t xs hcl htb, hxy, hcan]
      · simp only [h0, if_false, List.cons_append, List.nil_append]
        have := canon_arrayBegin1' t c d xs hcl htb
        rw [this, hxy, hcan]
  case stringlike t s =>
    simp only [simple, Bool.and_eq_true, Bool.or_eq_true, beq_iff_eq, decide_eq_true_eq] at h
    simp only [renorm]
    by_cases hshort : t = .string ∧ s.length ≤ maxSmallArrayLength
    · obtain ⟨rfl, _⟩ := hshort
      simp [canon, canonArr, hxy, *]
    · simp only [hshort, if_false]
      have htb : t ≠ .bit := by rcases h.1 with rfl | rfl <;> simp
      by_cases h0 : s.length = 0
      · have hs : s = [] := List.eq_nil_of_length_eq_zero h0
        subst hs
        simp only [List.length_nil, if_true, List.cons_append, List.nil_append]
        rw [canon_arrayBegin0 t xs hcl htb, hxy]
        simp [canon]
      · simp only [h0, if_false, List.cons_append, List.nil_append]
        rw [canon_arrayBegin1 t s xs hcl htb, hxy]
        simp [canon]
  case float b =>
    simp only [renorm, renormFloat]
    by_cases hinf : CE.F.isInf64 b = true
    · by_cases hs : (CE.F.sign64 b == 1) = true <;> simp [hinf, hs, canon, canonDF, canonFloat, hxy]
      all_goals (cases hn : CE.F.isNaN64 b <;> simp_all [CE.F.isNaN64, CE.F.isInf64])
    · have hinf' : CE.F.isInf64 b = false := by simpa using hinf
      by_cases hnan : CE.F.isNaN64 b = true
      · by_cases hq : CE.F.quiet64 b = true <;> simp [hinf', hnan, hq, canon, canonDF, canonFloat, hxy]
      · have hnan' : CE.F.isNaN64 b = false := by simpa using hnan
        by_cases hz : CE.F.isZero64 b = true
        · by_cases hs : (CE.F.sign64 b == 1) = true <;> simp [hinf', hnan', hz, hs, canon, canonFloat, hxy]
        · have hz' : CE.F.isZero64 b = false := by simpa using hz
          simp [hinf', hnan', hz', canon, hxy]
  case posInt n =>
    simp only [renorm, renormPos]
    split <;> simp [canon, hxy]
  case negInt n =>
    simp only [renorm, renormNeg]
    by_cases h0 : n = 0
    · simp [h0, canon, hxy]
    · by_cases h1 : n ≤ smallIntMax <;> simp [h0, h1, canon, hxy]
  case int i =>
    simp only [renorm]
    by_cases hi : 0 ≤ i
    · simp only [hi, if_true, renormPos]
      have : ((i.toNat : Nat) : Int) = i := Int.toNat_of_nonneg hi
      split <;> simp [canon, hxy, this]
    · simp only [hi, if_false, renormNeg]
      have hne : ¬ (-i).toNat = 0 := by omega
      have : -(((-i).toNat : Nat) : Int) = i := by omega
      by_cases h1 : (-i).toNat ≤ smallIntMax <;> simp [hne, h1, canon, hxy] <;> omega
  case bool b => cases b <;> simp [renorm, canon, hxy]
  case bigInt o =>
    cases o with
    | none => simp [renorm, canon, hxy]
    | some i =>
      simp only [renorm]
      by_cases h64 : i.natAbs < 2 ^ 64
      · simp only [h64, if_true]
        by_cases h0 : 0 ≤ i
        · have hv : ((i.natAbs : Nat) : Int) = i := by omega
          simp only [h0, if_true, renormPos]
          split <;> simp [canon, hxy, hv]
        · have hv : -((i.natAbs : Nat) : Int) = i := by omega
          have hne : ¬ i.natAbs = 0 := by omega
          simp only [h0, if_false, renormNeg]
          by_cases h1 : i.natAbs ≤ smallIntMax <;> simp [hne, h1, canon, hxy, hv]
      · simp [h64, canon, hxy]
  case dfloat d =>
    simp only [renorm]
    cases d with
    | val e c =>
      by_cases hc0 : c = 0
      · simp [renormDF, hc0, canon, canonDF, canonDec, hxy]
      · simp [renormDF, hc0, canon, canonDF, hxy]
    | _ => simp [renormDF, canon, canonDF, hxy]
  case bigDecimal o =>
    cases o with
    | none => simp [renorm, canon, hxy]
    | some d =>
      simp only [renorm]
      cases d with
      | val neg c e =>
        by_cases hc0 : c = 0
        · cases neg <;> simp [renormBD, hc0, canon, canonBigDec, hxy]
        · by_cases hc : c < 2 ^ 63 <;> simp [renormBD, hc0, hc, canon, canonBigDec, canonDF, hxy]
      | inf neg => cases neg <;> simp [renormBD, canon, canonBigDec, canonDF, hxy]
      | nan => simp [renormBD, canon, canonBigDec, canonDF, hxy]
      | snan => simp [renormBD, canon, canonBigDec, canonDF, hxy]
  case comment m s => simp [renorm, canon, hxy]
  all_goals first
    | (simp [simple] at h; done)
    | simp [renorm, canon, hxy]

theorem clean_renorm : ∀ (l : List Ev), l.all simple = true → clean (l.flatMap renorm ++ [Ev.endDoc]) = true
  | [], _ => rfl
  | e :: es, h => by
    simp only [List.all_cons, Bool.and_eq_true] at h
    have ih := clean_renorm es h.2
    simp only [List.flatMap_cons, List.append_assoc]
    cases e
    case negInt n => simp only [renorm, renormNeg]; repeat' split
                     all_goals rfl
    case int i =>
      simp only [renorm]
      split
      · unfold renormPos; split <;> rfl
      · unfold renormNeg; repeat' split
        all_goals rfl
    case bigInt o =>
      cases o with
      | none => rfl
      | some i =>
        simp only [renorm]
        split
        · split
          · unfold renormPos; split <;> rfl
          · unfold renormNeg; repeat' split
            all_goals rfl
        · rfl
    case stringlike t s =>
      simp only [renorm]; repeat' split
      all_goals rfl
    case array t c d =>
      simp only [renorm]; repeat' split
      all_goals rfl
    case float b =>
      simp only [renorm, renormFloat]; repeat' split
      all_goals rfl
    case dfloat d =>
      simp only [renorm]
      cases d <;> simp only [renormDF] <;> repeat' split
      all_goals rfl
    case bigDecimal o =>
      cases o with
      | none => rfl
      | some d =>
        simp only [renorm]
        cases d <;> simp only [renormBD] <;> repeat' split
        all_goals rfl
    case posInt n => simp only [renorm, renormPos]; split <;> rfl
    case bool b => cases b <;> rfl
    case comment m s => simpa [renorm] using ih
    all_goals first
      | rfl
      | (simp [simple] at h; done)

/-- the whole fragment, any length and nesting: what the encoder writes for the stream is read
    back, event by event, as the stream's normal form, followed by the end of the document -/
theorem stream_roundtrip : ∀ (evs : List Ev) (st : EncSt), evs.all simple = true →
    (encodeFrom st evs).2.1 = none ∧ (encodeFrom st evs).2.2 = st ∧
    ∀ fuel, (encodeFrom st evs).1.length ≤ fuel →
      decodeLoop fuel (encodeFrom st evs).1 = (evs.flatMap renorm ++ [.endDoc], none)
  | [], st, _ => by
    refine ⟨rfl, rfl, ?_⟩
    intro fuel _
    cases fuel <;> rfl
  | e :: es, st, h => by
    simp only [List.all_cons, Bool.and_eq_true] at h
    obtain ⟨bs, henc⟩ := encodeEv_simple st e h.1
    obtain ⟨ih1, ih2, ih3⟩ := stream_roundtrip es st h.2
    have hfrom : encodeFrom st (e :: es) = (bs ++ (encodeFrom st es).1, (encodeFrom st es).2.1, (encodeFrom st es).2.2) := by
      simp [encodeFrom, henc]
    rw [hfrom]
    refine ⟨ih1, ih2, ?_⟩
    intro fuel hf
    by_cases hcom : ∃ m s, e = .comment m s
    · obtain ⟨m, s, rfl⟩ := hcom
      simp [encodeEv] at henc
      subst henc
      simpa [renorm] using ih3 fuel (by simpa using hf)
    · have hc : ∀ m s, e ≠ .comment m s := fun m s he => hcom ⟨m, s, he⟩
      obtain ⟨hne, hdec⟩ := decodeOne_simple st e h.1 bs (encodeFrom st es).1 henc hc
      simp only [] at hf ⊢
      cases hbs : bs with
      | nil => exact (hne hbs).elim
      | cons b bs' =>
        rw [hbs] at hdec hf
        cases fuel with
        | zero => simp at hf
        | succ fuel =>
          simp only [List.cons_append] at hdec ⊢
          simp only [decodeLoop, hdec]
          rw [ih3 fuel (by simp at hf; omega)]
          simp

theorem encodeFrom_endDoc : ∀ (l : List Ev) (st : EncSt), l.all simple = true → st.trySmall = false →
    encodeFrom st (l ++ [Ev.endDoc]) = ((encodeFrom st l).1, none, st)
  | [], st, _, hts => by simp [encodeFrom, encodeEv, hts]
  | e :: es, st, hall, hts => by
    simp only [List.all_cons, Bool.and_eq_true] at hall
    obtain ⟨bs, henc⟩ := encodeEv_simple st e hall.1
    simp [encodeFrom, henc, encodeFrom_endDoc es st hall.2 hts]

/-- the bytes of a whole document of fragment events -/
theorem encode_doc (evs : List Ev) (h : evs.all simple = true) :
    encode (Ev.beginDoc :: Ev.version 0 :: (evs ++ [Ev.endDoc])) =
      (u8 signature :: (uleb 0 ++ (encodeFrom {} evs).1), none) := by
  simp [encode, encodeFrom, encodeEv, encodeFrom_endDoc evs {} h rfl]

/-- what the decoder delivers for them -/
theorem decode_encode_doc (evs : List Ev) (h : evs.all simple = true) :
    decode (encode (Ev.beginDoc :: Ev.version 0 :: (evs ++ [Ev.endDoc]))).1 =
      (Ev.beginDoc :: Ev.version 0 :: (evs.flatMap renorm ++ [Ev.endDoc]), none) := by
  obtain ⟨_, _, h3⟩ := stream_roundtrip evs {} h
  rw [encode_doc evs h]
  simp only [decode]
  have hsig : ¬ (u8 signature).toNat ≠ signature := by decide
  simp only [hsig, if_false]
  have hv : readUleb (2 ^ 64 - 1) (uleb 0 ++ (encodeFrom {} evs).1) = .ok (0, (encodeFrom {} evs).1) := by
    unfold readUleb
    rw [unuleb_uleb 0 (by decide)]
    simp
  simp only [hv]
  rw [h3 _ (Nat.le_refl _)]
  simp

/-- a complete document of fragment events round-trips: same data, nothing lost, nothing added -/
theorem document_roundtrip (evs : List Ev) (h : evs.all simple = true) :
    let doc := Ev.beginDoc :: Ev.version 0 :: (evs ++ [Ev.endDoc])
    (encode doc).2 = none ∧
    ∃ back, decode (encode doc).1 = (back, none) ∧ canon false back = canon false doc := by
  intro doc
  refine ⟨by simp only [doc]; rw [encode_doc evs h], _, decode_encode_doc evs h, ?_⟩
  -- same data: by induction over the stream, event by event
  have hbody : ∀ (l : List Ev), l.all simple = true →
      canon false (l.flatMap renorm ++ [Ev.endDoc]) = canon false (l ++ [Ev.endDoc]) := by
    intro l
    induction l with
    | nil => intro _; rfl
    | cons e es ih =>
      intro hall
      simp only [List.all_cons, Bool.and_eq_true] at hall
      simp only [List.flatMap_cons, List.append_assoc, List.cons_append]
      exact canon_renorm e hall.1 _ _ (clean_renorm es hall.2) (ih hall.2)
  simp [canon, doc, hbody evs h]

end CE.Cbe
