import CE.Io.Reader
/-
  M-WRITER: the destination of the encoders.  Every Write result is threaded through `Except`
  exactly as cbe.Writer.writeBytes / cte.Writer turn a write error into a panic that the
  marshal/encode entry points recover into the returned error.
-/
namespace CE.Io

/-- a writer that accepts `cap` bytes in total and then fails -/
def writeChunk (cap : Nat) (written : Nat) (chunk : Bytes) : Except IOErr Nat :=
  if written + chunk.length > cap then .error .fault else .ok (written + chunk.length)

/-- the encoder writes its output as a sequence of chunks (one per Write call) -/
def writeAll (cap : Nat) : Nat → List Bytes → Except IOErr Nat
  | written, [] => .ok written
  | written, c :: cs =>
    match writeChunk cap written c with
    | .error e => .error e
    | .ok w => writeAll cap w cs

def totalLen (cs : List Bytes) : Nat := (cs.map List.length).sum

/-- a failing destination is always reported: if the document does not fit before the
    failure point, the result is the error, whatever the division into Write calls -/
theorem write_fault_reported (cap : Nat) :
    ∀ (cs : List Bytes) (written : Nat), written ≤ cap → written + totalLen cs > cap →
      writeAll cap written cs = .error .fault := by
  intro cs
  induction cs with
  | nil => intro w hw h; simp [totalLen] at h; omega
  | cons c cs ih =>
    intro w hw h
    have hl : totalLen (c :: cs) = c.length + totalLen cs := by simp [totalLen]
    rw [hl] at h
    simp only [writeAll, writeChunk]
    by_cases hc : w + c.length > cap
    · simp [hc]
    · simp only [hc, if_false]
      exact ih (w + c.length) (by omega) (by omega)

/-- and conversely success means everything was accepted -/
theorem write_success_complete (cap : Nat) :
    ∀ (cs : List Bytes) (written n : Nat), writeAll cap written cs = .ok n → n = written + totalLen cs ∧ n ≤ cap ∨ cs = [] := by
  intro cs
  induction cs with
  | nil => intro w n h; right; rfl
  | cons c cs ih =>
    intro w n h
    left
    have hl : totalLen (c :: cs) = c.length + totalLen cs := by simp [totalLen]
    simp only [writeAll, writeChunk] at h
    by_cases hc : w + c.length > cap
    · simp [hc] at h
    · simp only [hc, if_false] at h
      rcases ih (w + c.length) n h with ⟨h1, h2⟩ | hnil
      · exact ⟨by rw [hl]; omega, h2⟩
      · subst hnil
        simp [writeAll] at h
        subst h
        simp [totalLen]; omega

end CE.Io
