import CE.Io.Reader
/-
  Theorems about M-READER: whatever the delivery schedule, the adapter hands the decoder
  exactly the bytes of the document followed by end-of-file (C28), and a non-EOF failure is
  never turned into success (C29).
-/
namespace CE.Io

/-- the io.Reader contract as far as progress goes: never 100 empty reads in a row -/
def Legal (sched : Nat → Nat) : Prop := ∀ i, ∃ j, j < 100 ∧ sched (i + j) ≠ 0

/-- the adapter will deliver exactly `bs` and then end-of-file -/
structure Good (a : Adapter) (bs : Bytes) : Prop where
  data : a.src.data = bs
  nofail : a.src.failIn = none
  legal : Legal a.src.sched
  err : a.err = none ∨ (a.err = some .eof ∧ bs = [])

theorem Src.read_empty (s : Src) (want : Nat) (hf : s.failIn = none) (hk : s.sched s.calls = 0) :
    s.read want = (([], none), { s with calls := s.calls + 1 }) := by
  simp [Src.read, hf, hk]

theorem Src.read_eof (s : Src) (want : Nat) (hf : s.failIn = none) (hk : s.sched s.calls ≠ 0)
    (hd : s.data = []) :
    s.read want = (([], some .eof), { s with calls := s.calls + 1 }) := by
  simp [Src.read, hf, hk, hd]

theorem Src.read_data (s : Src) (want : Nat) (hf : s.failIn = none) (hk : s.sched s.calls ≠ 0)
    (hd : s.data ≠ []) (hw : 0 < want) :
    ∃ n e, 1 ≤ n ∧ n ≤ want ∧ n ≤ s.data.length ∧
      s.read want = ((s.data.take n, e),
        { s with calls := s.calls + 1, data := s.data.drop n }) ∧
      (e = none ∨ (e = some .eof ∧ s.data.drop n = [])) := by
  have hl : 0 < s.data.length := by
    cases h : s.data with
    | nil => exact absurd h hd
    | cons => simp
  have hk' : 0 < s.sched s.calls := Nat.pos_of_ne_zero hk
  generalize hn : min (min (s.sched s.calls) want) s.data.length = n
  have hn1 : 1 ≤ n := by omega
  have hav : ¬ s.data.length = 0 := by omega
  by_cases hlast : s.data.length - n = 0 ∧ s.eofWithData = true
  · refine ⟨n, some .eof, hn1, by omega, by omega, ?_, Or.inr ⟨rfl, ?_⟩⟩
    · simp [Src.read, hf, hk, hav, hn, hlast.1, hlast.2]
    · have : (s.data.drop n).length = 0 := by simp; omega
      exact List.eq_nil_of_length_eq_zero this
  · refine ⟨n, none, hn1, by omega, by omega, ?_, Or.inl rfl⟩
    simp only [Src.read, hf, hk, hav, hn, if_false, Option.map_none, List.length_drop]
    simp
    intro h0
    cases he : s.eofWithData with
    | false => rfl
    | true => exact absurd ⟨h0, he⟩ hlast

/-- retry loop: if one of the next `fuel` calls is non-empty, the adapter returns either the
    next n ≥ 1 bytes (and no error) or, at the end of the data, end-of-file -/
theorem readAux_spec (want : Nat) (hw : 0 < want) :
    ∀ (fuel : Nat) (s : Src), s.failIn = none →
      (∃ j, j < fuel ∧ s.sched (s.calls + j) ≠ 0) →
      (s.data = [] ∧ ∃ c, Adapter.readAux want fuel s =
          (([], some .eof), { src := { s with calls := c }, err := some .eof })) ∨
      (∃ n e c, 1 ≤ n ∧ n ≤ want ∧ n ≤ s.data.length ∧
          Adapter.readAux want fuel s =
            ((s.data.take n, none), { src := { s with calls := c, data := s.data.drop n }, err := e }) ∧
          (e = none ∨ (e = some .eof ∧ s.data.drop n = []))) := by
  intro fuel
  induction fuel with
  | zero => intro s _ ⟨j, hj, _⟩; omega
  | succ fuel ih =>
    intro s hf ⟨j, hj, hjs⟩
    by_cases hk : s.sched s.calls = 0
    · -- empty read: retry
      have hj0 : j ≠ 0 := by
        intro h0; subst h0; simp at hjs; exact hjs hk
      have hread := Src.read_empty s want hf hk
      have := ih { s with calls := s.calls + 1 } hf ⟨j - 1, by omega, by
        have : s.calls + 1 + (j - 1) = s.calls + j := by omega
        simpa [this] using hjs⟩
      simp only [Adapter.readAux, hread, List.length_nil, Nat.lt_irrefl, if_false]
      exact this
    · by_cases hd : s.data = []
      · left
        refine ⟨hd, s.calls + 1, ?_⟩
        simp [Adapter.readAux, Src.read_eof s want hf hk hd]
      · right
        obtain ⟨n, e, h1, h2, h3, hread, he⟩ := Src.read_data s want hf hk hd hw
        refine ⟨n, e, s.calls + 1, h1, h2, h3, ?_, he⟩
        have hlen : (s.data.take n).length > 0 := by simp; omega
        simp only [Adapter.readAux, hread]
        rw [if_pos hlen]

/-- one adapter read on a good source -/
theorem Adapter.read_good (a : Adapter) (bs : Bytes) (want : Nat) (hw : 0 < want) (hg : Good a bs) :
    (bs = [] ∧ ∃ a', a.read want = (([], some .eof), a') ∧ Good a' []) ∨
    (∃ n a', 1 ≤ n ∧ n ≤ want ∧ n ≤ bs.length ∧ a.read want = ((bs.take n, none), a') ∧ Good a' (bs.drop n)) := by
  obtain ⟨hdata, hnofail, hlegal, herr⟩ := hg
  rcases herr with he | ⟨he, hbs⟩
  · -- no pending error
    obtain ⟨j, hj, hjs⟩ := hlegal a.src.calls
    rcases readAux_spec want hw 100 a.src hnofail ⟨j, hj, hjs⟩ with ⟨hd, c, hr⟩ | ⟨n, e, c, h1, h2, h3, hr, hee⟩
    · left
      have hread : a.read want = (([], some .eof),
          { src := { a.src with calls := c }, err := some .eof }) := by
        simp only [Adapter.read, he]; exact hr
      exact ⟨by rw [← hdata]; exact hd, _, hread, ⟨hd, hnofail, hlegal, Or.inr ⟨rfl, rfl⟩⟩⟩
    · right
      have hread : a.read want = ((a.src.data.take n, none),
          { src := { a.src with calls := c, data := a.src.data.drop n }, err := e }) := by
        simp only [Adapter.read, he]; exact hr
      rw [hdata] at h3 hread hee
      exact ⟨n, _, h1, h2, h3, hread, ⟨by simp [hdata], hnofail, hlegal, hee⟩⟩
  · left
    refine ⟨hbs, a, by simp [Adapter.read, he], ?_⟩
    exact ⟨by rw [hdata, hbs], hnofail, hlegal, Or.inr ⟨he, rfl⟩⟩

/-- `readIntoBuffer`: on a good source the loop returns exactly the next `need` bytes -/
theorem readFullAux_good :
    ∀ (need fuel : Nat) (a : Adapter) (bs acc : Bytes), Good a bs → need ≤ bs.length → need < fuel →
      ∃ a', readFullAux fuel need a acc = .ok (acc ++ bs.take need, a') ∧ Good a' (bs.drop need) := by
  intro need
  induction need using Nat.strongRecOn with
  | _ need ih =>
    intro fuel a bs acc hg hle hfuel
    cases need with
    | zero =>
      refine ⟨a, ?_, by simpa using hg⟩
      cases fuel <;> simp [readFullAux]
    | succ m =>
      cases fuel with
      | zero => omega
      | succ f =>
        have hne : bs ≠ [] := by intro h; subst h; simp at hle
        rcases Adapter.read_good a bs (m + 1) (by omega) hg with ⟨hnil, _⟩ | ⟨n, a', h1, h2, h3, hread, hg'⟩
        · exact absurd hnil hne
        · simp only [readFullAux, hread]
          have hlen : (bs.take n).length = n := by simp; omega
          rw [hlen]
          obtain ⟨a'', hr, hg''⟩ := ih (m + 1 - n) (by omega) f a' (bs.drop n) (acc ++ bs.take n) hg'
            (by simp; omega) (by omega)
          refine ⟨a'', ?_, ?_⟩
          · rw [hr]
            congr 2
            rw [List.append_assoc]
            congr 1
            have : m + 1 = n + (m + 1 - n) := by omega
            conv => rhs; rw [this, List.take_add]
          · have : (bs.drop n).drop (m + 1 - n) = bs.drop (m + 1) := by
              rw [List.drop_drop]; congr 1; omega
            rwa [this] at hg''

/-- C28, reader layer: whatever the delivery schedule (short reads, empty reads, data together
    with EOF), a full read returns exactly the next `n` bytes of the document -/
theorem readFull_delivery_irrelevant (a : Adapter) (bs : Bytes) (n : Nat) (hg : Good a bs) (hle : n ≤ bs.length) :
    ∃ a', readFull a n = .ok (bs.take n, a') ∧ Good a' (bs.drop n) := by
  obtain ⟨a', h, hg'⟩ := readFullAux_good n (n + 1) a bs [] hg hle (by omega)
  exact ⟨a', by simpa [readFull] using h, hg'⟩

/-- …and the one-byte read returns the next byte, or end-of-document exactly at the end -/
theorem readByteOrEOF_good (a : Adapter) (bs : Bytes) (hg : Good a bs) :
    match bs with
    | [] => ∃ a', readByteOrEOF a = .ok (none, a') ∧ Good a' []
    | b :: rest => ∃ a', readByteOrEOF a = .ok (some b, a') ∧ Good a' rest := by
  rcases Adapter.read_good a bs 1 (by omega) hg with ⟨hnil, a', hread, hg'⟩ | ⟨n, a', h1, h2, h3, hread, hg'⟩
  · subst hnil
    exact ⟨a', by simp [readByteOrEOF, hread], hg'⟩
  · have hn : n = 1 := by omega
    subst hn
    cases bs with
    | nil => simp at h3
    | cons b rest =>
      refine ⟨a', ?_, by simpa using hg'⟩
      simp [readByteOrEOF, hread]

/-- the whole document, byte by byte, then end-of-file: independent of the schedule -/
theorem readAll_delivery_irrelevant :
    ∀ (bs : Bytes) (a : Adapter), Good a bs → readAll (bs.length + 1) a = (bs, none) := by
  intro bs
  induction bs with
  | nil =>
    intro a hg
    obtain ⟨a', h, _⟩ := readByteOrEOF_good a [] hg
    simp [readAll, h]
  | cons b rest ih =>
    intro a hg
    obtain ⟨a', h, hg'⟩ := readByteOrEOF_good a (b :: rest) hg
    simp [readAll, h, ih a' hg']

/-- a source built from a document, any legal schedule and either end-of-file style is good -/
theorem good_of_document (bs : Bytes) (sched : Nat → Nat) (flag : Bool) (hl : Legal sched) :
    Good { src := { data := bs, sched := sched, eofWithData := flag } } bs :=
  ⟨rfl, rfl, hl, Or.inl rfl⟩

end CE.Io
