import CE.Io.ReaderProofs
/-
  C29, reader layer: a non-EOF failure of the source — at any offset, delivered with or
  without the bytes before it, under any delivery schedule — is reported by every read that
  reaches it: never end-of-file, never success.
-/
namespace CE.Io

/-- a source that fails after `k` more bytes (k ≤ remaining) -/
structure Faulty (a : Adapter) (bs : Bytes) (k : Nat) : Prop where
  data : a.src.data = bs
  fail : a.src.failIn = some k
  le : k ≤ bs.length
  legal : Legal a.src.sched
  err : a.err = none ∨ (a.err = some .fault ∧ k = 0)

theorem Src.read_fault_now (s : Src) (want : Nat) (hf : s.failIn = some 0) :
    s.read want = (([], some .fault), { s with calls := s.calls + 1 }) := by
  simp [Src.read, hf]

theorem Src.read_fault_empty (s : Src) (want k : Nat) (hf : s.failIn = some (k + 1)) (hk : s.sched s.calls = 0) :
    s.read want = (([], none), { s with calls := s.calls + 1 }) := by
  simp [Src.read, hf, hk]

theorem Src.read_fault_data (s : Src) (want k : Nat) (hf : s.failIn = some (k + 1))
    (hk : s.sched s.calls ≠ 0) (hle : k + 1 ≤ s.data.length) (hw : 0 < want) :
    ∃ n e, 1 ≤ n ∧ n ≤ k + 1 ∧ n ≤ want ∧
      s.read want = ((s.data.take n, e),
        { s with calls := s.calls + 1, data := s.data.drop n, failIn := some (k + 1 - n) }) ∧
      (e = none ∨ (e = some .fault ∧ k + 1 - n = 0)) := by
  have hk' : 0 < s.sched s.calls := Nat.pos_of_ne_zero hk
  have hav : min (k + 1) s.data.length = k + 1 := by omega
  generalize hn : min (min (s.sched s.calls) want) (k + 1) = n
  have hn1 : 1 ≤ n := by omega
  by_cases hlast : k + 1 - n = 0 ∧ s.failWithData = true
  · refine ⟨n, some .fault, hn1, by omega, by omega, ?_, Or.inr ⟨rfl, hlast.1⟩⟩
    simp [Src.read, hf, hk, hav, hn, hlast.1, hlast.2]
  · refine ⟨n, none, hn1, by omega, by omega, ?_, Or.inl rfl⟩
    simp only [Src.read, hf, hk, hav, hn, if_false, Option.map_some]
    have h1 : ¬ (k + 1 = 0) := by omega
    simp only [h1, if_false]
    simp
    intro h0
    cases he : s.failWithData with
    | false => rfl
    | true => exact absurd ⟨h0, he⟩ hlast

/-- retry loop on a faulty source -/
theorem readAux_fault (want : Nat) (hw : 0 < want) :
    ∀ (fuel : Nat) (s : Src) (k : Nat), s.failIn = some k → k ≤ s.data.length →
      (∃ j, j < fuel ∧ s.sched (s.calls + j) ≠ 0) →
      (k = 0 ∧ ∃ c, Adapter.readAux want fuel s =
          (([], some .fault), { src := { s with calls := c }, err := some .fault })) ∨
      (∃ n e c, 1 ≤ n ∧ n ≤ k ∧ n ≤ want ∧
          Adapter.readAux want fuel s =
            ((s.data.take n, none),
             { src := { s with calls := c, data := s.data.drop n, failIn := some (k - n) }, err := e }) ∧
          (e = none ∨ (e = some .fault ∧ k - n = 0))) := by
  intro fuel
  induction fuel with
  | zero => intro s k _ _ ⟨j, hj, _⟩; omega
  | succ fuel ih =>
    intro s k hf hle ⟨j, hj, hjs⟩
    cases k with
    | zero =>
      left
      refine ⟨rfl, s.calls + 1, ?_⟩
      simp [Adapter.readAux, Src.read_fault_now s want hf]
    | succ k =>
      by_cases hk : s.sched s.calls = 0
      · have hj0 : j ≠ 0 := by
          intro h0; subst h0; simp at hjs; exact hjs hk
        have hread := Src.read_fault_empty s want k hf hk
        have := ih { s with calls := s.calls + 1 } (k + 1) hf hle ⟨j - 1, by omega, by
          have : s.calls + 1 + (j - 1) = s.calls + j := by omega
          simpa [this] using hjs⟩
        simp only [Adapter.readAux, hread, List.length_nil, Nat.lt_irrefl, if_false]
        exact this
      · right
        obtain ⟨n, e, h1, h2, h3, hread, he⟩ := Src.read_fault_data s want k hf hk hle hw
        refine ⟨n, e, s.calls + 1, h1, h2, h3, ?_, he⟩
        have hlen : (s.data.take n).length > 0 := by simp; omega
        simp only [Adapter.readAux, hread]
        rw [if_pos hlen]

theorem Adapter.read_faulty (a : Adapter) (bs : Bytes) (k want : Nat) (hw : 0 < want) (hg : Faulty a bs k) :
    (k = 0 ∧ ∃ a', a.read want = (([], some .fault), a') ∧ Faulty a' bs 0) ∨
    (∃ n a', 1 ≤ n ∧ n ≤ k ∧ n ≤ want ∧ a.read want = ((bs.take n, none), a') ∧ Faulty a' (bs.drop n) (k - n)) := by
  obtain ⟨hdata, hfail, hle, hlegal, herr⟩ := hg
  rcases herr with he | ⟨he, hk0⟩
  · obtain ⟨j, hj, hjs⟩ := hlegal a.src.calls
    rcases readAux_fault want hw 100 a.src k hfail (by rw [hdata]; exact hle) ⟨j, hj, hjs⟩ with
      ⟨hk0, c, hr⟩ | ⟨n, e, c, h1, h2, h3, hr, hee⟩
    · left
      have hread : a.read want = (([], some .fault),
          { src := { a.src with calls := c }, err := some .fault }) := by
        simp only [Adapter.read, he]; exact hr
      subst hk0
      exact ⟨rfl, _, hread, ⟨hdata, hfail, hle, hlegal, Or.inr ⟨rfl, rfl⟩⟩⟩
    · right
      have hread : a.read want = ((a.src.data.take n, none),
          { src := { a.src with calls := c, data := a.src.data.drop n, failIn := some (k - n) }, err := e }) := by
        simp only [Adapter.read, he]; exact hr
      rw [hdata] at hread
      exact ⟨n, _, h1, h2, h3, hread, ⟨by simp, rfl, by simp; omega, hlegal, hee⟩⟩
  · left
    subst hk0
    exact ⟨rfl, a, by simp [Adapter.read, he], ⟨hdata, hfail, hle, hlegal, Or.inr ⟨he, rfl⟩⟩⟩

/-- reading byte by byte: the bytes before the failure, then the failure — never end-of-file -/
theorem readAll_reports_fault :
    ∀ (k : Nat) (bs : Bytes) (a : Adapter), Faulty a bs k → readAll (k + 1) a = (bs.take k, some .fault) := by
  intro k
  induction k with
  | zero =>
    intro bs a hg
    rcases Adapter.read_faulty a bs 0 1 (by omega) hg with ⟨_, a', hread, _⟩ | ⟨n, _, h1, h2, _, _, _⟩
    · simp [readAll, readByteOrEOF, hread]
    · omega
  | succ k ih =>
    intro bs a hg
    rcases Adapter.read_faulty a bs (k + 1) 1 (by omega) hg with ⟨h0, _⟩ | ⟨n, a', h1, h2, h3, hread, hg'⟩
    · omega
    · have hn1 : n = 1 := by omega
      subst hn1
      have hlen := hg.le
      cases bs with
      | nil => simp at hlen
      | cons b rest =>
        have hg'' : Faulty a' rest k := by simpa using hg'
        have hbyte : readByteOrEOF a = .ok (some b, a') := by simp [readByteOrEOF, hread]
        have hrec := ih rest a' hg''
        show readAll (k + 1 + 1) a = _
        unfold readAll
        rw [hbyte]
        simp only [hrec, List.take_succ_cons]

/-- a full read that needs bytes beyond the failure reports the failure -/
theorem readFullAux_reports_fault :
    ∀ (need fuel : Nat) (a : Adapter) (bs acc : Bytes) (k : Nat), Faulty a bs k → k < need → need < fuel →
      readFullAux fuel need a acc = .error .fault := by
  intro need
  induction need using Nat.strongRecOn with
  | _ need ih =>
    intro fuel a bs acc k hg hk hfuel
    cases need with
    | zero => omega
    | succ m =>
      cases fuel with
      | zero => omega
      | succ f =>
        rcases Adapter.read_faulty a bs k (m + 1) (by omega) hg with ⟨_, a', hread, _⟩ | ⟨n, a', h1, h2, h3, hread, hg'⟩
        · simp [readFullAux, hread]
        · simp only [readFullAux, hread]
          have hlen : (bs.take n).length = n := by
            have := hg.le
            simp; omega
          rw [hlen]
          exact ih (m + 1 - n) (by omega) f a' (bs.drop n) (acc ++ bs.take n) (k - n) hg' (by omega) (by omega)

theorem readFull_reports_fault (a : Adapter) (bs : Bytes) (k n : Nat) (hg : Faulty a bs k) (hn : k < n) :
    readFull a n = .error .fault :=
  readFullAux_reports_fault n (n + 1) a bs [] k hg hn (by omega)

/-- a source failing after k bytes, any legal schedule, with or without the bytes before it -/
theorem faulty_of_document (bs : Bytes) (k : Nat) (hk : k ≤ bs.length) (sched : Nat → Nat) (withData : Bool)
    (hl : Legal sched) :
    Faulty { src := { data := bs, sched := sched, failIn := some k, failWithData := withData } } bs k :=
  ⟨rfl, rfl, hk, hl, Or.inl rfl⟩

end CE.Io
