import CE.Basic.Bytes
/-
  M-READER: the byte source of the CBE decoder.
  `Src` models an arbitrary io.Reader over a fixed byte string: how much each call delivers is
  given by a schedule (0 = a `(0, nil)` read), the final bytes may come together with io.EOF,
  and a non-EOF failure may strike at an offset (with or without the bytes before it).
  `Adapter` is cbe.readerAdapter (decoder_reader.go), `readFull` is Reader.readIntoBuffer and
  `readByteOrEOF` is Reader.ReadTypeOrEOF.
-/
namespace CE.Io

inductive IOErr | eof | fault | noProgress
deriving DecidableEq, Repr, Inhabited

structure Src where
  data : Bytes                 -- bytes not yet delivered
  sched : Nat → Nat            -- bytes offered at the i-th call (0 = empty read)
  calls : Nat := 0
  eofWithData : Bool := false
  failIn : Option Nat := none  -- a non-EOF failure strikes after this many more bytes
  failWithData : Bool := false

/-- one `Read(p)` with `len(p) = want > 0` on the underlying reader -/
def Src.read (s : Src) (want : Nat) : (Bytes × Option IOErr) × Src :=
  let s1 := { s with calls := s.calls + 1 }
  match s.failIn with
  | some 0 => (([], some .fault), s1)
  | _ =>
    let k := s.sched s.calls
    if k = 0 then (([], none), s1)
    else
      let avail := match s.failIn with
        | some f => min f s.data.length
        | none => s.data.length
      if avail = 0 then (([], some .eof), s1)
      else
        let n := min (min k want) avail
        let out := s.data.take n
        let rest := s.data.drop n
        let failIn' := s.failIn.map (· - n)
        let s2 := { s1 with data := rest, failIn := failIn' }
        if failIn' = some 0 ∧ s.failWithData then ((out, some .fault), s2)
        else if rest.length = 0 ∧ s.eofWithData ∧ s.failIn = none then ((out, some .eof), s2)
        else ((out, none), s2)

structure Adapter where
  src : Src
  err : Option IOErr := none

/-- `readerAdapter.Read` (len(p) = want > 0): retries empty reads (fuel = 100), delivers data
    before the error that accompanied it, errors are sticky -/
def Adapter.readAux (want : Nat) : Nat → Src → (Bytes × Option IOErr) × Adapter
  | 0, s => (([], some .noProgress), { src := s, err := some .noProgress })
  | fuel + 1, s =>
    let ((out, e), s') := s.read want
    if out.length > 0 then ((out, none), { src := s', err := e })
    else match e with
      | some err => (([], some err), { src := s', err := some err })
      | none => Adapter.readAux want fuel s'

def Adapter.read (a : Adapter) (want : Nat) : (Bytes × Option IOErr) × Adapter :=
  match a.err with
  | some e => (([], some e), a)
  | none => Adapter.readAux want 100 a.src

/-- `Reader.readIntoBuffer(count)`: loop until count bytes arrived; fuel = count + 1 -/
def readFullAux : Nat → Nat → Adapter → Bytes → Except IOErr (Bytes × Adapter)
  | _, 0, a, acc => .ok (acc, a)
  | 0, _ + 1, _, _ => .error .noProgress
  | fuel + 1, need + 1, a, acc =>
    let ((out, e), a') := a.read (need + 1)
    match e with
    | some err => .error err
    | none => readFullAux fuel (need + 1 - out.length) a' (acc ++ out)

def readFull (a : Adapter) (count : Nat) : Except IOErr (Bytes × Adapter) :=
  readFullAux (count + 1) count a []

/-- `Reader.ReadTypeOrEOF`: one byte, or end of document -/
def readByteOrEOF (a : Adapter) : Except IOErr (Option UInt8 × Adapter) :=
  let ((out, e), a') := a.read 1
  match e, out with
  | some .eof, _ => .ok (none, a')
  | some err, _ => .error err
  | none, b :: _ => .ok (some b, a')
  | none, [] => .error .noProgress

/-- read everything through the adapter (what a decoder consuming the whole input sees) -/
def readAll : Nat → Adapter → Bytes × Option IOErr
  | 0, _ => ([], some .noProgress)
  | fuel + 1, a =>
    match readByteOrEOF a with
    | .error e => ([], some e)
    | .ok (none, _) => ([], none)
    | .ok (some b, a') => let (r, e) := readAll fuel a'; (b :: r, e)

end CE.Io
