import CE.Event
import CE.Basic.Float
/-
  `canon`: "carries the same data" (C01–C03, C06, C22, C23), defined from the property
  statements: numbers by value across event forms; ±0, ±inf and NaN kinds are value classes;
  other binary floats by bit pattern; arrays as (type, concatenated contents) whatever the
  chunking and whether whole or begin/chunk/data form; Boolean b ≡ True/False; nil big
  numbers ≡ null; padding dropped; comments dropped or kept (codec-specific).
-/
namespace CE

inductive CEv
  | tag (name : String) (id : Bytes)
  | version (v : Nat)
  | null | bool (b : Bool)
  | int (i : Int) | negZero | inf (neg : Bool) | nan (signaling : Bool)
  | f64 (bits : Nat)
  | dec (coeff : Int) (exp : Int)
  | bigf (x : BigF)
  | uid (b : Bytes) | time (t : TimeV)
  | arr (t : ArrT) (data : Bytes)
  | bits (bs : List Bool)
  | media (mt data : Bytes)
  | custom (text : Bool) (ty : Nat) (data : Bytes)
  | comment (multi : Bool) (s : Bytes)
  | malformed (why : String)
deriving DecidableEq, Repr, Inhabited

/-- strip trailing decimal zeros of a non-zero coefficient (fuel = number of digits bound) -/
def stripZeros : Nat → Int → Int → Int × Int
  | 0, c, e => (c, e)
  | f + 1, c, e => if c ≠ 0 ∧ c % 10 = 0 then stripZeros f (c / 10) (e + 1) else (c, e)

def canonDec (c e : Int) : CEv :=
  if c = 0 then .int 0
  else
    let (c', e') := stripZeros (c.natAbs + 1) c e
    -- an integer-valued decimal is that integer (numbers are compared by mathematical value)
    if e' ≥ 0 then .int (c' * 10 ^ e'.toNat) else .dec c' e'

def canonFloat (b : Nat) : CEv :=
  if F.isNaN64 b then .nan (!F.quiet64 b)
  else if F.isInf64 b then .inf (F.sign64 b == 1)
  else if F.isZero64 b then (if F.sign64 b == 1 then .negZero else .int 0)
  else .f64 b

def canonBigF : BigF → CEv
  | .inf neg => .inf neg
  | .val neg m e p =>
    match F.ofMantExp? neg m e with
    | some b => canonFloat b
    | none => .bigf (.val neg m e p)

def canonDF : DF → CEv
  | .zero => .int 0 | .negZero => .negZero | .inf => .inf false | .negInf => .inf true
  | .nan => .nan false | .snan => .nan true
  | .val e c => canonDec c e

def canonBigDec : BigDec → CEv
  | .val neg c e => if c = 0 then (if neg then .negZero else .int 0)
                    else canonDec (if neg then -(c : Int) else c) e
  | .inf neg => .inf neg | .nan => .nan false | .snan => .nan true

/-- bits of a chunk: low `n` bits, least significant bit of each byte first -/
def bitsOf : Nat → Bytes → List Bool
  | 0, _ => []
  | _, [] => []
  | n + 1, b :: bs =>
    let k := min (n + 1) 8
    (List.range k).map (fun i => b.toNat / 2 ^ i % 2 == 1) ++ bitsOf (n + 1 - k) bs
termination_by n _ => n
decreasing_by omega

/-- split the concatenated data of a bit array by chunk and read each chunk's bits -/
def bitsByChunk : List Nat → Bytes → List Bool
  | [], _ => []
  | n :: ns, d => let k := (n + 7) / 8; bitsOf n (d.take k) ++ bitsByChunk ns (d.drop k)

def canonArr (t : ArrT) (chunks : List Nat) (data : Bytes) : CEv :=
  match t with
  | .bit => .bits (bitsByChunk chunks data)
  | _ => .arr t data

/-- gather chunk and data events following a begin event -/
def gather : List Ev → List Nat → Bytes → List Nat × Bytes × List Ev
  | .arrayChunk n _ :: es, cs, d => gather es (cs ++ [n]) d
  | .arrayData x :: es, cs, d => gather es cs (d ++ x)
  | es, cs, d => (cs, d, es)

theorem gather_length (es : List Ev) (cs : List Nat) (d : Bytes) :
    (gather es cs d).2.2.length ≤ es.length := by
  induction es generalizing cs d with
  | nil => simp [gather]
  | cons e es ih =>
    cases e <;> simp [gather] <;> first | exact Nat.le_succ_of_le (ih _ _) | skip

def canon (keepComments : Bool) : List Ev → List CEv
  | [] => []
  | e :: es =>
    match e with
    | .beginDoc => .tag "bd" [] :: canon keepComments es
    | .endDoc => .tag "ed" [] :: canon keepComments es
    | .version v => .version v :: canon keepComments es
    | .padding => canon keepComments es
    | .comment m s => if keepComments then .comment m s :: canon keepComments es else canon keepComments es
    | .null => .null :: canon keepComments es
    | .bool b => .bool b :: canon keepComments es
    | .true_ => .bool true :: canon keepComments es
    | .false_ => .bool false :: canon keepComments es
    | .posInt n => .int n :: canon keepComments es
    | .negInt n => (if n = 0 then .negZero else .int (-(n : Int))) :: canon keepComments es
    | .int i => .int i :: canon keepComments es
    | .bigInt none => .null :: canon keepComments es
    | .bigInt (some i) => .int i :: canon keepComments es
    | .float b => canonFloat b :: canon keepComments es
    | .bigFloat none => .null :: canon keepComments es
    | .bigFloat (some x) => canonBigF x :: canon keepComments es
    | .dfloat d => canonDF d :: canon keepComments es
    | .bigDecimal none => .null :: canon keepComments es
    | .bigDecimal (some d) => canonBigDec d :: canon keepComments es
    | .uid b => .uid b :: canon keepComments es
    | .nan s => .nan s :: canon keepComments es
    | .time t => .time t :: canon keepComments es
    | .list => .tag "l" [] :: canon keepComments es
    | .map => .tag "m" [] :: canon keepComments es
    | .recordType id => .tag "rt" id :: canon keepComments es
    | .record id => .tag "r" id :: canon keepComments es
    | .edge => .tag "e" [] :: canon keepComments es
    | .node => .tag "nd" [] :: canon keepComments es
    | .endContainer => .tag "end" [] :: canon keepComments es
    | .marker id => .tag "mk" id :: canon keepComments es
    | .refLocal id => .tag "ref" id :: canon keepComments es
    | .array t c d => canonArr t [c] d :: canon keepComments es
    | .stringlike t s => .arr t s :: canon keepComments es
    | .media mt d => .media mt d :: canon keepComments es
    | .customBinary ty d => .custom false ty d :: canon keepComments es
    | .customText ty s => .custom true ty s :: canon keepComments es
    | .arrayBegin t =>
      have := gather_length es [] []
      let g := gather es [] []
      canonArr t g.1 g.2.1 :: canon keepComments g.2.2
    | .mediaBegin mt =>
      have := gather_length es [] []
      let g := gather es [] []
      .media mt g.2.1 :: canon keepComments g.2.2
    | .customBegin t ty =>
      have := gather_length es [] []
      let g := gather es [] []
      .custom (t == .customText) ty g.2.1 :: canon keepComments g.2.2
    | .arrayChunk _ _ => .malformed "stray chunk" :: canon keepComments es
    | .arrayData _ => .malformed "stray data" :: canon keepComments es
termination_by es => es.length
decreasing_by all_goals simp_wf <;> omega


/-- a NaN array element keeps only its kind in CTE (`nan` / `snan`): canonical element per width -/
def canonNaNElem (w : Nat) (e : Nat) : Nat :=
  let (expMask, fracMask, quietBit, qnan, snan) : Nat × Nat × Nat × Nat × Nat :=
    if w = 2 then (0x7f80, 0x7f, 0x40, 0x7fc0, 0x7f81)
    else if w = 4 then (0x7f800000, 0x7fffff, 0x400000, 0x7fc00000, 0x7f800001)
    else (0x7ff0000000000000, 0xfffffffffffff, 0x8000000000000, 0x7ff8000000000000, 0x7ff0000000000001)
  if e &&& expMask = expMask ∧ e &&& fracMask ≠ 0 then (if e &&& quietBit ≠ 0 then qnan else snan) else e

def canonNaNBytes (w : Nat) : Nat → Bytes → Bytes
  | 0, d => d
  | fuel + 1, d =>
    if d.length < w then d
    else leBytes w (canonNaNElem w (leNat (d.take w))) ++ canonNaNBytes w fuel (d.drop w)

/-- the text format's notion of "same data": as `canon`, and NaN elements of float arrays by kind -/
def canonText (keepComments : Bool) (evs : List Ev) : List CEv :=
  (canon keepComments evs).map fun c =>
    match c with
    | .arr .f16 d => .arr .f16 (canonNaNBytes 2 d.length d)
    | .arr .f32 d => .arr .f32 (canonNaNBytes 4 d.length d)
    | .arr .f64 d => .arr .f64 (canonNaNBytes 8 d.length d)
    | c => c

end CE
