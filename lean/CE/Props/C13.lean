import CE.Rules.Machine
import CE.Rules.Table
import CE.Rules.Markers
import CE.Rules.Pending
import CE.Rules.PendingDistinct
import CE.Rules.Masks
/-
  C13 — markers and local references are consistent in every accepted document.

  Full statement (target): Rules.accepts env evs → every reference names a marker of the
  document ∧ marker ids are pairwise distinct ∧ key references point to keyable objects ∧
  no marker on a marker/reference/record type ∧ identifiers valid.
  Proved here: the mechanisms, each at full strength for the function that implements it
  (`markObject`, `localReference`, `endDocument`, `validateIdentifier`, the marked-object
  rows of the rule table), and the first clause lifted to whole documents:
  `every_reference_of_an_accepted_document_has_its_marker` - for EVERY event stream, if the
  validator accepts all of it up to and including the end of the document, the identifier of every
  local-reference event is among the markers registered at the end (an invariant over `run`:
  CE/Rules/Markers.lean - what the validator "covers" only grows under each of the 45 statement
  kinds, under nested rule calls and under every event; the end of the document is accepted only
  with nothing waiting).  and `registered_markers_are_distinct` - in every state the validator reaches on any stream no
  marker identifier is registered twice; `pending_references_never_name_a_registered_marker` - in every
  state the validator reaches on any stream, no waiting (forward) reference names an identifier that is
  already registered (CE/Rules/Pending.lean), so what `endDocument` finds waiting is exactly the set of
  references whose marker never came; `known_identifiers_are_partitioned` - registered and waiting
  identifiers together contain no identifier twice (CE/Rules/PendingDistinct.lean).  For the type masks of
  forward references the two mechanism halves are theorems (`forward_reference_mask_narrows`: a waiting id's
  mask only narrows, within every reference's own mask; `marking_checks_the_waiting_mask`: a waiting id is
  registered only with a type inside that mask).  The type masks over whole documents: `key_references_of_an_accepted_document_name_keyable_objects` and
  `references_of_an_accepted_document_fit_their_position` (CE/Rules/Masks.lean) - in every accepted document, a
  reference standing where the current rule records references with mask m (key positions: keyable, elsewhere: any)
  names a marker whose registered type is inside m, marker before or after.  Still `…_partial`: "no marker on a
  marker/reference/record type" over whole documents (the rule-table rows are proved, the lift is exercised by
  the WF.REL oracle against `Spec.globalOK` on every run).
-/
namespace CE.Props.C13
open CE CE.Rules

/-- no marker identifier is defined twice: marking an id that is already marked fails
    (unless the reference-count limit fails first) -/
theorem markObject_duplicate_rejected (cfg : Cfg) (s : RState) (dt : DT)
    (h : (lookupForward s.marked s.markerID).isSome) :
    ∃ e, markObject cfg s dt = .error e := by
  unfold markObject
  by_cases hl : s.refCount + 1 > cfg.maxLocalRefCount
  · exact ⟨.limitRefs, by simp [hl, bind, Except.bind, throw, throwThe, MonadExceptOf.throw]⟩
  · exact ⟨.markerDup, by simp [hl, h, bind, Except.bind, throw, throwThe, MonadExceptOf.throw, pure, Except.pure]⟩

/-- a successful `markObject` records the id with its type and counts it -/
theorem markObject_records (cfg : Cfg) (s s' : RState) (dt : DT) (h : markObject cfg s dt = .ok s') :
    lookupForward s'.marked s.markerID = some dt ∧ s'.refCount = s.refCount + 1 ∧
    (lookupForward s.marked s.markerID) = none := by
  unfold markObject at h
  simp only [bind, Except.bind, pure, Except.pure, throw, throwThe, MonadExceptOf.throw] at h
  split at h <;> try contradiction
  split at h <;> try contradiction
  rename_i hnd
  have hnone : lookupForward s.marked s.markerID = none := by
    cases hx : lookupForward s.marked s.markerID with
    | none => rfl
    | some v => simp [hx] at hnd
  split at h
  · injection h with h; subst h
    exact ⟨by simp [lookupForward, List.find?], rfl, hnone⟩
  · split at h <;> try contradiction
    injection h with h; subst h
    exact ⟨by simp [lookupForward, List.find?], rfl, hnone⟩

/-- a reference to an already marked object of a disallowed type is rejected at once
    (this is the "key reference points to a keyable object" check for backward references) -/
theorem backward_reference_type_checked (s : RState) (id : Bytes) (dt allowed : DT)
    (hm : lookupForward s.marked id = some dt) (hbad : dt &&& allowed = 0) :
    localReference s id allowed = .error .refType := by
  simp [localReference, hm, hbad]

/-- a reference to an unknown id is remembered as a forward reference -/
theorem forward_reference_recorded (s s' : RState) (id : Bytes) (allowed : DT)
    (hm : lookupForward s.marked id = none) (h : localReference s id allowed = .ok s') :
    (lookupForward s'.forward id).isSome := by
  simp only [localReference, hm] at h
  injection h with h; subst h
  simp [lookupForward, List.find?]

/-- each reference names a marker of the document: the document cannot end while a forward
    reference is unresolved (`endDocument` is the only way into the terminal rule) -/
theorem unresolved_reference_rejects_end (cfg : Cfg) (s : RState) (args : Args)
    (h : s.forward.length > 0) : execAct cfg .endDocument s args = .error .forwardUnresolved := by
  simp [execAct, h]

theorem terminal_only_via_endDocument :
    ∀ r ∈ Rule.all, ∀ m ∈ Method.all, (.changeRule .terminal) ∉ Model.ruleTable r m := by decide

/-- key-position references and markers use the keyable mask; every other position `any` -/
theorem key_position_masks :
    Model.ruleTable .mapKey .onReferenceLocal = [.localRefKeyable, .changeRule .mapValue] ∧
    Model.ruleTable .mapKey .onMarker = [.beginMarkerKeyable .keyable] ∧
    (∀ r ∈ Rule.all, r ≠ .mapKey → (.localRefKeyable) ∉ Model.ruleTable r .onReferenceLocal) := by decide

/-- the marked object is registered on every path out of a marked-object rule -/
theorem marked_object_always_registered :
    ∀ m ∈ Method.all,
      (Model.ruleTable .markedObjectKeyable m = [.wrongType] ∨
       (∃ src, (.markObject src) ∈ Model.ruleTable .markedObjectKeyable m) ∨
       Model.ruleTable .markedObjectKeyable m = [] ∨
       Model.ruleTable .markedObjectKeyable m = [.beginArrayKeyable]) := by
  intro m hm
  cases m <;> simp [Model.ruleTable, Model.rule_markedObjectKeyable]

/-- identifiers: non-empty, within the configured length, made of valid characters -/
theorem identifier_checked (cfg : Cfg) (safe : Bytes → Bool) (id : Bytes) :
    validateIdentifier cfg safe id = .ok () ↔ (id.length ≠ 0 ∧ id.length ≤ cfg.maxIdLength ∧ safe id = true) := by
  unfold validateIdentifier
  by_cases h0 : id.length = 0
  · simp [h0]
  · by_cases h1 : id.length > cfg.maxIdLength
    · simp [h0, h1]; omega
    · by_cases h2 : safe id = true
      · simp [h0, h1, h2]; omega
      · simp [h0, h1, h2]

/-- in an accepted document every local reference names a registered marker -/
theorem every_reference_of_an_accepted_document_has_its_marker (env : Env) (htbl : env.tbl = Model.ruleTable)
    (evs : List Ev) (h : (run env RState.init (evs ++ [.endDoc]) 0).2.1 = none) :
    ∀ id, Ev.refLocal id ∈ evs → id ∈ ((run env RState.init (evs ++ [.endDoc]) 0).2.2.marked.map (·.1)) :=
  accepted_references_have_markers env htbl evs h

/-- the validator never registers one marker identifier twice, on any stream, accepted or not -/
theorem registered_markers_are_distinct (env : Env) (evs : List Ev) :
    ((run env RState.init evs 0).2.2.marked.map (·.1)).Nodup :=
  run_distinct env evs RState.init 0 (by simp [MarkersDistinct, RState.init])

/-- type mask of a waiting reference, recording half: a reference to an unregistered id leaves the id
    waiting with a mask that is within the mask of this reference AND within whatever mask it was
    waiting with before (0 = not waiting: the Go map's zero value) -/
theorem forward_reference_mask_narrows (s s' : RState) (id : Bytes) (allowed : DT)
    (hm : lookupForward s.marked id = none) (h : localReference s id allowed = .ok s') :
    ∃ nw, lookupForward s'.forward id = some nw ∧ nw &&& allowed = nw ∧
      ((lookupForward s.forward id).getD 0 = 0 → nw = allowed) ∧
      ((lookupForward s.forward id).getD 0 ≠ 0 → nw = (lookupForward s.forward id).getD 0 &&& allowed) := by
  simp only [localReference, hm] at h
  injection h with h; subst h
  refine ⟨if (lookupForward s.forward id).getD 0 = 0 then allowed else (lookupForward s.forward id).getD 0 &&& allowed,
    by simp [lookupForward, List.find?], ?_, ?_, ?_⟩
  · split
    · exact Nat.and_self _
    · rw [Nat.and_assoc, Nat.and_self]
  · intro h0; simp [h0]
  · intro h0; simp [h0]

/-- type mask of a waiting reference, checking half: a marker whose id is waiting is registered only
    if its type is within the mask the id was waiting with; and then the id waits no longer -/
theorem marking_checks_the_waiting_mask (cfg : Cfg) (s s' : RState) (dt m : DT)
    (hw : lookupForward s.forward s.markerID = some m) (h : markObject cfg s dt = .ok s') :
    m &&& dt ≠ 0 ∧ lookupForward s'.forward s.markerID = none := by
  unfold markObject at h
  simp only [bind, Except.bind, pure, Except.pure, throw, throwThe, MonadExceptOf.throw, hw] at h
  split at h
  · cases h
  split at h
  · cases h
  split at h
  · cases h
  · rename_i hne
    injection h with h; subst h
    refine ⟨hne, ?_⟩
    simp only [lookupForward, Option.map_eq_none_iff, List.find?_eq_none]
    intro p hp
    have := (List.mem_filter.1 hp).2
    simpa using this

/-- non-vacuity of the two above: a forward reference in value position waits with a non-zero mask,
    and the marker that follows is registered against it -/
example :
    let env : Env := { tbl := Model.ruleTable, identSafe := fun _ => true }
    ((lookupForward (run env RState.init [.beginDoc, .version 0, .list, .refLocal [97]] 0).2.2.forward [97]).getD 0 ≠ 0) ∧
    (lookupForward (run env RState.init [.beginDoc, .version 0, .list, .refLocal [97], .marker [97], .posInt 1] 0).2.2.marked [97]).isSome = true := by
  decide +kernel

/-- the table of waiting references never names a registered marker, on any stream, accepted or not:
    a reference waits only while its marker has not come, and registering the marker removes it -/
theorem pending_references_never_name_a_registered_marker (env : Env) (evs : List Ev) (x : Bytes)
    (hx : x ∈ (run env RState.init evs 0).2.2.forward.map (·.1)) :
    lookupForward (run env RState.init evs 0).2.2.marked x = none :=
  run_pend env evs RState.init 0 (by intro y hy; simp [RState.init] at hy) x hx

/-- the identifiers the validator knows are partitioned without repetition: registered markers are
    pairwise distinct, waiting references are pairwise distinct, and no identifier is in both - on any
    stream, accepted or not -/
theorem known_identifiers_are_partitioned (env : Env) (evs : List Ev) :
    let s := (run env RState.init evs 0).2.2
    (s.marked.map (·.1) ++ s.forward.map (·.1)).Nodup := by
  intro s
  refine List.nodup_append.2 ⟨registered_markers_are_distinct env evs,
    run_fwd env evs RState.init 0 (by simp [FInv, RState.init]), ?_⟩
  intro a ha b hb hab
  subst hab
  have hn := pending_references_never_name_a_registered_marker env evs a hb
  obtain ⟨p, hp, hpe⟩ := List.mem_map.1 ha
  simp only [lookupForward, Option.map_eq_none_iff, List.find?_eq_none] at hn
  exact absurd (hn p hp) (by simp [hpe])

/-- non-vacuity of the above: after a forward reference the table is not empty, and it is empty again
    once the marker has come -/
example :
    let env : Env := { tbl := Model.ruleTable, identSafe := fun _ => true }
    (run env RState.init [.beginDoc, .version 0, .list, .refLocal [97]] 0).2.2.forward.map (·.1) = [[97]] ∧
    (run env RState.init [.beginDoc, .version 0, .list, .refLocal [97], .marker [97], .posInt 1] 0).2.2.forward = [] := by
  decide +kernel

/-- while a stream is being accepted, every waiting reference waits with one of the two masks the rules use -
    never with 0, which the code would read as "not waiting" and so forget the reference's constraint -/
theorem waiting_masks_are_any_or_keyable (env : Env) (evs : List Ev) (h : (run env RState.init evs 0).2.1 = none) :
    ∀ p ∈ (run env RState.init evs 0).2.2.forward, (p.2 = Mask.any.bits ∨ p.2 = Mask.keyable.bits) ∧ p.2 ≠ 0 :=
  fun p hp =>
    have hw := (run_t env evs RState.init 0 h (by intro q hq; simp [RState.init] at hq)).1 p hp
    ⟨hw, maskOK_ne hw⟩

/-- the type of every referenced object fits the position of the reference, in every accepted document -/
theorem references_of_an_accepted_document_fit_their_position (env : Env) (htbl : env.tbl = Model.ruleTable)
    (a b : List Ev) (id : Bytes) (m : DT)
    (h : (run env RState.init (a ++ (Ev.refLocal id :: (b ++ [Ev.endDoc]))) 0).2.1 = none)
    (hm : refMask (Model.ruleTable (run env RState.init a 0).2.2.cur.rule .onReferenceLocal) = some m) :
    ∃ dt, lookupForward (run env RState.init (a ++ (Ev.refLocal id :: (b ++ [Ev.endDoc]))) 0).2.2.marked id = some dt ∧
      dt &&& m ≠ 0 :=
  accepted_reference_types_fit env htbl a b id m h hm

/-- key references point to keyable objects: a reference accepted where the rule uses the keyable mask (map
    keys) names, when the accepted document ends, a marker registered with a keyable type -/
theorem key_references_of_an_accepted_document_name_keyable_objects (env : Env) (htbl : env.tbl = Model.ruleTable)
    (a b : List Ev) (id : Bytes)
    (h : (run env RState.init (a ++ (Ev.refLocal id :: (b ++ [Ev.endDoc]))) 0).2.1 = none)
    (hk : (Model.ruleTable (run env RState.init a 0).2.2.cur.rule .onReferenceLocal).head? = some .localRefKeyable) :
    ∃ dt, lookupForward (run env RState.init (a ++ (Ev.refLocal id :: (b ++ [Ev.endDoc]))) 0).2.2.marked id = some dt ∧
      dt &&& Mask.keyable.bits ≠ 0 := by
  refine accepted_reference_types_fit env htbl a b id _ h ?_
  generalize Model.ruleTable (run env RState.init a 0).2.2.cur.rule .onReferenceLocal = acts at hk
  match acts, hk with
  | .localRefKeyable :: _, _ => rfl

/-- non-vacuity of the two above: a map whose key is a forward reference to a marked string is accepted, and
    the key position does use the keyable mask; with the marker on a list instead it is rejected -/
example :
    let env : Env := { tbl := Model.ruleTable, identSafe := fun _ => true }
    let a : List Ev := [.beginDoc, .version 0, .list, .map]
    (run env RState.init (a ++ (Ev.refLocal [97] :: ([.posInt 1, .endContainer, .marker [97], .posInt 5, .endContainer] ++ [Ev.endDoc]))) 0).2.1 = none ∧
    (Model.ruleTable (run env RState.init a 0).2.2.cur.rule .onReferenceLocal).head? = some .localRefKeyable ∧
    (run env RState.init (a ++ (Ev.refLocal [97] :: ([.posInt 1, .endContainer, .marker [97], .list, .endContainer, .endContainer] ++ [Ev.endDoc]))) 0).2.1 ≠ none := by
  decide +kernel

/-- non-vacuity: a list with a forward reference and its marker is accepted -/
example :
    let env : Env := { tbl := Model.ruleTable, identSafe := fun _ => true }
    (run env RState.init ([.beginDoc, .version 0, .list, .refLocal [97], .marker [97], .posInt 1, .endContainer] ++ [.endDoc]) 0).2.1 = none := by
  decide +kernel

end CE.Props.C13
