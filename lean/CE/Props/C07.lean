import CE.Api.EntryPoints
import CE.Gen.CheckEntry
import CE.Cbe.Progress
import CE.Cache.Proofs
/-
  C07  No input makes a public entry point panic, hang or crash.

  What is proved, and over what:

  (1) panic containment.  `escapes` is a model of Go's panic propagation through the call tree of
      an entry point: a function with a deferred recover stops every panic raised below it; a
      function without one lets through a panic of its own (indexing an unchecked parameter) or
      of any callee; a callee that is not itself an extracted entry point is ARBITRARY code - it
      may panic (`beh c = true`) or not.  `contained_sound` shows that the syntactic predicate
      `contained`, which the generated obligation `entry_points_contain_panics` decides over
      the facts extracted from /repo on this run, implies that no panic escapes - for every
      behaviour of the code below (decoders, builders, iterators, ANTLR, reflection: any of
      them may panic at any point on any input).  `no_panic_escapes_any_entry_point` is the
      instantiation for the current source.
  (2) no endless loop in the CBE decoder model: each iteration of the main loop and each chunk
      header consumes at least one byte (`decodeOne_progress`, `decodeChunks_len`), so a
      run ends after at most `length` iterations (`loopIterations_le`) and the model's fuel
      is never what stops it (`decode_never_stalls`).
  (3) no goroutine waits forever on the type caches the marshalers and unmarshalers share
      (C17 `no_goroutine_waits_forever`, for every schedule), also after a generation that
      failed on an unsupported kind (C16 `failed_generation_leaves_fresh_cache`).

  Not provable here (observed by the harness in a limited address space with a watchdog):
  Go run-time fatal errors - stack exhaustion, out of memory, concurrent map access - which
  no recover() can stop, and termination of the ANTLR-generated CTE parser.
-/
namespace CE.Props.C07
open CE.Api

/-- can a panic escape `e`, when every function that is not an extracted entry point panics
    exactly when `beh` says so?  (fuel: call depth; the entry-point call graph is acyclic and at
    most 4 deep, checked by the generated obligation itself since `contained` uses the same fuel) -/
def escapes (eps : List EP) (beh : String → Bool) : Nat → EP → Bool
  | 0, e => !e.hasRecover
  | fuel + 1, e =>
    !e.hasRecover &&
    (e.unguardedIndex ||
      e.callees.any fun c =>
        !safeCallees.contains c &&
        (if eps.any (fun x => x.short == c && x.name != e.name)
         then (eps.filter fun x => x.short == c && x.name != e.name).any (escapes eps beh fuel)
         else beh c))

theorem contained_sound (eps : List EP) (beh : String → Bool) :
    ∀ (fuel : Nat) (e : EP), contained eps fuel e = true → escapes eps beh fuel e = false
  | 0, e, h => by simp [contained] at h; simp [escapes, h]
  | fuel + 1, e, h => by
    unfold contained at h
    unfold escapes
    by_cases hr : e.hasRecover = true
    · simp [hr]
    · simp only [Bool.not_eq_true] at hr
      simp only [hr, Bool.false_or, Bool.and_eq_true, Bool.not_eq_true', List.all_eq_true] at h
      obtain ⟨hi, hc⟩ := h
      simp only [hr, hi, Bool.not_false, Bool.true_and, Bool.false_or]
      rw [Bool.eq_false_iff]
      intro hany
      rw [List.any_eq_true] at hany
      obtain ⟨c, hcm, hcb⟩ := hany
      have := hc c hcm
      simp only [Bool.and_eq_true, Bool.not_eq_true'] at hcb
      obtain ⟨hns, hx⟩ := hcb
      simp only [hns, Bool.false_or, Bool.and_eq_true, List.all_eq_true] at this
      obtain ⟨hex, hall⟩ := this
      rw [if_pos hex] at hx
      rw [List.any_eq_true] at hx
      obtain ⟨x, hxm, hxe⟩ := hx
      have := contained_sound eps beh fuel x (hall x hxm)
      rw [this] at hxe
      cases hxe

/-- the current source: whatever the code below the entry points does, no panic leaves a public
    marshal / unmarshal / decode entry point -/
theorem no_panic_escapes_any_entry_point (beh : String → Bool) :
    ∀ e ∈ CE.Gen.entryPoints, isEntry e = true → escapes CE.Gen.entryPoints beh 4 e = false :=
  fun e he hi => contained_sound _ beh 4 e (CE.GenCheckEntry.entry_points_contain_panics e he hi)

/-- non-vacuity: the predicate does reject an entry point that forwards to panicking code
    without a recover (the shape of the code before fix 7d0b128 / defect D16: a universal entry
    point peeking at an empty document) -/
example :
    let bad : EP := { name := "ce.X", short := "X", hasRecover := false, unguardedIndex := true, callees := [], entry := true }
    contained [bad] 4 bad = false ∧ escapes [bad] (fun _ => false) 4 bad = true := by decide

example :
    let bad : EP := { name := "ce.X", short := "X", hasRecover := false, unguardedIndex := false, callees := ["parse"], entry := true }
    contained [bad] 4 bad = false ∧ escapes [bad] (fun _ => true) 4 bad = true := by decide

/-- all 24 entry points the property names are present in the extracted list -/
theorem entry_points_present : requiredEntries.all (fun n => CE.Gen.entryPoints.any (fun e => e.name == n && e.entry)) = true :=
  CE.GenCheckEntry.entry_points_present

/-- the CBE decoder model never stops for lack of fuel: every loop iteration consumes input -/
theorem cbe_decoder_always_terminates (bs : Bytes) : (CE.Cbe.decode bs).2 ≠ some .noProgress :=
  CE.Cbe.decode_never_stalls bs

theorem cbe_main_loop_iterations_bounded (bs : Bytes) : CE.Cbe.loopIterations bs.length bs ≤ bs.length :=
  CE.Cbe.loopIterations_le _ _

end CE.Props.C07
