import CE.Rules.Machine
import CE.Rules.Measure
/-
  C15 — the validator passes accepted events through unchanged.

  `forward_exact`: whenever the model of RulesEventReceiver accepts an event, what it hands to
  the next receiver is exactly that one event with the same arguments — except the three
  data-preserving rewrites the property lists (nil big number ↦ null; NaN given as float,
  decimal float or big decimal ↦ NaN event of the same kind).  `Spec.forwardOf` is that
  specification, written independently of `step`.  The per-method forwarding of the model is
  tied to rules_event_rcv.go by the RULES correspondence (forwarded events are compared
  argument by argument on every run) and by the FWD.EQ oracle on the implementation's output.
-/
namespace CE.Props.C15
open CE CE.Rules

theorem forward_exact (env : Env) (s s' : RState) (e : Ev) (out : List Ev)
    (h : step env s e = .ok (s', out)) : out = [Spec.forwardOf e] := by
  unfold step at h
  cases e <;> simp only [Spec.forwardOf] at * <;>
    (try (simp only [bind, Except.bind, pure, Except.pure] at h)) <;>
    (repeat' (split at h)) <;> (try contradiction) <;> (try (simp_all; done))

/-- whole streams: the forwarded stream is the accepted prefix, event by event, in order -/
theorem forward_order (env : Env) :
    ∀ (evs : List Ev) (s : RState) (i : Nat) (fwd : List Ev) (sf : RState),
      run env s evs i = (fwd, none, sf) → fwd = evs.map Spec.forwardOf := by
  intro evs
  induction evs with
  | nil => intro s i fwd sf h; simp [run] at h; simp [h.1]
  | cons e es ih =>
    intro s i fwd sf h
    simp only [run] at h
    cases hs : step env s e with
    | error err => simp [hs] at h
    | ok r =>
      obtain ⟨s', out⟩ := r
      simp only [hs] at h
      have ho := forward_exact env s s' e out hs
      cases hr : run env s' es (i + 1) with
      | mk f rest =>
        obtain ⟨res, sf'⟩ := rest
        simp only [hr] at h
        have : res = none := by simpa using (congrArg (·.2.1) h)
        subst this
        have hf := ih s' (i + 1) f sf' hr
        have : fwd = out ++ f := by simpa using (congrArg (·.1) h).symm
        rw [this, ho, hf]; rfl

/-- a rejected event forwards nothing: only the accepted prefix has been passed on -/
theorem rejected_forwards_prefix (env : Env) :
    ∀ (evs : List Ev) (s : RState) (i k : Nat) (err : RErr) (fwd : List Ev) (sf : RState),
      run env s evs i = (fwd, some (k, err), sf) → fwd = (evs.take (k - i)).map Spec.forwardOf ∧ i ≤ k := by
  intro evs
  induction evs with
  | nil => intro s i k err fwd sf h; simp [run] at h
  | cons e es ih =>
    intro s i k err fwd sf h
    simp only [run] at h
    cases hs : step env s e with
    | error e' =>
      simp only [hs] at h
      have hk : k = i := by
        have := congrArg (·.2.1) h; simp at this; exact this.1.symm
      have hf : fwd = [] := by have := congrArg (·.1) h; simpa using this.symm
      subst hk; simp [hf]
    | ok r =>
      obtain ⟨s', out⟩ := r
      simp only [hs] at h
      have ho := forward_exact env s s' e out hs
      cases hr : run env s' es (i + 1) with
      | mk f rest =>
        obtain ⟨res, sf'⟩ := rest
        simp only [hr] at h
        have hres : res = some (k, err) := by simpa using (congrArg (·.2.1) h)
        subst hres
        obtain ⟨hf, hle⟩ := ih s' (i + 1) k err f sf' hr
        have : fwd = out ++ f := by simpa using (congrArg (·.1) h).symm
        refine ⟨?_, by omega⟩
        rw [this, ho, hf]
        have : k - i = (k - (i + 1)) + 1 := by omega
        rw [this]; simp

end CE.Props.C15
