import CE.Marshal.GraphProofs
/-
  C20 — shared and cyclic pointers survive a round trip with recursion support.

  Model: CE/Marshal/Graph.lean — the duplicate-pointer pass and the marker / reference emission
  of the iterator over an arbitrary heap (any number of nodes, any pointers, cycles and
  self-loops included), run against the real iterator on generated graphs (GRAPH.EMIT).
  Theorems, for every heap, every set of shared pointers and every root:
  * `references_follow_their_markers` — in the emitted stream every marker introduces a pointer
    that has no marker yet, and every reference names a pointer whose marker has already been
    emitted: exactly the marker/reference conditions under which the validator accepts the
    document and the builder can resolve every reference (C13);
  * `named_pointers_are_the_markers` — the pointers named at the end are the markers emitted.
  `_partial`: termination of the emission (the duplicate pass marks at least one pointer on
  every cycle) and the isomorphism of the rebuilt graph are decided by the oracle of
  `bin/check C20` (watchdog + parallel-walk bijection), not by a theorem.
-/
namespace CE.Props.C20
open CE.Marshal.Graph

theorem references_follow_their_markers (h : Heap) (fuel root : Nat) (out : List GEv)
    (hout : emitRoot h fuel root = some out) : wf [] out = true := by
  unfold emitRoot at hout
  simp only [Option.map_eq_some_iff] at hout
  obtain ⟨⟨o, n⟩, he, rfl⟩ := hout
  exact ((emit_wf h _ fuel).1 [] root o n he).1

theorem named_pointers_are_the_markers (h : Heap) (shared : Nat → Bool) (fuel root : Nat)
    (out : List GEv) (named : List Nat) (he : emitPtr h shared fuel [] root = some (out, named)) :
    named = knownAfter [] out :=
  ((emit_wf h shared fuel).1 [] root out named he).2

/-- non-vacuity: a two-node cycle with a self-loop -/
example :
    let h : Heap := fun i => if i = 0 then { ptrs := [some 1, some 0] } else { ptrs := [some 0, none] }
    (emitRoot h 50 0).map (fun l => l.map GEv.text) =
      some ["M0", "N0", "N1", "R0", "0", "0", ")", "R0", "0", ")"] := by decide

end CE.Props.C20
