import CE.Marshal.GraphProofs
/-
  C20 — shared and cyclic pointers survive a round trip with recursion support.

  Model: CE/Marshal/Graph.lean — the duplicate-pointer pass and the marker / reference emission
  of the iterator over an arbitrary heap (any number of nodes, any pointers, cycles and
  self-loops included), run against the real iterator on generated graphs (GRAPH.EMIT).
  Theorems, for every heap, every set of shared pointers and every root:
  * `references_follow_their_markers` — in the emitted stream every marker introduces a pointer
    that has no marker yet, and every reference names a pointer whose marker has already been
    emitted: exactly the marker/reference conditions under which the validator accepts the
    document and the builder can resolve every reference (C13);
  * `named_pointers_are_the_markers` — the pointers named at the end are the markers emitted.
  * `emission_does_not_depend_on_fuel` — the model's emission functions take a fuel argument (the heap may be
    cyclic, so they are not structurally recursive); whatever they return with some amount of fuel they return
    with any larger amount, so two runs that both finish agree: the bound never shapes the output the
    GRAPH.EMIT correspondence compares with the real iterator.
  `_partial`: termination of the emission (the duplicate pass marks at least one pointer on
  every cycle) and the isomorphism of the rebuilt graph are decided by the oracle of
  `bin/check C20` (watchdog + parallel-walk bijection), not by a theorem.
-/
namespace CE.Props.C20
open CE.Marshal.Graph

theorem references_follow_their_markers (h : Heap) (fuel root : Nat) (out : List GEv)
    (hout : emitRoot h fuel root = some out) : wf [] out = true := by
  unfold emitRoot at hout
  simp only [Option.map_eq_some_iff] at hout
  obtain ⟨⟨o, n⟩, he, rfl⟩ := hout
  exact ((emit_wf h _ fuel).1 [] root o n he).1

theorem named_pointers_are_the_markers (h : Heap) (shared : Nat → Bool) (fuel root : Nat)
    (out : List GEv) (named : List Nat) (he : emitPtr h shared fuel [] root = some (out, named)) :
    named = knownAfter [] out :=
  ((emit_wf h shared fuel).1 [] root out named he).2

/-- the fuel bound of the model never shapes its output: two amounts of fuel that both let the emission
    finish give the same events and the same named pointers -/
theorem emission_does_not_depend_on_fuel (h : Heap) (shared : Nat → Bool) (f1 f2 : Nat) (named : List Nat) (root : Nat)
    (r1 r2 : List GEv × List Nat)
    (h1 : emitPtr h shared f1 named root = some r1) (h2 : emitPtr h shared f2 named root = some r2) : r1 = r2 := by
  rcases Nat.le_total f1 f2 with hle | hle
  · obtain ⟨k, rfl⟩ := Nat.exists_eq_add_of_le hle
    have := emitPtr_fuel_add h shared f1 named root r1 h1 k
    rw [this] at h2; exact Option.some.inj h2
  · obtain ⟨k, rfl⟩ := Nat.exists_eq_add_of_le hle
    have := emitPtr_fuel_add h shared f2 named root r2 h2 k
    rw [this] at h1; exact (Option.some.inj h1).symm

/-- non-vacuity: a two-node cycle with a self-loop -/
example :
    let h : Heap := fun i => if i = 0 then { ptrs := [some 1, some 0] } else { ptrs := [some 0, none] }
    (emitRoot h 50 0).map (fun l => l.map GEv.text) =
      some ["M0", "N0", "N1", "R0", "0", "0", ")", "R0", "0", ")"] := by decide

end CE.Props.C20
