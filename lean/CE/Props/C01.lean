import CE.Cbe.RoundTrip
import CE.Canon
/-
  C01 — CBE encode/decode preserves every rules-valid event stream.

  Full statement (the target; NOT yet proved in full):
    ∀ evs, Rules.accepts cfg evs → NoCustomText evs →
      ∃ back, Cbe.decode (Cbe.encode evs).1 = (back, none) ∧ canon false back = canon false evs

  Proved so far (`…_partial`): the per-event prefix-code round trips, with arbitrary
  following bytes, for the event kinds listed below; each states both what the decoder
  emits (`renorm…`) and that it carries the same data (`canon`).  The list-level induction
  carrying the encoder's array state, floats, decimals, arrays and times are carried by the
  correspondence + oracle of `bin/check C01` only.
-/
namespace CE.Props.C01
open CE CE.Cbe

/-- ULEB128 (every length/count/version field) round-trips with any suffix. -/
theorem uleb_roundtrip (n : Nat) (h : n < 2 ^ 64) (rest : Bytes) :
    unuleb (uleb n ++ rest) = .ok (n, ulebLen n, rest) := unuleb_uleb n h rest

/-- positive integers, every width: encoder output followed by anything decodes to one
    event carrying the same integer, and leaves exactly the suffix. -/
theorem posInt_roundtrip_partial (st : EncSt) (n : Nat) (h : n < 2 ^ 64) (rest : Bytes) :
    ∃ st' bs, encodeEv st (.posInt n) = .ok (st', bs) ∧
      decodeOne (bs ++ rest) = .ok ([renormPos n], rest) ∧
      canon false [renormPos n] = canon false [.posInt n] := by
  refine ⟨st, encPosInt n, rfl, decodeOne_encPosInt n h rest, ?_⟩
  unfold renormPos; split <;> simp [canon]

/-- negative integers (magnitude form), every width, including negative zero. -/
theorem negInt_roundtrip_partial (st : EncSt) (n : Nat) (h : n < 2 ^ 64) (rest : Bytes) :
    ∃ st' bs, encodeEv st (.negInt n) = .ok (st', bs) ∧
      decodeOne (bs ++ rest) = .ok ([renormNeg n], rest) ∧
      canon false [renormNeg n] = canon false [.negInt n] := by
  refine ⟨st, encNegInt n, rfl, decodeOne_encNegInt n h rest, ?_⟩
  unfold renormNeg
  by_cases h0 : n = 0
  · simp [h0, canon]
  · by_cases h1 : n ≤ smallIntMax <;> simp [h0, h1, canon]

/-- non-vacuity: the hypotheses are met by boundary values -/
example : (281474976710656 : Nat) < 2 ^ 64 ∧ renormPos 100 = .int 100 ∧ renormPos 101 = .posInt 101 := by
  decide

end CE.Props.C01
