import CE.Cbe.RoundTrip
import CE.Cbe.StreamRoundTrip
import CE.Cbe.ItemRoundTrip
import CE.Canon
/-
  C01 — CBE encode/decode preserves every rules-valid event stream.

  Full statement (the target; NOT yet proved in full):
    ∀ evs, Rules.accepts cfg evs → NoCustomText evs →
      ∃ back, Cbe.decode (Cbe.encode evs).1 = (back, none) ∧ canon false back = canon false evs

  Proved:
  * `structural_document_roundtrip` — the full statement for the structural fragment of the
    alphabet (containers, Booleans, null, padding, comments, integers of every width and sign in
    all three event forms, big integers of up to 8192 bits, binary floats (every bit pattern:
    infinities, both NaN kinds, both zeros, values stored in 16, 32 or 64 bits - except the doubles
    that are float32 subnormals), decimal floats (every special value; any int32 exponent and int64
    coefficient short of the two extreme values) and big decimals (any coefficient size), identifiers of markers / references / records / record types, UIDs,
    strings and resource identifiers of any length up to 2^61, in short and chunk-header form,
    typed arrays of every byte-multiple element kind (u8 .. u64, i8 .. i64, f16 .. f64, uid)
    sent whole, in short and chunk-header form):
    for EVERY stream of such events, of any length and nesting, the encoder fails nowhere, the
    decoder reads the encoder's bytes back without error and to the end, and what it delivers
    carries the same data (`canon`) — nothing lost, nothing added.  By induction over the stream
    (CE/Cbe/StreamRoundTrip.lean: `stream_roundtrip`), each step a prefix-code lemma "one decoder
    step reads back exactly this event and leaves the rest of the input untouched".
  * `chunked_document_roundtrip` — the same for documents that also contain arrays SENT IN CHUNKS
    (`arrayBegin`, any number of `arrayChunk n more`, the data of each chunk in any number of
    `arrayData` pieces; strings, resource ids, remote references and every byte-multiple typed array), media objects and
    custom binary data (begin event with the media type / type number, then chunks; or their one-event
    forms, and the one-event form of a remote reference): this is the part of
    the encoder with state (the first chunk decides between the short header and header + chunk
    length) and of the decoder that loops over chunk headers (CE/Cbe/ItemRoundTrip.lean).
  * the per-event prefix-code round trips for integers, with arbitrary following bytes
    (`…_partial` below).
  Not proved (`_partial`): doubles in the float32 subnormal range, times, bit arrays and the one-event forms of
  remote references / media / custom binary (same bytes as begin + one chunk) are carried by the CBE.ENC / CBE.DEC correspondence and the round-trip
  oracle of `bin/check C01` only.
-/
namespace CE.Props.C01
open CE CE.Cbe

/-- ULEB128 (every length/count/version field) round-trips with any suffix. -/
theorem uleb_roundtrip (n : Nat) (h : n < 2 ^ 64) (rest : Bytes) :
    unuleb (uleb n ++ rest) = .ok (n, ulebLen n, rest) := unuleb_uleb n h rest

/-- positive integers, every width: encoder output followed by anything decodes to one
    event carrying the same integer, and leaves exactly the suffix. -/
theorem posInt_roundtrip_partial (st : EncSt) (n : Nat) (h : n < 2 ^ 64) (rest : Bytes) :
    ∃ st' bs, encodeEv st (.posInt n) = .ok (st', bs) ∧
      decodeOne (bs ++ rest) = .ok ([renormPos n], rest) ∧
      canon false [renormPos n] = canon false [.posInt n] := by
  refine ⟨st, encPosInt n, rfl, decodeOne_encPosInt n h rest, ?_⟩
  unfold renormPos; split <;> simp [canon]

/-- negative integers (magnitude form), every width, including negative zero. -/
theorem negInt_roundtrip_partial (st : EncSt) (n : Nat) (h : n < 2 ^ 64) (rest : Bytes) :
    ∃ st' bs, encodeEv st (.negInt n) = .ok (st', bs) ∧
      decodeOne (bs ++ rest) = .ok ([renormNeg n], rest) ∧
      canon false [renormNeg n] = canon false [.negInt n] := by
  refine ⟨st, encNegInt n, rfl, decodeOne_encNegInt n h rest, ?_⟩
  unfold renormNeg
  by_cases h0 : n = 0
  · simp [h0, canon]
  · by_cases h1 : n ≤ smallIntMax <;> simp [h0, h1, canon]

/-- every stream of structural events round-trips through CBE: no error, same data -/
theorem structural_document_roundtrip (evs : List Ev) (h : evs.all simple = true) :
    let doc := Ev.beginDoc :: Ev.version 0 :: (evs ++ [Ev.endDoc])
    (encode doc).2 = none ∧
    ∃ back, decode (encode doc).1 = (back, none) ∧ canon false back = canon false doc :=
  document_roundtrip evs h

/-- no two structural documents with different data share an encoding: the bytes determine the data -/
theorem structural_encoding_determines_data (a b : List Ev) (ha : a.all simple = true) (hb : b.all simple = true)
    (h : (encode (Ev.beginDoc :: Ev.version 0 :: (a ++ [Ev.endDoc]))).1 =
         (encode (Ev.beginDoc :: Ev.version 0 :: (b ++ [Ev.endDoc]))).1) :
    canon false (Ev.beginDoc :: Ev.version 0 :: (a ++ [Ev.endDoc])) =
    canon false (Ev.beginDoc :: Ev.version 0 :: (b ++ [Ev.endDoc])) := by
  obtain ⟨_, ba, hda, hca⟩ := document_roundtrip a ha
  obtain ⟨_, bb, hdb, hcb⟩ := document_roundtrip b hb
  rw [h] at hda
  rw [hda] at hdb
  have : ba = bb := by injection hdb
  rw [← hca, ← hcb, this]

/-- every document of structural events and arrays sent in chunks round-trips through CBE -/
theorem chunked_document_roundtrip (items : List Item) (h : ∀ i ∈ items, i.ok) :
    let doc := Ev.beginDoc :: Ev.version 0 :: (items.flatMap Item.events ++ [Ev.endDoc])
    (encode doc).2 = none ∧
    ∃ back, decode (encode doc).1 = (back, none) ∧ canon false back = canon false doc :=
  items_document_roundtrip items h

/-- non-vacuity: a string sent as three chunks (the second empty, the third in two pieces) inside a
    list, followed by a u16 array sent as one chunk of 20 elements -/
example : ∀ i ∈ [Item.ev .list,
      Item.arr .string [⟨2, [[104, 105]]⟩, ⟨0, []⟩] ⟨3, [[97], [98, 99]]⟩,
      Item.arr .u16 [] ⟨20, [List.replicate 40 7]⟩,
      Item.media [97, 47, 98] [⟨1, [[1]]⟩] ⟨2, [[2, 3]]⟩,
      Item.custom 77 [] ⟨0, []⟩,
      Item.ev .endContainer], i.ok := by
  intro i hi
  simp only [List.mem_cons, List.mem_nil_iff, or_false] at hi
  rcases hi with rfl | rfl | rfl | rfl | rfl | rfl
  · rfl
  · refine ⟨rfl, ?_, by decide, by decide⟩
    intro c hc
    simp only [List.mem_cons, List.mem_nil_iff, or_false] at hc
    rcases hc with rfl | rfl <;> exact ⟨by decide, by decide⟩
  · exact ⟨rfl, by simp, by decide, by decide⟩
  · refine ⟨by decide, ?_, by decide, by decide⟩
    intro c hc
    simp only [List.mem_cons, List.mem_nil_iff, or_false] at hc
    subst hc; exact ⟨by decide, by decide⟩
  · exact ⟨by decide, by simp, by decide, by decide⟩
  · rfl

/-- non-vacuity: a nested document with a marker, a reference, a record, integers of several
    widths and signs, a comment and padding satisfies the hypothesis -/
example : ([Ev.map, .marker [97], .list, .int (-5), .stringlike .string [104, 105], .stringlike .rid (List.replicate 40 120), .float 0x3ff8000000000000, .float 0x7ff0000000000000, .float 0x400921fb54442d18, .dfloat (.val (-2) 314), .dfloat .snan, .bigDecimal (some (.val true (10 ^ 30) 7)), .array .u16 2 [1, 0, 2, 0], .array .f64 2 (List.replicate 16 0),
            .posInt 70000, .negInt 0, .endContainer, .true_, .refLocal [97],
            .comment false [120], .padding, .posInt (2 ^ 64 - 1), .record [114, 49], .null, .endContainer,
            .endContainer] : List Ev).all simple = true := by decide

/-- a 200-bit negative integer is in the fragment too -/
example : simple (.bigInt (some (-(2 ^ 200)))) = true := by
  simp only [simple, decide_eq_true_eq]
  have : (-(2 : Int) ^ 200).natAbs = 2 ^ 200 := by simp [Int.natAbs_neg, Int.natAbs_pow]
  rw [this]
  exact Nat.pow_lt_pow_right (by decide) (by decide)

/-- non-vacuity: the hypotheses are met by boundary values -/
example : (281474976710656 : Nat) < 2 ^ 64 ∧ renormPos 100 = .int 100 ∧ renormPos 101 = .posInt 101 := by
  decide

end CE.Props.C01
