import CE.Cbe.Minimal
import CE.Cbe.Reencode
import CE.Cbe.ItemRoundTrip
import CE.Canon
/-
  C22 — CBE encoding is minimal and canonical.

  Proved: integers (both signs, every magnitude below 2^64): the encoder's output is one of
  the encodings the format offers (`posFormLens`/`negFormLens`, written from the format's
  type table independently of the encoder's `switch`) and no offered encoding is shorter;
  and the integer re-encoding idempotence: what the decoder emits for an encoder-written
  integer encodes to the same bytes again.
  `structural_encoding_is_a_fixed_point`: for EVERY document made of structural events
  (containers, Booleans, null, integers of all widths and forms, big integers, binary floats,
  decimal floats and big decimals, identifiers, UIDs, strings, resource identifiers and whole typed
  arrays in short and chunk-header form, comments, padding), decoding the encoder's
  bytes and encoding the delivered events again yields exactly the same bytes: the encoding is
  canonical (CE/Cbe/Reencode.lean, induction over the stream).
  `chunked_encoding_is_a_fixed_point`: the same when the document also contains arrays sent in chunks
  (any chunking, any division of the data into data events): what the decoder delivers for the
  encoder's bytes encodes to exactly those bytes again (CE/Cbe/ItemRoundTrip.lean).
  `…_partial`: floats (narrowest exact width), typed-array headers and the same fixed point for
  media / custom types are decided on every run by the driver's independent size
  oracle (CBE.MINLEN) and by decode→encode byte identity on the implementation.
-/
namespace CE.Props.C22
open CE CE.Cbe

/-- the facts about `byteLen` the case analysis needs, as implications `omega` can use -/
theorem byteLen_facts (n : Nat) (h : n < 2 ^ 64) :
    (1 ≤ n → 1 ≤ byteLen n) ∧ (256 ≤ n → 2 ≤ byteLen n) ∧ (65536 ≤ n → 3 ≤ byteLen n) ∧
    (4294967296 ≤ n → 5 ≤ byteLen n) ∧ (281474976710656 ≤ n → 7 ≤ byteLen n) ∧
    (n < 281474976710656 → byteLen n ≤ 6) ∧ byteLen n ≤ 8 ∧ (n = 0 → byteLen n = 0) := by
  refine ⟨fun h1 => byteLen_ge n 0 (by simpa using h1), fun h1 => byteLen_ge n 1 (by simpa using h1),
    fun h1 => byteLen_ge n 2 (by simpa using h1), fun h1 => byteLen_ge n 4 (by simpa using h1),
    fun h1 => byteLen_ge n 6 (by simpa using h1), fun h1 => byteLen_le n 6 (by simpa using h1),
    byteLen_le n 8 (by simpa using h), fun h0 => by subst h0; simp [byteLen]⟩

theorem posInt_minimal (n : Nat) (h : n < 2 ^ 64) :
    (encPosInt n).length ∈ posFormLens n ∧ ∀ l ∈ posFormLens n, (encPosInt n).length ≤ l := by
  rw [encPosInt_length]
  obtain ⟨f1, f2, f3, f5, f7, u6, u8, _⟩ := byteLen_facts n h
  unfold posFormLens
  constructor
  · repeat' split
    all_goals (simp; try omega)
  · intro l hl
    simp only [List.mem_append, List.mem_cons, List.mem_nil_iff, or_false] at hl
    repeat' split
    all_goals (rcases hl with ((((hl | hl) | hl) | hl) | hl) | hl <;> (try (split at hl)) <;> simp_all <;> omega)

theorem negInt_minimal (n : Nat) (h : n < 2 ^ 64) :
    (encNegInt n).length ∈ negFormLens n ∧ ∀ l ∈ negFormLens n, (encNegInt n).length ≤ l := by
  rw [encNegInt_length]
  obtain ⟨f1, f2, f3, f5, f7, u6, u8, z⟩ := byteLen_facts n h
  unfold negFormLens
  constructor
  · repeat' split
    all_goals (simp; try omega)
  · intro l hl
    simp only [List.mem_append, List.mem_cons, List.mem_nil_iff, or_false] at hl
    repeat' split
    all_goals (rcases hl with ((((hl | hl) | hl) | hl) | hl) | hl <;> (try (split at hl)) <;> simp_all <;> omega)

/-- idempotence for integers: re-encoding what the decoder emits gives the same bytes -/
theorem posInt_reencode (n : Nat) (h : n < 2 ^ 64) (st : EncSt) :
    encodeEv st (renormPos n) = encodeEv st (.posInt n) := by
  unfold renormPos
  by_cases h1 : n ≤ smallIntMax
  · simp [h1, encodeEv, encInt]
  · simp [h1]

theorem negInt_reencode (n : Nat) (h : n < 2 ^ 64) (st : EncSt) :
    encodeEv st (renormNeg n) = encodeEv st (.negInt n) := by
  unfold renormNeg
  by_cases h0 : n = 0
  · simp [h0]
  · by_cases h1 : n ≤ smallIntMax
    · have hs : n ≤ 100 := by simpa [smallIntMax] using h1
      have hmod : n % 18446744073709551616 = n := by omega
      simp [h0, h1, encodeEv, encInt, hmod]
    · simp [h0, h1]

/-- canonical form: decode-then-encode reproduces the encoder's bytes exactly -/
theorem structural_encoding_is_a_fixed_point (evs : List Ev) (h : evs.all simple = true) :
    let doc := Ev.beginDoc :: Ev.version 0 :: (evs ++ [Ev.endDoc])
    ∃ back, decode (encode doc).1 = (back, none) ∧ encode back = encode doc :=
  canonical_fixed_point evs h

/-- … also for documents with arrays sent in chunks -/
theorem chunked_encoding_is_a_fixed_point (items : List Item) (h : ∀ i ∈ items, i.ok) :
    let doc := Ev.beginDoc :: Ev.version 0 :: (items.flatMap Item.events ++ [Ev.endDoc])
    ∃ back, decode (encode doc).1 = (back, none) ∧ encode back = encode doc := by
  intro doc
  refine ⟨_, items_decode_encode_doc items h, ?_⟩
  have hfix := items_canonical_fixed_point items h
  simp only [] at hfix
  rw [items_decode_encode_doc items h] at hfix
  have henc := items_encode_doc items h
  rw [hfix]
  simp only [doc, henc]

example : (encPosInt 100).length = 1 ∧ (encPosInt 101).length = 2 ∧ (encPosInt (2 ^ 48)).length = 9 := by
  decide

end CE.Props.C22
