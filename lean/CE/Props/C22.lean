import CE.Cbe.Minimal
import CE.Cbe.Reencode
import CE.Cbe.ItemRoundTrip
import CE.Canon
/-
  C22 — CBE encoding is minimal and canonical.

  Proved: integers (both signs, every magnitude below 2^64): the encoder's output is one of
  the encodings the format offers (`posFormLens`/`negFormLens`, written from the format's
  type table independently of the encoder's `switch`) and no offered encoding is shorter;
  and the integer re-encoding idempotence: what the decoder emits for an encoder-written
  integer encodes to the same bytes again.
  `structural_encoding_is_a_fixed_point`: for EVERY document made of structural events
  (containers, Booleans, null, integers of all widths and forms, big integers, binary floats,
  decimal floats and big decimals, identifiers, UIDs, strings, resource identifiers and whole typed
  arrays in short and chunk-header form, comments, padding), decoding the encoder's
  bytes and encoding the delivered events again yields exactly the same bytes: the encoding is
  canonical (CE/Cbe/Reencode.lean, induction over the stream).
  `chunked_encoding_is_a_fixed_point`: the same when the document also contains arrays sent in chunks
  (any chunking, any division of the data into data events): what the decoder delivers for the
  encoder's bytes encodes to exactly those bytes again (CE/Cbe/ItemRoundTrip.lean).
  `small_array_form_is_chosen_and_shorter` / `long_array_form_only_without_short_form`: typed-array headers -
  the short form is written whenever the format offers it (short code, at most 15 elements) and is shorter than
  the other form by exactly the chunk header; otherwise the one remaining form is written.
  `…_partial`: floats (narrowest exact width) and the same fixed point for
  media / custom types are decided on every run by the driver's independent size
  oracle (CBE.MINLEN) and by decode→encode byte identity on the implementation.
-/
namespace CE.Props.C22
open CE CE.Cbe

/-- the facts about `byteLen` the case analysis needs, as implications `omega` can use -/
theorem byteLen_facts (n : Nat) (h : n < 2 ^ 64) :
    (1 ≤ n → 1 ≤ byteLen n) ∧ (256 ≤ n → 2 ≤ byteLen n) ∧ (65536 ≤ n → 3 ≤ byteLen n) ∧
    (4294967296 ≤ n → 5 ≤ byteLen n) ∧ (281474976710656 ≤ n → 7 ≤ byteLen n) ∧
    (n < 281474976710656 → byteLen n ≤ 6) ∧ byteLen n ≤ 8 ∧ (n = 0 → byteLen n = 0) := by
  refine ⟨fun h1 => byteLen_ge n 0 (by simpa using h1), fun h1 => byteLen_ge n 1 (by simpa using h1),
    fun h1 => byteLen_ge n 2 (by simpa using h1), fun h1 => byteLen_ge n 4 (by simpa using h1),
    fun h1 => byteLen_ge n 6 (by simpa using h1), fun h1 => byteLen_le n 6 (by simpa using h1),
    byteLen_le n 8 (by simpa using h), fun h0 => by subst h0; simp [byteLen]⟩

theorem posInt_minimal (n : Nat) (h : n < 2 ^ 64) :
    (encPosInt n).length ∈ posFormLens n ∧ ∀ l ∈ posFormLens n, (encPosInt n).length ≤ l := by
  rw [encPosInt_length]
  obtain ⟨f1, f2, f3, f5, f7, u6, u8, _⟩ := byteLen_facts n h
  unfold posFormLens
  constructor
  · repeat' split
    all_goals (simp; try omega)
  · intro l hl
    simp only [List.mem_append, List.mem_cons, List.mem_nil_iff, or_false] at hl
    repeat' split
    all_goals (rcases hl with ((((hl | hl) | hl) | hl) | hl) | hl <;> (try (split at hl)) <;> simp_all <;> omega)

theorem negInt_minimal (n : Nat) (h : n < 2 ^ 64) :
    (encNegInt n).length ∈ negFormLens n ∧ ∀ l ∈ negFormLens n, (encNegInt n).length ≤ l := by
  rw [encNegInt_length]
  obtain ⟨f1, f2, f3, f5, f7, u6, u8, z⟩ := byteLen_facts n h
  unfold negFormLens
  constructor
  · repeat' split
    all_goals (simp; try omega)
  · intro l hl
    simp only [List.mem_append, List.mem_cons, List.mem_nil_iff, or_false] at hl
    repeat' split
    all_goals (rcases hl with ((((hl | hl) | hl) | hl) | hl) | hl <;> (try (split at hl)) <;> simp_all <;> omega)

/-- idempotence for integers: re-encoding what the decoder emits gives the same bytes -/
theorem posInt_reencode (n : Nat) (h : n < 2 ^ 64) (st : EncSt) :
    encodeEv st (renormPos n) = encodeEv st (.posInt n) := by
  unfold renormPos
  by_cases h1 : n ≤ smallIntMax
  · simp [h1, encodeEv, encInt]
  · simp [h1]

theorem negInt_reencode (n : Nat) (h : n < 2 ^ 64) (st : EncSt) :
    encodeEv st (renormNeg n) = encodeEv st (.negInt n) := by
  unfold renormNeg
  by_cases h0 : n = 0
  · simp [h0]
  · by_cases h1 : n ≤ smallIntMax
    · have hs : n ≤ 100 := by simpa [smallIntMax] using h1
      have hmod : n % 18446744073709551616 = n := by omega
      simp [h0, h1, encodeEv, encInt, hmod]
    · simp [h0, h1]

/-- canonical form: decode-then-encode reproduces the encoder's bytes exactly -/
theorem structural_encoding_is_a_fixed_point (evs : List Ev) (h : evs.all simple = true) :
    let doc := Ev.beginDoc :: Ev.version 0 :: (evs ++ [Ev.endDoc])
    ∃ back, decode (encode doc).1 = (back, none) ∧ encode back = encode doc :=
  canonical_fixed_point evs h

/-- … also for documents with arrays sent in chunks -/
theorem chunked_encoding_is_a_fixed_point (items : List Item) (h : ∀ i ∈ items, i.ok) :
    let doc := Ev.beginDoc :: Ev.version 0 :: (items.flatMap Item.events ++ [Ev.endDoc])
    ∃ back, decode (encode doc).1 = (back, none) ∧ encode back = encode doc := by
  intro doc
  refine ⟨_, items_decode_encode_doc items h, ?_⟩
  have hfix := items_canonical_fixed_point items h
  simp only [] at hfix
  rw [items_decode_encode_doc items h] at hfix
  have henc := items_encode_doc items h
  rw [hfix]
  simp only [doc, henc]

example : (encPosInt 100).length = 1 ∧ (encPosInt 101).length = 2 ∧ (encPosInt (2 ^ 48)).length = 9 := by
  decide

/-- typed-array headers: whenever the format offers the short form for an array (a type with a short code
    and at most 15 elements) the encoder writes it, and it is strictly shorter than the only other form
    (type code + chunk header), by exactly the chunk header -/
theorem small_array_form_is_chosen_and_shorter (t : ArrT) (count : Nat) (data hs : Bytes)
    (h1 : smallHeader t count = some hs) :
    encArrayWhole t count data = .ok (hs ++ data) ∧
    ∃ hl, arrayHeader t = .ok hl ∧
      (hs ++ data).length + (chunkHeader count false).length = (hl ++ chunkHeader count false ++ data).length ∧
      0 < (chunkHeader count false).length := by
  refine ⟨by simp [encArrayWhole, h1], ?_⟩
  have hpos : 0 < (chunkHeader count false).length := by unfold chunkHeader; exact uleb_length_pos _
  unfold smallHeader at h1
  split at h1
  · cases h1
  · cases t <;> simp [shortCode] at h1 <;> subst h1 <;>
      exact ⟨_, rfl, by simp [List.length_append]; omega, hpos⟩

/-- … and when the format offers no short form (more than 15 elements, or a type without a short code) the
    encoder writes the one form there is -/
theorem long_array_form_only_without_short_form (t : ArrT) (count : Nat) (data hl : Bytes)
    (h1 : smallHeader t count = none) (h2 : arrayHeader t = .ok hl) :
    encArrayWhole t count data = .ok (hl ++ chunkHeader count false ++ data) ∧
    (count > maxSmallArrayLength ∨ shortCode t = none) := by
  refine ⟨by simp [encArrayWhole, h1, h2, bind, Except.bind], ?_⟩
  unfold smallHeader at h1
  split at h1
  · left; assumption
  · right
    cases hc : shortCode t with
    | none => rfl
    | some p => obtain ⟨c, b⟩ := p; cases b <;> simp [hc] at h1

/-- non-vacuity: a 3-element uint16 array takes the short form, a 16-element one cannot -/
example : (smallHeader .u16 3).isSome = true ∧ smallHeader .u16 16 = none ∧ (arrayHeader .u16).toOption.isSome = true := by decide

end CE.Props.C22
