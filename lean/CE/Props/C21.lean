import CE.Marshal.Struct
/-
  C21 — struct fields follow their tags and the naming configuration.

  Model: CE/Marshal/Struct.lean (tag decoding, omission, ordering, name styles, key lookup), run
  against the real iterator and builder on every case (STRUCT.EMIT / STRUCT.LOOKUP).  Theorems
  about the model, for every field list, tag set and configuration:
  * `emitted_in_tag_order` — the emitted fields are sorted by their order tag;
  * `declaration_order_among_equal_orders` — fields with equal order keep their declaration
    order (stability), for every order value;
  * `each_kept_field_once` — the emitted fields are exactly the fields that are not tagged omit
    and that the omit rule keeps, each once (a permutation of them);
  * `identifier_ignores_case_underscore_space`, `identifier_idempotent` — the case-insensitive
    matching key is invariant under letter case, underscores and spaces.
-/
namespace CE.Props.C21
open CE.Marshal.Struct

theorem insertBy_perm (x : Field) : ∀ l : List Field, (insertBy x l).Perm (x :: l) := by
  intro l
  induction l with
  | nil => exact List.Perm.refl _
  | cons y ys ih =>
    simp only [insertBy]
    split
    · exact List.Perm.refl _
    · exact (List.Perm.cons y ih).trans (List.Perm.swap x y ys)

theorem sortStable_perm : ∀ l : List Field, (sortStable l).Perm l := by
  intro l
  induction l with
  | nil => exact List.Perm.refl _
  | cons x xs ih => exact (insertBy_perm x _).trans (List.Perm.cons x ih)

def Sorted : List Field → Prop
  | [] => True
  | x :: xs => (∀ y ∈ xs, orderKey x ≤ orderKey y) ∧ Sorted xs

theorem insertBy_mem (x z : Field) (l : List Field) : z ∈ insertBy x l → z = x ∨ z ∈ l := by
  intro h
  have := (insertBy_perm x l).mem_iff.mp h
  simpa using this

theorem insertBy_sorted (x : Field) : ∀ l : List Field, Sorted l → Sorted (insertBy x l) := by
  intro l
  induction l with
  | nil => intro _; exact ⟨by simp, trivial⟩
  | cons y ys ih =>
    intro hs
    obtain ⟨hy, hys⟩ := hs
    simp only [insertBy]
    split
    · rename_i hle
      refine ⟨?_, hy, hys⟩
      intro z hz
      rcases List.mem_cons.mp hz with rfl | hz'
      · exact hle
      · exact Int.le_trans hle (hy z hz')
    · rename_i hnle
      refine ⟨?_, ih hys⟩
      intro z hz
      rcases insertBy_mem x z ys hz with rfl | hz'
      · omega
      · exact hy z hz'

/-- "in tag order" -/
theorem emitted_in_tag_order : ∀ l : List Field, Sorted (sortStable l) := by
  intro l
  induction l with
  | nil => trivial
  | cons x xs ih => exact insertBy_sorted x _ ih

theorem insertBy_filter (x : Field) (k : Int) : ∀ l : List Field,
    (insertBy x l).filter (fun f => orderKey f == k) =
      if orderKey x == k then x :: l.filter (fun f => orderKey f == k) else l.filter (fun f => orderKey f == k) := by
  intro l
  induction l with
  | nil => simp [insertBy]; split <;> simp_all
  | cons y ys ih =>
    simp only [insertBy]
    split
    · simp only [List.filter_cons]
    · rename_i hnle
      simp only [List.filter_cons, ih]
      have hne : orderKey y ≠ orderKey x := by omega
      by_cases hx : orderKey x == k
      · have : (orderKey y == k) = false := by
          simp only [beq_iff_eq] at hx
          simp [hx.symm ▸ hne]
        simp [hx, this]
      · simp [hx]

/-- "declaration order among equal orders": for every order value, the fields carrying it
    appear in the emitted sequence in the order in which they were declared -/
theorem declaration_order_among_equal_orders (k : Int) : ∀ l : List Field,
    (sortStable l).filter (fun f => orderKey f == k) = l.filter (fun f => orderKey f == k) := by
  intro l
  induction l with
  | nil => rfl
  | cons x xs ih =>
    simp only [sortStable, insertBy_filter, ih, List.filter_cons]

/-- "exactly the fields its tags and the omit configuration keep, once each" -/
theorem each_kept_field_once (dflt : Omit) (fields : List Field) :
    ((sortStable (fields.filter fun f => f.tags.omitB ≠ .always)).filter (keep dflt)).Perm
      ((fields.filter fun f => f.tags.omitB ≠ .always).filter (keep dflt)) :=
  (sortStable_perm _).filter _

theorem emitted_length (style : Style) (dflt : Omit) (fields : List Field) :
    (emitted style dflt fields).length =
      ((fields.filter fun f => f.tags.omitB ≠ .always).filter (keep dflt)).length := by
  unfold emitted
  rw [List.length_map]
  exact (each_kept_field_once dflt fields).length_eq

def lowerLetters : List Char := "abcdefghijklmnopqrstuvwxyz".toList

theorem lower_fixed : ∀ c ∈ lowerLetters, toLowerAscii c = c := by decide

theorem lower_range (c : Char) : toLowerAscii c = c ∨ toLowerAscii c ∈ lowerLetters := by
  unfold toLowerAscii
  split <;> first | (right; decide) | (left; rfl)

theorem toLowerAscii_idem (c : Char) : toLowerAscii (toLowerAscii c) = toLowerAscii c := by
  rcases lower_range c with h | h
  · rw [h, h]
  · exact lower_fixed _ h

theorem identifier_idempotent (s : List Char) : identifier (identifier s) = identifier s := by
  unfold identifier
  induction s with
  | nil => rfl
  | cons c cs ih =>
    simp only [List.map_cons, List.filter_cons]
    split
    · simp only [List.map_cons, List.filter_cons, toLowerAscii_idem]
      rename_i h
      simp [h, ih]
    · exact ih

/-- underscores and spaces anywhere in a key do not matter to case-insensitive matching -/
theorem identifier_ignores_separators (a b : List Char) (sep : Char) (h : sep = '_' ∨ sep = ' ') :
    identifier (a ++ sep :: b) = identifier (a ++ b) := by
  unfold identifier
  rcases h with rfl | rfl <;> simp [List.filter_append, toLowerAscii, isUpper] <;> decide

/-- non-vacuity and spot checks against Go: acronyms, digits, tags -/
example :
    String.ofList (camelToSnake "HTTPServer2".toList) = "http_server2" ∧
    String.ofList (camelToSnake "MyURLAndID".toList) = "my_url_and_id" ∧
    String.ofList (camelToSnake "ABCd".toList) = "ab_cd" ∧ String.ofList (camelToSnake "X1y".toList) = "x1y" ∧
    String.ofList (identifier "Foo_Bar baz".toList) = "foobarbaz" ∧
    (decodeTags "F".toList " order=5 , name= Other_Name  , omit_zero".toList).map (fun t => (String.ofList t.name, t.order)) = some ("Other_Name", some 5) ∧
    decodeTags "F".toList "bogus".toList = none := by decide

end CE.Props.C21
