import CE.Io.ReaderProofs
/-
  C28 — stream decoding does not depend on how the reader delivers bytes.

  The CBE decoder touches its io.Reader only through `readerAdapter` (since the fix), via
  two functions: readIntoBuffer (`readFull`) and ReadTypeOrEOF (`readByteOrEOF`); the ULEB128 /
  compact-float / compact-time helpers read single bytes through the same adapter.  Theorems:
  for every legal delivery schedule (any short reads, any `(0, nil)` reads short of 100 in a
  row, final bytes with or without `io.EOF`) these functions return exactly what they return
  on the in-memory document.  Hence the byte sequence the decoder consumes, and so everything
  it computes, is independent of the schedule.
  Modelled, not verified: that every byte access of cbe/decoder.go goes through these two
  functions (tied by the C28 correspondence: documents × delivery patterns × entry points);
  CTE (io.Copy) and the universal path (bufio.Reader) rely on the standard library's own
  handling of the io.Reader contract (assumed).
-/
namespace CE.Props.C28
open CE CE.Io

theorem full_read_delivery_irrelevant (bs : Bytes) (n : Nat) (hle : n ≤ bs.length)
    (sched : Nat → Nat) (eofWithData : Bool) (hl : Legal sched) :
    ∃ a', readFull { src := { data := bs, sched := sched, eofWithData := eofWithData } } n = .ok (bs.take n, a')
      ∧ Good a' (bs.drop n) :=
  readFull_delivery_irrelevant _ bs n (good_of_document bs sched eofWithData hl) hle

theorem byte_stream_delivery_irrelevant (bs : Bytes) (sched : Nat → Nat) (eofWithData : Bool) (hl : Legal sched) :
    readAll (bs.length + 1) { src := { data := bs, sched := sched, eofWithData := eofWithData } } = (bs, none) :=
  readAll_delivery_irrelevant bs _ (good_of_document bs sched eofWithData hl)

/-- two arbitrary legal deliveries of the same document are indistinguishable -/
theorem two_deliveries_agree (bs : Bytes) (s1 s2 : Nat → Nat) (f1 f2 : Bool) (h1 : Legal s1) (h2 : Legal s2) :
    readAll (bs.length + 1) { src := { data := bs, sched := s1, eofWithData := f1 } }
      = readAll (bs.length + 1) { src := { data := bs, sched := s2, eofWithData := f2 } } := by
  rw [byte_stream_delivery_irrelevant bs s1 f1 h1, byte_stream_delivery_irrelevant bs s2 f2 h2]

/-- non-vacuity: the one-byte-then-empty-read schedule is legal -/
example : Legal (fun i => if i % 2 = 0 then 1 else 0) := by
  intro i
  by_cases h : i % 2 = 0
  · exact ⟨0, by omega, by simp [h]⟩
  · exact ⟨1, by omega, by simp; omega⟩

end CE.Props.C28
