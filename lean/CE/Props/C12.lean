import CE.Rules.Machine
import CE.Rules.Table
import CE.Rules.Keys
/-
  C12 — duplicate map keys are rejected whatever encoding they use.

  Two layers.
  (1) `GoKey` models the Go values `Context.NotifyKey` stores in the key set (the dynamic type
      is part of map-key identity in Go): uint64, int64, or a word array [sign, magnitude…] for
      big integers.  `normalize` is NotifyKey's switch for the four integer event forms,
      including the `negint` case added by the fix.  `normalize_eq_iff`: two integer key
      events get the same Go key exactly when they denote the same integer — no missed
      duplicate, no false duplicate, for every combination of forms and every magnitude.
  (2) the machine stores `NormKey.int (denote e)` (the abstraction justified by (1)) and
      `notifyKey` rejects exactly the keys already present.
  (3) lifted to whole documents: `no_container_holds_two_equal_keys` - in EVERY state the validator
      reaches on any event stream, the normalised keys registered for the current container and
      for every enclosing container are pairwise distinct (an invariant over `run`,
      CE/Rules/Keys.lean: case analysis over all 45 statement kinds, nested rule calls, every
      event; entering a container starts an empty key list, leaving it restores the outer one).
  Strings/resource IDs (whole or chunked), UIDs and booleans are compared by contents in the
  model (`keyOfArray`, `notifyKeyOfBuilt`, `uidKey`); time keys are compared through the
  external `Time.String()` and are covered by correspondence only.
-/
namespace CE.Props.C12
open CE CE.Rules

/-- an integer key event, with the range its Go argument type allows -/
inductive IntKeyEv
  | pos (n : Nat)          -- OnPositiveInt(uint64)
  | neg (n : Nat)          -- OnNegativeInt(uint64): denotes -n
  | int (i : Int)          -- OnInt(int64)
  | big (i : Int)          -- OnBigInt(*big.Int)

def IntKeyEv.wf : IntKeyEv → Prop
  | .pos n => n < 2 ^ 64
  | .neg n => n < 2 ^ 64
  | .int i => -(2:Int) ^ 63 ≤ i ∧ i < 2 ^ 63
  | .big _ => True

def IntKeyEv.denote : IntKeyEv → Int
  | .pos n => n
  | .neg n => -(n : Int)
  | .int i => i
  | .big i => i

/-- the dynamic Go value stored in `Keys` -/
inductive GoKey
  | u64 (n : Nat)
  | i64 (i : Int)
  | words (negative : Bool) (magnitude : Nat)     -- [len+1]big.Word{sign, bits…}
deriving DecidableEq

/-- `*big.Int` case of NotifyKey: IsUint64 → uint64; IsInt64 → int64; else the word array -/
def normBig (i : Int) : GoKey :=
  if 0 ≤ i ∧ i < 2 ^ 64 then .u64 i.toNat
  else if -(2:Int) ^ 63 ≤ i ∧ i < 0 then .i64 i
  else .words (i < 0) i.natAbs

/-- NotifyKey's normalisation of the four integer forms (rules/context.go, after the fix) -/
def normalize : IntKeyEv → GoKey
  | .pos n => .u64 n
  | .neg n => if n = 0 then .u64 0 else if n ≤ 2 ^ 63 then .i64 (-(n : Int)) else .words true n
  | .int i => if 0 ≤ i then .u64 i.toNat else .i64 i
  | .big i => normBig i

theorem normalize_eq_iff (a b : IntKeyEv) (ha : a.wf) (hb : b.wf) :
    normalize a = normalize b ↔ a.denote = b.denote := by
  cases a <;> cases b <;>
    simp only [IntKeyEv.wf] at ha hb <;>
    simp only [normalize, normBig, IntKeyEv.denote] <;>
    (repeat' split) <;>
    (try simp) <;> (try omega)

/-- the machine's key test: a key is rejected iff an equal key is already in the container -/
theorem notifyKey_rejects_iff (s : RState) (k : NormKey) :
    notifyKey s k = .error .dupKey ↔ k ∈ s.cur.keys := by
  unfold notifyKey
  by_cases h : s.cur.keys.contains k <;> simp_all

theorem notifyKey_adds (s s' : RState) (k : NormKey) (h : notifyKey s k = .ok s') :
    s'.cur.keys = k :: s.cur.keys := by
  unfold notifyKey at h
  split at h
  · contradiction
  · injection h with h; subst h; rfl

/-- where keys are checked: key position of maps and every position of a record type -/
theorem key_positions_notify :
    Model.ruleTable .mapKey .onKeyableObject = [.notifyKey, .changeRule .mapValue] ∧
    Model.ruleTable .mapKey .onArray = [.validateFullKeyable, .notifyKeyOfArray, .changeRule .mapValue] ∧
    Model.ruleTable .mapKey .onStringlikeArray = [.validateFullStringlikeKeyable, .notifyKeyOfArray, .changeRule .mapValue] ∧
    Model.ruleTable .mapKey .onChildContainerEnded = [.notifyKeyOfBuilt, .changeRule .mapValue] ∧
    Model.ruleTable .recordType .onKeyableObject = [.notifyKey] ∧
    Model.ruleTable .recordType .onArray = [.validateFullKeyable, .notifyKeyOfArray] ∧
    Model.ruleTable .recordType .onStringlikeArray = [.validateFullStringlikeKeyable, .notifyKeyOfArray] ∧
    Model.ruleTable .recordType .onChildContainerEnded = [.notifyKeyOfBuilt] := by decide

/-- non-vacuity and the regression witness of the repaired defect: -5 as OnNegativeInt(5)
    and as OnInt(-5) now get the same key; 2^63 in all three negative forms agree -/
example : normalize (.neg 5) = normalize (.int (-5)) ∧
    normalize (.neg (2 ^ 63)) = normalize (.int (-(2:Int) ^ 63)) ∧
    normalize (.neg (2 ^ 63 + 1)) = normalize (.big (-(2:Int) ^ 63 - 1)) ∧
    normalize (.neg 0) = normalize (.pos 0) ∧
    normalize (.pos 5) ≠ normalize (.neg 5) := by decide

/-- on any stream, accepted or not: no open container holds two equal (normalised) keys -/
theorem no_container_holds_two_equal_keys (env : Env) (evs : List Ev) :
    let s := (run env RState.init evs 0).2.2
    s.cur.keys.Nodup ∧ ∀ e ∈ s.stack, e.keys.Nodup :=
  run_keys env evs RState.init 0 ⟨by simp [RState.init], by simp [RState.init]⟩

end CE.Props.C12
