import CE.Cte.Digits
/-
  C25 — every CTE array-format setting produces readable CTE.

  `int_element_roundtrip`: for each of the 8 integer array kinds, each of the 7 format settings
  and EVERY element bit pattern of the kind's width, the decoder's reading of the text the
  encoder writes for the element is that bit pattern — decimal, binary, octal, hexadecimal, zero
  filled or not, negative values included (Go's zero padding counts the minus sign).
  `int_array_roundtrip` lifts it to whole arrays of any length.
  The tables the theorem is about (`header`, `verbText`, the routing of float kinds) are proved
  equal to the ones extracted from /repo on every run (CE/Gen/CheckCte.lean).
  Float kinds (`_partial`): decimal and hex-float element texts are external (strconv); they are
  decided by the exhaustive-over-settings oracle of `bin/check C25`, not by a theorem.
-/
namespace CE.Props.C25
open CE.Cte.ArrFmt

theorem base_ok (f : Fmt) : 2 ≤ f.base ∧ f.base ≤ 16 := by cases f <;> decide

/-- reading back an unsigned magnitude written with the setting's base and padding -/
theorem parseUintBase_fmt (f : Fmt) (w n : Nat) :
    parseUintBase (if f = .dec then 0 else f.base) (leftPad (if f = .dec then 0 else w) (natDigits f.base n)) = some n := by
  obtain ⟨h2, h16⟩ := base_ok f
  by_cases hd : f = .dec
  · subst hd
    simp only [if_true, parseUintBase]
    have hpad : leftPad 0 (natDigits Fmt.dec.base n) = natDigits 10 n := by simp [leftPad, Fmt.base]
    rw [hpad]
    by_cases hn : n = 0
    · subst hn; decide
    · obtain ⟨c, cs, he, hc⟩ := natDigitsAux_head 10 (by omega) (by omega) n (n + 1) (by omega) (by omega)
      have hnd : natDigits 10 n = c :: cs := he
      have := parseNat_leftPad_natDigits 10 (by omega) (by omega) 0 n
      simp only [leftPad, Nat.zero_sub, List.replicate_zero, List.nil_append] at this
      rw [hnd] at this ⊢
      split <;> simp_all
  · simp only [hd, if_false, parseUintBase]
    have hb0 : f.base ≠ 0 := by omega
    simp only [hb0, if_false]
    exact parseNat_leftPad_natDigits f.base h2 h16 w n

theorem parseElem_signed_nosign (k : Kind) (hs : k.signed = true) (f : Fmt) (c : Char) (cs : List Char)
    (h1 : c ≠ '-') (h2 : c ≠ '+') :
    parseElem k f (c :: cs) =
      (parseUintBase (if f = .dec then 0 else f.base) (c :: cs)).bind fun m =>
        if m < 2 ^ (k.bits - 1) then some m else none := by
  unfold parseElem
  simp only [hs, if_true]
  split <;> simp_all

theorem padWidth_dec (bits : Nat) : padWidth bits .dec = 0 := rfl

theorem int_element_roundtrip (k : Kind) (hk : k ∈ Kind.ints) (f : Fmt) (e : Nat) (he : e < 2 ^ k.bits) :
    parseElem k f (fmtElem k f e) = some e := by
  have hbits : 1 ≤ k.bits := by cases k <;> simp [Kind.bits]
  have hpow : 2 ^ k.bits = 2 * 2 ^ (k.bits - 1) := by cases k <;> simp [Kind.bits]
  obtain ⟨hb2, hb16⟩ := base_ok f
  have hpad : ∀ w, (if f = Fmt.dec then 0 else w) = (if f = Fmt.dec then 0 else w) := fun _ => rfl
  have hpw : (if f = Fmt.dec then 0 else padWidth k.bits f) = padWidth k.bits f := by
    by_cases hd : f = .dec <;> simp [hd, padWidth_dec]
  have hpw1 : (if f = Fmt.dec then 0 else padWidth k.bits f - 1) = padWidth k.bits f - 1 := by
    by_cases hd : f = .dec <;> simp [hd, padWidth_dec]
  by_cases hs : k.signed = true
  · by_cases hneg : e ≥ 2 ^ (k.bits - 1)
    · -- negative value: "-" then the zero-padded magnitude
      have hval : elemValue k e = (e : Int) - ((2 ^ k.bits : Nat) : Int) := by simp [elemValue, hs, hneg]
      have hx : elemValue k e < 0 := by rw [hval]; omega
      have habs : (elemValue k e).natAbs = 2 ^ k.bits - e := by rw [hval]; omega
      have hp := parseUintBase_fmt f (padWidth k.bits f - 1) (2 ^ k.bits - e)
      rw [hpw1] at hp
      unfold fmtElem fmtInt
      simp only [hx, if_true, habs]
      unfold parseElem
      simp only [hs, if_true, hp, Option.bind]
      have hle : 2 ^ k.bits - e ≤ 2 ^ (k.bits - 1) := by omega
      simp only [hle, if_true]
      congr 1
      have : 2 ^ k.bits - (2 ^ k.bits - e) = e := by omega
      rw [this, Nat.mod_eq_of_lt he]
    · -- non-negative value of a signed kind
      have hval : elemValue k e = (e : Int) := by simp [elemValue, hneg]
      have hlt : e < 2 ^ (k.bits - 1) := by omega
      have hp := parseUintBase_fmt f (padWidth k.bits f) e
      rw [hpw] at hp
      have hns := leftPad_natDigits_no_sign f.base hb2 hb16 (padWidth k.bits f) e
      unfold fmtElem fmtInt
      have hx : ¬ ((e : Int) < 0) := by omega
      simp only [hval, hx, if_false, Int.natAbs_natCast]
      cases hl : leftPad (padWidth k.bits f) (natDigits f.base e) with
      | nil => rw [hl] at hp; revert hp; unfold parseUintBase parseNat; split <;> simp
      | cons c cs =>
        rw [hl] at hp hns
        obtain ⟨h1, h2⟩ := hns c (by simp)
        rw [parseElem_signed_nosign k hs f c cs h1 h2, hp]
        simp [hlt]
  · -- unsigned kind
    have hs' : k.signed = false := by simpa using hs
    have hval : elemValue k e = (e : Int) := by simp [elemValue, hs']
    have hx : ¬ ((e : Int) < 0) := by omega
    have hp := parseUintBase_fmt f (padWidth k.bits f) e
    rw [hpw] at hp
    unfold fmtElem fmtInt
    simp only [hval, hx, if_false, Int.natAbs_natCast]
    unfold parseElem
    simp [hs', hp, he]

/-- whole arrays, any length: element texts read back to the elements -/
theorem int_array_roundtrip (k : Kind) (hk : k ∈ Kind.ints) (f : Fmt) (es : List Nat)
    (hes : ∀ e ∈ es, e < 2 ^ k.bits) :
    (es.map (fmtElem k f)).mapM (parseElem k f) = some es := by
  induction es with
  | nil => rfl
  | cons e es ih =>
    have h1 := int_element_roundtrip k hk f e (hes e (by simp))
    have h2 := ih (fun x hx => hes x (by simp [hx]))
    simp [List.mapM_cons, h1, h2]

/-- every setting of every kind has a header the decoder dispatches on: the kind name, the base
    letter of the setting (floats: x for everything but decimal) and an opening bracket -/
theorem header_shape (k : Kind) (f : Fmt) :
    header k f = "@" ++ k.name ++ (if k.isFloat then (if f = .dec then "" else "x") else f.suffix) ++ "[" := rfl

/-- non-vacuity and spot checks against Go's fmt: -3 as int8 in zero-filled binary is "-0000011" -/
example : String.ofList (fmtElem .i8 .binz 253) = "-0000011" ∧ parseElem .i8 .binz "-0000011".toList = some 253 ∧
    String.ofList (fmtElem .u16 .hexz 255) = "00ff" ∧ String.ofList (fmtElem .i64 .octz 8) = "0000000000000000000010" ∧
    printArray .u8 .hex [1, 255] = "@u8x[1 ff]" := by decide

end CE.Props.C25
