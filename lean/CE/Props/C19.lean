import CE.Conv.Int
/-
  C19 — numeric unmarshaling is exact or fails.

  Proved (integer sources into integer destinations of every width w ≥ 1, signed and
  unsigned, from the int64 / uint64 / big-integer event forms): each conversion succeeds
  *exactly* when the mathematical value fits the destination, and then stores that value —
  it never wraps or truncates, and never rejects a value that fits.
  `…_partial`: conversions involving floats (setIntFromFloat's post-store comparison,
  setFloatFromInt's round-trip test, amd64's out-of-range float→int result), big.Float and
  decimal sources are decided on every run by the exact-rational oracle of bin/check C19
  (every event form × 16 destination types, boundary magnitudes), not yet by theorems.
-/
namespace CE.Props.C19
open CE.Conv

theorem two_pow_le (a b : Nat) (h : a ≤ b) : (2 : Int) ^ a ≤ 2 ^ b := by
  rcases Nat.lt_or_eq_of_le h with h | h
  · exact Int.le_of_lt (Int.pow_lt_pow_of_lt (by decide) h)
  · subst h; exact Int.le_refl _

theorem int_from_int_exact_iff (w : Nat) (hw : 0 < w) (v x : Int) :
    setIntFromInt w v = some x ↔ (x = v ∧ inS w v) := by
  unfold setIntFromInt
  constructor
  · intro h
    split at h
    · contradiction
    · rename_i hne
      have heq : wrapS w v = v := by simpa using hne
      injection h with h
      exact ⟨by rw [← h, heq], by rw [← heq]; exact wrapS_range w hw v⟩
  · rintro ⟨rfl, hin⟩
    simp [wrapS_id w hw x hin]

theorem uint_from_uint_exact_iff (w : Nat) (v x : Int) :
    setUintFromUint w v = some x ↔ (x = v ∧ inU w v) := by
  unfold setUintFromUint
  constructor
  · intro h
    split at h
    · contradiction
    · rename_i hne
      have heq : wrapU w v = v := by simpa using hne
      injection h with h
      exact ⟨by rw [← h, heq], by rw [← heq]; exact wrapU_range w v⟩
  · rintro ⟨rfl, hin⟩
    simp [wrapU_id w x hin]

theorem uint_from_int_exact_iff (w : Nat) (v x : Int) :
    setUintFromInt w v = some x ↔ (x = v ∧ inU w v) := by
  unfold setUintFromInt
  by_cases hneg : v < 0
  · simp only [hneg, if_true]
    constructor
    · intro h; contradiction
    · rintro ⟨_, h0, _⟩; omega
  · simp only [hneg, if_false]
    exact uint_from_uint_exact_iff w v x

theorem uint_from_bigint_exact_iff (w : Nat) (hw : w ≤ 64) (v x : Int) :
    setUintFromBigInt w v = some x ↔ (x = v ∧ inU w v) := by
  unfold setUintFromBigInt
  by_cases hin : inU 64 v
  · simp only [hin, not_true_eq_false, if_false]
    exact uint_from_uint_exact_iff w v x
  · simp only [hin, not_false_eq_true, if_true]
    constructor
    · intro h; contradiction
    · rintro ⟨_, h0, h1⟩
      exfalso; apply hin
      exact ⟨h0, Int.lt_of_lt_of_le h1 (two_pow_le w 64 hw)⟩

theorem int_from_bigint_exact_iff (w : Nat) (hw : 0 < w) (hw64 : w ≤ 64) (v x : Int) :
    setIntFromBigInt w v = some x ↔ (x = v ∧ inS w v) := by
  unfold setIntFromBigInt
  by_cases hin : inS 64 v
  · simp only [hin, not_true_eq_false, if_false]
    exact int_from_int_exact_iff w hw v x
  · simp only [hin, not_false_eq_true, if_true]
    constructor
    · intro h; contradiction
    · rintro ⟨_, h0, h1⟩
      exfalso; apply hin
      have hle : (2 : Int) ^ (w - 1) ≤ 2 ^ (64 - 1) := two_pow_le (w - 1) (64 - 1) (by omega)
      exact ⟨by omega, by omega⟩

/-- boundary witnesses (non-vacuity): 127 fits int8, 128 does not; 2^63 as a uint64 source
    does not fit int64; -1 does not fit any unsigned width -/
example : setIntFromInt 8 127 = some 127 ∧ setIntFromInt 8 128 = none ∧
    setIntFromUint 64 (2 ^ 63) = none ∧ setUintFromInt 64 (-1) = none ∧
    setUintFromBigInt 64 (2 ^ 64 - 1) = some (2 ^ 64 - 1) := by decide

end CE.Props.C19
