import CE.Cbe.CostProofs
import CE.Cbe.Progress
/-
  C08  Decoding cost is bounded by document size and configured limits.

  Proved (CBE reader and decoder models, for every document, every sequence of declared
  lengths - however large - and every way the io.Reader hands the bytes over):

  * `reader_buffer_paid_by_arrived_bytes`: the bytes ever allocated for the reader's buffer are
    at most 4 x the bytes that have ARRIVED, and the buffer is never longer than
    max(127, 2 x arrived); a declared length (array chunk, string, media type, identifier,
    big integer: all go through `readIntoBuffer`) contributes nothing by itself.
  * `one_read_cannot_reserve_more_than_arrives`: the same for a single read on a fresh reader
    (the shape of defect D05: 9 bytes announcing 4 GiB).
  * `old_reader_reserved_the_declared_length`: the code before fix 612489c, as a model,
    violates the bound (non-vacuity: the theorem distinguishes the two).
  * `main_loop_iterations_bounded`: the main decode loop of the CBE decoder model runs at most
    once per document byte (CE.Cbe.loopIterations_le), and every chunk header consumes a
    byte (decodeChunks_len): the number of decoder steps is linear in the document length.

  Observed, not proved (harness, TotalAlloc around a single decode): the allocation of the
  whole pipeline (events, rules, builders, and for CTE the ANTLR parse tree, which is built
  for the whole document before any rule runs) against K x len + MaxArraySizeBytes + C, and
  its growth when an adversarial family is scaled by 4.  Time is recorded but only a gross
  bound is enforced (wall-clock under load is not a fact about the code).
-/
namespace CE.Props.C08
open CE.Cbe.Cost

theorem reader_buffer_paid_by_arrived_bytes (declared : List Nat) (docLen : Nat) (sched : List Nat) :
    (readMany declared RS.init docLen sched).alloc ≤ 4 * docLen ∧
    (readMany declared RS.init docLen sched).len ≤ max startSize (2 * docLen) := by
  obtain ⟨hi, hc⟩ := readMany_inv declared RS.init docLen sched Inv.init
  obtain ⟨ha, hl⟩ := hi.alloc_le
  have : (readMany declared RS.init docLen sched).consumed ≤ docLen := by simpa [RS.init] using hc
  exact ⟨by omega, by omega⟩

theorem one_read_cannot_reserve_more_than_arrives (declared docLen : Nat) (sched : List Nat) :
    (readInto declared RS.init docLen sched).s.alloc ≤ 4 * docLen := by
  obtain ⟨hi, hc⟩ := readInto_inv declared RS.init docLen sched Inv.init
  obtain ⟨ha, _⟩ := hi.alloc_le
  have h0 : RS.init.consumed = 0 := rfl
  rw [h0] at hc
  omega

/-- the reader before fix 612489c: `expandBufferTo(count)` allocated `2 * count` up front -/
def oldReadAlloc (declared : Nat) (s : RS) : Nat :=
  if s.len < declared then s.alloc + 2 * declared else s.alloc

theorem old_reader_reserved_the_declared_length :
    ∃ declared docLen, ¬ (oldReadAlloc declared RS.init ≤ 4 * docLen) :=
  ⟨2 ^ 32, 9, by decide⟩

/-- the hypotheses are met by real runs: a 200-byte string arriving 7 bytes at a time makes the
    buffer double once, when 127 bytes have arrived -/
example : (readInto 200 RS.init 200 (List.replicate 40 7)).ok = true ∧
          (readInto 200 RS.init 200 (List.replicate 40 7)).s.len = 254 ∧
          (readInto 200 RS.init 200 (List.replicate 40 7)).s.alloc = 254 := by decide +kernel

/-- and a 9-byte document that announces 4 GiB stops at EOF with the start buffer untouched -/
example : (readInto (2 ^ 32) RS.init 4 []).ok = false ∧ (readInto (2 ^ 32) RS.init 4 []).s.alloc = 0 := by
  simp [readInto, readLoop, RS.init, startSize]

theorem main_loop_iterations_bounded (doc : List UInt8) : CE.Cbe.loopIterations doc.length doc ≤ doc.length :=
  CE.Cbe.loopIterations_le _ _

end CE.Props.C08
