import CE.Cte.Escape
import CE.Cte.Digits
import CE.Gen.Check
/-
  C02 — CTE encode/decode preserves every rules-valid event stream … including any string
  content.

  The whole-stream statement is decided by the oracle of `bin/check C02` (the real encoder and
  decoder with rules; `canonText`, the Lean definition of "carries the same data", judges the
  result).  Proved here, for EVERY string: the escaping layer of the encoder
  (cte/escapes.go escapeCharQuoted / unicodeEscape, cte/encoder_writer.go WriteQuotedString:
  a character is written as it is when the safety table allows it, otherwise as a named escape
  or as \[hex]) followed by the reference semantics of string literals (CE/Cte/Lit.lean
  `strValue`, the reading the C24 check holds the decoder to) is the identity.
  The safety table is a parameter: all the theorem needs from it is that it never lets a
  backslash or a double quote through — `safe_table_ok` discharges that for the table extracted
  from internal/chars on this run.
-/
namespace CE.Props.C02
open CE.Cte.Lit CE.Cte.ArrFmt CE.Cte.Escape

theorem hexDigits_no_bracket (n : Nat) : ∀ c ∈ natDigits 16 n, c ≠ ']' := by
  have key : ∀ (fuel n : Nat) (acc : List Char), (∀ c ∈ acc, c ≠ ']') →
      ∀ c ∈ natDigitsAux 16 fuel n acc, c ≠ ']' := by
    intro fuel
    induction fuel with
    | zero => intro n acc h c hc; exact h c (by simpa [natDigitsAux] using hc)
    | succ f ih =>
      intro n acc h c hc
      simp only [natDigitsAux] at hc
      have dne : ∀ d : Fin 16, digitChar d.val ≠ ']' := by decide
      split at hc
      · rcases List.mem_cons.mp hc with rfl | hc'
        · exact dne ⟨n, by omega⟩
        · exact h c hc'
      · refine ih (n / 16) _ ?_ c hc
        intro c' hc'
        rcases List.mem_cons.mp hc' with rfl | hc''
        · exact dne ⟨n % 16, Nat.mod_lt _ (by omega)⟩
        · exact h c' hc''
  intro c hc
  exact key (n + 1) n [] (by simp) c hc

theorem breakOn_hex (n : Nat) (rest : List Char) :
    breakOn (· = ']') (natDigits 16 n ++ ']' :: rest) = (natDigits 16 n, ']' :: rest) := by
  have h := hexDigits_no_bracket n
  generalize natDigits 16 n = ds at h
  induction ds with
  | nil => simp [breakOn]
  | cons d ds ih =>
    have hd : d ≠ ']' := h d (by simp)
    have := ih (fun c hc => h c (by simp [hc]))
    simp [breakOn, hd, this]

theorem char_valid_scalar (c : Char) : validScalar c.toNat = true := by
  have hv := c.valid
  simp only [validScalar, Bool.or_eq_true, decide_eq_true_eq, Bool.and_eq_true, Char.toNat]
  rcases hv with h | h
  · left; exact h
  · right; exact ⟨by have := h.1; omega, h.2⟩

theorem strValue_escapeUnsafe (fuel : Nat) (c : Char) (rest : List Char) :
    strValue (fuel + 1) (escapeUnsafe c ++ rest) = (strValue fuel rest).map (c.toNat :: ·) := by
  unfold escapeUnsafe
  by_cases h1 : c = '\t'; · subst h1; simp [strValue]
  by_cases h2 : c = '\r'; · subst h2; simp [strValue]
  by_cases h3 : c = '\n'; · subst h3; simp [strValue]
  by_cases h4 : c = '"'; · subst h4; simp [strValue]
  by_cases h5 : c = '*'; · subst h5; simp [strValue]
  by_cases h6 : c = '/'; · subst h6; simp [strValue]
  by_cases h7 : c = '\\'; · subst h7; simp [strValue]
  simp only [h1, h2, h3, h4, h5, h6, h7, if_false, List.cons_append, List.nil_append, List.append_assoc,
    strValue, if_true]
  rw [breakOn_hex]
  have hne : (natDigits 16 c.toNat).isEmpty = false := by
    cases h : natDigits 16 c.toNat with
    | nil => exact absurd h (natDigits_ne_nil 16 _)
    | cons _ _ => rfl
  have hp := parse_natDigitsAux 16 (by omega) (by omega) c.toNat (c.toNat + 1) (by omega)
  simp only [hne, Bool.false_eq_true, if_false]
  unfold natDigits
  rw [hp]
  simp [char_valid_scalar]

/-- **every string survives the escaping layer**: escaping, then reading by the reference
    semantics, gives back exactly the characters -/
theorem escape_roundtrip (safe : Char → Bool) (hq : safe '"' = false) (hb : safe '\\' = false) :
    ∀ (s : List Char) (fuel : Nat), s.length < fuel →
      strValue fuel (escape safe s) = some (s.map Char.toNat) := by
  intro s
  induction s with
  | nil => intro fuel h; cases fuel with | zero => omega | succ f => simp [escape, strValue]
  | cons c cs ih =>
    intro fuel h
    cases fuel with
    | zero => omega
    | succ f =>
      have hrec := ih f (by simp at h; omega)
      unfold escape at hrec ⊢
      simp only [List.flatMap_cons, escapeChar]
      by_cases hs : safe c = true
      · simp only [hs, if_true, List.cons_append, List.nil_append]
        have hcq : c ≠ '"' := by intro e; rw [e, hq] at hs; cases hs
        have hcb : c ≠ '\\' := by intro e; rw [e, hb] at hs; cases hs
        simp [strValue, hcq, hcb, hrec]
      · simp only [hs, Bool.false_eq_true, if_false]
        rw [strValue_escapeUnsafe, hrec]
        rfl

/-- the string safety table of internal/chars (extracted on this run and proved equal to the
    model's copy in CE/Gen/Check.lean: `stringlikeSafe_eq`) lets neither the quote nor the
    backslash through — the two hypotheses of `escape_roundtrip` -/
theorem safe_table_ok : tableSafe '"' = false ∧ tableSafe '\\' = false := by decide +kernel

/-- the encoder's string bodies, under the real safety table, read back as written -/
theorem encoder_strings_roundtrip (s : List Char) :
    strValue (s.length + 1) (escape tableSafe s) = some (s.map Char.toNat) :=
  escape_roundtrip tableSafe safe_table_ok.1 safe_table_ok.2 s (s.length + 1) (by omega)

/-- non-vacuity: quotes, backslash, a control character, a line separator and a supplementary
    plane character under a table that allows only ASCII letters -/
example :
    let safe : Char → Bool := fun c => c.isAlpha
    let s := ['a', '"', '\\', '\x01', '\n', Char.ofNat 0x2028, Char.ofNat 0x1F600, 'z']
    String.ofList (escape safe s) = "a\\\"\\\\\\[1]\\n\\[2028]\\[1f600]z" ∧
    strValue 20 (escape safe s) = some (s.map Char.toNat) := by decide

end CE.Props.C02
