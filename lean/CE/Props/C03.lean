import CE.Rules.Machine
import CE.Rules.Spec
import CE.Props.C02
/-
  C03 — CBE and CTE are 1:1 convertible.

  C03 is C01 + C02 plus the gap between what the validator lets through and what the text
  grammar can spell.  The chains CBE→CTE→CBE and CTE→CBE are decided by the oracle of
  `bin/check C03` (real codecs, `canonText` as the judge).  Proved here — the gap itself, after
  the repairs a4d8583 / 533bdc4 / ab826f1: the validator's content checks (model of
  Context.ValidateTime / ValidateComment in CE/Rules/Machine.lean, run in lock step with the real
  validator) accept EXACTLY what the independent grammar-side definitions in CE/Rules/Spec.lean
  (written from the CTE lexer: TIME/DATE field ranges, TZ_AREALOC, LINE_COMMENT, BLOCK_COMMENT)
  call spellable:
  * `time_accepted_iff_spellable` — for every time value;
  * `line_comment_accepted_iff_spellable` — for every single-line comment;
  * `block_comment_accepted_iff_spellable` — for every multi-line comment (any nesting): the
    validator's scan and the grammar's scan are the same computation (`scan_go`, by functional
    induction on the validator's scan);
  and string contents survive the escaping layer (C02 `encoder_strings_roundtrip`).
  * `media_type_accepted_iff_spellable` — for every media type (any bytes): the validator's
    index-based check and the grammar's FIRST NEXT* '/' NEXT+ are the same predicate; the
    character classes are compared on all 128 ASCII values by the kernel (`char_classes`).
-/
namespace CE.Props.C03
open CE CE.Rules

theorem dayMax_table (m : Nat) (h1 : 1 ≤ m) (h2 : m ≤ 12) :
    dayMax m = [31, 29, 31, 30, 31, 30, 31, 31, 30, 31, 30, 31].getD (m - 1) 0 := by
  have : m = 1 ∨ m = 2 ∨ m = 3 ∨ m = 4 ∨ m = 5 ∨ m = 6 ∨ m = 7 ∨ m = 8 ∨ m = 9 ∨ m = 10 ∨ m = 11 ∨ m = 12 := by
    omega
  rcases this with h | h | h | h | h | h | h | h | h | h | h | h <;> subst h <;> rfl

theorem date_part (t : TimeV) : dateOK t = !Spec.dateBad t := by
  unfold dateOK Spec.dateBad
  by_cases hm : 1 ≤ t.month ∧ t.month ≤ 12
  · rw [dayMax_table t.month hm.1 hm.2]
    generalize [31, 29, 31, 30, 31, 30, 31, 31, 30, 31, 30, 31].getD (t.month - 1) 0 = dm
    have m0 : ¬ t.month = 0 := by omega
    have m12 : ¬ 12 < t.month := by omega
    have m1 : ¬ t.month < 1 := by omega
    by_cases hy : t.year = 0
    · simp [hy]
    · have hyb : (t.year == 0) = false := by simpa using hy
      by_cases hd1 : 1 ≤ t.day
      · have d0 : ¬ t.day < 1 := by omega
        by_cases hd2 : t.day ≤ dm
        · have : ¬ t.day > dm := by omega
          simp [hy, hyb, hd1, hd2, hm.1, hm.2, m1, m12, d0, this]
        · have : t.day > dm := by omega
          simp [hy, hyb, hd1, hd2, hm.1, hm.2, m1, m12, d0, this]
      · have d0 : t.day < 1 := by omega
        simp [hy, hyb, hd1, hm.1, hm.2, d0]
  · by_cases h1 : 1 ≤ t.month
    · have h2 : ¬ t.month ≤ 12 := fun h => hm ⟨h1, h⟩
      have : 12 < t.month := by omega
      simp [h1, h2, this]
    · have : t.month < 1 := by omega
      simp [h1, this]

/-! ### area/location names -/

def restOK (b : Nat) : Bool :=
  (65 ≤ b && b ≤ 90) || (97 ≤ b && b ≤ 122) || (48 ≤ b && b ≤ 57) || [95, 45, 46, 47, 43].contains b

theorem byte_upper : ∀ b, b < 128 → (Char.ofNat b).isUpper = (decide (65 ≤ b) && decide (b ≤ 90)) := by decide +kernel
theorem byte_rest : ∀ b, b < 128 →
    ((Char.ofNat b).isAlphanum || "_-./+".toList.contains (Char.ofNat b)) = restOK b := by decide +kernel
theorem high_not_rest : ∀ b, b < 256 → 128 ≤ b → restOK b = false := by decide +kernel
theorem high_not_upper : ∀ b, b < 256 → 128 ≤ b → (decide (65 ≤ b) && decide (b ≤ 90)) = false := by decide +kernel

theorem zipIdx_all_pos (l : List Nat) : ∀ k, 0 < k →
    (l.zipIdx k).all (fun p => (decide (65 ≤ p.1) && decide (p.1 ≤ 90)) ||
        (decide (p.2 > 0) && ((decide (97 ≤ p.1) && decide (p.1 ≤ 122)) || (decide (48 ≤ p.1) && decide (p.1 ≤ 57)) ||
          [95, 45, 46, 47, 43].contains p.1))) = l.all restOK := by
  induction l with
  | nil => intro k _; rfl
  | cons x xs ih =>
    intro k hk
    have hk' : k > 0 := hk
    simp only [List.zipIdx_cons, List.all_cons, ih (k + 1) (by omega), restOK, hk', decide_true, Bool.true_and]
    cases h1 : (decide (65 ≤ x) && decide (x ≤ 90)) <;> simp [Bool.or_assoc]

theorem rest_equiv (rest : List UInt8) :
    (rest.any (fun b => decide (b.toNat ≥ 128)) ||
      !((rest.map fun b => Char.ofNat b.toNat).all fun c => c.isAlphanum || "_-./+".toList.contains c)) =
    !((rest.map (·.toNat)).all restOK) := by
  induction rest with
  | nil => rfl
  | cons b bs ih =>
    have hb : b.toNat < 256 := b.toNat_lt
    simp only [List.any_cons, List.map_cons, List.all_cons]
    by_cases hhi : b.toNat ≥ 128
    · simp [hhi, high_not_rest b.toNat hb hhi]
    · have hlo : b.toNat < 128 := by omega
      rw [byte_rest b.toNat hlo]
      have hd : decide (b.toNat ≥ 128) = false := by simpa using hhi
      rw [hd, Bool.false_or]
      cases hr : restOK b.toNat
      · simp
      · simpa using ih

/-- the validator's area/location check is exactly the TZ_AREALOC token shape -/
theorem area_accepted_iff_spellable (name : Bytes) : areaLocOK name = !Spec.areaBad name := by
  unfold areaLocOK Spec.areaBad
  cases name with
  | nil => rfl
  | cons f rest =>
    have hf : f.toNat < 256 := f.toNat_lt
    simp only [List.length_cons, List.map_cons, List.zipIdx_cons, List.all_cons, List.isEmpty_cons,
      List.any_cons, Bool.false_or]
    rw [zipIdx_all_pos _ 1 (by omega)]
    have hlen1 : decide (rest.length + 1 ≥ 1) = true := by simp
    by_cases hlen : rest.length + 1 > 127
    · have : ¬ rest.length + 1 ≤ 127 := by omega
      simp [hlen, this]
    · have hle : rest.length + 1 ≤ 127 := by omega
      simp only [hlen1, hle, decide_true, Bool.true_and, hlen, decide_false, Bool.false_or,
        Nat.lt_irrefl, Bool.false_and, Bool.or_false]
      by_cases hhi : f.toNat ≥ 128
      · have := high_not_upper f.toNat hf hhi
        simp [hhi, this]
      · have hlo : f.toNat < 128 := by omega
        have hd : decide (f.toNat ≥ 128) = false := by simpa using hhi
        rw [hd, Bool.false_or, byte_upper f.toNat hlo]
        have hre := rest_equiv rest
        cases hu : (decide (65 ≤ f.toNat) && decide (f.toNat ≤ 90))
        · simp
        · simp only [Bool.true_and, Bool.not_true, Bool.false_or]
          rw [hre]; simp

theorem zone_part (z : Zone) : zoneOK z = !Spec.zoneBad z := by
  cases z with
  | area name => simp only [zoneOK, Spec.zoneBad, area_accepted_iff_spellable]
  | latlong lat long =>
    simp only [zoneOK, Spec.zoneBad]
    by_cases h1 : -9000 ≤ lat <;> by_cases h2 : lat ≤ 9000 <;> by_cases h3 : -18000 ≤ long <;>
      by_cases h4 : long ≤ 18000 <;> simp [h1, h2, h3, h4] <;> omega
  | offset m =>
    simp only [zoneOK, Spec.zoneBad]
    by_cases h1 : -1439 ≤ m <;> by_cases h2 : m ≤ 1439 <;> simp [h1, h2] <;> omega
  | unset => rfl
  | utc => rfl
  | localZ => rfl

theorem clock_part (t : TimeV) : clockOK t = !Spec.clockBad t := by
  unfold clockOK Spec.clockBad
  rw [zone_part]
  generalize Spec.zoneBad t.zone = zb
  by_cases a : t.hour ≤ 23 <;> by_cases b : t.minute ≤ 59 <;> by_cases c : t.second ≤ 60 <;>
    by_cases d : t.nanos ≤ 999999999 <;> cases zb <;> simp [a, b, c, d] <;> omega

/-- **the validator accepts a time exactly when the text format can spell it**: for every time
    value of the three kinds (date, time, timestamp), `Context.ValidateTime` (model, tied by the
    RULES correspondence) agrees with the grammar-side definition -/
theorem time_accepted_iff_spellable (t : TimeV) (hk : t.kind ≤ 2) : timeOK t = !Spec.timeBad t := by
  have hkind : t.kind = 0 ∨ t.kind = 1 ∨ t.kind = 2 := by omega
  unfold timeOK Spec.timeBad
  rcases hkind with h | h | h <;> simp [h, date_part, clock_part]

/-- single-line comments: accepted exactly when the text format can spell them -/
theorem line_comment_accepted_iff_spellable (s : Bytes) : commentOK false s = !Spec.commentBad false s := by
  unfold commentOK Spec.commentBad
  by_cases h : Utf8.valid s <;> simp [h]

theorem scan_base (f : Nat) (l : List Nat) (d d' : Nat) (en : Bool)
    (h : commentScan f l d = some (d', en)) (hb : f = 0 ∨ l = []) : en = false := by
  rcases hb with hb | hb
  · subst hb; simp [commentScan] at h; exact h.2
  · subst hb
    cases f with
    | zero => simp [commentScan] at h; exact h.2
    | succ f => simp [commentScan] at h; exact h.2

theorem go_other (f h : Nat) (r : List Nat) (d : Nat) (e : Bool)
    (h1 : ∀ rest, h = 47 → r = 42 :: rest → False) (h2 : ∀ rest, h = 42 → r = 47 :: rest → False) :
    Spec.commentBad.go (f + 1) (h :: r) d e = Spec.commentBad.go f r d false := by
  conv => lhs; unfold Spec.commentBad.go
  split
  · rename_i heq; simp at heq
  · rename_i _ heq; simp at heq
  · rename_i heq1 heq; simp at heq heq1; obtain ⟨a, b⟩ := heq; exact (h1 _ a b).elim
  · rename_i heq1 heq; simp at heq heq1; obtain ⟨a, b⟩ := heq; exact (h2 _ a b).elim
  · rename_i heq1 heq; simp at heq heq1; obtain ⟨a, b⟩ := heq; subst heq1; subst b; rfl

/-- the validator's scan and the grammar's scan of a block comment are the same computation -/
theorem scan_go (f : Nat) (l : List Nat) (d : Nat) : ∀ (e : Bool),
    match commentScan f l d with
    | none => (Spec.commentBad.go f l d e).1 = true
    | some (d', en) => Spec.commentBad.go f l d e = (false, d', if f = 0 ∨ l = [] then e else en) := by
  fun_induction commentScan f l d
  case case1 => intro e; simp [Spec.commentBad.go]
  case case2 => intro e; simp [Spec.commentBad.go]
  case case3 f rest depth ih =>
    intro e
    have ih := ih false
    cases h : commentScan f rest (depth + 1) with
    | none => simp only [h] at ih ⊢; simpa [Spec.commentBad.go] using ih
    | some p =>
      obtain ⟨d', en⟩ := p
      simp only [h] at ih ⊢
      simp only [Spec.commentBad.go]
      rw [ih]
      by_cases hb : f = 0 ∨ rest = []
      · have := scan_base _ _ _ _ _ h hb
        simp [hb, this]
      · simp [hb]
  case case4 => intro e; simp [Spec.commentBad.go]
  case case5 f depth hd =>
    intro e
    cases f with
    | zero => simp [Spec.commentBad.go, hd]
    | succ f => simp [Spec.commentBad.go, hd]
  case case6 f rest depth hd hne ih =>
    intro e
    have ih := ih rest.isEmpty
    have hemp : rest.isEmpty = false := by cases rest with | nil => exact (hne rfl).elim | cons _ _ => rfl
    cases h : commentScan f rest (depth - 1) with
    | none => simp only [h] at ih ⊢; simpa [Spec.commentBad.go, hd] using ih
    | some p =>
      obtain ⟨d', en⟩ := p
      simp only [h] at ih ⊢
      simp only [Spec.commentBad.go, hd, if_false]
      rw [ih]
      have hr : ¬ rest = [] := fun h => hne h
      by_cases hb : f = 0
      · have := scan_base _ _ _ _ _ h (.inl hb)
        simp [hb, this, hemp]
      · simp [hb, hr]
  case case7 f head rest depth h1 h2 ih =>
    intro e
    have ih := ih false
    rw [go_other f head rest depth e h1 h2]
    cases h : commentScan f rest depth with
    | none => simp only [h] at ih ⊢; exact ih
    | some p =>
      obtain ⟨d', en⟩ := p
      simp only [h] at ih ⊢
      rw [ih]
      by_cases hb : f = 0 ∨ rest = []
      · have := scan_base _ _ _ _ _ h hb
        simp [hb, this]
      · simp [hb]

/-- multi-line comments: accepted exactly when the text format can spell them -/
theorem block_comment_accepted_iff_spellable (s : Bytes) : commentOK true s = !Spec.commentBad true s := by
  unfold commentOK Spec.commentBad
  by_cases hv : Utf8.valid s
  · simp only [hv, Bool.true_and, Bool.not_true, if_true]
    have := scan_go (s.length + 1) (s.map (·.toNat)) 0 false
    cases h : commentScan (s.length + 1) (s.map (·.toNat)) 0 with
    | none =>
      simp only [h] at this
      generalize Spec.commentBad.go (s.length + 1) (s.map (·.toNat)) 0 false = g at this
      obtain ⟨a, b, c⟩ := g
      simp at this
      simp [this]
    | some p =>
      obtain ⟨d', en⟩ := p
      simp only [h] at this
      rw [this]
      have hen : (if s.length + 1 = 0 ∨ s.map (·.toNat) = [] then false else en) = en := by
        by_cases hb : s.length + 1 = 0 ∨ s.map (·.toNat) = []
        · rw [if_pos hb]; exact (scan_base _ _ _ _ _ h hb).symm
        · rw [if_neg hb]
      rw [hen]
      simp only [bne, Bool.false_or]
      generalize (d' == 0) = A
      generalize (Option.map (fun x : UInt8 => x.toNat) s.getLast? == some 47) = L
      cases A <;> cases L <;> cases en <;> rfl
  · simp [hv]


/-- bytes below 128: the grammar's character classes are the validator's numeric ranges -/
theorem char_classes : ∀ b : Fin 128,
    (Char.ofNat b.val).isAlpha = ((97 ≤ b.val && b.val ≤ 122) || (65 ≤ b.val && b.val ≤ 90)) ∧
    Spec.mediaNext (Char.ofNat b.val) = mediaTypeChar b.val ∧
    decide (Char.ofNat b.val ≠ (Char.ofNat 47)) = decide (b.val ≠ 47) := by decide +kernel

theorem split47 : ∀ l : List Nat,
    (47 ∉ l ∧ l.idxOf? 47 = none) ∨
    ∃ pre post, l = pre ++ 47 :: post ∧ 47 ∉ pre ∧ l.idxOf? 47 = some pre.length
  | [] => .inl (by simp [List.idxOf?])
  | a :: l => by
    by_cases ha : a = 47
    · subst ha
      exact .inr ⟨[], l, rfl, by simp, by simp [List.idxOf?, List.findIdx?_cons]⟩
    · rcases split47 l with ⟨h1, h2⟩ | ⟨pre, post, h1, h2, h3⟩
      · left
        refine ⟨by simp [ha, h1]; exact fun h => ha h.symm, ?_⟩
        simp only [List.idxOf?] at h2 ⊢
        rw [List.findIdx?_cons]
        simp [ha, h2]
      · right
        refine ⟨a :: pre, post, by simp [h1], by simp [h2]; exact fun h => ha h.symm, ?_⟩
        simp only [List.idxOf?] at h3 ⊢
        rw [List.findIdx?_cons]
        simp [ha, h3]

theorem zipIdx_all_after (C : Nat → Bool) (k : Nat) : ∀ (post : List Nat) (m : Nat), k < m →
    (post.zipIdx m).all (fun p => p.2 == k || C p.1) = post.all C
  | [], m, h => by simp
  | a :: post, m, h => by
    have := zipIdx_all_after C k post (m + 1) (by omega)
    simp only [List.zipIdx_cons, List.all_cons, this]
    have : (m == k) = false := by simp; omega
    simp [this]

theorem zipIdx_all_split (C : Nat → Bool) : ∀ (pre post : List Nat) (n : Nat),
    ((pre ++ 47 :: post).zipIdx n).all (fun p => p.2 == n + pre.length || C p.1) = (pre.all C && post.all C)
  | [], post, n => by
    simp only [List.nil_append, List.zipIdx_cons, List.all_cons, List.length_nil, Nat.add_zero, beq_self_eq_true,
      Bool.true_or, Bool.true_and, List.all_nil]
    exact zipIdx_all_after C n post (n + 1) (by omega)
  | a :: pre, post, n => by
    have := zipIdx_all_split C pre post (n + 1)
    simp only [List.cons_append, List.zipIdx_cons, List.all_cons, List.length_cons]
    have h1 : (n == n + (pre.length + 1)) = false := by simp
    have h2 : n + (pre.length + 1) = n + 1 + pre.length := by omega
    rw [h1, h2, this]
    simp [Bool.and_assoc]


theorem span_loop_all {α} (p : α → Bool) : ∀ (l acc : List α), l.all p = true →
    List.span.loop p l acc = (acc.reverse ++ l, [])
  | [], acc, _ => by simp [List.span.loop]
  | a :: l, acc, h => by
    simp only [List.all_cons, Bool.and_eq_true] at h
    simp only [List.span.loop, h.1]
    rw [span_loop_all p l (a :: acc) h.2]
    simp

theorem span_loop_split {α} (p : α → Bool) (x : α) (hx : p x = false) : ∀ (pre post acc : List α), pre.all p = true →
    List.span.loop p (pre ++ x :: post) acc = (acc.reverse ++ pre, x :: post)
  | [], post, acc, _ => by simp [List.span.loop, hx]
  | a :: pre, post, acc, h => by
    simp only [List.all_cons, Bool.and_eq_true] at h
    simp only [List.cons_append, List.span.loop, h.1]
    rw [span_loop_split p x hx pre post (a :: acc) h.2]
    simp

theorem span_all {α} (p : α → Bool) (l : List α) (h : l.all p = true) : l.span p = (l, []) := by
  simp [List.span, span_loop_all p l [] h]

theorem span_split {α} (p : α → Bool) (x : α) (hx : p x = false) (pre post : List α) (h : pre.all p = true) :
    (pre ++ x :: post).span p = (pre, x :: post) := by
  simp [List.span, span_loop_split p x hx pre post [] h]


theorem cc (x : Nat) (h : x < 128) :
    (Char.ofNat x).isAlpha = ((97 ≤ x && x ≤ 122) || (65 ≤ x && x ≤ 90)) ∧
    Spec.mediaNext (Char.ofNat x) = mediaTypeChar x ∧
    decide (Char.ofNat x ≠ (Char.ofNat 47)) = decide (x ≠ 47) := char_classes ⟨x, h⟩

theorem slash_char : (Char.ofNat 47) = '/' := by decide

theorem all_next (l : List Nat) (h : ∀ x ∈ l, x < 128) :
    (l.map Char.ofNat).all Spec.mediaNext = l.all mediaTypeChar := by
  induction l with
  | nil => rfl
  | cons a l ih =>
    simp only [List.map_cons, List.all_cons]
    rw [(cc a (h a (by simp))).2.1, ih (fun x hx => h x (by simp [hx]))]

theorem all_not_slash (l : List Nat) (h : ∀ x ∈ l, x < 128) (h47 : 47 ∉ l) :
    (l.map Char.ofNat).all (fun c => decide (c ≠ '/')) = true := by
  induction l with
  | nil => rfl
  | cons a l ih =>
    simp only [List.map_cons, List.all_cons, Bool.and_eq_true]
    refine ⟨?_, ih (fun x hx => h x (by simp [hx])) (fun hm => h47 (by simp [hm]))⟩
    have := (cc a (h a (by simp))).2.2
    rw [slash_char] at this
    rw [this]
    simp
    intro ha
    exact h47 (by simp [ha])

theorem high_not_media (x : Nat) (h : 128 ≤ x) : mediaTypeChar x = false := by
  unfold mediaTypeChar
  have h1 : (97 ≤ x && x ≤ 122) = false := by simp; omega
  have h2 : (65 ≤ x && x ≤ 90) = false := by simp; omega
  have h3 : (48 ≤ x && x ≤ 57) = false := by simp; omega
  rw [h1, h2, h3]
  simp
  omega


theorem mediaTypeOK_split (mt : Bytes) (pre post : List Nat)
    (hl : mt.map (·.toNat) = pre ++ 47 :: post) (hidx : (mt.map (·.toNat)).idxOf? 47 = some pre.length) :
    mediaTypeOK mt =
      (decide (0 < pre.length) && decide (0 < post.length) &&
       (match pre.head? with | some c => (97 ≤ c && c ≤ 122) || (65 ≤ c && c ≤ 90) | none => false) &&
       (pre.all mediaTypeChar && post.all mediaTypeChar)) := by
  unfold mediaTypeOK
  simp only [hidx]
  rw [hl]
  have hz := zipIdx_all_split mediaTypeChar pre post 0
  simp only [Nat.zero_add] at hz
  rw [hz]
  have hlen : (pre ++ 47 :: post).length - 1 = pre.length + post.length := by simp
  rw [hlen]
  have hhead : (pre ++ 47 :: post).head? = if pre = [] then some 47 else pre.head? := by
    cases pre <;> simp
  rw [hhead]
  cases pre with
  | nil => simp
  | cons a pre' =>
    simp only [List.length_cons, List.head?_cons]
    have : decide (pre'.length + 1 < pre'.length + 1 + post.length) = decide (0 < post.length) := by
      congr 1; apply propext; constructor <;> intro h <;> omega
    simp [this]

/-- media types: accepted exactly when the text format can spell them -/
theorem media_type_accepted_iff_spellable (mt : Bytes) : mediaTypeOK mt = !Spec.mediaTypeBad mt := by
  by_cases hhigh : mt.any (fun b => decide (b.toNat ≥ 128)) = true
  · -- a byte outside ASCII: the grammar cannot spell it, and the validator rejects it
    have hbad : Spec.mediaTypeBad mt = true := by unfold Spec.mediaTypeBad; rw [if_pos hhigh]
    rw [hbad]
    simp only [Bool.not_true]
    rw [List.any_eq_true] at hhigh
    obtain ⟨b, hb, hb128⟩ := hhigh
    have hx : b.toNat ∈ mt.map (·.toNat) := List.mem_map.mpr ⟨b, hb, rfl⟩
    have hx128 : 128 ≤ b.toNat := by simpa using hb128
    rcases split47 (mt.map (·.toNat)) with ⟨_, hnone⟩ | ⟨pre, post, hl, _, hidx⟩
    · unfold mediaTypeOK; simp only [hnone]
    · rw [mediaTypeOK_split mt pre post hl hidx]
      rw [hl] at hx
      have hfail := high_not_media _ hx128
      rcases List.mem_append.mp hx with hm | hm
      · have : pre.all mediaTypeChar = false := by
          rw [Bool.eq_false_iff]; intro hall; rw [List.all_eq_true] at hall; have := hall _ hm; rw [hfail] at this; cases this
        simp [this]
      · rcases List.mem_cons.mp hm with h47 | hm'
        · omega
        · have : post.all mediaTypeChar = false := by
            rw [Bool.eq_false_iff]; intro hall; rw [List.all_eq_true] at hall; have := hall _ hm'; rw [hfail] at this; cases this
          simp [this]
  · -- ASCII only
    have hlow : ∀ x ∈ mt.map (·.toNat), x < 128 := by
      intro x hx
      obtain ⟨b, hb, rfl⟩ := List.mem_map.mp hx
      by_cases h : b.toNat < 128
      · exact h
      · exact (hhigh (List.any_eq_true.mpr ⟨b, hb, by simp; omega⟩)).elim
    have hcs : mt.map (fun b => Char.ofNat b.toNat) = (mt.map (·.toNat)).map Char.ofNat := by simp
    unfold Spec.mediaTypeBad
    rw [if_neg hhigh]
    simp only [hcs]
    rcases split47 (mt.map (·.toNat)) with ⟨hnot, hnone⟩ | ⟨pre, post, hl, hpre, hidx⟩
    · have hspan := span_all (fun c : Char => decide (c ≠ '/')) _ (all_not_slash _ hlow hnot)
      rw [hspan]
      unfold mediaTypeOK
      simp only [hnone, Bool.not_true]
    · rw [mediaTypeOK_split mt pre post hl hidx]
      have hlowpre : ∀ x ∈ pre, x < 128 := fun x hx => hlow x (by rw [hl]; simp [hx])
      have hlowpost : ∀ x ∈ post, x < 128 := fun x hx => hlow x (by rw [hl]; simp [hx])
      rw [hl]
      simp only [List.map_append, List.map_cons]
      have hsl : decide (Char.ofNat 47 ≠ '/') = false := by decide
      have hspan := span_split (fun c : Char => decide (c ≠ '/')) (Char.ofNat 47) hsl (pre.map Char.ofNat) (post.map Char.ofNat)
        (all_not_slash pre hlowpre hpre)
      rw [hspan]
      have h47 : Char.ofNat 47 = '/' := by decide
      simp only [h47]
      rw [all_next post hlowpost]
      cases pre with
      | nil => simp
      | cons f rest =>
        have hf : f < 128 := hlowpre f (by simp)
        have hrest : ∀ x ∈ rest, x < 128 := fun x hx => hlowpre x (by simp [hx])
        simp only [List.map_cons, List.length_cons, List.head?_cons, List.all_cons]
        rw [(cc f hf).1, all_next rest hrest]
        -- a letter is a media-type character
        have hletter : ((97 ≤ f && f ≤ 122) || (65 ≤ f && f ≤ 90)) = true → mediaTypeChar f = true := by
          intro h; unfold mediaTypeChar; simp only [Bool.or_eq_true] at h ⊢
          rcases h with h | h
          · exact .inl (.inl (.inl h))
          · exact .inl (.inl (.inr h))
        cases hL : ((97 ≤ f && f ≤ 122) || (65 ≤ f && f ≤ 90))
        · simp
        · have := hletter hL
          cases post with
          | nil => simp
          | cons p ps => simp [this]


/-- non-vacuity -/
example : timeOK { kind := 2, year := 2020, month := 2, day := 29, hour := 23, minute := 59, second := 60,
                   nanos := 999999999, zone := .area "Europe/Berlin".toUTF8.toList } = true ∧
          timeOK { kind := 1, year := 0, month := 0, day := 0, hour := 24, minute := 0, second := 0, nanos := 0, zone := .utc } = false ∧
          timeOK { kind := 1, year := 0, month := 0, day := 0, hour := 1, minute := 0, second := 0, nanos := 0,
                   zone := .area "low".toUTF8.toList } = false := by decide +kernel

end CE.Props.C03

namespace CE.Props.C03
open CE CE.Rules
/-- non-vacuity of the media-type and block-comment theorems -/
example : mediaTypeOK "application/vnd.api+json".toUTF8.toList = true ∧ mediaTypeOK "^a/b".toUTF8.toList = false ∧
          mediaTypeOK "a/".toUTF8.toList = false ∧ mediaTypeOK "a b/c".toUTF8.toList = false ∧
          commentOK true "a /* b */ c".toUTF8.toList = true ∧ commentOK true "a */ b".toUTF8.toList = false ∧
          commentOK true "ends/".toUTF8.toList = false := by decide +kernel
end CE.Props.C03
