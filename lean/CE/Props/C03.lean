import CE.Rules.Machine
import CE.Rules.Spec
import CE.Props.C02
/-
  C03 — CBE and CTE are 1:1 convertible.

  C03 is C01 + C02 plus the gap between what the validator lets through and what the text
  grammar can spell.  The chains CBE→CTE→CBE and CTE→CBE are decided by the oracle of
  `bin/check C03` (real codecs, `canonText` as the judge).  Proved here — the gap itself, after
  the repairs a4d8583 / 533bdc4 / ab826f1: the validator's content checks (model of
  Context.ValidateTime / ValidateComment in CE/Rules/Machine.lean, run in lock step with the real
  validator) accept EXACTLY what the independent grammar-side definitions in CE/Rules/Spec.lean
  (written from the CTE lexer: TIME/DATE field ranges, TZ_AREALOC, LINE_COMMENT, BLOCK_COMMENT)
  call spellable:
  * `time_accepted_iff_spellable` — for every time value;
  * `line_comment_accepted_iff_spellable` — for every single-line comment;
  and string contents survive the escaping layer (C02 `encoder_strings_roundtrip`).
  `_partial`: the same equivalence for media types and multi-line comments is exercised by the
  RULES / WF.REL lines of C10 (both definitions run on every case), not yet a theorem.
-/
namespace CE.Props.C03
open CE CE.Rules

theorem dayMax_table (m : Nat) (h1 : 1 ≤ m) (h2 : m ≤ 12) :
    dayMax m = [31, 29, 31, 30, 31, 30, 31, 31, 30, 31, 30, 31].getD (m - 1) 0 := by
  have : m = 1 ∨ m = 2 ∨ m = 3 ∨ m = 4 ∨ m = 5 ∨ m = 6 ∨ m = 7 ∨ m = 8 ∨ m = 9 ∨ m = 10 ∨ m = 11 ∨ m = 12 := by
    omega
  rcases this with h | h | h | h | h | h | h | h | h | h | h | h <;> subst h <;> rfl

theorem date_part (t : TimeV) : dateOK t = !Spec.dateBad t := by
  unfold dateOK Spec.dateBad
  by_cases hm : 1 ≤ t.month ∧ t.month ≤ 12
  · rw [dayMax_table t.month hm.1 hm.2]
    generalize [31, 29, 31, 30, 31, 30, 31, 31, 30, 31, 30, 31].getD (t.month - 1) 0 = dm
    have m0 : ¬ t.month = 0 := by omega
    have m12 : ¬ 12 < t.month := by omega
    have m1 : ¬ t.month < 1 := by omega
    by_cases hy : t.year = 0
    · simp [hy]
    · have hyb : (t.year == 0) = false := by simpa using hy
      by_cases hd1 : 1 ≤ t.day
      · have d0 : ¬ t.day < 1 := by omega
        by_cases hd2 : t.day ≤ dm
        · have : ¬ t.day > dm := by omega
          simp [hy, hyb, hd1, hd2, hm.1, hm.2, m1, m12, d0, this]
        · have : t.day > dm := by omega
          simp [hy, hyb, hd1, hd2, hm.1, hm.2, m1, m12, d0, this]
      · have d0 : t.day < 1 := by omega
        simp [hy, hyb, hd1, hm.1, hm.2, d0]
  · by_cases h1 : 1 ≤ t.month
    · have h2 : ¬ t.month ≤ 12 := fun h => hm ⟨h1, h⟩
      have : 12 < t.month := by omega
      simp [h1, h2, this]
    · have : t.month < 1 := by omega
      simp [h1, this]

/-! ### area/location names -/

def restOK (b : Nat) : Bool :=
  (65 ≤ b && b ≤ 90) || (97 ≤ b && b ≤ 122) || (48 ≤ b && b ≤ 57) || [95, 45, 46, 47, 43].contains b

theorem byte_upper : ∀ b, b < 128 → (Char.ofNat b).isUpper = (decide (65 ≤ b) && decide (b ≤ 90)) := by decide +kernel
theorem byte_rest : ∀ b, b < 128 →
    ((Char.ofNat b).isAlphanum || "_-./+".toList.contains (Char.ofNat b)) = restOK b := by decide +kernel
theorem high_not_rest : ∀ b, b < 256 → 128 ≤ b → restOK b = false := by decide +kernel
theorem high_not_upper : ∀ b, b < 256 → 128 ≤ b → (decide (65 ≤ b) && decide (b ≤ 90)) = false := by decide +kernel

theorem zipIdx_all_pos (l : List Nat) : ∀ k, 0 < k →
    (l.zipIdx k).all (fun p => (decide (65 ≤ p.1) && decide (p.1 ≤ 90)) ||
        (decide (p.2 > 0) && ((decide (97 ≤ p.1) && decide (p.1 ≤ 122)) || (decide (48 ≤ p.1) && decide (p.1 ≤ 57)) ||
          [95, 45, 46, 47, 43].contains p.1))) = l.all restOK := by
  induction l with
  | nil => intro k _; rfl
  | cons x xs ih =>
    intro k hk
    have hk' : k > 0 := hk
    simp only [List.zipIdx_cons, List.all_cons, ih (k + 1) (by omega), restOK, hk', decide_true, Bool.true_and]
    cases h1 : (decide (65 ≤ x) && decide (x ≤ 90)) <;> simp [Bool.or_assoc]

theorem rest_equiv (rest : List UInt8) :
    (rest.any (fun b => decide (b.toNat ≥ 128)) ||
      !((rest.map fun b => Char.ofNat b.toNat).all fun c => c.isAlphanum || "_-./+".toList.contains c)) =
    !((rest.map (·.toNat)).all restOK) := by
  induction rest with
  | nil => rfl
  | cons b bs ih =>
    have hb : b.toNat < 256 := b.toNat_lt
    simp only [List.any_cons, List.map_cons, List.all_cons]
    by_cases hhi : b.toNat ≥ 128
    · simp [hhi, high_not_rest b.toNat hb hhi]
    · have hlo : b.toNat < 128 := by omega
      rw [byte_rest b.toNat hlo]
      have hd : decide (b.toNat ≥ 128) = false := by simpa using hhi
      rw [hd, Bool.false_or]
      cases hr : restOK b.toNat
      · simp
      · simpa using ih

/-- the validator's area/location check is exactly the TZ_AREALOC token shape -/
theorem area_accepted_iff_spellable (name : Bytes) : areaLocOK name = !Spec.areaBad name := by
  unfold areaLocOK Spec.areaBad
  cases name with
  | nil => rfl
  | cons f rest =>
    have hf : f.toNat < 256 := f.toNat_lt
    simp only [List.length_cons, List.map_cons, List.zipIdx_cons, List.all_cons, List.isEmpty_cons,
      List.any_cons, Bool.false_or]
    rw [zipIdx_all_pos _ 1 (by omega)]
    have hlen1 : decide (rest.length + 1 ≥ 1) = true := by simp
    by_cases hlen : rest.length + 1 > 127
    · have : ¬ rest.length + 1 ≤ 127 := by omega
      simp [hlen, this]
    · have hle : rest.length + 1 ≤ 127 := by omega
      simp only [hlen1, hle, decide_true, Bool.true_and, hlen, decide_false, Bool.false_or,
        Nat.lt_irrefl, Bool.false_and, Bool.or_false]
      by_cases hhi : f.toNat ≥ 128
      · have := high_not_upper f.toNat hf hhi
        simp [hhi, this]
      · have hlo : f.toNat < 128 := by omega
        have hd : decide (f.toNat ≥ 128) = false := by simpa using hhi
        rw [hd, Bool.false_or, byte_upper f.toNat hlo]
        have hre := rest_equiv rest
        cases hu : (decide (65 ≤ f.toNat) && decide (f.toNat ≤ 90))
        · simp
        · simp only [Bool.true_and, Bool.not_true, Bool.false_or]
          rw [hre]; simp

theorem zone_part (z : Zone) : zoneOK z = !Spec.zoneBad z := by
  cases z with
  | area name => simp only [zoneOK, Spec.zoneBad, area_accepted_iff_spellable]
  | latlong lat long =>
    simp only [zoneOK, Spec.zoneBad]
    by_cases h1 : -9000 ≤ lat <;> by_cases h2 : lat ≤ 9000 <;> by_cases h3 : -18000 ≤ long <;>
      by_cases h4 : long ≤ 18000 <;> simp [h1, h2, h3, h4] <;> omega
  | offset m =>
    simp only [zoneOK, Spec.zoneBad]
    by_cases h1 : -1439 ≤ m <;> by_cases h2 : m ≤ 1439 <;> simp [h1, h2] <;> omega
  | unset => rfl
  | utc => rfl
  | localZ => rfl

theorem clock_part (t : TimeV) : clockOK t = !Spec.clockBad t := by
  unfold clockOK Spec.clockBad
  rw [zone_part]
  generalize Spec.zoneBad t.zone = zb
  by_cases a : t.hour ≤ 23 <;> by_cases b : t.minute ≤ 59 <;> by_cases c : t.second ≤ 60 <;>
    by_cases d : t.nanos ≤ 999999999 <;> cases zb <;> simp [a, b, c, d] <;> omega

/-- **the validator accepts a time exactly when the text format can spell it**: for every time
    value of the three kinds (date, time, timestamp), `Context.ValidateTime` (model, tied by the
    RULES correspondence) agrees with the grammar-side definition -/
theorem time_accepted_iff_spellable (t : TimeV) (hk : t.kind ≤ 2) : timeOK t = !Spec.timeBad t := by
  have hkind : t.kind = 0 ∨ t.kind = 1 ∨ t.kind = 2 := by omega
  unfold timeOK Spec.timeBad
  rcases hkind with h | h | h <;> simp [h, date_part, clock_part]

/-- single-line comments: accepted exactly when the text format can spell them -/
theorem line_comment_accepted_iff_spellable (s : Bytes) : commentOK false s = !Spec.commentBad false s := by
  unfold commentOK Spec.commentBad
  by_cases h : Utf8.valid s <;> simp [h]

/-- non-vacuity -/
example : timeOK { kind := 2, year := 2020, month := 2, day := 29, hour := 23, minute := 59, second := 60,
                   nanos := 999999999, zone := .area "Europe/Berlin".toUTF8.toList } = true ∧
          timeOK { kind := 1, year := 0, month := 0, day := 0, hour := 24, minute := 0, second := 0, nanos := 0, zone := .utc } = false ∧
          timeOK { kind := 1, year := 0, month := 0, day := 0, hour := 1, minute := 0, second := 0, nanos := 0,
                   zone := .area "low".toUTF8.toList } = false := by decide +kernel

end CE.Props.C03
