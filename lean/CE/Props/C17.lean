import CE.Cache.Proofs
/-
  C17 — concurrent use of separate instances … sessions shared between them … each call
  returns exactly what it returns when run alone.

  The shared mutable state of the library is the two per-session type caches (and the
  package-level root sessions they inherit from).  Theorems over M-CACHE, for EVERY schedule
  (any list of goroutine ids, any number of goroutines, any interleaving of their steps):
  * `every_call_returns_the_sequential_result` — whatever the interleaving, a goroutine that
    finishes obtains exactly the outcome of generating the code for the type alone;
  * `no_goroutine_waits_forever` — a goroutine blocked on a placeholder always has an owner
    that can take a step (no deadlock), and by `Cache.step_progress` every goroutine takes at
    most seven steps (no livelock), so every schedule that keeps scheduling runnable
    goroutines finishes all of them.
  Not modelled (observed with the race detector by `bin/check C17`): Go's memory model at
  access granularity — the theorems assume sync.Map and sync.WaitGroup are linearizable and
  that WaitGroup.Done happens-before the return of Wait.
-/
namespace CE.Props.C17
open CE.Cache

theorem every_call_returns_the_sequential_result (P : Params) (hfix : P.fixed = true)
    (schedule : List Nat) (t : Nat) (r : Res)
    (h : (run P {} schedule).pcs t = .finished r) : r = expected P :=
  (run_inv P hfix schedule {} (inv_init P)).finishedRes t r h

theorem no_goroutine_waits_forever (P : Params) (hfix : P.fixed = true)
    (schedule : List Nat) (t o : Nat)
    (hw : (run P {} schedule).pcs t = .waiting o)
    (hblocked : step P (run P {} schedule) t = none) :
    (step P (run P {} schedule) o).isSome = true := by
  have inv := run_inv P hfix schedule {} (inv_init P)
  generalize run P {} schedule = s at *
  have hnr : o ∉ s.released := by
    intro hr; simp [step, hw, hr] at hblocked
  rcases inv.ownerAlive o (Or.inr ⟨t, Or.inr hw⟩) with h | h | h
  · exact absurd h hnr
  · simp only [step, h]; cases P.genOk <;> simp [hfix]
  · simp [step, h]

/-- the code before fix e509a33 does not satisfy it: two calls involving an unsupported type,
    one after the other, and the second waits for an owner that is gone -/
example :
    let P : Params := { genOk := false, fixed := false }
    let s := run P {} [0, 0, 0, 1, 1]
    s.pcs 0 = .finished .failed ∧ s.pcs 1 = .waiting 0 ∧ step P s 1 = none ∧ step P s 0 = none := by
  decide

/-- non-vacuity: three goroutines racing on a fresh type all finish with the sequential result -/
example :
    let P : Params := { genOk := true }
    let s := run P {} [0, 1, 2, 0, 1, 2, 1, 1, 0, 0, 0, 2, 2, 1, 1, 0, 2, 2, 0]
    s.pcs 0 = .finished .ok ∧ s.pcs 1 = .finished .ok ∧ s.pcs 2 = .finished .ok := by
  decide

end CE.Props.C17
