import CE.Io.FaultProofs
import CE.Io.Writer
/-
  C29 — I/O failures are always reported.

  Read side: a source that fails with a non-EOF error after k bytes — at any k, delivering the
  error with or without the bytes before it, under any legal delivery schedule — makes every
  read that reaches the failure return that error: `readAll` yields the k bytes and then the
  failure (never end-of-file), a full read needing more than k bytes fails.  The decode loop
  ends only on end-of-file from ReadTypeOrEOF, so the failure cannot be mistaken for the end
  of the document.
  Write side: with every Write result threaded as the encoders do (error ⇒ panic ⇒ recovered
  into the returned error), a destination that stops accepting bytes before the document is
  complete always yields the error, whatever the division into Write calls.
  Modelled, not verified: that marshal/encode/unmarshal/decode entry points install the
  recover and that all writes go through writeBytes (tied by the C29 fault enumeration: every
  failure offset of every generated document and value, all entry points).
-/
namespace CE.Props.C29
open CE CE.Io

theorem read_fault_reported_bytewise (bs : Bytes) (k : Nat) (hk : k ≤ bs.length)
    (sched : Nat → Nat) (withData : Bool) (hl : Legal sched) :
    readAll (k + 1) { src := { data := bs, sched := sched, failIn := some k, failWithData := withData } }
      = (bs.take k, some .fault) :=
  readAll_reports_fault k bs _ (faulty_of_document bs k hk sched withData hl)

theorem read_fault_reported_full (bs : Bytes) (k n : Nat) (hk : k ≤ bs.length) (hn : k < n)
    (sched : Nat → Nat) (withData : Bool) (hl : Legal sched) :
    readFull { src := { data := bs, sched := sched, failIn := some k, failWithData := withData } } n = .error .fault :=
  readFull_reports_fault _ bs k n (faulty_of_document bs k hk sched withData hl) hn

theorem write_fault_reported (cap : Nat) (chunks : List Bytes) (h : totalLen chunks > cap) :
    writeAll cap 0 chunks = .error .fault :=
  Io.write_fault_reported cap chunks 0 (by omega) (by omega)

end CE.Props.C29
