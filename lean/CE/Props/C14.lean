import CE.Rules.Machine
import CE.Rules.Table
import CE.Rules.Measure
import CE.Rules.Counters
import CE.Rules.Limits
import CE.Rules.Masks
/-
  C14 — configured resource limits are enforced exactly (validator part).

  Full statement (target): accepts cfg evs ↔ accepts cfg∞ evs ∧ depth evs ≤ cfg.maxDepth ∧
  objects evs ≤ cfg.maxObjects ∧ maxArrayBytes evs ≤ cfg.maxArray (when ≠ 0) ∧ maxIdLen evs ≤
  cfg.maxId ∧ markers evs ≤ cfg.maxRefs, with the measures of `Spec.measure`.
  Proved here: exactness of every single limit check — each Context function that tests a
  limit succeeds *iff* the counter it is about to reach is within the configured maximum
  (so: rejected when exceeded, never rejected because of the limit when within it) — and which
  rule-table entries reach those functions.  Lifted to whole documents for the object count:
  `object_counter_is_the_structural_measure` - after EVERY accepted stream the validator's counter
  equals `Spec.measure evs`.objects (the independent structural measure the harness compares
  with) and is within the configured maximum (CE/Rules/Counters.lean: no statement of any rule
  method touches the counter, NotifyNewObject adds one per object event); and
  `open_containers_and_markers_stay_within_their_limits` - in every state the validator reaches on
  any stream the open-container count is within MaxContainerDepth, the registered markers are within
  MaxLocalReferenceCount and the marker counter is their number.  For the equality of depth, array size,
  identifier length and marker count the lift (the counters equal the structural measures) is
  `…_partial`: exercised on every run at usage−1, usage and usage+1 of every limit of every
  generated document (bin/check C14).
  Document size (`MaxDocumentSizeBytes`) belongs to the decoders, see CE/Props/C14 notes in
  DESIGN.md; it is checked through the CBE/CTE decoder runs.
-/
namespace CE.Props.C14
open CE CE.Rules

/-- container depth: entering a container succeeds iff the new depth is within the maximum -/
theorem depth_limit_exact (cfg : Cfg) (s : RState) (r : Rule) (dt : DT) (ex : Option Nat) :
    (∃ s', beginContainer cfg s r dt ex = .ok s') ↔ s.depth + 1 ≤ cfg.maxContainerDepth := by
  unfold beginContainer
  by_cases h : s.depth + 1 > cfg.maxContainerDepth
  · simp [h, bind, Except.bind, throw, throwThe, MonadExceptOf.throw] <;> omega
  · simp [h, pure, Except.pure] <;> omega

theorem depth_limit_error (cfg : Cfg) (s : RState) (r : Rule) (dt : DT) (ex : Option Nat)
    (h : s.depth + 1 > cfg.maxContainerDepth) : beginContainer cfg s r dt ex = .error .limitDepth := by
  simp [beginContainer, h, bind, Except.bind, throw, throwThe, MonadExceptOf.throw]

/-- every container kind goes through `beginContainer` (lists, maps, records, record types,
    edges, nodes): the only statements of the table that open containers -/
theorem containers_counted (cfg : Cfg) (s s' : RState) (args args' : Args) (a : Act)
    (ha : a = .beginList ∨ a = .beginMap ∨ a = .beginEdge ∨ a = .beginNode)
    (h : execAct cfg a s args = .ok (.next s' args')) : s'.depth = s.depth + 1 ∧ s.depth + 1 ≤ cfg.maxContainerDepth := by
  rcases ha with rfl | rfl | rfl | rfl <;>
  · simp only [execAct, beginContainer, bind, Except.bind, pure, Except.pure] at h
    split at h <;> try contradiction
    rename_i hs heq
    split at heq <;> try contradiction
    injection heq with heq; subst heq
    injection h with h; injection h with h1 h2; subst h1
    exact ⟨rfl, by omega⟩

/-- object count: an object event passes the count check iff the new total is within the
    maximum (the expected-count test of records and edges is structural, not a limit) -/
theorem object_limit_exact (cfg : Cfg) (s : RState) (hex : s.cur.expected = none) (real : Bool) :
    (∃ s', notifyNewObject cfg s real = .ok s') ↔ s.objectCount + 1 ≤ cfg.maxObjectCount := by
  unfold notifyNewObject
  cases real <;>
    by_cases h : s.objectCount + 1 > cfg.maxObjectCount <;>
    simp [hex, h, bind, Except.bind, pure, Except.pure, throw, throwThe, MonadExceptOf.throw] <;> omega

/-- number of markers: `markObject` passes the limit iff the new count is within the maximum -/
theorem marker_limit_error (cfg : Cfg) (s : RState) (dt : DT) (h : s.refCount + 1 > cfg.maxLocalRefCount) :
    markObject cfg s dt = .error .limitRefs := by
  simp [markObject, h, bind, Except.bind, throw, throwThe, MonadExceptOf.throw]

theorem marker_limit_not_spurious (cfg : Cfg) (s : RState) (dt : DT) (h : s.refCount + 1 ≤ cfg.maxLocalRefCount) :
    markObject cfg s dt ≠ .error .limitRefs := by
  have hn : ¬ (s.refCount + 1 > cfg.maxLocalRefCount) := by omega
  unfold markObject
  simp only [hn, bind, Except.bind, pure, Except.pure, throw, throwThe, MonadExceptOf.throw, if_false]
  split
  · simp
  · split
    · simp
    · split <;> simp

/-- identifier length -/
theorem id_limit_exact (cfg : Cfg) (safe : Bytes → Bool) (id : Bytes) (h0 : id.length ≠ 0) (hs : safe id = true) :
    validateIdentifier cfg safe id = .ok () ↔ id.length ≤ cfg.maxIdLength := by
  unfold validateIdentifier
  by_cases h1 : id.length > cfg.maxIdLength
  · simp [h0, h1] <;> omega
  · simp [h0, h1, hs] <;> omega

/-- array size (whole arrays): rejected iff longer than a non-zero maximum -/
theorem array_limit_exact (cfg : Cfg) (n : Nat) :
    validateLength cfg n = .ok () ↔ (n ≤ cfg.maxArrayBytes ∨ cfg.maxArrayBytes = 0) := by
  unfold validateLength
  by_cases h : n > cfg.maxArrayBytes ∧ cfg.maxArrayBytes > 0
  · simp [h] <;> omega
  · simp [h] <;> omega

/-- array size (chunked arrays): the running total of declared chunk bytes is tested at each
    chunk header -/
theorem chunk_limit_error (cfg : Cfg) (k : ChunkKind) (s : RState) (args : Args)
    (h : (s.arrayTotal + chunkBytes k s args.length) % 2 ^ 64 > s.arrayMax) (hm : s.arrayMax > 0) :
    actBeginChunk cfg k s args = .error .limitArray := by
  simp [actBeginChunk, h, hm]

theorem chunk_limit_not_spurious (cfg : Cfg) (k : ChunkKind) (s : RState) (args : Args)
    (h : (s.arrayTotal + chunkBytes k s args.length) % 2 ^ 64 ≤ s.arrayMax ∨ s.arrayMax = 0) :
    actBeginChunk cfg k s args ≠ .error .limitArray := by
  have hn : ¬ ((s.arrayTotal + chunkBytes k s args.length) % 2 ^ 64 > s.arrayMax ∧ s.arrayMax > 0) := by omega
  simp only [actBeginChunk, hn, if_false]
  split <;> simp

/-- non-vacuity -/
example : (∃ s', beginContainer { maxContainerDepth := 3 } { depth := 2 } .list DT.list none = .ok s') := by
  rw [depth_limit_exact]; decide

/-- an accepted stream: the object counter is the structural object count, and within the limit -/
theorem object_counter_is_the_structural_measure (env : Env) (evs : List Ev)
    (h : (run env RState.init evs 0).2.1 = none) :
    (run env RState.init evs 0).2.2.objectCount = (Spec.measure evs).objects ∧
    (Spec.measure evs).objects ≤ env.cfg.maxObjectCount := by
  obtain ⟨h1, h2⟩ := run_count env evs RState.init 0 h (by simp [RState.init])
  have hm : (Spec.measure evs).objects = objectsIn evs := by
    have := measure_objects evs 0 0 8 {}
    simpa [Spec.measure] using this
  rw [hm]
  simp only [RState.init, Nat.zero_add] at h1
  exact ⟨h1, by rw [← h1]; exact h2⟩

/-- on any stream: open containers and registered markers never exceed their configured maxima -/
theorem open_containers_and_markers_stay_within_their_limits (env : Env) (evs : List Ev) :
    let s := (run env RState.init evs 0).2.2
    s.depth ≤ env.cfg.maxContainerDepth ∧ s.refCount ≤ env.cfg.maxLocalRefCount ∧ s.refCount = s.marked.length :=
  run_lim env evs RState.init 0 ⟨by simp [RState.init], by simp [RState.init], by simp [RState.init]⟩

/-- the marker limit bounds the number of DIFFERENT marker identifiers of a document: on any stream the
    registered identifiers are pairwise distinct and at most MaxLocalReferenceCount many; and when a whole
    document is accepted, the number of different identifiers its references use is within the same limit
    (each of them is one of the registered markers) -/
theorem distinct_markers_and_referenced_ids_within_limit (env : Env) (htbl : env.tbl = Model.ruleTable) (evs : List Ev)
    (h : (run env RState.init (evs ++ [.endDoc]) 0).2.1 = none) (ids : List Bytes) (hnd : ids.Nodup)
    (hids : ∀ id ∈ ids, Ev.refLocal id ∈ evs) :
    ((run env RState.init (evs ++ [.endDoc]) 0).2.2.marked.map (·.1)).Nodup ∧
    ((run env RState.init (evs ++ [.endDoc]) 0).2.2.marked.map (·.1)).length ≤ env.cfg.maxLocalRefCount ∧
    ids.length ≤ env.cfg.maxLocalRefCount := by
  generalize hs : (run env RState.init (evs ++ [.endDoc]) 0).2.2 = s
  have hl := run_lim env (evs ++ [.endDoc]) RState.init 0 ⟨by simp [RState.init], by simp [RState.init], by simp [RState.init]⟩
  rw [hs] at hl
  have hd : (s.marked.map (·.1)).Nodup := by
    have := run_distinct env (evs ++ [.endDoc]) RState.init 0 (by simp [MarkersDistinct, RState.init])
    rw [hs] at this; exact this
  have hlen : (s.marked.map (·.1)).length ≤ env.cfg.maxLocalRefCount := by
    rw [List.length_map]; have := hl.2.1; have := hl.2.2; omega
  refine ⟨hd, hlen, ?_⟩
  have hsub : ids ⊆ s.marked.map (·.1) := fun id hid => by
    have := accepted_references_have_markers env htbl evs h id (hids id hid)
    rw [hs] at this; exact this
  exact Nat.le_trans (hnd.length_le_of_subset hsub) hlen

end CE.Props.C14
