import CE.Cache.Proofs
import CE.Cache.MultiProofs
import CE.Io.Reader
/-
  C16 — reused instances behave like fresh ones, including after failed calls.

  The state that survives between calls on one instance:
  (1) the session's type caches (M-CACHE, CE/Cache/Model.lean);
  (2) the CBE reader's byte count and buffer, the CBE encoder's pending-array flags, the CTE
      encoder context, the validator's Context — each has a per-document reset point; that the
      reset point assigns every field the document processing can change is a regenerated
      fact (`Gen/ResetFacts.lean`, checked in CE/Gen/Check.lean: `reset_covers_*`).
  Theorems here are about (1), where the defect D14 lived:
  * `quiescent_cache_has_no_placeholder` — at any moment when no call is in flight (every
    goroutine that started has finished), after ANY history of calls in any interleaving,
    including calls whose generation failed, the cache entry is either absent or the final
    function: never a placeholder that a later call would wait on;
  * `failed_generation_leaves_fresh_cache` — if generation fails (unsupported kind), the entry
    is exactly what a fresh session holds (absent), so the next call replays the first.
-/
namespace CE.Props.C16
open CE.Cache

def quiescent (s : Sys) : Prop := ∀ t, s.pcs t = .init ∨ ∃ r, s.pcs t = .finished r

theorem quiescent_cache_has_no_placeholder (P : Params) (hfix : P.fixed = true)
    (history : List Nat) (hq : quiescent (run P {} history)) :
    ∀ o, (run P {} history).slot ≠ .placeholder o := by
  intro o hslot
  have inv := run_inv P hfix history {} (inv_init P)
  rcases inv.ownerInFlight o hslot with h | h | h <;>
    rcases hq o with h' | ⟨r, h'⟩ <;> rw [h] at h' <;> cases h'

theorem failed_generation_leaves_fresh_cache (P : Params) (hfix : P.fixed = true)
    (hfail : P.genOk = false) (history : List Nat) (hq : quiescent (run P {} history)) :
    (run P {} history).slot = ({} : Sys).slot := by
  have inv := run_inv P hfix history {} (inv_init P)
  have hnp := quiescent_cache_has_no_placeholder P hfix history hq
  cases hs : (run P {} history).slot with
  | empty => rfl
  | placeholder o => exact absurd hs (hnp o)
  | final => have := inv.finalOk hs; rw [hfail] at this; cases this

/-- the code before fix e509a33: one failed call leaves the placeholder behind -/
example :
    let P : Params := { genOk := false, fixed := false }
    (run P {} [0, 0, 0]).slot = .placeholder 0 ∧ (run P {} [0, 0, 0]).pcs 0 = .finished .failed := by
  decide

/-- non-vacuity: a history of two sequential failing calls is quiescent and leaves nothing -/
example :
    let P : Params := { genOk := false }
    let s := run P {} [0, 0, 0, 1, 1, 1]
    s.slot = .empty ∧ s.pcs 0 = .finished .failed ∧ s.pcs 1 = .finished .failed := by
  decide

/-
  Many entries (CE/Cache/Multi.lean): the cache as a set of types with the dependency structure of
  Go types, recursive types included; one goroutine, any history of requests.
-/
open CE.Cache.Multi in
/-- a reused session - starting from a new session's empty cache, after ANY history of successful and
    failed requests for ANY types (recursive ones, unsupported ones, types built on unsupported ones) -
    answers each request exactly as a fresh session would (it succeeds iff no unsupported kind is
    reachable from the type) and never keeps a generator that stands on an unsupported kind -/
theorem reused_session_answers_like_fresh (T : Types) (ts : List Nat) (F' : Nat → Prop) (oks : List Bool)
    (h : History T (fun _ => False) ts F' oks) :
    Sound T F' noneInFlight ∧ Answers T ts oks :=
  history_like_fresh T h (empty_cache_sound T)

open CE.Cache.Multi in
/-- non-vacuity, and the defect fix 7c58b8f repaired: Link = struct{Next *Link; Ready chan} (type 0 with
    components 1 = *Link and 2 = chan; 1 has component 0).  The failed request for Link leaves an empty
    cache: the generator for *Link, completed while Link was in flight, is deleted with it. -/
example :
    let T : Types := { children := fun k => if k = 0 then [1, 2] else if k = 1 then [0] else [], bad := fun k => k = 2 }
    ∃ F', History T (fun _ => False) [0] F' [false] ∧ ¬ F' 1 := by
  intro T
  -- inside Link's frame: *Link is generated (its component Link is in flight: a hit), then chan fails
  have hptr : Gen T (fun _ => False) (fun k => noneInFlight k ∨ k = 0) 1 (fun k => (fun _ => False) k ∨ k = 1) true := by
    refine .stored _ _ _ 1 (fun h => h) (by intro h; rcases h with h | h; exact h; cases h) (by simp [T]) ?_
    show GenList T _ _ (T.children 1) _ true
    have : T.children 1 = [0] := by simp [T]
    rw [this]
    exact .cons_ok _ _ _ _ 0 [] true (.hit _ _ 0 (.inr (.inl (.inr rfl)))) (.nil _ _)
  have hchan : Gen T (fun k => (fun _ => False) k ∨ k = 1) (fun k => noneInFlight k ∨ k = 0) 2
      (fun k => ((fun _ => False) k ∨ k = 1) ∧ ¬ Reach T k 2) false := by
    refine .unsupported _ _ 2 (by intro h; rcases h with h | h; exact h; cases h) (by intro h; rcases h with h | h; exact h; cases h) (by simp [T])
  have hlist : GenList T (fun _ => False) (fun k => noneInFlight k ∨ k = 0) (T.children 0)
      (fun k => ((fun _ => False) k ∨ k = 1) ∧ ¬ Reach T k 2) false := by
    have : T.children 0 = [1, 2] := by simp [T]
    rw [this]
    exact .cons_ok _ _ _ _ 1 [2] false hptr (.cons_fail _ _ _ 2 [] hchan)
  refine ⟨_, .cons _ _ _ 0 [] false [] (.failed _ _ _ 0 (fun h => h) (fun h => h) (by simp [T]) hlist) (.nil _), ?_⟩
  intro h
  -- *Link reaches chan through Link, so it did not survive
  apply h.1.2
  exact .step 1 0 2 (by simp [T]) (.step 0 2 2 (by simp [T]) (.refl 2))

open CE.Cache.Multi in
/-- … whereas the cache the code left behind before that fix (only Link's own placeholder deleted:
    *Link still cached) is not sound: a later request for *Link would be answered from it -/
example :
    let T : Types := { children := fun k => if k = 0 then [1, 2] else if k = 1 then [0] else [], bad := fun k => k = 2 }
    ¬ Sound T (fun k => k = 1) noneInFlight := by
  intro T hs
  apply hs 1 rfl
  exact .child 1 0 (fun h => h) (by simp [T]) (.child 0 2 (fun h => h) (by simp [T]) (.bad 2 (fun h => h) (by simp [T])))

end CE.Props.C16
