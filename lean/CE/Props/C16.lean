import CE.Cache.Proofs
import CE.Io.Reader
/-
  C16 — reused instances behave like fresh ones, including after failed calls.

  The state that survives between calls on one instance:
  (1) the session's type caches (M-CACHE, CE/Cache/Model.lean);
  (2) the CBE reader's byte count and buffer, the CBE encoder's pending-array flags, the CTE
      encoder context, the validator's Context — each has a per-document reset point; that the
      reset point assigns every field the document processing can change is a regenerated
      fact (`Gen/ResetFacts.lean`, checked in CE/Gen/Check.lean: `reset_covers_*`).
  Theorems here are about (1), where the defect D14 lived:
  * `quiescent_cache_has_no_placeholder` — at any moment when no call is in flight (every
    goroutine that started has finished), after ANY history of calls in any interleaving,
    including calls whose generation failed, the cache entry is either absent or the final
    function: never a placeholder that a later call would wait on;
  * `failed_generation_leaves_fresh_cache` — if generation fails (unsupported kind), the entry
    is exactly what a fresh session holds (absent), so the next call replays the first.
-/
namespace CE.Props.C16
open CE.Cache

def quiescent (s : Sys) : Prop := ∀ t, s.pcs t = .init ∨ ∃ r, s.pcs t = .finished r

theorem quiescent_cache_has_no_placeholder (P : Params) (hfix : P.fixed = true)
    (history : List Nat) (hq : quiescent (run P {} history)) :
    ∀ o, (run P {} history).slot ≠ .placeholder o := by
  intro o hslot
  have inv := run_inv P hfix history {} (inv_init P)
  rcases inv.ownerInFlight o hslot with h | h | h <;>
    rcases hq o with h' | ⟨r, h'⟩ <;> rw [h] at h' <;> cases h'

theorem failed_generation_leaves_fresh_cache (P : Params) (hfix : P.fixed = true)
    (hfail : P.genOk = false) (history : List Nat) (hq : quiescent (run P {} history)) :
    (run P {} history).slot = ({} : Sys).slot := by
  have inv := run_inv P hfix history {} (inv_init P)
  have hnp := quiescent_cache_has_no_placeholder P hfix history hq
  cases hs : (run P {} history).slot with
  | empty => rfl
  | placeholder o => exact absurd hs (hnp o)
  | final => have := inv.finalOk hs; rw [hfail] at this; cases this

/-- the code before fix e509a33: one failed call leaves the placeholder behind -/
example :
    let P : Params := { genOk := false, fixed := false }
    (run P {} [0, 0, 0]).slot = .placeholder 0 ∧ (run P {} [0, 0, 0]).pcs 0 = .finished .failed := by
  decide

/-- non-vacuity: a history of two sequential failing calls is quiescent and leaves nothing -/
example :
    let P : Params := { genOk := false }
    let s := run P {} [0, 0, 0, 1, 1, 1]
    s.slot = .empty ∧ s.pcs 0 = .finished .failed ∧ s.pcs 1 = .finished .failed := by
  decide

end CE.Props.C16
