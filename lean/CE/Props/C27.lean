import CE.Api.Dispatch
import CE.Gen.Api
/-
  C27 — format detection and version headers are handled consistently.

  The subject of these theorems is the dispatch/version table extracted from /repo on this
  run (CE/Gen/Api.lean): the property quantifies over whatever entry points exist, so the
  generated facts themselves are what must satisfy it.
  Beyond the table, "treats any document exactly as the format-specific entry point would"
  is carried by the C27 correspondence: every first byte 0–255 × versions × bodies through
  universal and specific decode/unmarshal entry points, results and error classes compared.
-/
namespace CE.Props.C27
open CE.Api CE.Gen

/-- universal decode and universal unmarshal detect the format identically, for every byte -/
theorem universal_entry_points_agree :
    ∀ b, b < 256 → detect decoderCases b = detect unmarshalerCases b := by decide +kernel

/-- the CTE header letter in either case and the CBE signature byte are recognised, and
    nothing else -/
theorem detection_table :
    detect decoderCases 99 = some .cte ∧ detect decoderCases 67 = some .cte ∧
    detect decoderCases 0x81 = some .cbe ∧
    (∀ b, b < 256 → b ≠ 99 → b ≠ 67 → b ≠ 0x81 → detect decoderCases b = none) := by decide +kernel

/-- both formats accept exactly the pre-release versions 0 and 1 (every other number,
    of any size, is rejected by the version rule) -/
theorem versions_0_and_1_cbe (v : Nat) :
    versionAccepted cbeVersionMap libVersion v = true ↔ (v = 0 ∨ v = 1) := by
  simp only [versionAccepted, mapVersion, cbeVersionMap, libVersion, List.find?]
  by_cases h1 : v = 1
  · subst h1; decide
  · have : ((1 : Nat) == v) = false := by simp; omega
    simp [this, h1]

theorem versions_0_and_1_cte (v : Nat) :
    versionAccepted cteVersionMap libVersion v = true ↔ (v = 0 ∨ v = 1) := by
  simp only [versionAccepted, mapVersion, cteVersionMap, libVersion, List.find?]
  by_cases h1 : v = 1
  · subst h1; decide
  · have : ((1 : Nat) == v) = false := by simp; omega
    simp [this, h1]

/-- both decoders forward the mapped version; the CTE lexer admits exactly the digits 0 and 1;
    marshalers emit the library version, which is 0 -/
theorem version_plumbing :
    cbeForwardsMapped = true ∧ cteForwardsMapped = true ∧ cteLexerVersions = [0, 1] ∧
    marshalersEmitLibVersion = true ∧ libVersion = 0 := by decide

end CE.Props.C27
