import CE.Arr.LE
/-
  C26 — array byte-conversion helpers are exact little-endian inverses.

  `toLE w` / `fromLE w` model internal/arrays' <T>SliceAsBytes / BytesTo<T>Slice for element
  width w ∈ {1, 2, 4, 8} bytes on unsigned bit patterns (the byte-wise path; signed and float
  element types reinterpret the same bits, which the C26 correspondence checks bit-exactly,
  NaN payloads included).  On this host the `unsafe` fast path of arrays_impurego.go is dead
  code because the endianness probe is inverted (observation D29 in DESIGN.md): the theorems
  are about the path the binary runs, and the correspondence would expose the other one.
-/
namespace CE.Props.C26
open CE CE.Arr

theorem bytes_to_slice_inverts_slice_to_bytes (w : Nat) (hw : 0 < w) (xs : List Nat)
    (h : ∀ x ∈ xs, x < 256 ^ w) : fromLE w (toLE w xs) = xs := fromLE_toLE w hw xs h

theorem slice_to_bytes_inverts_bytes_to_slice (w : Nat) (hw : 0 < w) (bs : Bytes)
    (h : bs.length % w = 0) : toLE w (fromLE w bs) = bs := toLE_fromLE w hw bs h

theorem little_endian_element_order (w x i : Nat) (hi : i < w) :
    (leBytes w x)[i]? = some ((x / 256 ^ i % 256).toUInt8) := toLE_is_little_endian w x i hi

theorem slice_to_bytes_length (w : Nat) (xs : List Nat) : (toLE w xs).length = w * xs.length :=
  toLE_length w xs

/-- non-vacuity: uint16 0x1234 is the bytes 34 12 -/
example : toLE 2 [0x1234] = [0x34, 0x12] ∧ fromLE 2 [0x34, 0x12, 0xff] = [0x1234] := by decide

end CE.Props.C26
