import CE.Cbe.Encode
/-
  C18 — marshaling never modifies the value being marshaled.

  The CBE encoder is the one place where the code handles a caller-owned big number through
  mutating big.Int operations (OnBigInt).  The model's `encBigInt` returns, next to the bytes,
  the value the caller's *big.Int holds after the call; since the fix it negates into a copy.
-/
namespace CE.Props.C18
open CE CE.Cbe

theorem encode_preserves_bigint (i : Int) : (encBigInt i).2 = i := by
  unfold encBigInt
  repeat' split
  all_goals rfl

/-- the bytes are those of the magnitude with the sign in the type code, as before the fix -/
theorem encode_bigint_bytes_negative (i : Int) (h1 : i < -(2 : Int) ^ 63) (h2 : (-i).toNat < 2 ^ 64) :
    (encBigInt i).1 = encNegInt (-i).toNat := by
  unfold encBigInt
  have : i < 0 := by omega
  have hn : ¬ (-(2 : Int) ^ 63 ≤ i) := by omega
  simp [this, hn, h2]

example : (encBigInt (-(2 : Int) ^ 63 - 1)).2 = -(2 : Int) ^ 63 - 1 := encode_preserves_bigint _

end CE.Props.C18
