import CE.Cte.Lit
import CE.Cte.Digits
/-
  C24 — CTE literals decode to exactly the value written.

  The reference semantics `Lit.value / Lit.intElemValue / Lit.floatElemValue / Lit.strBytes`
  (CE/Cte/Lit.lean) is the "independent reference parser" of the property: positional notation
  with separators, sign, base prefixes, exact rational values for decimal and hexadecimal
  floats, range checks for array elements, the escape rules for strings.  `bin/check C24`
  compares the real decoder with it on generated spellings (LIT.NUM / LIT.ELEM / LIT.STR).

  Theorems here tie the two halves of the decoder's integer path to that semantics, for every
  spelling:
  * `separators_are_transparent` — a digit string with '_' separators (as the lexer admits them:
    between digits only) denotes exactly what the plain positional reading of the string with
    the separators deleted denotes — which is what the decoder computes after its
    `strings.ReplaceAll(str, "_", "")`;
  * `decimal_spelling_value` — the reference semantics gives the standard decimal spelling of
    n (any number of leading zeros) the value n: in particular a leading zero does not switch
    the base (the defect repaired by fix e566e43);
  * `leading_zeros_do_not_change_base` — concrete witnesses of that repair in the semantics.
-/
namespace CE.Props.C24
open CE.Cte.Lit CE.Cte.ArrFmt

/-- what `strings.ReplaceAll(str, "_", "")` leaves -/
def stripSep (s : List Char) : List Char := s.filter (fun c => c != '_')

theorem stripSep_sep (cs : List Char) : stripSep ('_' :: cs) = stripSep cs := by simp [stripSep]
theorem stripSep_cons (c : Char) (cs : List Char) (h : c ≠ '_') : stripSep (c :: cs) = c :: stripSep cs := by
  simp [stripSep, h]
theorem stripSep_nil : stripSep [] = [] := rfl

theorem go_spec (b : Nat) : ∀ (s : List Char) (acc k : Nat) (last : Bool) (v k' : Nat),
    digitsValue.go b s acc k last = some (v, k') →
      parseDigits b (stripSep s) acc = some v ∧ k' = k + (stripSep s).length ∧ 0 < k' := by
  intro s
  induction s with
  | nil =>
    intro acc k last v k' h
    simp only [digitsValue.go] at h
    split at h
    · rename_i hc
      simp only [Option.some.injEq, Prod.mk.injEq] at h
      obtain ⟨h1, h2⟩ := h
      subst h1; subst h2
      simp only [Bool.and_eq_true, decide_eq_true_eq] at hc
      simp [parseDigits, stripSep_nil]; exact hc.2
    · cases h
  | cons c cs ih =>
    intro acc k last v k' h
    simp only [digitsValue.go] at h
    by_cases hu : c = '_'
    · subst hu
      simp only [if_true] at h
      split at h
      · have := ih acc k false v k' h
        rw [stripSep_sep]; exact this
      · cases h
    · simp only [hu, if_false] at h
      cases hd : digitVal c with
      | none => simp [hd] at h
      | some d =>
        simp only [hd] at h
        split at h
        · rename_i hlt
          obtain ⟨h1, h2, h3⟩ := ih (acc * b + d) (k + 1) true v k' h
          refine ⟨?_, ?_, h3⟩
          · rw [stripSep_cons c cs hu]; simp [parseDigits, hd, hlt, h1]
          · rw [stripSep_cons c cs hu, h2]; simp; omega
        · cases h

/-- separators do not contribute to the value: the literal denotes the positional reading of
    its digits alone -/
theorem separators_are_transparent (b : Nat) (s : List Char) (v k : Nat)
    (h : digitsValue b s = some (v, k)) :
    parseDigits b (stripSep s) 0 = some v ∧ k = (stripSep s).length ∧ 0 < k := by
  have := go_spec b s 0 0 false v k h
  simpa using this

/-- a string of digits without separators is read positionally -/
theorem go_plain (b : Nat) : ∀ (s : List Char) (acc k : Nat) (last : Bool),
    (∀ c ∈ s, c ≠ '_') → (s ≠ [] ∨ (last = true ∧ 0 < k)) →
    digitsValue.go b s acc k last = (parseDigits b s acc).map (fun v => (v, k + s.length)) := by
  intro s
  induction s with
  | nil => intro acc k last _ h; rcases h with h | ⟨h1, h2⟩ <;> simp_all [digitsValue.go, parseDigits]
  | cons c cs ih =>
    intro acc k last hns _
    have hc : c ≠ '_' := hns c (by simp)
    simp only [digitsValue.go, hc, if_false, parseDigits]
    cases hd : digitVal c with
    | none => simp
    | some d =>
      by_cases hlt : d < b
      · simp only [hlt, if_true]
        rw [ih (acc * b + d) (k + 1) true (fun x hx => hns x (by simp [hx])) (Or.inr ⟨rfl, by omega⟩)]
        simp [Nat.add_assoc, Nat.add_comm 1]
      · simp [hlt]

theorem natDigits_no_underscore (b : Nat) (hb : 2 ≤ b) (hb16 : b ≤ 16) (w n : Nat) :
    ∀ c ∈ leftPad w (natDigits b n), c ≠ '_' := by
  intro c hc
  unfold leftPad at hc
  rcases List.mem_append.mp hc with h | h
  · have := List.eq_of_mem_replicate h; subst this; decide
  · -- every written character is a digit character
    have key : ∀ (fuel n : Nat) (acc : List Char), (∀ c ∈ acc, c ≠ '_') →
        ∀ c ∈ natDigitsAux b fuel n acc, c ≠ '_' := by
      intro fuel
      induction fuel with
      | zero => intro n acc h c hc; exact h c (by simpa [natDigitsAux] using hc)
      | succ f ih =>
        intro n acc h c hc
        simp only [natDigitsAux] at hc
        have dne : ∀ d : Fin 16, digitChar d.val ≠ '_' := by decide
        split at hc
        · rcases List.mem_cons.mp hc with rfl | hc'
          · exact dne ⟨n, by omega⟩
          · exact h c hc'
        · refine ih (n / b) _ ?_ c hc
          intro c' hc'
          rcases List.mem_cons.mp hc' with rfl | hc''
          · exact dne ⟨n % b, by have := Nat.mod_lt n (show 0 < b by omega); omega⟩
          · exact h c' hc''
    exact key (n + 1) n [] (by simp) c h

/-- the reference semantics reads the standard spelling of n in base b, with any number of
    leading zeros, as n -/
theorem digitsValue_natDigits (b : Nat) (hb : 2 ≤ b) (hb16 : b ≤ 16) (w n : Nat) :
    (digitsValue b (leftPad w (natDigits b n))).map (·.1) = some n := by
  unfold digitsValue
  have hne : leftPad w (natDigits b n) ≠ [] := by
    unfold leftPad; intro h
    have := List.append_eq_nil_iff.mp h
    exact natDigits_ne_nil b n this.2
  rw [go_plain b _ 0 0 false (natDigits_no_underscore b hb hb16 w n) (Or.inl hne)]
  have := parseNat_leftPad_natDigits b hb hb16 w n
  unfold parseNat at this
  have hemp : (leftPad w (natDigits b n)).isEmpty = false := by
    cases h : leftPad w (natDigits b n) with
    | nil => exact absurd h hne
    | cons _ _ => rfl
  simp only [hemp, Bool.false_eq_true, if_false] at this
  simp [this]

/-- witnesses of the repaired defect, in the semantics: a leading zero is just a zero -/
theorem leading_zeros_do_not_change_base :
    value "010" = some (.num false 10 1) ∧ value "08" = some (.num false 8 1) ∧
    value "-007" = some (.num true 7 1) ∧ value "0x10" = some (.num false 16 1) ∧
    value "0o10" = some (.num false 8 1) ∧ value "0b10" = some (.num false 2 1) ∧
    value "1_000" = some (.num false 1000 1) ∧ value "0x1.8p1" = some (.num false 3 1) ∧
    value "-0" = some (.num true 0 1) ∧ value "2.5e-3" = some (.num false 1 400) := by decide

end CE.Props.C24
