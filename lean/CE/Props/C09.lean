import CE.Rules.Machine
import CE.Rules.Table
import CE.Cbe.RoundTrip
import CE.Cbe.Prefix
import CE.Cbe.Cut
import CE.Props.C10
/-
  C09 — truncated documents are rejected and partial results are prefixes.

  Full statement (target): for every valid document d and 0 < k < |d|,
    unmarshal (take k d) is an error and its partial value ⊑ the full value.

  A cut falls either inside a token or between two tokens.  Proved here, for all inputs:
  * `truncated_stream_rejected` — between tokens: the decoder has delivered a strict prefix p of
    the document's events and, at end of input, the synthetic end-of-document.  Whenever the
    full stream p ++ e :: rest was accepted and e is not itself the end-of-document, the
    validator rejects p ++ [endDoc] — at the endDoc, not before (so everything decoded so far
    was delivered).  Holds for every configuration, every stream, every cut.
  * `posInt_cut_rejected` / `negInt_cut_rejected` — inside a token: every strict prefix of an
    encoded integer (any width) makes the CBE token decoder fail with end-of-file, delivering
    no event.
  * `cut_inside_token_fails` — inside ANY token the encoder writes for the structural fragment
    (CE/Cbe/StreamRoundTrip.lean: scalars of every kind, identifiers, strings, typed arrays) and
    `cut_inside_chunked_array_fails` — inside an array sent in chunks (header, chunk lengths or
    data): every non-empty strict prefix of the token's bytes fails with "input ended", having
    delivered a prefix of the token's events; it is never read as a shorter token.  Both follow
    from one general fact (CE/Cbe/Cut.lean `token_cut_fails`): a byte string that is read back as
    one token whatever follows it has no strict prefix that decodes - the decoder reads a prefix
    code (`ext_decodeOne`).  Times, bit arrays and remote references: CBE.DEC correspondence at
    random cuts and the oracle at every cut.
  * `cbe_truncation_delivers_a_prefix` — every cut of every byte string, inside a token or
    between tokens, every event kind the decoder model covers: the events the CBE decoder has
    delivered when the input ends after k bytes (not counting the end-of-document it adds when
    it stops between tokens) are a prefix of the events it delivers for the whole input.  The
    decoder reads a prefix code: a token that decodes keeps decoding to the same events when bytes
    are appended, an error other than "input ended" reappears unchanged, and at "input ended" what
    had been delivered (an array's begin and chunk events, say) is delivered again first
    (CE/Cbe/Prefix.lean: `ext_decodeOne` for all 30 token kinds, `ext_decodeChunks` by induction).
  * `cbe_truncation_fails_only_with_end_of_input` — and the cut never produces another kind of
    error than "input ended" (an error of any other kind persists under every continuation).
  The value-level prefix order is decided by the oracle of `bin/check C09` on the
  implementation (the builders are not modelled).
-/
namespace CE.Props.C09
open CE CE.Rules CE.Rules.Model

theorem nno_rule (cfg : Cfg) (s s1 : RState) (b : Bool) (h : notifyNewObject cfg s b = .ok s1) :
    s1.cur.rule = s.cur.rule := by
  unfold notifyNewObject at h
  simp only [bind, Except.bind, pure, Except.pure] at h
  repeat' (split at h)
  all_goals (first | contradiction | (simp only [Except.ok.injEq] at h; subst h; rfl) | skip)
  all_goals (simp_all [throw, throwThe, MonadExceptOf.throw])
  all_goals (try (injection h with h; subst h; injections; subst_vars; rfl))

theorem call_rejected (cfg : Cfg) (s : RState) (m : Method) (args : Args)
    (h : ruleTable s.cur.rule m = [.wrongType]) :
    call ruleTable cfg s m args = .error .wrongType := by
  simp [call, h, fuel0, runActs, execAct]

/-- only the rule that follows the single top-level object accepts end-of-document -/
theorem endDoc_accepted_only_after_top_level (env : Env) (htbl : env.tbl = ruleTable)
    (s : RState) (r : RState × List Ev) (h : step env s .endDoc = .ok r) :
    s.cur.rule = .endDocument := by
  by_cases hr : s.cur.rule = .endDocument
  · exact hr
  · exfalso
    have hrej : ruleTable s.cur.rule .onEndDocument = [.wrongType] := by
      have := Props.C10.endDocument_only_after_top_level s.cur.rule (Props.C10.Rule.all_complete _) hr
      simpa [Props.C10.rejects] using this
    simp [step, htbl, call_rejected _ _ _ _ hrej, bind, Except.bind] at h


theorem endDocument_rejects (m : Method) (hm : m ≠ .onEndDocument) :
    ruleTable .endDocument m = [.wrongType] := by
  have := (Props.C10.header_and_terminal).2.2.2.1 m (Props.C10.Method.all_complete m) hm
  simpa [Props.C10.rejects] using this

/-- after the top-level object nothing but end-of-document is accepted (no second object,
    no padding, no comment) -/
theorem after_top_level_only_endDoc (env : Env) (htbl : env.tbl = ruleTable)
    (s : RState) (e : Ev) (he : e ≠ .endDoc) (hr : s.cur.rule = .endDocument) :
    ∃ err, step env s e = .error err := by
  have key : ∀ (s1 : RState) (m : Method) (args : Args), m ≠ .onEndDocument →
      s1.cur.rule = .endDocument → call ruleTable env.cfg s1 m args = .error .wrongType := by
    intro s1 m args hm h1
    exact call_rejected _ _ _ _ (by rw [h1]; exact endDocument_rejects m hm)
  have hc : ∀ (s1 : RState) (m : Method) (args : Args) (v : RState), s1.cur.rule = .endDocument →
      m ≠ .onEndDocument → call ruleTable env.cfg s1 m args = .ok v → False := by
    intro s1 m args v h1 hm h; rw [key s1 m args hm h1] at h; cases h
  cases e
  case endDoc => exact absurd rfl he
  all_goals (
    simp only [step, htbl, bind, Except.bind, pure, Except.pure]
    repeat' split
    all_goals (first
      | exact ⟨_, rfl⟩
      | contradiction
      | (exfalso
         first
         | (refine hc _ _ _ _ ?_ ?_ (by assumption)
            · exact hr
            · decide)
         | (refine hc _ _ _ _ ?_ ?_ (by assumption)
            · exact (nno_rule _ _ _ _ (by assumption)).trans hr
            · decide))))


/-- splitting a run at a prefix that is accepted so far -/
theorem run_prefix (env : Env) :
    ∀ (p q : List Ev) (s : RState) (i : Nat),
      (run env s p i).2.1 = none →
      run env s (p ++ q) i =
        ((run env s p i).1 ++ (run env (run env s p i).2.2 q (i + p.length)).1,
         (run env (run env s p i).2.2 q (i + p.length)).2.1,
         (run env (run env s p i).2.2 q (i + p.length)).2.2) := by
  intro p
  induction p with
  | nil => intro q s i _; simp [run]
  | cons e es ih =>
    intro q s i h
    simp only [List.cons_append, run] at h ⊢
    cases hs : step env s e with
    | error err => simp [hs] at h
    | ok r =>
      obtain ⟨s', out⟩ := r
      simp only [hs] at h ⊢
      have h' : (run env s' es (i + 1)).2.1 = none := by simpa using h
      rw [ih q s' (i + 1) h']
      simp [List.length_cons, Nat.add_assoc, Nat.add_comm 1]

/-- an accepted stream has an accepted prefix -/
theorem run_prefix_ok (env : Env) :
    ∀ (p q : List Ev) (s : RState) (i : Nat),
      (run env s (p ++ q) i).2.1 = none → (run env s p i).2.1 = none := by
  intro p
  induction p with
  | nil => intro q s i _; simp [run]
  | cons e es ih =>
    intro q s i h
    simp only [List.cons_append, run] at h ⊢
    cases hs : step env s e with
    | error err => simp [hs] at h
    | ok r =>
      obtain ⟨s', out⟩ := r
      simp only [hs] at h ⊢
      have := ih q s' (i + 1) (by simpa using h)
      simpa using this

/-- **Truncation between tokens is always rejected, and only at the end.**  If the validator
    accepts every event of `p ++ e :: rest` and `e` is not the end-of-document, then the
    truncated stream `p` followed by the decoder's end-of-document is rejected exactly at that
    final event: everything in `p` was accepted (and delivered), the synthetic end is not. -/
theorem truncated_stream_rejected (env : Env) (htbl : env.tbl = ruleTable)
    (p : List Ev) (e : Ev) (rest : List Ev) (he : e ≠ .endDoc)
    (hacc : (run env RState.init (p ++ e :: rest) 0).2.1 = none) :
    ∃ err, (run env RState.init (p ++ [.endDoc]) 0).2.1 = some (p.length, err) := by
  have hp := run_prefix_ok env p (e :: rest) RState.init 0 hacc
  have hfull := run_prefix env p (e :: rest) RState.init 0 hp
  have hcut := run_prefix env p [.endDoc] RState.init 0 hp
  generalize hsp : (run env RState.init p 0).2.2 = sp at hfull hcut
  -- the event after the cut was accepted in state sp
  have hstep : ∃ r, step env sp e = .ok r := by
    rw [hfull] at hacc
    simp only [run] at hacc
    cases hs : step env sp e with
    | error err => simp [hs] at hacc
    | ok r => exact ⟨r, rfl⟩
  -- so sp is not the rule that accepts end-of-document
  have hne : sp.cur.rule ≠ .endDocument := by
    intro hr
    obtain ⟨err, herr⟩ := after_top_level_only_endDoc env htbl sp e he hr
    obtain ⟨r, hr'⟩ := hstep
    rw [herr] at hr'; cases hr'
  rw [hcut]
  simp only [run]
  cases hs : step env sp .endDoc with
  | error err => exact ⟨err, by simp⟩
  | ok r => exact absurd (endDoc_accepted_only_after_top_level env htbl sp r hs) hne

/-- non-vacuity: a concrete accepted document and a cut inside it -/
example :
    let env : Env := { tbl := ruleTable, identSafe := fun _ => true }
    (run env RState.init ([.beginDoc, .version 0, .list, .posInt 1] ++ .endContainer :: [.endDoc]) 0).2.1 = none ∧
    (run env RState.init ([.beginDoc, .version 0, .list, .posInt 1] ++ [.endDoc]) 0).2.1 = some (4, .wrongType) := by
  decide +kernel


/-! ### cuts inside a CBE token -/
open CE.Cbe

theorem takeN_short (k : Nat) (d : Bytes) (h : d.length < k) : takeN k d = .error .eof := by
  simp [takeN]; omega

theorem fix_cut (neg : Bool) (w : Nat) (d : Bytes) (h : d.length < w) :
    decodeTok (if neg then .negFix w else .posFix w) d = .error (.eof, []) := by
  cases neg <;> simp [decodeTok, takeN_short w d h, bind, Except.bind, lift]

theorem var_cut (neg : Bool) (L : Nat) (hL : L ≤ 8) (d : Bytes) (hd : d.length = L) (j : Nat)
    (hj : j < 1 + L) :
    decodeTok (if neg then .negVar else .posVar) ((u8 L :: d).take j) = .error (.eof, []) := by
  cases j with
  | zero => cases neg <;> simp [decodeTok, decodeVarInt, readUleb, unuleb, unulebRaw, bind, Except.bind, lift]
  | succ j =>
    have hu : (u8 L).toNat = L := u8_toNat _ (by omega)
    have hlt : L < 128 := by omega
    have hule : ∀ r, unuleb (u8 L :: r) = .ok (L, 1, r) := by
      intro r; simp [unuleb, unulebRaw, hu, hlt]; omega
    have hshort : (d.take j).length < L := by simp; omega
    have ht := takeN_short _ _ hshort
    have hmax : ¬ L > maxBigIntBytes := by simp [maxBigIntBytes]; omega
    cases neg <;>
      simp only [decodeTok, decodeVarInt, readUleb, hule, List.take_succ_cons, hmax, ht,
        bind, Except.bind, lift, Bool.false_eq_true, if_false, if_true]

/-- every strict prefix of an encoded non-negative integer (any width) fails with end-of-file
    and delivers nothing -/
theorem posInt_cut_rejected_partial (n : Nat) (h : n < 2 ^ 64) (k : Nat)
    (hk : k < (encPosInt n).length) :
    decodeOne ((encPosInt n).take k) = .error (.eof, []) := by
  cases k with
  | zero => simp [decodeOne]
  | succ k =>
    unfold encPosInt at hk ⊢
    by_cases h1 : n ≤ smallIntMax
    · simp [h1] at hk
    simp only [h1, if_false] at hk ⊢
    by_cases h2 : n ≤ 0xff
    · simp only [h2, if_true, List.take_succ_cons, decodeOne] at hk ⊢
      have : classify (u8 tPosInt8).toNat = .posFix 1 := by decide
      rw [this]; exact fix_cut false 1 _ (by simp at hk ⊢; omega)
    simp only [h2, if_false] at hk ⊢
    by_cases h3 : n ≤ 0xffff
    · simp only [h3, if_true, List.take_succ_cons, decodeOne] at hk ⊢
      have : classify (u8 tPosInt16).toNat = .posFix 2 := by decide
      rw [this]; exact fix_cut false 2 _ (by simp at hk ⊢; omega)
    simp only [h3, if_false] at hk ⊢
    by_cases h4 : n ≤ 0xffffffff
    · simp only [h4, if_true, List.take_succ_cons, decodeOne] at hk ⊢
      have : classify (u8 tPosInt32).toNat = .posFix 4 := by decide
      rw [this]; exact fix_cut false 4 _ (by simp at hk ⊢; omega)
    simp only [h4, if_false] at hk ⊢
    by_cases h5 : n < 2 ^ 48
    · simp only [h5, if_true, List.take_succ_cons, decodeOne] at hk ⊢
      have : classify (u8 tPosInt).toNat = .posVar := by decide
      rw [this]; exact var_cut false (byteLen n) (byteLen_le n 8 (by simpa using h)) _ (by simp) k (by simp at hk; omega)
    · simp only [h5, if_false, List.take_succ_cons, decodeOne] at hk ⊢
      have : classify (u8 tPosInt64).toNat = .posFix 8 := by decide
      rw [this]; exact fix_cut false 8 _ (by simp at hk ⊢; omega)

/-- the same for negative integers (magnitude form, any width, including negative zero) -/
theorem negInt_cut_rejected_partial (n : Nat) (h : n < 2 ^ 64) (k : Nat)
    (hk : k < (encNegInt n).length) :
    decodeOne ((encNegInt n).take k) = .error (.eof, []) := by
  cases k with
  | zero => simp [decodeOne]
  | succ k =>
    unfold encNegInt at hk ⊢
    by_cases h0 : n = 0
    · simp only [h0, if_true, List.take_succ_cons, decodeOne] at hk ⊢
      have : classify (u8 tNegInt8).toNat = .negFix 1 := by decide
      rw [this]; exact fix_cut true 1 _ (by simp at hk ⊢; omega)
    simp only [h0, if_false] at hk ⊢
    by_cases h1 : n ≤ smallIntMax
    · simp [h1] at hk
    simp only [h1, if_false] at hk ⊢
    by_cases h2 : n ≤ 0xff
    · simp only [h2, if_true, List.take_succ_cons, decodeOne] at hk ⊢
      have : classify (u8 tNegInt8).toNat = .negFix 1 := by decide
      rw [this]; exact fix_cut true 1 _ (by simp at hk ⊢; omega)
    simp only [h2, if_false] at hk ⊢
    by_cases h3 : n ≤ 0xffff
    · simp only [h3, if_true, List.take_succ_cons, decodeOne] at hk ⊢
      have : classify (u8 tNegInt16).toNat = .negFix 2 := by decide
      rw [this]; exact fix_cut true 2 _ (by simp at hk ⊢; omega)
    simp only [h3, if_false] at hk ⊢
    by_cases h4 : n ≤ 0xffffffff
    · simp only [h4, if_true, List.take_succ_cons, decodeOne] at hk ⊢
      have : classify (u8 tNegInt32).toNat = .negFix 4 := by decide
      rw [this]; exact fix_cut true 4 _ (by simp at hk ⊢; omega)
    simp only [h4, if_false] at hk ⊢
    by_cases h5 : n < 2 ^ 48
    · simp only [h5, if_true, List.take_succ_cons, decodeOne] at hk ⊢
      have : classify (u8 tNegInt).toNat = .negVar := by decide
      rw [this]; exact var_cut true (byteLen n) (byteLen_le n 8 (by simpa using h)) _ (by simp) k (by simp at hk; omega)
    · simp only [h5, if_false, List.take_succ_cons, decodeOne] at hk ⊢
      have : classify (u8 tNegInt64).toNat = .negFix 8 := by decide
      rw [this]; exact fix_cut true 8 _ (by simp at hk ⊢; omega)

/-- non-vacuity: a 3-byte and a 9-byte encoding have cuts -/
example : (encPosInt 65535).length = 3 ∧ (encNegInt (2 ^ 63)).length = 9 := by decide

/-- whatever the CBE decoder has delivered when a document is cut after k bytes is a prefix of what it
    delivers for the whole document: for every byte string and every k -/
theorem cbe_truncation_delivers_a_prefix (doc : Bytes) (k : Nat) :
    CE.Cbe.delivered (CE.Cbe.decode (doc.take k)) <+: (CE.Cbe.decode doc).1 :=
  CE.Cbe.truncation_delivers_a_prefix doc k

/-- a cut never manufactures a different failure: a document that decodes without error, cut anywhere,
    stops cleanly between two tokens or fails with "input ended" -/
theorem cbe_truncation_fails_only_with_end_of_input (doc : Bytes) (k : Nat) (h : (CE.Cbe.decode doc).2 = none) :
    (CE.Cbe.decode (doc.take k)).2 = none ∨ (CE.Cbe.decode (doc.take k)).2 = some .eof :=
  CE.Cbe.truncation_error_is_eof doc k h

/-- non-vacuity: a list holding a 3-byte string cut inside the string data has delivered the document
    head, the list and the string's begin and chunk events -/
example : CE.Cbe.delivered (CE.Cbe.decode (([0x81, 0, 0x9a, 0x90, 0x06, 0x61, 0x62, 0x63, 0x9b] : Bytes).take 7))
    = [.beginDoc, .version 0, .list, .arrayBegin .string, .arrayChunk 3 false] := by decide +kernel

/-- a cut inside the encoding of any structural event fails with "input ended" -/
theorem cut_inside_token_fails (st : Cbe.EncSt) (e : Ev) (hs : Cbe.simple e = true) (bs : Bytes)
    (henc : Cbe.encodeEv st e = .ok (st, bs)) (hc : ∀ m s, e ≠ .comment m s)
    (p : Bytes) (hp : p <+: bs) (hne : p ≠ []) (hlt : p.length < bs.length) :
    ∃ part, Cbe.decodeOne p = .error (.eof, part) ∧ part <+: Cbe.renorm e :=
  Cbe.simple_token_cut_fails st e hs bs henc hc p hp hne hlt

/-- a cut inside an array sent in chunks fails with "input ended" -/
theorem cut_inside_chunked_array_fails (t : ArrT) (hf : Cbe.frag t = true) (hd : Bytes) (hah : Cbe.arrayHeader t = .ok hd)
    (cs : List Cbe.Chunk) (last : Cbe.Chunk) (hcs : ∀ c ∈ cs, Cbe.chunkOK (t.elemBits / 8) c)
    (hl : Cbe.chunkOK (t.elemBits / 8) last) (p : Bytes) (hp : p <+: Cbe.groupBytes t hd cs last) (hne : p ≠ [])
    (hlt : p.length < (Cbe.groupBytes t hd cs last).length) :
    ∃ part, Cbe.decodeOne p = .error (.eof, part) ∧ part <+: Cbe.groupBack t cs last :=
  Cbe.group_cut_fails t hf hd hah cs last hcs hl p hp hne hlt

/-- non-vacuity: the two-byte prefix of the three-byte encoding of 1000 -/
example : Cbe.simple (.posInt 1000) = true ∧ (Cbe.encodeFrom {} [.posInt 1000]).1 = [0x6a, 0xe8, 0x03] := by
  refine ⟨by decide, by decide⟩

end CE.Props.C09
