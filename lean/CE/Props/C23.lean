import CE.Cte.ArrEngineProofs
/-
  C23 — CTE output depends only on the data.

  The encoder writes a typed array as header ++ elements ++ "]", the elements coming from
  `arrayEncoderEngine.AddArrayData`, which carries a partial element over from one data event
  to the next.  Theorems over the model of that engine (CE/Cte/ArrEngine.lean), for every
  element width and EVERY division of the array's bytes into data events (mid-element splits
  and empty events included):
  * `elements_depend_only_on_bytes` — the list of elements handed to the element writer, and
    the incomplete tail kept back, are those of the concatenated bytes;
  * `rechunking_preserves_elements` — two divisions of the same bytes give the same elements,
    hence the same text (the element writer is a function of the element, CE/Cte/ArrFmt.lean);
  * `nothing_lost_or_invented` — elements ++ tail is exactly the bytes received.
  The string-like, bit, media and custom arrays, the layout decorators and the second sentence
  of the property (decode→encode reproduces the text) are decided by the oracle of
  `bin/check C23`; the engine + format models are tied to the encoder by CTE.ENGINE.
-/
namespace CE.Props.C23
open CE CE.Cte.ArrEngine

theorem elements_depend_only_on_bytes (w : Nat) (hw : 0 < w) (dataEvents : List Bytes) :
    (feed w dataEvents).out = (groups w dataEvents.flatten).1 ∧
    (feed w dataEvents).leftover = (groups w dataEvents.flatten).2 :=
  feed_spec w hw dataEvents

theorem rechunking_preserves_elements (w : Nat) (hw : 0 < w) (ds ds' : List Bytes)
    (h : ds.flatten = ds'.flatten) : (feed w ds).out = (feed w ds').out :=
  (split_irrelevant w hw ds ds' h).1

theorem blocks_flatten (w : Nat) : ∀ (n : Nat) (bs : Bytes), n * w ≤ bs.length →
    (blocks w n bs).flatten = bs.take (n * w) := by
  intro n
  induction n with
  | zero => intro bs _; simp [blocks]
  | succ n ih =>
    intro bs h
    simp only [blocks, List.flatten_cons]
    rw [ih (bs.drop w) (by simp [Nat.succ_mul] at h ⊢; omega)]
    rw [Nat.succ_mul, Nat.add_comm (n * w) w, List.take_add]

theorem nothing_lost_or_invented (w : Nat) (hw : 0 < w) (dataEvents : List Bytes) :
    (feed w dataEvents).out.flatten ++ (feed w dataEvents).leftover = dataEvents.flatten := by
  obtain ⟨h1, h2⟩ := feed_spec w hw dataEvents
  rw [h1, h2]
  simp only [groups]
  rw [blocks_flatten w _ _ (Nat.div_mul_le_self _ _), List.take_append_drop]

/-- non-vacuity: a u32 array of two elements delivered as 1 + 0 + 5 + 2 bytes -/
example :
    (feed 4 [[1], [], [2, 3, 4, 5, 6], [7, 8]]).out = [[1, 2, 3, 4], [5, 6, 7, 8]] ∧
    (feed 4 [[1, 2, 3, 4, 5, 6, 7, 8]]).out = [[1, 2, 3, 4], [5, 6, 7, 8]] ∧
    (feed 4 [[1, 2, 3, 4, 5, 6]]).leftover = [5, 6] := by decide

end CE.Props.C23
