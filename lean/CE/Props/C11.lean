import CE.Rules.ArraySplit
import CE.Rules.TextSplit
import CE.Rules.Spec
/-
  C11 — array validation ignores how the data is split.

  Full statement (target): for every array type, chunk list and data events,
     verdict t chunks datas = accept ↔ datas fill the chunks exactly ∧ the last chunk is final ∧
       (text types: every chunk's bytes are valid UTF-8),
  hence the verdict depends on the data events only through their concatenation per chunk.

  Proved, binary half (`arrayChunk` rule: u8…f64, uid, bit, media, custom binary): any division of
  a chunk's bytes among any number of data events, including empty ones — same state, same
  error, same completion.
  Proved, text half (`stringChunk` rule: strings, resource ids, remote references, custom text;
  streaming UTF-8 with a carried remainder, `StreamStringData`):
  * `text_accepts_iff_valid_utf8` — for EVERY division of a chunk's bytes among data events
    (inside characters, empty events, bytes that start no character) the streaming validator
    accepts all events and ends with nothing pending exactly when the concatenation is valid UTF-8
    (`utf8.Valid` as modelled in CE/Basic/Utf8.lean).  Hence "every chunk ends on a character
    boundary" and "the contents are valid UTF-8" are one condition per chunk, as the property says.
  * `text_split_irrelevant` — on the rule machine: feeding `ds` and then the event that completes
    the chunk gives the same result (both rejected, or the same state) as the single event
    `ds.flatten ++ d`.
  The models of `StreamStringData` / `IndexOfLastRuneStart` / `CalculateRuneByteCount` are tied to
  the code by the RULES correspondence on every split of every generated chunking.
-/
namespace CE.Props.C11
open CE CE.Rules

/-- binary arrays: all splittings of the same bytes are indistinguishable -/
theorem binary_split_irrelevant (cfg : Cfg) (f : Bytes → Bool) (s : RState) (ds : List Bytes) (d : Bytes)
    (hr : s.cur.rule = .arrayChunk) (h : s.chunkActual + totalLen ds < s.chunkExpected) :
    (feed (env0 cfg f) s ds).bind (fun s' => stepS (env0 cfg f) s' (.arrayData d))
      = stepS (env0 cfg f) s (.arrayData (ds.flatten ++ d)) :=
  binary_any_split cfg f ds s d hr h

/-- two splittings with the same concatenation give the same result -/
theorem binary_same_bytes_same_verdict (cfg : Cfg) (f : Bytes → Bool) (s : RState)
    (ds ds' : List Bytes) (d d' : Bytes) (hr : s.cur.rule = .arrayChunk)
    (h : s.chunkActual + totalLen ds < s.chunkExpected) (h' : s.chunkActual + totalLen ds' < s.chunkExpected)
    (hcat : ds.flatten ++ d = ds'.flatten ++ d') :
    (feed (env0 cfg f) s ds).bind (fun s' => stepS (env0 cfg f) s' (.arrayData d))
      = (feed (env0 cfg f) s ds').bind (fun s' => stepS (env0 cfg f) s' (.arrayData d')) := by
  rw [binary_any_split cfg f ds s d hr h, binary_any_split cfg f ds' s d' hr h', hcat]

/-- too much data is an error at the event that exceeds the chunk, whatever came before -/
theorem binary_overflow_rejected (cfg : Cfg) (f : Bytes → Bool) (s : RState) (d : Bytes)
    (hr : s.cur.rule = .arrayChunk) (h : s.chunkActual + d.length > s.chunkExpected) :
    stepS (env0 cfg f) s (.arrayData d) = .error .chunkOverflow := by
  simp only [stepS, step, call, env0, hr, arrayChunk_table, fuel0, runActs, execAct, actMarkCompletedChunk,
    bind, Except.bind, h, if_true, Except.map]

/-- text arrays: the streaming validator accepts a chunk's data events, however divided, exactly
    when their concatenation is valid UTF-8 -/
theorem text_accepts_iff_valid_utf8 (ds : List Bytes) :
    (∃ pv, Utf8.sfeed [] ds = some ([], pv)) ↔ Utf8.valid ds.flatten = true := by
  simpa using Utf8.sfeed_accepts_iff_valid [] ds (Or.inl rfl)

/-- … and then everything was validated and appended to the string being built -/
theorem text_accepted_bytes (ds : List Bytes) (pv : Bytes) (h : Utf8.sfeed [] ds = some ([], pv)) :
    pv = ds.flatten := by
  simpa using Utf8.sfeed_validated [] ds (Or.inl rfl) pv h

/-- two divisions of the same bytes get the same verdict -/
theorem text_same_bytes_same_verdict (ds ds' : List Bytes) (h : ds.flatten = ds'.flatten) :
    (∃ pv, Utf8.sfeed [] ds = some ([], pv)) ↔ (∃ pv, Utf8.sfeed [] ds' = some ([], pv)) :=
  Utf8.sfeed_split_irrelevant ds ds' h

/-- the rule machine's `OnArrayData` in a text chunk IS that validator (non-completing event) -/
theorem machine_text_event (cfg : Cfg) (f : Bytes → Bool) (s : RState) (d : Bytes)
    (hr : s.cur.rule = .stringChunk) (hv : s.validator = .string) (h : s.chunkActual + d.length < s.chunkExpected) :
    (stepS (env0 cfg f) s (.arrayData d)).toOption = (Utf8.sstep s.utf8Rem d).map (textAdvance s d) :=
  stepS_text_noncompleting cfg f s d hr hv h

/-- on the rule machine: any division of a text chunk's bytes is indistinguishable from one event -/
theorem text_split_irrelevant (cfg : Cfg) (f : Bytes → Bool) (s : RState) (ds : List Bytes) (d : Bytes)
    (hr : s.cur.rule = .stringChunk) (hv : s.validator = .string) (hrem : s.utf8Rem = [])
    (hd : 0 < d.length) (hfill : s.chunkActual + totalLen ds + d.length = s.chunkExpected) :
    ((feed (env0 cfg f) s ds).bind (fun s' => stepS (env0 cfg f) s' (.arrayData d))).toOption
      = (stepS (env0 cfg f) s (.arrayData (ds.flatten ++ d))).toOption :=
  text_any_split cfg f s ds d hr hv (Or.inl hrem) hd hfill

/-- non-vacuity: "é" (C3 A9) split inside the character is accepted, a lone lead byte is not -/
example : Utf8.sfeed [] [[0x61, 0xC3], [0xA9, 0x62]] = some ([], [0x61, 0xC3, 0xA9, 0x62]) ∧
    Utf8.sfeed [] [[0x61, 0xC3]] = some ([0xC3], [0x61]) ∧ Utf8.sfeed [] [[0xC3], [0x62]] = none := by decide

/-- non-vacuity: a reachable state meets the hypotheses -/
example : ∃ s : RState, s.cur.rule = .arrayChunk ∧ s.chunkActual + totalLen [[1], [2, 3]] < s.chunkExpected :=
  ⟨{ cur := { rule := .arrayChunk }, chunkExpected := 8 }, rfl, by decide⟩

end CE.Props.C11
