import CE.Rules.ArraySplit
import CE.Rules.Spec
/-
  C11 — array validation ignores how the data is split.

  Full statement (target): for every array type, chunk list and data events,
     verdict t chunks datas = accept ↔ datas fill the chunks exactly ∧ the last chunk is final ∧
       (text types: every chunk's bytes are valid UTF-8),
  hence the verdict depends on the data events only through their concatenation per chunk.

  Proved: the binary half (`arrayChunk` rule: u8…f64, uid, bit, media, custom binary, remote
  reference) for any division of a chunk's bytes among any number of data events, including
  empty ones — same state, same error, same completion.  The text half (streaming UTF-8 with
  a carried remainder, `StreamStringData`) is `…_partial`: exercised on every run by the C11
  correspondence (every split of short contents incl. inside multi-byte characters) and by
  the independent specification `Spec.chunksP`, not yet a theorem.
-/
namespace CE.Props.C11
open CE CE.Rules

/-- binary arrays: all splittings of the same bytes are indistinguishable -/
theorem binary_split_irrelevant (cfg : Cfg) (f : Bytes → Bool) (s : RState) (ds : List Bytes) (d : Bytes)
    (hr : s.cur.rule = .arrayChunk) (h : s.chunkActual + totalLen ds < s.chunkExpected) :
    (feed (env0 cfg f) s ds).bind (fun s' => stepS (env0 cfg f) s' (.arrayData d))
      = stepS (env0 cfg f) s (.arrayData (ds.flatten ++ d)) :=
  binary_any_split cfg f ds s d hr h

/-- two splittings with the same concatenation give the same result -/
theorem binary_same_bytes_same_verdict (cfg : Cfg) (f : Bytes → Bool) (s : RState)
    (ds ds' : List Bytes) (d d' : Bytes) (hr : s.cur.rule = .arrayChunk)
    (h : s.chunkActual + totalLen ds < s.chunkExpected) (h' : s.chunkActual + totalLen ds' < s.chunkExpected)
    (hcat : ds.flatten ++ d = ds'.flatten ++ d') :
    (feed (env0 cfg f) s ds).bind (fun s' => stepS (env0 cfg f) s' (.arrayData d))
      = (feed (env0 cfg f) s ds').bind (fun s' => stepS (env0 cfg f) s' (.arrayData d')) := by
  rw [binary_any_split cfg f ds s d hr h, binary_any_split cfg f ds' s d' hr h', hcat]

/-- too much data is an error at the event that exceeds the chunk, whatever came before -/
theorem binary_overflow_rejected (cfg : Cfg) (f : Bytes → Bool) (s : RState) (d : Bytes)
    (hr : s.cur.rule = .arrayChunk) (h : s.chunkActual + d.length > s.chunkExpected) :
    stepS (env0 cfg f) s (.arrayData d) = .error .chunkOverflow := by
  simp only [stepS, step, call, env0, hr, arrayChunk_table, fuel0, runActs, execAct, actMarkCompletedChunk,
    bind, Except.bind, h, if_true, Except.map]

/-- non-vacuity: a reachable state meets the hypotheses -/
example : ∃ s : RState, s.cur.rule = .arrayChunk ∧ s.chunkActual + totalLen [[1], [2, 3]] < s.chunkExpected :=
  ⟨{ cur := { rule := .arrayChunk }, chunkExpected := 8 }, rfl, by decide⟩

end CE.Props.C11
