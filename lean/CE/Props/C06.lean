import CE.Tree
/-
  C06 — any valid document unmarshals into an untyped value.

  The data relation of the property is *defined* here (CE/Tree.lean) and evaluated on the
  implementation; the builder itself is not modelled yet, so the theorems below are only
  a law of the float16 widening the comparison uses (Go has no 16-bit float type, so float16
  arrays come back as float32 arrays with the same values).  Everything else about C06 is
  decided by the oracle on the implementation; see DESIGN.md section 8.
-/
namespace CE.Props.C06
open CE

theorem widenF16Bytes_length : ∀ (n : Nat) (d : Bytes), d.length = 2 * n → (widenF16Bytes d).length = 4 * n := by
  intro n
  induction n with
  | zero => intro d h; have : d = [] := List.eq_nil_of_length_eq_zero (by omega); subst this; simp [widenF16Bytes]
  | succ n ih =>
    intro d h
    match d, h with
    | a :: b :: rest, h =>
      have : rest.length = 2 * n := by simp at h; omega
      simp [widenF16Bytes, ih rest this]; omega

end CE.Props.C06
