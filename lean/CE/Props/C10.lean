import CE.Rules.Machine
import CE.Rules.Table
import CE.Rules.Spec
/-
  C10 — the validator accepts exactly the structurally well-formed documents.

  Full statement (target, not yet proved):
    ∀ evs, Rules.accepts env evs = true ↔ (Spec.check c evs).structural = none ∧ (Spec.check c evs).globalOK
    and rejection happens at the index the grammar gives.
  `Spec.check` (CE/Rules/Spec.lean) is the independent recursive-descent grammar; the
  equivalence is exercised on every run by the WF.REL oracle (random, mutated and exhaustive
  short sequences).  Proved here: the clauses of the property that are facts about the rule
  table — which GenCheck ties, rule by rule, to the table translated from /repo — for every
  rule and every method (finite, `decide` over the whole table).
-/
namespace CE.Props.C10
open CE.Rules CE.Rules.Model

def rejects (r : Rule) (m : Method) : Bool := ruleTable r m == [.wrongType]

/-- "begin, version 0 …": before the version only begin-document / version are possible,
    and after the end nothing is. -/
theorem header_and_terminal :
    (∀ m ∈ Method.all, m ≠ .onBeginDocument → rejects .beginDocument m = true) ∧
    (∀ m ∈ Method.all, m ≠ .onVersion → rejects .version m = true) ∧
    (∀ m ∈ Method.all, rejects .terminal m = true) ∧
    (∀ m ∈ Method.all, m ≠ .onEndDocument → rejects .endDocument m = true) ∧
    ruleTable .version .onVersion = [.checkVersion, .changeRule .topLevel] := by decide

/-- only the rule reached after the single top-level object accepts end-of-document -/
theorem endDocument_only_after_top_level :
    ∀ r ∈ Rule.all, r ≠ .endDocument → rejects r .onEndDocument = true := by decide

/-- "map entries alternate a keyable key with a value": in key position null, non-keyable
    scalars and every container are rejected; a keyable object moves to value position and a
    value moves back to key position. -/
theorem map_key_position :
    rejects .mapKey .onNull = true ∧ rejects .mapKey .onNonKeyableObject = true ∧
    rejects .mapKey .onList = true ∧ rejects .mapKey .onMap = true ∧ rejects .mapKey .onEdge = true ∧
    rejects .mapKey .onNode = true ∧ rejects .mapKey .onRecord = true ∧ rejects .mapKey .onRecordType = true ∧
    ruleTable .mapKey .onKeyableObject = [.notifyKey, .changeRule .mapValue] ∧
    ruleTable .mapValue .onKeyableObject = [.changeRule .mapKey] ∧
    ruleTable .mapValue .onNull = [.changeRule .mapKey] ∧
    rejects .mapValue .onEnd = true := by decide

/-- "edges have exactly three parts with a non-null source and destination" -/
theorem edge_parts :
    rejects .edgeSource .onNull = true ∧ rejects .edgeDestination .onNull = true ∧
    rejects .edgeSource .onEnd = true ∧ rejects .edgeDescription .onEnd = true ∧
    ruleTable .edgeSource .onKeyableObject = [.changeRule .edgeDescription] ∧
    ruleTable .edgeDescription .onKeyableObject = [.changeRule .edgeDestination] ∧
    ruleTable .edgeDescription .onNull = [.changeRule .edgeDestination] ∧
    ruleTable .edgeDestination .onEnd = [.endContainer true] := by decide

/-- "nodes have a value": a node cannot end before its value -/
theorem node_has_value :
    rejects .node .onEnd = true ∧ ruleTable .node .onNull = [.changeRule .list] ∧
    ruleTable .list .onEnd = [.endContainer true] := by decide

/-- "optional record types only before the single top-level object": every rule either
    rejects a record type outright or goes through `beginRecordType`, which requires an
    empty stack (see `Machine.runActs`). -/
theorem record_type_only_via_begin :
    ∀ r ∈ Rule.all, rejects r .onRecordType = true ∨ ruleTable r .onRecordType = [.beginRecordType] := by
  decide

/-- markers are not placed on markers, references or record types; no comment between a
    marker and its object -/
theorem marker_targets :
    rejects .markedObjectAnyType .onMarker = true ∧ rejects .markedObjectAnyType .onReferenceLocal = true ∧
    rejects .markedObjectAnyType .onRecordType = true ∧ rejects .markedObjectKeyable .onMarker = true ∧
    rejects .markedObjectKeyable .onReferenceLocal = true ∧ rejects .markedObjectKeyable .onRecordType = true ∧
    rejects .markedObjectKeyable .onNull = true ∧ rejects .markedObjectKeyable .onNonKeyableObject = true := by
  decide

/-- no translated statement is unknown to the interpreter -/
theorem table_fully_translated :
    ∀ r ∈ Rule.all, ∀ m ∈ Method.all, ∀ a ∈ ruleTable r m,
      (match a with | .unknown _ => false | _ => true) = true := by decide

theorem Rule.all_complete (r : Rule) : r ∈ Rule.all := by cases r <;> decide
theorem Method.all_complete (m : Method) : m ∈ Method.all := by cases m <;> decide

/-- non-vacuity / sanity: the model accepts a small well-formed document and the grammar agrees -/
example :
    let evs : List Ev := [.beginDoc, .version 0, .list, .posInt 1, .endContainer, .endDoc]
    Rules.accepts { tbl := ruleTable, identSafe := fun _ => true } evs = true ∧
    (Spec.check { cfg := {}, identSafe := fun _ => true } evs).structural = none := by
  decide +kernel

end CE.Props.C10
