import CE.Canon
/-
  Value trees over canonical events: the structure of a document, used to compare documents
  up to map-entry order (C04, C06), to turn records into maps and to resolve references (C06).
-/
namespace CE

inductive T
  | leaf (c : CEv)
  | seq (tag : String) (id : Bytes) (xs : List T)     -- l, m (k v k v …), e, nd, r, rt, mk
deriving Repr, Inhabited

structure Frame where
  tag : String
  id : Bytes
  items : List T := []       -- reversed
  pendingMarker : Option Bytes := none
deriving Inhabited

def Frame.push (f : Frame) (t : T) : Frame :=
  match f.pendingMarker with
  | some id => { f with items := T.seq "mk" id [t] :: f.items, pendingMarker := none }
  | none => { f with items := t :: f.items }

/-- build the tree of a canonical event list (stack machine; malformed input gives `none`) -/
def buildTree : List CEv → List Frame → Option (List Frame)
  | [], st => some st
  | c :: cs, st =>
    match st with
    | [] => none
    | top :: rest =>
      match c with
      | .tag "end" _ =>
        match rest with
        | [] => none
        | parent :: rest' =>
          buildTree cs (parent.push (.seq top.tag top.id top.items.reverse) :: rest')
      | .tag "mk" id => buildTree cs ({ top with pendingMarker := some id } :: rest)
      | .tag "ref" id => buildTree cs (top.push (.leaf (.tag "ref" id)) :: rest)
      | .tag "bd" _ | .tag "ed" _ | .version _ => buildTree cs st
      | .tag t id => buildTree cs ({ tag := t, id := id } :: st)
      | leaf => buildTree cs (top.push (.leaf leaf) :: rest)

def treeOf (cs : List CEv) : Option (List T) :=
  match buildTree cs [{ tag := "doc", id := [] }] with
  | some [f] => some f.items.reverse
  | _ => none

mutual
def T.size : T → Nat
  | .leaf _ => 1
  | .seq _ _ xs => 1 + sizeList xs
def sizeList : List T → Nat
  | [] => 0
  | x :: xs => x.size + sizeList xs
end

/-- collect the marked subtrees (marker wrappers removed at the root of each) -/
def collectMarks : Nat → T → List (Bytes × T)
  | 0, _ => []
  | _, .leaf _ => []
  | f + 1, .seq "mk" id [t] => (id, t) :: collectMarks f t
  | f + 1, .seq _ _ xs => xs.flatMap (collectMarks f)

/-- interleave record-type keys and record values -/
def zipKV : List T → List T → List T
  | k :: ks, v :: vs => k :: v :: zipKV ks vs
  | _, _ => []

/-- records → maps, references → their targets (depth-bounded: a cyclic reference ends in a
    `cycle` leaf), markers dropped, record types dropped -/
def normalize (recs : List (Bytes × List T)) (marks : List (Bytes × T)) : Nat → T → T
  | 0, _ => .leaf (.malformed "cycle")
  | f + 1, t =>
    match t with
    | .leaf (.tag "ref" id) =>
      match marks.find? (·.1 == id) with
      | some (_, target) => normalize recs marks f target
      | none => .leaf (.malformed "dangling")
    | .leaf c => .leaf c
    | .seq "mk" _ [x] => normalize recs marks f x
    | .seq "r" id vals =>
      match recs.find? (·.1 == id) with
      | some (_, keys) => .seq "m" [] (zipKV keys (vals.map (normalize recs marks f)))
      | none => .leaf (.malformed "record")
    | .seq tag id xs => .seq tag id (xs.map (normalize recs marks f))

/-- stable textual rendering (for sorting map entries and for equality) -/
def render : Nat → T → String
  | 0, _ => "…"
  | _, .leaf c => reprStr c
  | f + 1, .seq "m" _ xs =>
    let rec pairs : List T → List (String × String)
      | k :: v :: rest => (render f k, render f v) :: pairs rest
      | _ => []
    let ps := (pairs xs).toArray.qsort (fun a b => a.1 < b.1 || (a.1 == b.1 && a.2 < b.2))
    "{" ++ String.intercalate ", " (ps.toList.map (fun p => p.1 ++ " = " ++ p.2)) ++ "}"
  | f + 1, .seq tag id xs =>
    tag ++ (if id.isEmpty then "" else ":" ++ Hex.encode id) ++ "[" ++ String.intercalate ", " (xs.map (render f)) ++ "]"

/-- bfloat16 array bytes widened to float32 array bytes (Go has no 16-bit float type) -/
def widenF16Bytes : Bytes → Bytes
  | a :: b :: rest => 0 :: 0 :: a :: b :: widenF16Bytes rest
  | _ => []

def widenF16 : CEv → CEv
  | .arr .f16 d => .arr .f32 (widenF16Bytes d)
  | c => c

/-- whole-document normal form: the top-level value with records as maps and references
    resolved; maps order-insensitive -/
def docNormalForm (resolve : Bool) (evs : List Ev) (widen : Bool := false) : Option String :=
  match treeOf ((canon false evs).map (fun c => if widen then widenF16 c else c)) with
  | none => none
  | some ts =>
    let recs := ts.filterMap (fun t => match t with | .seq "rt" id keys => some (id, keys) | _ => none)
    let vals := ts.filter (fun t => match t with | .seq "rt" _ _ => false | _ => true)
    let n := (ts.map T.size).foldl (· + ·) 0 + 2
    let marks := ts.flatMap (collectMarks n)
    let fuel := n * 4 + 8
    some (String.intercalate " ; " (vals.map (fun t => render fuel (if resolve then normalize recs marks fuel t else t))))

end CE
