import CE.Rules.ArraySplit
import CE.Basic.Utf8Stream
/-
  Lemmas for C11 (text arrays: strings, resource ids, remote references, custom text): the rule
  machine's `StringChunkRule.OnArrayData` is the streaming validator of CE/Basic/Utf8Stream.lean
  (`streamStringData_eq`, `stepS_text_noncompleting`, `stepS_text_completing`), hence any division
  of a chunk's bytes among data events is indistinguishable from a single event (`text_any_split`).
-/
namespace CE.Rules
open CE.Utf8

theorem streamStringData_eq (s : RState) (data : Bytes) :
    streamStringData s data =
      match sraw s.utf8Rem data with
      | none => .error .runtime
      | some (r, f, n) => .ok ({ s with utf8Rem := r }, f, n) := by
  unfold streamStringData sraw stage1 stage2
  cases hrem : s.utf8Rem with
  | nil =>
    simp only [List.length_nil, Nat.lt_irrefl, if_false, bind, Except.bind, pure, Except.pure, Bool.false_eq_true]
    cases hi : indexOfLastRuneStart data with
    | mk li complete =>
      cases complete
      · simp only [Bool.not_false, if_true]
        by_cases h4 : 4 < data.length - li
        · simp [h4, throw, throwThe, MonadExceptOf.throw]
        · simp [h4]
      · simp [← hrem]
  | cons b0 t =>
    have hpos : t.length + 1 > 0 := by omega
    simp only [List.length_cons, hpos, if_true]
    by_cases hreq : runeByteCount b0 < t.length + 1
    · simp [hreq, bind, Except.bind, throw, throwThe, MonadExceptOf.throw]
    · simp only [hreq, if_false]
      by_cases hshort : t.length + 1 + min (runeByteCount b0 - (t.length + 1)) data.length < runeByteCount b0
      · simp [hshort, bind, Except.bind, pure, Except.pure]
      · simp only [hshort, if_false, bind, Except.bind, pure, Except.pure, Bool.false_eq_true]
        generalize data.drop (min (runeByteCount b0 - (t.length + 1)) data.length) = next
        cases hi : indexOfLastRuneStart next with
        | mk li complete =>
          cases complete
          · simp only [Bool.not_false, if_true]
            by_cases h4 : 4 < next.length - li
            · simp [h4, throw, throwThe, MonadExceptOf.throw]
            · simp [h4]
          · simp

end CE.Rules
namespace CE.Rules
open CE.Utf8

theorem stringChunk_table :
    Model.ruleTable .stringChunk .onArrayData =
      [.markCompletedChunk, .streamStringData, .validateFirst, .validateNext, .addFirst, .addNext, .endChunkIfComplete .string] := rfl

/-- the state after the UTF-8 part of a text data event -/
def textAdvance (s : RState) (d : Bytes) (rp : Bytes × Bytes) : RState :=
  { s with chunkActual := s.chunkActual + d.length, utf8Rem := rp.1, built := s.built ++ rp.2 }

/-- a text data event that does not complete the chunk: accepted exactly when the streaming
    validator accepts it, and then only the byte counter, the held-back bytes and the string
    being built change -/
theorem stepS_text_noncompleting (cfg : Cfg) (f : Bytes → Bool) (s : RState) (d : Bytes)
    (hr : s.cur.rule = .stringChunk) (hv : s.validator = .string) (h : s.chunkActual + d.length < s.chunkExpected) :
    (stepS (env0 cfg f) s (.arrayData d)).toOption = (sstep s.utf8Rem d).map (textAdvance s d) := by
  have hne : ¬ (s.chunkActual + d.length > s.chunkExpected) := by omega
  have hne2 : ¬ (s.chunkActual + d.length = s.chunkExpected) := by omega
  simp only [stepS, step, call, env0, hr, stringChunk_table, fuel0, runActs, execAct, actMarkCompletedChunk,
    actStreamStringData, bind, Except.bind, pure, Except.pure, hne, if_false, Except.map, streamStringData_eq, sstep]
  cases hraw : sraw s.utf8Rem d with
  | none => simp [Except.toOption]
  | some rfn =>
    obtain ⟨r, fst, nxt⟩ := rfn
    simp only [hv, if_true, validateUtf8]
    cases hvf : valid fst
    · simp [Except.toOption]
    · cases hvn : valid nxt
      · simp [Except.toOption, hvn]
      · simp [Except.toOption, hvn, actEndChunkIfComplete, hne2, textAdvance, List.append_assoc]
        exact hv.symm

end CE.Rules
namespace CE.Rules
open CE.Utf8

/-- what happens once a text chunk is complete and ends on a character boundary: the next chunk
    is awaited, or the array ends and the parent rule is told (a function of the state alone) -/
def endText (cfg : Cfg) (s : RState) : M RState :=
  if s.moreChunks then .ok (changeRule s .string)
  else
    match leaveArray s {} false with
    | .error e => .error e
    | .ok (.call s' r m a _) => runActs Model.ruleTable cfg 57 (Model.ruleTable r m) s' a
    | .ok (.next s' _) => .ok s'
    | .ok (.ret s') => .ok s'

/-- the text data event that completes the chunk -/
theorem stepS_text_completing (cfg : Cfg) (f : Bytes → Bool) (s : RState) (d : Bytes)
    (hr : s.cur.rule = .stringChunk) (hv : s.validator = .string) (h : s.chunkActual + d.length = s.chunkExpected) :
    (stepS (env0 cfg f) s (.arrayData d)).toOption =
      (sstep s.utf8Rem d).bind (fun rp => if rp.1 = [] then (endText cfg (textAdvance s d rp)).toOption else none) := by
  have hne : ¬ (s.chunkActual + d.length > s.chunkExpected) := by omega
  simp only [stepS, step, call, env0, hr, stringChunk_table, fuel0, runActs, execAct, actMarkCompletedChunk,
    actStreamStringData, bind, Except.bind, pure, Except.pure, hne, if_false, Except.map, streamStringData_eq, sstep]
  cases hraw : sraw s.utf8Rem d with
  | none => simp [Except.toOption, Option.bind]
  | some rfn =>
    obtain ⟨r, fst, nxt⟩ := rfn
    simp only [hv, if_true, validateUtf8]
    cases hvf : valid fst
    · simp [Except.toOption, Option.bind]
    · cases hvn : valid nxt
      · simp [Except.toOption, hvn, Option.bind]
      · cases r with
        | nil =>
          simp only [hvn, if_true, actEndChunkIfComplete, h, List.length_nil, Nat.lt_irrefl, if_false, Bool.and_self,
            Option.bind, textAdvance, endText, List.append_assoc, hv]
          cases hm : s.moreChunks
          · simp only [Bool.false_eq_true, if_false, leaveArray, bind, Except.bind, pure, Except.pure]
            generalize unstackRule _ = u
            cases u with
            | error e => rfl
            | ok v => simp only []; cases runActs Model.ruleTable cfg 57 _ v _ <;> rfl
          · simp [changeRule, hv]
        | cons c r' =>
          simp [hvn, actEndChunkIfComplete, h, Except.toOption, Option.bind]

end CE.Rules
namespace CE.Rules
open CE.Utf8

theorem toOption_none {α} (x : M α) (h : x.toOption = none) : ∃ e, x = .error e := by
  cases x with
  | error e => exact ⟨e, rfl⟩
  | ok v => simp [Except.toOption] at h

theorem toOption_some {α} (x : M α) (v : α) (h : x.toOption = some v) : x = .ok v := by
  cases x with
  | error e => simp [Except.toOption] at h
  | ok w => simp [Except.toOption] at h; rw [h]

/-- the state after the UTF-8 part of several text data events -/
def textAdvanceN (s : RState) (n : Nat) (rp : Bytes × Bytes) : RState :=
  { s with chunkActual := s.chunkActual + n, utf8Rem := rp.1, built := s.built ++ rp.2 }

theorem feed_text (cfg : Cfg) (f : Bytes → Bool) (ds : List Bytes) : ∀ (s : RState),
    s.cur.rule = .stringChunk → s.validator = .string → s.chunkActual + totalLen ds < s.chunkExpected →
    (feed (env0 cfg f) s ds).toOption = (sfeed s.utf8Rem ds).map (textAdvanceN s (totalLen ds)) := by
  induction ds with
  | nil =>
    intro s _ _ _
    simp [feed, sfeed, Except.toOption, textAdvanceN, totalLen]
  | cons d ds ih =>
    intro s hr hv h
    have hlen : totalLen (d :: ds) = d.length + totalLen ds := by simp [totalLen]
    rw [hlen] at h ⊢
    have h1 := stepS_text_noncompleting cfg f s d hr hv (by omega)
    simp only [feed, sfeed]
    cases hs : sstep s.utf8Rem d with
    | none =>
      rw [hs] at h1
      obtain ⟨e, he⟩ := toOption_none _ h1
      simp [he, Except.bind, Except.toOption]
    | some rp =>
      rw [hs] at h1
      have he := toOption_some _ _ h1
      simp only [he, Except.bind, Option.map]
      have := ih (textAdvance s d rp) hr hv (by simp [textAdvance]; omega)
      rw [this]
      simp only [textAdvance]
      cases sfeed rp.1 ds with
      | none => rfl
      | some rp2 => simp [textAdvanceN, Nat.add_assoc, List.append_assoc]

/-- TEXT ARRAYS: any division of a chunk's bytes among data events — inside characters too —
    is indistinguishable from delivering them in one event: both are rejected, or both are
    accepted and leave the validator in the same state. -/
theorem text_any_split (cfg : Cfg) (f : Bytes → Bool) (s : RState) (ds : List Bytes) (d : Bytes)
    (hr : s.cur.rule = .stringChunk) (hv : s.validator = .string) (hrem : RemOK s.utf8Rem)
    (hd : 0 < d.length) (hfill : s.chunkActual + totalLen ds + d.length = s.chunkExpected) :
    ((feed (env0 cfg f) s ds).bind (fun s' => stepS (env0 cfg f) s' (.arrayData d))).toOption
      = (stepS (env0 cfg f) s (.arrayData (ds.flatten ++ d))).toOption := by
  -- both sides in terms of `acc`
  let fin : Bytes → Option RState := fun pv =>
    (endText cfg { s with chunkActual := s.chunkExpected, utf8Rem := [], built := s.built ++ pv }).toOption
  have hfill' : s.chunkActual + (totalLen ds + d.length) = s.chunkExpected := by omega
  have hflatlen : (ds.flatten ++ d).length = totalLen ds + d.length := by
    simp [totalLen, List.length_flatten]
  have hR : (stepS (env0 cfg f) s (.arrayData (ds.flatten ++ d))).toOption = (acc s.utf8Rem [ds.flatten ++ d]).bind fin := by
    rw [stepS_text_completing cfg f s (ds.flatten ++ d) hr hv (by rw [hflatlen]; omega)]
    simp only [acc, sfeed]
    cases sstep s.utf8Rem (ds.flatten ++ d) with
    | none => rfl
    | some rp =>
      obtain ⟨r, pv⟩ := rp
      by_cases hr0 : r = []
      · subst hr0
        simp [Option.bind, fin, textAdvance, hflatlen, hfill']
      · simp [Option.bind, hr0]
  have hL : ((feed (env0 cfg f) s ds).bind (fun s' => stepS (env0 cfg f) s' (.arrayData d))).toOption
      = (acc s.utf8Rem (ds ++ [d])).bind fin := by
    have hf := feed_text cfg f ds s hr hv (by omega)
    simp only [acc, sfeed_snoc]
    cases hs : sfeed s.utf8Rem ds with
    | none =>
      rw [hs] at hf
      obtain ⟨e, he⟩ := toOption_none _ hf
      simp [he, Except.bind, Except.toOption]
    | some rp =>
      rw [hs] at hf
      have he := toOption_some _ _ hf
      simp only [he, Except.bind, Option.map, Option.bind]
      rw [stepS_text_completing cfg f (textAdvanceN s (totalLen ds) rp) d hr hv (by simp [textAdvanceN]; omega)]
      simp only [textAdvanceN]
      cases sstep rp.1 d with
      | none => rfl
      | some rp2 =>
        obtain ⟨r, pv⟩ := rp2
        by_cases hr0 : r = []
        · subst hr0
          simp [Option.bind, fin, textAdvance, List.append_assoc, hfill]
        · simp [Option.bind, hr0]
  rw [hL, hR, acc_eq _ _ hrem, acc_eq _ _ hrem]
  simp

end CE.Rules
