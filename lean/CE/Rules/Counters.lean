import CE.Rules.Markers
import CE.Rules.Measure
/-
  C14, lifted from NotifyNewObject to whole documents: the validator's object counter is the number of
  object events of the stream (`run_count`), which is the `objects` component of the structural measure
  the harness computes independently (`measure_objects`), and it never exceeds the configured limit in
  an accepted stream.  No statement of any rule method touches the counter (`execAct_count`, from the
  same case analysis as CE/Rules/Markers.lean); only the receiver's NotifyNewObject does, once per
  object event (`step_count`).
-/
namespace CE.Rules

theorem markObject_count (cfg : Cfg) (s s' : RState) (dt : DT) (h : markObject cfg s dt = .ok s') :
    s'.objectCount = s.objectCount := by
  unfold markObject at h
  simp only [bind, Except.bind, pure, Except.pure, throw, throwThe, MonadExceptOf.throw] at h
  repeat' (split at h)
  all_goals first
    | (cases h; done)
    | (injection h with h; subst h; rfl)

theorem localReference_count (s s' : RState) (id : Bytes) (m : DT) (h : localReference s id m = .ok s') :
    s'.objectCount = s.objectCount := by
  unfold localReference at h
  repeat' (split at h)
  all_goals first
    | (cases h; done)
    | (injection h with h; subst h; rfl)

/-- no statement of any rule method touches the object counter -/
theorem execAct_count (cfg : Cfg) (a : Act) (s : RState) (args : Args) (st : Step)
    (h : execAct cfg a s args = .ok st) : st.state.objectCount = s.objectCount := by
  rcases execAct_kinds cfg a s args st h with hs | ⟨dt, hm⟩ | ⟨id, m, hl⟩
  · exact hs.2.2
  · exact markObject_count cfg _ _ _ hm
  · exact localReference_count _ _ _ _ hl

theorem runActs_count (tbl : RuleTable) (cfg : Cfg) : ∀ (fuel : Nat) (acts : List Act) (s : RState) (args : Args) (s' : RState),
    runActs tbl cfg fuel acts s args = .ok s' → s'.objectCount = s.objectCount
  | _, [], s, _, s', h => by
    simp only [runActs] at h
    injection h with h; subst h; rfl
  | 0, _ :: _, _, _, _, h => by simp [runActs] at h
  | fuel + 1, a :: rest, s, args, s', h => by
    simp only [runActs] at h
    cases he : execAct cfg a s args with
    | error e => simp [he] at h
    | ok st =>
      have h1 := execAct_count cfg a s args st he
      simp only [he] at h
      cases st with
      | next s1 args1 =>
        simp only [] at h
        exact (runActs_count tbl cfg fuel rest s1 args1 s' h).trans h1
      | ret s1 =>
        simp only [] at h
        injection h with h; subst h
        exact h1
      | call s1 r m args1 thenRet =>
        simp only [] at h
        cases hc : runActs tbl cfg fuel (tbl r m) s1 args1 with
        | error e => simp [hc] at h
        | ok s2 =>
          simp only [hc] at h
          have h2 := runActs_count tbl cfg fuel (tbl r m) s1 args1 s2 hc
          cases thenRet with
          | true =>
            simp only [if_true] at h
            injection h with h; subst h
            exact h2.trans h1
          | false =>
            simp only [Bool.false_eq_true, if_false] at h
            exact ((runActs_count tbl cfg fuel rest s2 args s' h).trans h2).trans h1

/-- `NotifyNewObject`: one more object, and never beyond the configured maximum -/
theorem nno_count (cfg : Cfg) (s s' : RState) (b : Bool) (h : notifyNewObject cfg s b = .ok s') :
    s'.objectCount = s.objectCount + 1 ∧ s'.objectCount ≤ cfg.maxObjectCount := by
  unfold notifyNewObject at h
  simp only [bind, Except.bind, pure, Except.pure, throw, throwThe, MonadExceptOf.throw] at h
  repeat' (split at h)
  all_goals first
    | (cases h; done)
    | (injection h with h; subst h; exact ⟨rfl, by simp only []; omega⟩)

/-- the events that count as objects (everything but the document frame, padding, comments, the end
    of a container and the chunk / data events of an array already counted at its begin) -/
def countsAsObject : Ev → Bool
  | .beginDoc | .endDoc | .version _ | .padding | .comment _ _ | .endContainer | .arrayChunk _ _ | .arrayData _ => false
  | _ => true

theorem count_nno_call (tbl : RuleTable) (cfg : Cfg) (s s1 s2 : RState) (b : Bool) (m : Method) (args : Args)
    (h1 : notifyNewObject cfg s b = .ok s1) (h2 : call tbl cfg s1 m args = .ok s2) :
    s2.objectCount = s.objectCount + 1 ∧ s2.objectCount ≤ cfg.maxObjectCount := by
  have hc := runActs_count tbl cfg _ _ s1 args s2 h2
  have hn := nno_count cfg s s1 b h1
  rw [hc]; exact hn

theorem step_count (env : Env) (s : RState) (e : Ev) (r : RState × List Ev) (h : step env s e = .ok r) :
    r.1.objectCount = s.objectCount + (if countsAsObject e then 1 else 0) ∧
    (countsAsObject e = true → r.1.objectCount ≤ env.cfg.maxObjectCount) := by
  unfold step at h
  cases e
  all_goals simp only [bind, Except.bind, pure, Except.pure, throw, throwThe, MonadExceptOf.throw] at h
  all_goals repeat' (split at h)
  all_goals first
    | (cases h; done)
    | contradiction
    | (injection h with h; subst h
       first
         | (have := count_nno_call _ _ _ _ _ _ _ _ (by assumption) (by assumption)
            exact ⟨by simpa [countsAsObject] using this.1, fun _ => this.2⟩)
         | (have := runActs_count _ _ _ _ _ _ _ (by assumption)
            exact ⟨by simpa [countsAsObject] using this, by simp [countsAsObject]⟩))

end CE.Rules
namespace CE.Rules

/-- the number of objects in a stream -/
def objectsIn (evs : List Ev) : Nat := (evs.filter countsAsObject).length

/-- THE OBJECT COUNTER IS THE NUMBER OF OBJECTS: after any accepted stream the validator's counter
    equals the number of object events it has seen, and that number is within the configured limit -/
theorem run_count (env : Env) : ∀ (evs : List Ev) (s : RState) (i : Nat), (run env s evs i).2.1 = none →
    s.objectCount ≤ env.cfg.maxObjectCount →
    (run env s evs i).2.2.objectCount = s.objectCount + objectsIn evs ∧
    (run env s evs i).2.2.objectCount ≤ env.cfg.maxObjectCount
  | [], s, i, _, hle => by simpa [run, objectsIn] using hle
  | e :: es, s, i, h, hle => by
    simp only [run] at h ⊢
    cases hs : step env s e with
    | error err => simp [hs] at h
    | ok r =>
      obtain ⟨s1, fwd⟩ := r
      simp only [hs] at h ⊢
      obtain ⟨hc, hl⟩ := step_count env s e (s1, fwd) hs
      have hle1 : s1.objectCount ≤ env.cfg.maxObjectCount := by
        by_cases ho : countsAsObject e = true
        · exact hl ho
        · simp only [ho, Bool.false_eq_true, if_false, Nat.add_zero] at hc
          omega
      obtain ⟨ih1, ih2⟩ := run_count env es s1 (i + 1) h hle1
      refine ⟨?_, ih2⟩
      rw [ih1]
      simp only [] at hc
      rw [hc]
      unfold objectsIn
      simp only [List.filter_cons]
      split <;> simp <;> omega

end CE.Rules
namespace CE.Rules
open CE.Spec

theorem measure_objects : ∀ (evs : List Ev) (d arr bits : Nat) (u : Usage),
    (measureFrom evs d arr bits u).objects = u.objects + objectsIn evs
  | [], _, _, _, u => by simp [measureFrom, objectsIn]
  | e :: es, d, arr, bits, u => by
    have hcons : objectsIn (e :: es) = (if countsAsObject e then 1 else 0) + objectsIn es := by
      unfold objectsIn; simp only [List.filter_cons]; split <;> simp <;> omega
    rw [hcons]
    cases e <;> simp only [measureFrom, measure_objects es, countsAsObject, if_true, Bool.false_eq_true, if_false] <;> omega

end CE.Rules
