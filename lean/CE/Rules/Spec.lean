import CE.Event
import CE.Basic.Utf8
import CE.Basic.Float
/-
  M-WF: the independent specification of a well-formed document (C10), written from the
  property text as a recursive-descent recogniser over events — not from the rule table.

    Doc      := beginDoc version(0) trivia* (RecordType trivia*)* Value endDoc
    Value    := scalar | Array | list (trivia | Value)* end | map (Key Value)* end
              | record(id) Value^n end | edge Src Desc Dst end | node Value Value* end
              | marker(id) Markable | ref(id)
    Key      := keyable scalar | string/resource-id array | marker(id) keyable | ref(id)
  (trivia = padding | comment; where the code allows trivia is recorded per position.)

  The verdict is `structural (some i)` = first event after which no completion exists,
  together with `globalOK` = the document-global marker/reference conditions (C13).
-/
namespace CE.Spec

structure Cfg where
  maxArrayBytes : Nat := 2 ^ 30
  maxIdLength : Nat := 1000
deriving Repr, Inhabited

inductive KeyV
  | bool (b : Bool) | int (i : Int) | uid (b : Bytes) | time (t : TimeV) | str (s : Bytes) | rid (s : Bytes)
deriving DecidableEq, Repr, Inhabited

/-- class of a marked object, for references: keyable by the code's `AllowKeyable` mask -/
structure MClass where
  keyable : Bool
deriving DecidableEq, Repr, Inhabited

structure St where
  pos : Nat := 0
  recs : List (Bytes × Nat) := []
  marks : List (Bytes × MClass) := []     -- completed markers, in order of completion
  keyRefs : List Bytes := []              -- ids referenced in key position
  refs : List Bytes := []                 -- every id referenced
  dupMarker : Bool := false
  badRef : Bool := false                  -- a backward key-reference to a non-keyable object
deriving Repr, Inhabited

/-- failure: index of the offending event (`none` = input ended while more was required) and
    whether it is a *content* failure (invalid UTF-8 inside array data), for which only the
    verdict — not the exact data event — is specified. -/
abbrev P := Except (Option Nat × Bool)

def isTrivia : Ev → Bool
  | .padding => true | .comment _ _ => true | _ => false

def advance (st : St) : St := { st with pos := st.pos + 1 }

def fail {α} (st : St) : P α := .error (some st.pos, false)
def failContent {α} (st : St) : P α := .error (some st.pos, true)
def failEnd {α} : P α := .error (none, false)

def idOK (cfg : Cfg) (identSafe : Bytes → Bool) (id : Bytes) : Bool :=
  id.length > 0 && id.length ≤ cfg.maxIdLength && identSafe id

def lenOK (cfg : Cfg) (n : Nat) : Bool := !(n > cfg.maxArrayBytes ∧ cfg.maxArrayBytes > 0)

/-- whole-array event validity (length limit, UTF-8 for text, byte count for typed) -/
def wholeArrayOK (cfg : Cfg) (t : ArrT) (count : Nat) (data : Bytes) : Bool :=
  match t with
  | .string | .rid | .customText => lenOK cfg data.length && Utf8.valid data
  | .remoteRef => data.length == count && lenOK cfg data.length && Utf8.valid data
  | .mediaData => false
  | _ => data.length == elemsToBytes t.elemBits count % 2 ^ 64 && lenOK cfg data.length

/-- the complete characters of a chunk prefix (everything before a trailing incomplete
    character) are valid UTF-8 -/
def completeCharsValid (acc : Bytes) : Bool := Utf8.viable acc

def isTextArr : ArrT → Bool
  | .string | .rid | .remoteRef | .customText => true | _ => false

/-- chunked array body after the begin event: chunk headers and data events.
    Returns the concatenated contents.  `total` = declared bytes so far. -/
def chunksP (cfg : Cfg) (t : ArrT) : Nat → List Ev → St → Nat → Bytes → P (List Ev × St × Bytes)
  | 0, _, _, _, _ => .error (none, false)
  | _, [], _, _, _ => .error (none, false)
  | fuel + 1, e :: es, st, total, acc =>
    match e with
    | .comment _ _ => if isTextArr t then fail st else chunksP cfg t fuel es (advance st) total acc
    | .arrayChunk n more =>
      let nbytes := if isTextArr t then n else elemsToBytes t.elemBits n % 2 ^ 64
      let total' := (total + nbytes) % 2 ^ 64
      if n ≠ 0 ∧ !lenOK cfg total' then fail st
      else
        -- the data events of this chunk
        let rec dataP : Nat → List Ev → St → Nat → Bytes → P (List Ev × St × Bytes)
          | 0, _, _, _, _ => .error (none, false)
          | f + 1, es, st, need, got =>
            if need = 0 then .ok (es, st, got)
            else match es with
              | [] => .error (none, false)
              | .arrayData d :: es' =>
                if d.length > need then fail st
                else if isTextArr t ∧ !completeCharsValid (got ++ d) then failContent st
                else dataP f es' (advance st) (need - d.length) (got ++ d)
              | _ :: _ => fail st
        match dataP (es.length + 1) es (advance st) nbytes [] with
        | .error x => .error x
        | .ok (es', st', got) =>
          if isTextArr t ∧ !Utf8.valid got then .error (some (st'.pos - 1), true)
          else if more then chunksP cfg t fuel es' st' total' (acc ++ got)
          else .ok (es', st', acc ++ got)
    | _ => fail st

inductive Pos | any | nonNull | key
deriving DecidableEq, Repr

structure Ctx where
  cfg : Cfg
  identSafe : Bytes → Bool

/-- result of a value: its key denotation (when keyable scalar/string) and marker class -/
structure VRes where
  key : Option KeyV := none
  keyable : Bool := false
  isNull : Bool := false
deriving Repr, Inhabited

def uidKey (b : Bytes) : KeyV := .uid ((b ++ List.replicate 16 0).take 16)

/-- scalars and whole arrays: (result) or none if the event is not a single-event value -/
def scalar (c : Ctx) : Ev → Option (Option VRes)   -- none = not a scalar event; some none = invalid content
  | .null => some (some { isNull := true })
  | .bigInt none => some (some { isNull := true })
  | .bigFloat none => some (some { isNull := true })
  | .bigDecimal none => some (some { isNull := true })
  | .bool b => some (some { key := some (.bool b), keyable := true })
  | .true_ => some (some { key := some (.bool true), keyable := true })
  | .false_ => some (some { key := some (.bool false), keyable := true })
  | .posInt n => some (some { key := some (.int n), keyable := true })
  | .negInt n => some (some { key := some (.int (-(n : Int))), keyable := true })
  | .int i => some (some { key := some (.int i), keyable := true })
  | .bigInt (some i) => some (some { key := some (.int i), keyable := true })
  | .float b => some (some { keyable := !F.isNaN64 b })       -- by the code's mask floats may be referenced from keys
  | .bigFloat (some _) => some (some { keyable := true })
  | .dfloat .nan => some (some {}) | .dfloat .snan => some (some {})
  | .dfloat _ => some (some { keyable := true })
  | .bigDecimal (some .nan) => some (some {}) | .bigDecimal (some .snan) => some (some {})
  | .bigDecimal (some _) => some (some { keyable := true })
  | .nan _ => some (some {})
  | .uid b => some (some { key := some (uidKey b), keyable := true })
  | .time t => some (some { key := some (.time t), keyable := true })
  | .array t n d =>
    match t with
    | .customBinary | .customText | .media => some none
    | _ => if wholeArrayOK c.cfg t n d then
        some (some (match t with
          | .string => { key := some (.str d), keyable := true }
          | .rid => { key := some (.rid d), keyable := true }
          | _ => {}))
      else some none
  | .stringlike t d =>
    match t with
    | .customBinary | .customText | .media => some none
    | .mediaData => some none
    | _ => if (if isTextArr t then lenOK c.cfg d.length && Utf8.valid d else lenOK c.cfg d.length) then
        some (some (match t with
          | .string => { key := some (.str d), keyable := true }
          | .rid => { key := some (.rid d), keyable := true }
          | _ => {}))
      else some none
  | .media _ d => some (if lenOK c.cfg d.length then some {} else none)
  | .customBinary _ d => some (if lenOK c.cfg d.length then some {} else none)
  | .customText _ d => some (if lenOK c.cfg d.length && Utf8.valid d then some {} else none)
  | _ => none

def isRemoteRefEv : Ev → Bool
  | .array .remoteRef _ _ => true | .stringlike .remoteRef _ => true | _ => false

def keyFree (used : List KeyV) (r : VRes) : Bool :=
  match r.key with | some k => !used.contains k | none => true

/-- trivia, then the end of the container (an edge after its three parts) -/
def closeP : Nat → List Ev → St → P (List Ev × St)
  | 0, _, _ => .error (none, false)
  | _, [], _ => .error (none, false)
  | fuel + 1, e :: es, st =>
    match e with
    | .endContainer => .ok (es, advance st)
    | .padding | .comment _ _ => closeP fuel es (advance st)
    | _ => fail st

mutual
/-- one value at position kind `p`; `marked` = directly under a marker -/
def valueP (c : Ctx) : Nat → List Ev → St → Pos → Bool → P (List Ev × St × VRes)
  | 0, _, _, _, _ => .error (none, false)
  | _, [], _, _, _ => .error (none, false)
  | fuel + 1, e :: es, st, p, marked =>
    match scalar c e with
    | some none => fail st
    | some (some r) =>
      if p == .key ∧ (r.key.isNone) then fail st
      else if p == .nonNull ∧ r.isNull then fail st
      else if marked && isRemoteRefEv e then fail st
      else .ok (es, advance st, r)
    | none =>
      match e with
      | .arrayBegin t =>
        if t == .customBinary || t == .customText || t == .media || t == .mediaData || t == .invalid then fail st
        else if p == .key ∧ !(t == .string || t == .rid) then fail st
        else if marked ∧ t == .remoteRef then fail st
        else do
          let (es', st', d) ← chunksP c.cfg t (es.length + 1) es (advance st) 0 []
          pure (es', st', match t with
            | .string => { key := some (.str d), keyable := true }
            | .rid => { key := some (.rid d), keyable := true }
            | _ => {})
      | .mediaBegin _ =>
        if p == .key then fail st
        else do let (es', st', _) ← chunksP c.cfg .media (es.length + 1) es (advance st) 0 []; pure (es', st', {})
      | .customBegin t _ =>
        if p == .key ∨ !(t == .customBinary || t == .customText) then fail st
        else do let (es', st', _) ← chunksP c.cfg t (es.length + 1) es (advance st) 0 []; pure (es', st', {})
      | .list => if p == .key then fail st else do
          let (es', st') ← listBody c fuel es (advance st)
          pure (es', st', {})
      | .map => if p == .key then fail st else do
          let (es', st') ← mapBody c fuel es (advance st) []
          pure (es', st', {})
      | .record id =>
        if p == .key then fail st
        else if !idOK c.cfg c.identSafe id then fail st
        else match st.recs.find? (·.1 == id) with
          | none => fail st
          | some (_, n) => do
            let (es', st') ← recordBody c fuel es (advance st) n
            pure (es', st', {})
      | .edge => if p == .key then fail st else do
          let (es1, st1, _) ← valueP c fuel es (advance st) .nonNull false
          let (es2, st2, _) ← valueP c fuel es1 st1 .any false
          let (es3, st3, _) ← valueP c fuel es2 st2 .nonNull false
          let (es4, st4) ← closeP fuel es3 st3
          pure (es4, st4, {})
      | .node => if p == .key then fail st else do
          let (es1, st1, _) ← valueP c fuel es (advance st) .any false
          let (es2, st2) ← listBody c fuel es1 st1
          pure (es2, st2, {})
      | .marker id =>
        if marked then fail st
        else if !idOK c.cfg c.identSafe id then fail st
        else do
          let (es', st', r) ← markedP c fuel es (advance st) p
          let dup := (st'.marks.find? (·.1 == id)).isSome
          let mc : MClass := { keyable := r.keyable }
          let st'' : St := { st' with marks := st'.marks ++ [(id, mc)], dupMarker := st'.dupMarker || dup }
          pure (es', st'', r)
      | .refLocal id =>
        if marked then fail st
        else if !idOK c.cfg c.identSafe id then fail st
        else if p == .key then
          let bad := match st.marks.find? (·.1 == id) with
            | some (_, mc) => !mc.keyable | none => false
          let st1 : St := { (advance st) with keyRefs := id :: st.keyRefs, refs := id :: st.refs, badRef := st.badRef || bad }
          .ok (es, st1, { keyable := true })
        else
          let st1 : St := { (advance st) with refs := id :: st.refs }
          .ok (es, st1, {})
      | .padding | .comment _ _ =>
        -- trivia in value position: edge parts and node value allow it, handled by callers via skip
        if marked then (match e with | .padding => valueP c fuel es (advance st) p marked | _ => fail st)
        else valueP c fuel es (advance st) p marked
      | _ => fail st

/-- the value following a marker: no marker, reference or record type; padding allowed before it -/
def markedP (c : Ctx) : Nat → List Ev → St → Pos → P (List Ev × St × VRes)
  | 0, _, _, _ => .error (none, false)
  | fuel + 1, es, st, p => valueP c fuel es st p true

/-- elements until `end`; trivia allowed anywhere -/
def listBody (c : Ctx) : Nat → List Ev → St → P (List Ev × St)
  | 0, _, _ => .error (none, false)
  | _, [], _ => .error (none, false)
  | fuel + 1, e :: es, st =>
    match e with
    | .endContainer => .ok (es, advance st)
    | .padding | .comment _ _ => listBody c fuel es (advance st)
    | .recordType _ => fail st
    | _ => do
      let (es', st', _) ← valueP c fuel (e :: es) st .any false
      listBody c fuel es' st'

/-- key/value pairs until `end` -/
def mapBody (c : Ctx) : Nat → List Ev → St → List KeyV → P (List Ev × St)
  | 0, _, _, _ => .error (none, false)
  | _, [], _, _ => .error (none, false)
  | fuel + 1, e :: es, st, used =>
    match e with
    | .endContainer => .ok (es, advance st)
    | .padding | .comment _ _ => mapBody c fuel es (advance st) used
    | _ => do
      let (es1, st1, r) ← valueP c fuel (e :: es) st .key false
      -- a duplicate key is rejected at the event that completes the key
      if !keyFree used r then throw (some (st1.pos - 1), false)
      let used' := match r.key with | some k => k :: used | none => used
      let (es2, st2, _) ← valueP c fuel es1 st1 .any false
      mapBody c fuel es2 st2 used'

/-- exactly n values, then `end` -/
def recordBody (c : Ctx) : Nat → List Ev → St → Nat → P (List Ev × St)
  | 0, _, _, _ => .error (none, false)
  | _, [], _, _ => .error (none, false)
  | fuel + 1, e :: es, st, n =>
    match e with
    | .endContainer => if n = 0 then .ok (es, advance st) else fail st
    | .padding | .comment _ _ => recordBody c fuel es (advance st) n
    | .recordType _ => fail st
    | _ =>
      if n = 0 then fail st
      else do
        let (es', st', _) ← valueP c fuel (e :: es) st .any false
        recordBody c fuel es' st' (n - 1)
end

/-- record type definition body: keyable scalars and string/rid arrays, no duplicates -/
def recTypeBody (c : Ctx) : Nat → List Ev → St → List KeyV → Nat → P (List Ev × St × Nat)
  | 0, _, _, _, _ => .error (none, false)
  | _, [], _, _, _ => .error (none, false)
  | fuel + 1, e :: es, st, used, n =>
    match e with
    | .endContainer => .ok (es, advance st, n)
    | .padding | .comment _ _ => recTypeBody c fuel es (advance st) used n
    | .marker _ | .refLocal _ => fail st
    | _ =>
      match valueP c fuel (e :: es) st .key false with
      | .error x => .error x
      | .ok (es1, st1, r) =>
        if !keyFree used r then .error (some (st1.pos - 1), false)
        else recTypeBody c fuel es1 st1 (match r.key with | some k => k :: used | none => used) (n + 1)

/-- record types and trivia before the top-level value -/
def prologue (c : Ctx) : Nat → List Ev → St → P (List Ev × St)
  | 0, _, _ => .error (none, false)
  | _, [], _ => .error (none, false)
  | fuel + 1, e :: es, st =>
    match e with
    | .padding | .comment _ _ => prologue c fuel es (advance st)
    | .recordType id =>
      if !idOK c.cfg c.identSafe id then fail st
      else if (st.recs.find? (·.1 == id)).isSome then fail st
      else do
        let (es', st', n) ← recTypeBody c fuel es (advance st) [] 0
        prologue c fuel es' { st' with recs := (id, n) :: st'.recs }
    | _ => .ok (e :: es, st)

structure Verdict where
  structural : Option (Option Nat)   -- none = well-formed; some none = ends too early; some (some i) = event i
  globalOK : Bool
  content : Bool := false            -- the failure is invalid UTF-8 inside array data
deriving DecidableEq, Repr

def globalOK (st : St) : Bool :=
  !st.dupMarker && !st.badRef
  && st.refs.all (fun id => (st.marks.find? (·.1 == id)).isSome)
  && st.keyRefs.all (fun id => match st.marks.find? (·.1 == id) with | some (_, mc) => mc.keyable | none => false)

/-- a comment the text format cannot spell: invalid UTF-8; a line break in a single line comment;
    in a multiline comment an unmatched `*/`, an unclosed `/*`, or a final `/` that is not the end
    of a nested comment (it would merge with the closing delimiter) -/
def commentBad (multi : Bool) (s : Bytes) : Bool :=
  if !Utf8.valid s then true
  else if !multi then s.any fun b => b.toNat == 10 || b.toNat == 13
  else
    -- depth of nesting, scanning delimiters left to right without overlap
    let rec go : Nat → List Nat → Nat → Bool → Bool × Nat × Bool
      | 0, _, d, e => (false, d, e)
      | _ + 1, [], d, e => (false, d, e)
      | f + 1, 47 :: 42 :: r, d, _ => go f r (d + 1) false
      | f + 1, 42 :: 47 :: r, d, _ => if d = 0 then (true, d, false) else go f r (d - 1) r.isEmpty
      | f + 1, _ :: r, d, _ => go f r d false
    let (neg, depth, endsNested) := go (s.length + 1) (s.map (·.toNat)) 0 false
    neg || depth != 0 || (s.getLast?.map (·.toNat) == some 47 && !endsNested)

/-- media type grammar of the text format: MEDIA_TYPE := FIRST NEXT* '/' NEXT+ with FIRST a letter
    and NEXT a letter, digit or one of ! # $ % & ' * + . ^ _ ` | ~ { } - -/
def mediaNext (c : Char) : Bool := c.isAlphanum || "!#$%&'*+.^_`|~{}-".toList.contains c

def mediaTypeBad (mt : Bytes) : Bool :=
  if mt.any (fun b => b.toNat ≥ 128) then true else
  let cs := mt.map (fun b => Char.ofNat b.toNat)
  match cs.span (· ≠ '/') with
  | (ty, '/' :: sub) =>
    !(match ty with | f :: rest => f.isAlpha && rest.all mediaNext | [] => false) || sub.isEmpty || !sub.all mediaNext
  | _ => true

/-- TZ_AREALOC := '/' [A-Z] ([a-zA-Z0-9_-] | '.' | '/' | '+')*, at most 127 bytes -/
def areaBad (name : Bytes) : Bool :=
  name.isEmpty || name.length > 127 || name.any (fun b => b.toNat ≥ 128) ||
  (match name.map (fun b => Char.ofNat b.toNat) with
   | f :: rest => !(f.isUpper) || !(rest.all fun c => c.isAlphanum || "_-./+".toList.contains c)
   | [] => true)

def dateBad (t : TimeV) : Bool :=
  t.year == 0 || t.month < 1 || t.month > 12 || t.day < 1 ||
    t.day > [31, 29, 31, 30, 31, 30, 31, 31, 30, 31, 30, 31].getD (t.month - 1) 0

def zoneBad : Zone → Bool
  | .area name => areaBad name
  | .latlong lat long => lat < -9000 || lat > 9000 || long < -18000 || long > 18000
  | .offset m => m < -1439 || m > 1439
  | _ => false

def clockBad (t : TimeV) : Bool :=
  t.hour > 23 || t.minute > 59 || t.second > 60 || t.nanos > 999999999 || zoneBad t.zone

/-- a calendar / clock value the text format cannot spell, or whose fields are out of range -/
def timeBad (t : TimeV) : Bool :=
  match t.kind with
  | 0 => dateBad t
  | 1 => clockBad t
  | _ => dateBad t || clockBad t

def checkStructure (c : Ctx) (evs : List Ev) : Verdict :=
  let fuel := 3 * evs.length + 8   -- every nesting level spends at most three units (value, container, item loop)
  match evs with
  | .beginDoc :: .version 0 :: rest =>
    match (do
      let (es1, st1) ← prologue c fuel rest { pos := 2 }
      -- a reference cannot be the top-level value
      match es1 with
      | .refLocal _ :: _ => fail st1
      | _ => pure ()
      let (es2, st2, _) ← valueP c fuel es1 st1 .any false
      match es2 with
      | [] => .error (none, false)
      | [.endDoc] => pure st2
      | .endDoc :: _ :: _ => fail (advance st2)       -- nothing may follow the end of the document
      | _ :: _ => fail st2 : P St) with
    | .ok st => { structural := none, globalOK := globalOK st }
    | .error x => { structural := some x.1, globalOK := true, content := x.2 }
  | [.beginDoc] => { structural := some none, globalOK := true }
  | [] => { structural := some none, globalOK := true }
  | .beginDoc :: _ :: _ => { structural := some (some 1), globalOK := true }
  | _ :: _ => { structural := some (some 0), globalOK := true }

/-- the grammar's verdict, with comment contents: a bad comment is an invalid event where it stands -/
def check (c : Ctx) (evs : List Ev) : Verdict :=
  let v := checkStructure c evs
  -- events whose content the text format cannot spell: comments (above), media types that are not
  -- `type/subtype` in media-type characters, times with a field out of range or an area/location
  -- name outside [A-Z][A-Za-z0-9_./+-]*
  let firstBad := (evs.zipIdx.find? fun p => match p.1 with
    | .comment m s => commentBad m s
    | .media mt _ | .mediaBegin mt => mediaTypeBad mt
    | .time t => timeBad t
    | _ => false).map (·.2)
  match firstBad with
  | none => v
  | some i =>
    match v.structural with
    | some (some j) => if j ≤ i then v else { structural := some (some i), globalOK := true, content := true }
    | _ => { structural := some (some i), globalOK := true, content := true }

end CE.Spec
