import CE.Rules.Types
import CE.Basic.Utf8
import CE.Basic.Float
/-
  Model of package rules: Context (context.go, context_array.go) one Lean function per Go
  method, the RulesEventReceiver dispatch (rules_event_rcv.go) and an interpreter of the
  extracted rule table.  `step` = one event; the second result is what is forwarded to the
  next receiver.
-/
namespace CE.Rules

structure Cfg where
  maxArrayBytes : Nat := 2 ^ 30
  maxIdLength : Nat := 1000
  maxObjectCount : Nat := 1000000
  maxContainerDepth : Nat := 1000
  maxLocalRefCount : Nat := 10000
deriving DecidableEq, Repr, Inhabited

inductive RErr
  | wrongType | version | limitDepth | limitObjects | limitArray | limitId | limitRefs
  | count | dupKey | dupRecordType | noRecordType | recordTypeNotAllowed
  | utf8 | chunkOverflow | idEmpty | idChars | markerDup | refType | forwardUnresolved
  | tooManyEnds | apiMisuse | arrayType | byteCount | runtime | unknownAct | comment | time | mediaType
deriving DecidableEq, Repr, Inhabited

/-- what `Context.NotifyKey` stores (after normalisation) -/
inductive NormKey
  | bool (b : Bool) | int (i : Int) | uid (b : Bytes) | time (t : TimeV)
  | str (s : Bytes) | rid (s : Bytes)
deriving DecidableEq, Repr, Inhabited

structure Entry where
  rule : Rule
  dataType : DT := 0
  current : Nat := 0
  expected : Option Nat := none
  keys : List NormKey := []
  markerID : Bytes := []
deriving DecidableEq, Repr, Inhabited

inductive Validator | nothing | string
deriving DecidableEq, Repr, Inhabited

structure RState where
  cur : Entry := { rule := .beginDocument }
  stack : List Entry := []        -- head = top
  depth : Nat := 0
  objectCount : Nat := 0
  recordTypes : List (Bytes × Nat) := []
  recordTypeName : Bytes := []
  arrayType : ArrT := .invalid
  moreChunks : Bool := false
  built : Bytes := []
  arrayMax : Nat := 0
  arrayTotal : Nat := 0
  chunkExpected : Nat := 0
  chunkActual : Nat := 0
  utf8Rem : Bytes := []
  validator : Validator := .nothing
  markerID : Bytes := []
  marked : List (Bytes × DT) := []
  forward : List (Bytes × DT) := []
  refCount : Nat := 0
deriving DecidableEq, Repr, Inhabited

def RState.init : RState := {}

/-- arguments of an EventRule method call -/
structure Args where
  objType : DT := 0
  key : Option NormKey := none
  arrT : ArrT := .invalid
  count : Nat := 0
  data : Bytes := []
  id : Bytes := []
  version : Nat := 0
  length : Nat := 0
  more : Bool := false
  cType : DT := 0
  -- scratch of StringChunkRule.OnArrayData
  first : Bytes := []
  next : Bytes := []
  arrDT : DT := 0
deriving Repr, Inhabited

abbrev M := Except RErr

def changeRule (s : RState) (r : Rule) : RState := { s with cur := { s.cur with rule := r } }

def stackRule (s : RState) (r : Rule) (dt : DT) (expected : Option Nat) : RState :=
  { s with stack := s.cur :: s.stack, cur := { rule := r, dataType := dt, expected := expected } }

/-- `UnstackRule`: popping an empty stack is an index panic in Go -/
def unstackRule (s : RState) : M RState :=
  match s.stack with
  | [] => .error .runtime
  | e :: rest => .ok { s with cur := e, stack := rest }

def parentRule (s : RState) : M Rule :=
  match s.stack with
  | [] => .error .runtime
  | e :: _ => .ok e.rule

def notifyNewObject (cfg : Cfg) (s : RState) (real : Bool) : M RState := do
  let s1 ← if real then
      let c := s.cur.current + 1
      match s.cur.expected with
      | some ex => if c > ex then throw RErr.count else pure { s with cur := { s.cur with current := c } }
      | none => pure { s with cur := { s.cur with current := c } }
    else pure s
  let n := s1.objectCount + 1
  if n > cfg.maxObjectCount then throw .limitObjects
  pure { s1 with objectCount := n }

def beginContainer (cfg : Cfg) (s : RState) (r : Rule) (dt : DT) (expected : Option Nat) : M RState := do
  let d := s.depth + 1
  if d > cfg.maxContainerDepth then throw .limitDepth
  pure (stackRule { s with depth := d } r dt expected)

def notifyKey (s : RState) (k : NormKey) : M RState :=
  if s.cur.keys.contains k then .error .dupKey
  else .ok { s with cur := { s.cur with keys := k :: s.cur.keys } }

def assertArrayType (t : ArrT) (m : Mask) : M Unit :=
  match arrayDT t with
  | none => .error .runtime
  | some dt => if dt &&& m.bits = 0 then .error .arrayType else .ok ()

def validateLength (cfg : Cfg) (len : Nat) : M Unit :=
  if len > cfg.maxArrayBytes ∧ cfg.maxArrayBytes > 0 then .error .limitArray else .ok ()

def validateUtf8 (d : Bytes) : M Unit := if Utf8.valid d then .ok () else .error .utf8

/-- `ValidateFullArrayAnyType` -/
def validateFullAny (cfg : Cfg) (t : ArrT) (count : Nat) (data : Bytes) : M Unit :=
  match t with
  | .string | .rid | .customText => do validateLength cfg data.length; validateUtf8 data
  | .remoteRef => do
    if data.length ≠ elemsToBytes t.elemBits count % 2 ^ 64 then throw .byteCount
    validateLength cfg data.length; validateUtf8 data
  | _ => do
    if data.length ≠ elemsToBytes t.elemBits count % 2 ^ 64 then throw .byteCount
    validateLength cfg data.length

/-- `ValidateFullArrayStringlike` -/
def validateFullStringlike (cfg : Cfg) (t : ArrT) (data : Bytes) : M Unit :=
  match t with
  | .string | .rid | .remoteRef | .customText => do validateLength cfg data.length; validateUtf8 data
  | _ => validateLength cfg data.length

def beginArray (s : RState) (t : ArrT) (r : Rule) (dt : DT) (max : Nat) (v : Validator) : RState :=
  let s1 := stackRule { s with arrayTotal := 0, built := [], utf8Rem := [] } r dt none
  { s1 with arrayType := t, arrayMax := max, validator := v }

/-- `BeginArrayAnyType` -/
def beginArrayAny (cfg : Cfg) (s : RState) (t : ArrT) : M RState :=
  match arrayDT t with
  | none => .error .runtime
  | some dt =>
    match t with
    | .string | .rid | .remoteRef | .customText => .ok (beginArray s t .string dt cfg.maxArrayBytes .string)
    | _ => .ok (beginArray s t .array dt cfg.maxArrayBytes .nothing)

def lookupForward (l : List (Bytes × DT)) (id : Bytes) : Option DT := (l.find? (·.1 == id)).map (·.2)

/-- `MarkObject` -/
def markObject (cfg : Cfg) (s : RState) (dt : DT) : M RState := do
  if s.refCount + 1 > cfg.maxLocalRefCount then throw .limitRefs
  let id := s.markerID
  if (lookupForward s.marked id).isSome then throw .markerDup
  let s1 := { s with refCount := s.refCount + 1, marked := (id, dt) :: s.marked }
  match lookupForward s.forward id with
  | none => pure s1
  | some allowed =>
    let s2 := { s1 with forward := s1.forward.filter (·.1 != id) }
    if allowed &&& dt = 0 then throw .refType
    pure s2

/-- `LocalReferenceObject` -/
def localReference (s : RState) (id : Bytes) (allowed : DT) : M RState :=
  match lookupForward s.marked id with
  | some dt => if dt &&& allowed = 0 then .error .refType else .ok s
  | none =>
    let cur := (lookupForward s.forward id).getD 0
    let nw := if cur = 0 then allowed else cur &&& allowed
    .ok { s with forward := (id, nw) :: s.forward.filter (·.1 != id) }

/-- `StreamStringData` (pointer receiver; completed first rune copied out of the remainder) -/
def streamStringData (s : RState) (data : Bytes) : M (RState × Bytes × Bytes) := do
  let remLen := s.utf8Rem.length
  let (s1, first, next, done) ←
    if remLen > 0 then
      match s.utf8Rem with
      | [] => pure (s, ([] : Bytes), data, false)
      | b0 :: _ =>
        let required := Utf8.runeByteCount b0
        -- utf8RemainderBuffer[:required] then copy(buf[remLen:], data): slicing below remLen panics
        if required < remLen then throw RErr.runtime
        let copied := min (required - remLen) data.length
        let rem' := s.utf8Rem ++ data.take copied
        let next := data.drop copied
        if remLen + copied < required then
          pure ({ s with utf8Rem := rem' }, ([] : Bytes), next, true)
        else pure ({ s with utf8Rem := [] }, rem', next, false)
    else pure (s, ([] : Bytes), data, false)
  if done then return (s1, first, next)
  let (lastIndex, complete) := Utf8.indexOfLastRuneStart next
  if !complete then
    let remBytes := next.drop lastIndex
    if remBytes.length > 4 then throw RErr.runtime
    return ({ s1 with utf8Rem := remBytes }, first, next.take lastIndex)
  return (s1, first, next)

def keyOfArray (t : ArrT) (data : Bytes) : Option NormKey :=
  match t with
  | .string => some (.str data)
  | .rid => some (.rid data)
  | _ => none

def methodOfName : Method → Method := id

/-- result of one statement -/
inductive Step
  | next (s : RState) (args : Args)                      -- go on with the next statement
  | ret (s : RState)                                     -- early `return`
  | call (s : RState) (r : Rule) (m : Method) (args : Args) (thenRet : Bool)
      -- call rule r's method m (a nested EventRule call), then go on (or return)
deriving Inhabited

/-- tryEndArray(false, nil) / EndChunk*: leave the array and notify the parent rule -/
def leaveArray (s : RState) (args : Args) (thenRet : Bool) : M Step := do
  let cType := s.cur.dataType
  let s1 ← unstackRule s
  -- the parent's OnChildContainerEnded(ctx, cType) receives nothing but the container type
  let _ := args
  pure (.call s1 s1.cur.rule .onChildContainerEnded { cType := cType } thenRet)

def actBeginRecordType (cfg : Cfg)  (s : RState) (args : Args) : M Step :=
  if s.stack.length ≠ 0 then .error .recordTypeNotAllowed
  else if (s.recordTypes.find? (·.1 == args.id)).isSome then .error .dupRecordType
  else do
    let s1 ← beginContainer cfg s .recordType DT.recordType none
    pure (.next { s1 with recordTypeName := args.id } args)

def actBeginRecord (cfg : Cfg)  (s : RState) (args : Args) : M Step :=
  match (s.recordTypes.find? (·.1 == args.id)) with
  | none => .error .noRecordType
  | some (_, n) => do pure (.next (← beginContainer cfg s .record DT.record (some n)) args)

def actEndContainer (cfg : Cfg) (notify : Bool) (s : RState) (args : Args) : M Step :=
  do
  if s.depth = 0 then throw RErr.tooManyEnds
  match s.cur.expected with
  | some ex => if s.cur.current ≠ ex then throw RErr.count
  | none => pure ()
  let s1 ← if s.cur.dataType = DT.recordType then
      (if (s.recordTypes.find? (·.1 == s.recordTypeName)).isSome then throw RErr.dupRecordType
       else pure { s with recordTypes := (s.recordTypeName, s.cur.current) :: s.recordTypes })
    else pure s
  let cType := s1.cur.dataType
  let s2 ← unstackRule { s1 with depth := s1.depth - 1 }
  if notify then pure (.call s2 s2.cur.rule .onChildContainerEnded { cType := cType } false)
  else pure (.next s2 args)

def actNotifyKey (cfg : Cfg)  (s : RState) (args : Args) : M Step :=
  match args.key with
  | some k => do pure (.next (← notifyKey s k) args)
  | none => .ok (.next s args)

def actNotifyKeyOfArray (cfg : Cfg)  (s : RState) (args : Args) : M Step :=
  match keyOfArray args.arrT args.data with
  | some k => do pure (.next (← notifyKey s k) args)
  | none => .ok (.next s args)

def actNotifyKeyOfBuilt (cfg : Cfg)  (s : RState) (args : Args) : M Step :=
  if args.cType = DT.string then do pure (.next (← notifyKey s (.str s.built)) args)
  else if args.cType = DT.resourceID then do pure (.next (← notifyKey s (.rid s.built)) args)
  else .ok (.next s args)

def actBeginMarkerKeyable (cfg : Cfg) (m : Mask) (s : RState) (args : Args) : M Step :=
  let s1 := stackRule { s with markerID := args.id } .markedObjectKeyable m.bits none
  .ok (.next { s1 with cur := { s1.cur with markerID := args.id } } args)

def actBeginMarkerAny (cfg : Cfg) (m : Mask) (s : RState) (args : Args) : M Step :=
  let s1 := stackRule { s with markerID := args.id } .markedObjectAnyType m.bits none
  .ok (.next { s1 with cur := { s1.cur with markerID := args.id } } args)

def actValidateFullKeyable (cfg : Cfg)  (s : RState) (args : Args) : M Step :=
  do
  assertArrayType args.arrT .keyable
  validateFullAny cfg args.arrT args.count args.data
  pure (.next s args)

def actValidateFullStringlikeKeyable (cfg : Cfg)  (s : RState) (args : Args) : M Step :=
  do
  assertArrayType args.arrT .keyable
  validateFullStringlike cfg args.arrT args.data
  pure (.next s args)

def actBeginArrayKeyable (cfg : Cfg)  (s : RState) (args : Args) : M Step :=
  do
  assertArrayType args.arrT .keyable
  pure (.next (← beginArrayAny cfg s args.arrT) args)

def actParentDispatch (cfg : Cfg) (m : Method) (s : RState) (args : Args) : M Step :=
  do
  let r ← parentRule s
  pure (.call s r m args false)

def actLookupArrayDataType (cfg : Cfg)  (s : RState) (args : Args) : M Step :=
  match arrayDT args.arrT with
  | none => .error .runtime
  | some dt => .ok (.next s { args with arrDT := dt })

def actMarkObject (cfg : Cfg) (src : ObjSrc) (s : RState) (args : Args) : M Step :=
  let dt := match src with
    | .objType => args.objType | .arrayDataType => args.arrDT | .cType => args.cType | .null => DT.null
  do pure (.next (← markObject cfg s dt) args)

def actZeroChunkReturn (cfg : Cfg)  (s : RState) (args : Args) : M Step :=
  if args.length = 0 then
    -- tryEndArray(more, nil); return
    if args.more then .ok (.ret s) else leaveArray s args true
  else .ok (.next s args)

/-- bytes a chunk of `n` elements declares -/
def chunkBytes (k : ChunkKind) (s : RState) (n : Nat) : Nat :=
  match k with
  | .any => elemsToBytes s.arrayType.elemBits n
  | _ => n

def chunkRule : ChunkKind → Rule
  | .any => .arrayChunk | .string => .stringChunk | .stringBuilder => .stringBuilderChunk

def actBeginChunk (cfg : Cfg) (k : ChunkKind) (s : RState) (args : Args) : M Step :=
  let _ := cfg
  if (s.arrayTotal + chunkBytes k s args.length) % 2 ^ 64 > s.arrayMax ∧ s.arrayMax > 0 then .error .limitArray
  else if args.length > 0 then
    -- elemCount > 0 always here (zeroChunkReturn ran first)
    .ok (.next (changeRule { s with chunkExpected := chunkBytes k s args.length,
                                    arrayTotal := (s.arrayTotal + chunkBytes k s args.length) % 2 ^ 64,
                                    chunkActual := 0, moreChunks := args.more } (chunkRule k)) args)
  else .error .runtime

def actMarkCompletedChunk (cfg : Cfg)  (s : RState) (args : Args) : M Step :=
  let actual := s.chunkActual + args.data.length
  if actual > s.chunkExpected then .error .chunkOverflow else .ok (.next { s with chunkActual := actual } args)

def actEndChunkIfComplete (cfg : Cfg) (k : ChunkKind) (s : RState) (args : Args) : M Step :=
  if s.chunkActual = s.chunkExpected then
    match k with
    | .any => if s.moreChunks then .ok (.next (changeRule s .array) args) else leaveArray s args false
    | _ =>
      if s.utf8Rem.length > 0 then .error .utf8
      else if s.moreChunks then .ok (.next (changeRule s .string) args)
      else leaveArray s args false
  else .ok (.next s args)

def actStreamStringData (cfg : Cfg)  (s : RState) (args : Args) : M Step :=
  do
  let (s1, first, next) ← streamStringData s args.data
  pure (.next s1 { args with first := first, next := next })

/-- one statement of a rule method, without the nested calls (those are returned as `.call`) -/
def execAct (cfg : Cfg) (a : Act) (s : RState) (args : Args) : M Step :=
  match a with
  | .wrongType => .error .wrongType
  | .unknown _ => .error .unknownAct
  | .changeRule r => .ok (.next (changeRule s r) args)
  | .beginList => do pure (.next (← beginContainer cfg s .list DT.list none) args)
  | .beginMap => do pure (.next (← beginContainer cfg s .mapKey DT.map none) args)
  | .beginEdge => do pure (.next (← beginContainer cfg s .edgeSource DT.edge (some 3)) args)
  | .beginNode => do pure (.next (← beginContainer cfg s .node DT.list none) args)
  | .beginRecordType => actBeginRecordType cfg s args
  | .beginRecord => actBeginRecord cfg s args
  | .endContainer notify => actEndContainer cfg notify s args
  | .endDocument => if s.forward.length > 0 then .error .forwardUnresolved else .ok (.next (changeRule s .terminal) args)
  | .checkVersion => if args.version ≠ 0 then .error .version else .ok (.next s args)
  | .notifyKey => actNotifyKey cfg s args
  | .notifyKeyOfArray => actNotifyKeyOfArray cfg s args
  | .notifyKeyOfBuilt => actNotifyKeyOfBuilt cfg s args
  | .beginMarkerKeyable m => actBeginMarkerKeyable cfg m s args
  | .beginMarkerAny m => actBeginMarkerAny cfg m s args
  | .localRefKeyable => do pure (.next (← localReference s args.id Mask.keyable.bits) args)
  | .localRefAny => do pure (.next (← localReference s args.id Mask.any.bits) args)
  | .validateFullAny => do validateFullAny cfg args.arrT args.count args.data; pure (.next s args)
  | .validateFullStringlike => do validateFullStringlike cfg args.arrT args.data; pure (.next s args)
  | .validateFullKeyable => actValidateFullKeyable cfg s args
  | .validateFullStringlikeKeyable => actValidateFullStringlikeKeyable cfg s args
  | .assertArrayType m => do assertArrayType args.arrT m; pure (.next s args)
  | .beginArrayAny => do pure (.next (← beginArrayAny cfg s args.arrT) args)
  | .beginArrayKeyable => actBeginArrayKeyable cfg s args
  | .unstack => do pure (.next (← unstackRule s) args)
  | .redispatch m emptyKey => .ok (.call s s.cur.rule m (if emptyKey then { args with key := none } else args) false)
  | .parentDispatch m => actParentDispatch cfg m s args
  | .lookupArrayDataType => actLookupArrayDataType cfg s args
  | .markObject src => actMarkObject cfg src s args
  | .restoreMarkerID => .ok (.next { s with markerID := s.cur.markerID } args)
  | .zeroChunkReturn => actZeroChunkReturn cfg s args
  | .beginChunk k => actBeginChunk cfg k s args
  | .markCompletedChunk => actMarkCompletedChunk cfg s args
  | .endChunkIfComplete k => actEndChunkIfComplete cfg k s args
  | .streamStringData => actStreamStringData cfg s args
  | .validateFirst => do (if s.validator = .string then validateUtf8 args.first else pure ()); pure (.next s args)
  | .validateNext => do (if s.validator = .string then validateUtf8 args.next else pure ()); pure (.next s args)
  | .addFirst => .ok (.next { s with built := s.built ++ args.first } args)
  | .addNext => .ok (.next { s with built := s.built ++ args.next } args)
  | .addBuiltData => .ok (.next { s with built := s.built ++ args.data } args)

/-- Interpreter.  `fuel` decreases at every statement and every nested call (structural
    recursion); `fuel0` exceeds the longest statement sequence any reachable call can execute
    (≤ 7 statements per method, nesting depth ≤ 3 since marked-object rules are never stacked
    on one another), so running out of fuel is unreachable — and would be a rejection, not an
    acceptance. -/
def runActs (tbl : RuleTable) (cfg : Cfg) : Nat → List Act → RState → Args → M RState
  | _, [], s, _ => .ok s
  | 0, _ :: _, _, _ => .error .runtime
  | fuel + 1, a :: rest, s, args =>
    match execAct cfg a s args with
    | .error e => .error e
    | .ok (.next s' args') => runActs tbl cfg fuel rest s' args'
    | .ok (.ret s') => .ok s'
    | .ok (.call s' r m args' thenRet) =>
      match runActs tbl cfg fuel (tbl r m) s' args' with
      | .error e => .error e
      | .ok s'' => if thenRet then .ok s'' else runActs tbl cfg fuel rest s'' args

def fuel0 : Nat := 64

def call (tbl : RuleTable) (cfg : Cfg) (s : RState) (m : Method) (args : Args) : M RState :=
  runActs tbl cfg fuel0 (tbl s.cur.rule m) s args

/-- ASCII part of `chars.IsRuneValidIdentifier`; non-ASCII code points are a parameter -/
def idCharOkAscii (b : Nat) : Bool :=
  (48 ≤ b && b ≤ 57) || (65 ≤ b && b ≤ 90) || (97 ≤ b && b ≤ 122) || b = 95 || b = 45 || b = 46

def validateIdentifier (cfg : Cfg) (identSafe : Bytes → Bool) (id : Bytes) : M Unit :=
  if id.length = 0 then .error .idEmpty
  else if id.length > cfg.maxIdLength then .error .limitId
  else if !identSafe id then .error .idChars
  else .ok ()

/-- key of an integer event form after `NotifyKey`'s normalisation: the integer it denotes -/
def intKey (i : Int) : NormKey := .int i

def uidKey (b : Bytes) : NormKey := .uid ((b ++ List.replicate 16 0).take 16)

/-- scan of a multiline comment: nesting depth after the text, whether it went negative, and
    whether the text ends with the close of a nested comment (non-overlapping left-to-right
    matching of the two delimiters, as `Context.ValidateComment` does) -/
def commentScan : Nat → List Nat → Nat → Option (Nat × Bool)
  | 0, _, depth => some (depth, false)
  | _ + 1, [], depth => some (depth, false)
  | f + 1, 47 :: 42 :: rest, depth => commentScan f rest (depth + 1)
  | f + 1, 42 :: 47 :: rest, depth =>
    if depth = 0 then none
    else match rest with
      | [] => some (depth - 1, true)
      | _ => commentScan f rest (depth - 1)
  | f + 1, _ :: rest, depth => commentScan f rest depth

/-- `Context.ValidateComment` -/
def commentOK (multi : Bool) (s : Bytes) : Bool :=
  Utf8.valid s &&
  (if multi then
    match commentScan (s.length + 1) (s.map (·.toNat)) 0 with
    | none => false
    | some (depth, endsNested) => depth == 0 && (s.getLast?.map (·.toNat) != some 47 || endsNested)
  else !(s.any fun b => b.toNat == 10 || b.toNat == 13))

/-- `Context.ValidateMediaType`: letter, media-type characters, one slash, a non-empty subtype -/
def mediaTypeChar (b : Nat) : Bool :=
  (97 ≤ b && b ≤ 122) || (65 ≤ b && b ≤ 90) || (48 ≤ b && b ≤ 57) ||
  [33, 35, 36, 37, 38, 39, 42, 43, 46, 94, 95, 96, 124, 126, 123, 125, 45].contains b

def mediaTypeOK (mt : Bytes) : Bool :=
  let l := mt.map (·.toNat)
  match l.idxOf? 47 with
  | none => false
  | some slash =>
    slash > 0 && slash < l.length - 1 &&
    (match l.head? with | some c => (97 ≤ c && c ≤ 122) || (65 ≤ c && c ≤ 90) | none => false) &&
    (l.zipIdx.all fun p => p.2 == slash || mediaTypeChar p.1)

def dayMax : Nat → Nat
  | 1 => 31 | 2 => 29 | 3 => 31 | 4 => 30 | 5 => 31 | 6 => 30 | 7 => 31 | 8 => 31 | 9 => 30 | 10 => 31 | 11 => 30 | 12 => 31
  | _ => 0

def areaLocOK (name : Bytes) : Bool :=
  name.length ≥ 1 && name.length ≤ 127 &&
  (name.map (·.toNat)).zipIdx.all fun p =>
    (65 ≤ p.1 && p.1 ≤ 90) ||
    (p.2 > 0 && ((97 ≤ p.1 && p.1 ≤ 122) || (48 ≤ p.1 && p.1 ≤ 57) || [95, 45, 46, 47, 43].contains p.1))

def dateOK (t : TimeV) : Bool :=
  t.year != 0 && 1 ≤ t.month && t.month ≤ 12 && 1 ≤ t.day && t.day ≤ dayMax t.month

def zoneOK : Zone → Bool
  | .area name => areaLocOK name
  | .latlong lat long => -9000 ≤ lat && lat ≤ 9000 && -18000 ≤ long && long ≤ 18000
  | .offset m => -1439 ≤ m && m ≤ 1439
  | _ => true

def clockOK (t : TimeV) : Bool :=
  t.hour ≤ 23 && t.minute ≤ 59 && t.second ≤ 60 && t.nanos ≤ 999999999 && zoneOK t.zone

/-- `Context.ValidateTime` = compact_time `Time.Validate` + a spellable area/location -/
def timeOK (t : TimeV) : Bool :=
  (if t.kind == 0 || t.kind == 2 then dateOK t else true) &&
  (if t.kind == 1 || t.kind == 2 then clockOK t else true)

structure Env where
  tbl : RuleTable
  cfg : Cfg := {}
  identSafe : Bytes → Bool

/-- One event through `RulesEventReceiver`: new state and the events forwarded. -/
def step (env : Env) (s : RState) (e : Ev) : M (RState × List Ev) :=
  let tbl := env.tbl
  let cfg := env.cfg
  let nno (s : RState) := notifyNewObject cfg s true
  let keyable (dt : DT) (k : NormKey) (fwd : Ev) : M (RState × List Ev) := do
    let s1 ← nno s
    let s2 ← call tbl cfg s1 .onKeyableObject { objType := dt, key := some k }
    pure (s2, [fwd])
  let nonKeyable (dt : DT) (fwd : Ev) : M (RState × List Ev) := do
    let s1 ← nno s
    let s2 ← call tbl cfg s1 .onNonKeyableObject { objType := dt }
    pure (s2, [fwd])
  let null : M (RState × List Ev) := do
    let s1 ← nno s
    let s2 ← call tbl cfg s1 .onNull {}
    pure (s2, [Ev.null])
  let nanEv (sig : Bool) : M (RState × List Ev) := nonKeyable DT.nan (.nan sig)
  let apiArray (t : ArrT) : M Unit :=
    match t with
    | .customBinary | .customText | .media => .error .apiMisuse
    | _ => .ok ()
  match e with
  | .beginDoc => do pure (← call tbl cfg s .onBeginDocument {}, [e])
  | .endDoc => do pure (← call tbl cfg s .onEndDocument {}, [e])
  | .version v => do pure (← call tbl cfg s .onVersion { version := v }, [e])
  | .padding => do pure (← call tbl cfg s .onPadding {}, [e])
  | .comment multi txt => do
    if !commentOK multi txt then throw RErr.comment
    pure (← call tbl cfg s .onComment {}, [e])
  | .null => null
  | .bool b => keyable DT.bool (.bool b) e
  | .true_ => keyable DT.bool (.bool true) e
  | .false_ => keyable DT.bool (.bool false) e
  | .posInt n => keyable DT.int (intKey n) e
  | .negInt n => keyable DT.int (intKey (-(n : Int))) e
  | .int i => keyable DT.int (intKey i) e
  | .bigInt none => null
  | .bigInt (some i) => keyable DT.int (intKey i) e
  | .float b => if F.isNaN64 b then nanEv (!F.quiet64 b) else nonKeyable DT.float e
  | .bigFloat none => null
  | .bigFloat (some _) => nonKeyable DT.float e
  | .dfloat .nan => nanEv false
  | .dfloat .snan => nanEv true
  | .dfloat _ => nonKeyable DT.float e
  | .bigDecimal none => null
  | .bigDecimal (some .nan) => nanEv false
  | .bigDecimal (some .snan) => nanEv true
  | .bigDecimal (some _) => nonKeyable DT.float e
  | .nan sig => nanEv sig
  | .uid b => keyable DT.uid (uidKey b) e
  | .time t => if timeOK t then keyable DT.time (.time t) e else .error .time
  | .array t c d => do
    apiArray t
    let s1 ← nno s
    pure (← call tbl cfg s1 .onArray { arrT := t, count := c, data := d }, [e])
  | .stringlike t d => do
    apiArray t
    let s1 ← nno s
    pure (← call tbl cfg s1 .onStringlikeArray { arrT := t, data := d }, [e])
  | .media mt d => do
    if !mediaTypeOK mt then throw RErr.mediaType
    let s1 ← nno s
    pure (← call tbl cfg s1 .onArray { arrT := .media, count := d.length, data := d }, [e])
  | .customBinary _ d => do
    let s1 ← nno s
    pure (← call tbl cfg s1 .onArray { arrT := .customBinary, count := d.length, data := d }, [e])
  | .customText _ d => do
    let s1 ← nno s
    pure (← call tbl cfg s1 .onStringlikeArray { arrT := .customText, data := d }, [e])
  | .arrayBegin t => do
    apiArray t
    let s1 ← nno s
    pure (← call tbl cfg s1 .onArrayBegin { arrT := t }, [e])
  | .mediaBegin mt => do
    if !mediaTypeOK mt then throw RErr.mediaType
    let s1 ← nno s
    pure (← call tbl cfg s1 .onArrayBegin { arrT := .media }, [e])
  | .customBegin t _ => do
    (match t with | .customBinary | .customText => pure () | _ => throw RErr.apiMisuse)
    let s1 ← nno s
    pure (← call tbl cfg s1 .onArrayBegin { arrT := t }, [e])
  | .arrayChunk n more => do pure (← call tbl cfg s .onArrayChunk { length := n, more := more }, [e])
  | .arrayData d => do pure (← call tbl cfg s .onArrayData { data := d }, [e])
  | .list => do let s1 ← nno s; pure (← call tbl cfg s1 .onList {}, [e])
  | .map => do let s1 ← nno s; pure (← call tbl cfg s1 .onMap {}, [e])
  | .endContainer => do pure (← call tbl cfg s .onEnd {}, [e])
  | .recordType id => do
    let s1 ← notifyNewObject cfg s false
    validateIdentifier cfg env.identSafe id
    pure (← call tbl cfg s1 .onRecordType { id := id }, [e])
  | .record id => do
    let s1 ← nno s
    validateIdentifier cfg env.identSafe id
    pure (← call tbl cfg s1 .onRecord { id := id }, [e])
  | .node => do let s1 ← nno s; pure (← call tbl cfg s1 .onNode {}, [e])
  | .edge => do let s1 ← nno s; pure (← call tbl cfg s1 .onEdge {}, [e])
  | .marker id => do
    validateIdentifier cfg env.identSafe id
    let s1 ← nno s
    pure (← call tbl cfg s1 .onMarker { id := id }, [e])
  | .refLocal id => do
    validateIdentifier cfg env.identSafe id
    let s1 ← nno s
    pure (← call tbl cfg s1 .onReferenceLocal { id := id }, [e])

/-- run a whole stream: forwarded events, and (index, error) of the first rejected event -/
def run (env : Env) : RState → List Ev → Nat → List Ev × Option (Nat × RErr) × RState
  | s, [], _ => ([], none, s)
  | s, e :: es, i =>
    match step env s e with
    | .error err => ([], some (i, err), s)
    | .ok (s', fwd) =>
      let (f, r, sf) := run env s' es (i + 1)
      (fwd ++ f, r, sf)

/-- accepted = every event passes and the machine ends in the terminal rule -/
def accepts (env : Env) (evs : List Ev) : Bool :=
  match run env RState.init evs 0 with
  | (_, none, s) => s.cur.rule == .terminal
  | _ => false

end CE.Rules
