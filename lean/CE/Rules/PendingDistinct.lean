import CE.Rules.Pending
/-
  C13, the table of waiting forward references holds each identifier at most once, in every state the
  validator reaches on any stream (`run_fwd`; same per-statement case analysis as CE/Rules/Limits.lean).
  With CE/Rules/Pending.lean (waiting ∩ registered = ∅) and CE/Rules/Markers.lean (registered distinct):
  the identifiers the validator knows are partitioned, without repetition, into registered and waiting.
-/
namespace CE.Rules

/-- no identifier waits twice in the table of forward references -/
def FInv (_cfg : Cfg) (s : RState) : Prop := (s.forward.map (·.1)).Nodup

theorem stackRule_f (cfg : Cfg) (s : RState) (r : Rule) (dt : DT) (e : Option Nat) (hk : FInv cfg s) : FInv cfg (stackRule s r dt e) := hk

theorem unstackRule_f (cfg : Cfg) (s s' : RState) (h : unstackRule s = .ok s') (hk : FInv cfg s) : FInv cfg s' := by
  unfold unstackRule at h; split at h
  · cases h
  · injection h with h; subst h; exact hk

theorem beginContainer_f (cfg : Cfg) (s s' : RState) (r : Rule) (dt : DT) (e : Option Nat)
    (h : beginContainer cfg s r dt e = .ok s') (hk : FInv cfg s) : FInv cfg s' := by
  unfold beginContainer at h
  simp only [bind, Except.bind, pure, Except.pure] at h
  split at h
  · cases h
  · rename_i hd
    injection h with h; subst h
    exact hk

theorem notifyKey_f (cfg : Cfg) (s s' : RState) (k : NormKey) (h : notifyKey s k = .ok s') (hk : FInv cfg s) : FInv cfg s' := by
  unfold notifyKey at h; split at h
  · cases h
  · injection h with h; subst h; exact hk

theorem beginArrayAny_f (cfg : Cfg) (s s' : RState) (t : ArrT) (h : beginArrayAny cfg s t = .ok s') (hk : FInv cfg s) : FInv cfg s' := by
  unfold beginArrayAny at h
  split at h
  · cases h
  · split at h <;> (injection h with h; subst h; exact hk)

theorem leaveArray_f (cfg : Cfg) (s : RState) (args : Args) (b : Bool) (st : Step) (h : leaveArray s args b = .ok st) (hk : FInv cfg s) :
    FInv cfg st.state := by
  unfold leaveArray at h
  simp only [bind, Except.bind, pure, Except.pure] at h
  cases hu : unstackRule s with
  | error e => simp [hu] at h
  | ok s1 =>
    simp only [hu] at h
    injection h with h; subst h
    exact unstackRule_f cfg s s1 hu hk

theorem ite_ok_f (cfg : Cfg) (s v : RState) (c : Prop) [Decidable c] (e : RErr) (rts : List (Bytes × Nat))
    (h : (if c then (Except.error e : M RState) else Except.ok { s with recordTypes := rts }) = Except.ok v) (hk : FInv cfg s) : FInv cfg v := by
  split at h
  · cases h
  · injection h with h; subst h; exact hk

theorem unstack_depth_f (cfg : Cfg) (a b : RState) (h : unstackRule { a with depth := a.depth - 1 } = .ok b) (hk : FInv cfg a) : FInv cfg b :=
  unstackRule_f cfg _ _ h hk

theorem nodup_filter_keys (l : List (Bytes × DT)) (id : Bytes) (h : (l.map (·.1)).Nodup) :
    ((l.filter (·.1 != id)).map (·.1)).Nodup := by
  have hsub : ((l.filter (·.1 != id)).map (·.1)).Sublist (l.map (·.1)) := (List.filter_sublist).map _
  exact hsub.nodup h

theorem markObject_f (cfg : Cfg) (s s' : RState) (dt : DT) (h : markObject cfg s dt = .ok s') (hk : FInv cfg s) : FInv cfg s' := by
  unfold markObject at h
  simp only [bind, Except.bind, pure, Except.pure, throw, throwThe, MonadExceptOf.throw] at h
  split at h
  · cases h
  split at h
  · cases h
  split at h
  · injection h with h; subst h; exact hk
  · split at h
    · cases h
    · injection h with h; subst h
      exact nodup_filter_keys s.forward s.markerID hk

theorem localReference_f (cfg : Cfg) (s s' : RState) (id : Bytes) (m : DT) (h : localReference s id m = .ok s') (hk : FInv cfg s) : FInv cfg s' := by
  unfold localReference at h
  split at h
  · split at h
    · cases h
    · injection h with h; subst h; exact hk
  · injection h with h; subst h
    show ((id, _) :: s.forward.filter (·.1 != id)).map (·.1) |>.Nodup
    simp only [List.map_cons, List.nodup_cons]
    refine ⟨?_, nodup_filter_keys s.forward id hk⟩
    intro hmem
    obtain ⟨p, hp, hpe⟩ := List.mem_map.1 hmem
    have := (List.mem_filter.1 hp).2
    simp [hpe] at this

theorem execAct_fwd (cfg : Cfg) (a : Act) (s : RState) (args : Args) (st : Step)
    (h : execAct cfg a s args = .ok st) (hk : FInv cfg s) : FInv cfg st.state := by
  cases a
  case localRefKeyable =>
    simp only [execAct, bind, Except.bind, pure, Except.pure] at h
    cases hl : localReference s args.id Mask.keyable.bits with
    | error e => simp [hl] at h
    | ok s1 => simp only [hl] at h; injection h with h; subst h; exact localReference_f cfg _ _ _ _ hl hk
  case localRefAny =>
    simp only [execAct, bind, Except.bind, pure, Except.pure] at h
    cases hl : localReference s args.id Mask.any.bits with
    | error e => simp [hl] at h
    | ok s1 => simp only [hl] at h; injection h with h; subst h; exact localReference_f cfg _ _ _ _ hl hk
  case markObject src =>
    simp only [execAct, actMarkObject, bind, Except.bind, pure, Except.pure] at h
    split at h
    · cases h
    · rename_i v hm
      injection h with h; subst h
      exact markObject_f cfg _ _ _ hm hk
  case wrongType => simp [execAct] at h
  case unknown => simp [execAct] at h
  case changeRule r => simp only [execAct] at h; injection h with h; subst h; exact hk
  case beginList =>
    simp only [execAct, bind, Except.bind, pure, Except.pure] at h
    split at h
    · cases h
    · rename_i v hv; injection h with h; subst h; exact beginContainer_f _ _ _ _ _ _ hv hk
  case beginMap =>
    simp only [execAct, bind, Except.bind, pure, Except.pure] at h
    split at h
    · cases h
    · rename_i v hv; injection h with h; subst h; exact beginContainer_f _ _ _ _ _ _ hv hk
  case beginEdge =>
    simp only [execAct, bind, Except.bind, pure, Except.pure] at h
    split at h
    · cases h
    · rename_i v hv; injection h with h; subst h; exact beginContainer_f _ _ _ _ _ _ hv hk
  case beginNode =>
    simp only [execAct, bind, Except.bind, pure, Except.pure] at h
    split at h
    · cases h
    · rename_i v hv; injection h with h; subst h; exact beginContainer_f _ _ _ _ _ _ hv hk
  case beginRecordType =>
    simp only [execAct, actBeginRecordType, bind, Except.bind, pure, Except.pure] at h
    split at h
    · cases h
    split at h
    · cases h
    split at h
    · cases h
    · rename_i v hv; injection h with h; subst h
      exact (beginContainer_f cfg s v _ _ _ hv hk : FInv cfg v)
  case beginRecord =>
    simp only [execAct, actBeginRecord, bind, Except.bind, pure, Except.pure] at h
    split at h
    · cases h
    · split at h
      · cases h
      · rename_i v hv; injection h with h; subst h; exact beginContainer_f _ _ _ _ _ _ hv hk
  case endDocument =>
    simp only [execAct] at h
    split at h
    · cases h
    · injection h with h; subst h; exact hk
  case checkVersion =>
    simp only [execAct] at h
    split at h
    · cases h
    · injection h with h; subst h; exact hk
  case notifyKey =>
    simp only [execAct, actNotifyKey, bind, Except.bind, pure, Except.pure] at h
    split at h
    · split at h
      · cases h
      · rename_i v hv; injection h with h; subst h; exact notifyKey_f cfg _ _ _ hv hk
    · injection h with h; subst h; exact hk
  case notifyKeyOfArray =>
    simp only [execAct, actNotifyKeyOfArray, bind, Except.bind, pure, Except.pure] at h
    split at h
    · split at h
      · cases h
      · rename_i v hv; injection h with h; subst h; exact notifyKey_f cfg _ _ _ hv hk
    · injection h with h; subst h; exact hk
  case notifyKeyOfBuilt =>
    simp only [execAct, actNotifyKeyOfBuilt, bind, Except.bind, pure, Except.pure] at h
    split at h
    · split at h
      · cases h
      · rename_i v hv; injection h with h; subst h; exact notifyKey_f cfg _ _ _ hv hk
    · split at h
      · split at h
        · cases h
        · rename_i v hv; injection h with h; subst h; exact notifyKey_f cfg _ _ _ hv hk
      · injection h with h; subst h; exact hk
  case beginMarkerKeyable m =>
    simp only [execAct, actBeginMarkerKeyable] at h; injection h with h; subst h
    exact (stackRule_f cfg { s with markerID := args.id } .markedObjectKeyable m.bits none hk)
  case beginMarkerAny m =>
    simp only [execAct, actBeginMarkerAny] at h; injection h with h; subst h
    exact (stackRule_f cfg { s with markerID := args.id } .markedObjectAnyType m.bits none hk)
  case unstack =>
    simp only [execAct, bind, Except.bind, pure, Except.pure] at h
    split at h
    · cases h
    · rename_i v hv; injection h with h; subst h; exact unstackRule_f cfg _ _ hv hk
  case redispatch m ek => simp only [execAct] at h; injection h with h; subst h; exact hk
  case restoreMarkerID => simp only [execAct] at h; injection h with h; subst h; exact hk
  case addFirst => simp only [execAct] at h; injection h with h; subst h; exact hk
  case addNext => simp only [execAct] at h; injection h with h; subst h; exact hk
  case addBuiltData => simp only [execAct] at h; injection h with h; subst h; exact hk
  case parentDispatch m =>
    simp only [execAct, actParentDispatch, bind, Except.bind, pure, Except.pure] at h
    split at h
    · cases h
    · injection h with h; subst h; exact hk
  case lookupArrayDataType =>
    simp only [execAct, actLookupArrayDataType] at h
    split at h
    · cases h
    · injection h with h; subst h; exact hk
  case markCompletedChunk =>
    simp only [execAct, actMarkCompletedChunk] at h
    split at h
    · cases h
    · injection h with h; subst h; exact hk
  case beginArrayAny =>
    simp only [execAct, bind, Except.bind, pure, Except.pure] at h
    split at h
    · cases h
    · rename_i v hv; injection h with h; subst h; exact beginArrayAny_f _ _ _ _ hv hk
  case validateFullAny =>
    simp only [execAct, bind, Except.bind, pure, Except.pure] at h
    split at h
    · cases h
    · injection h with h; subst h; exact hk
  case validateFullStringlike =>
    simp only [execAct, bind, Except.bind, pure, Except.pure] at h
    split at h
    · cases h
    · injection h with h; subst h; exact hk
  case assertArrayType m =>
    simp only [execAct, bind, Except.bind, pure, Except.pure] at h
    split at h
    · cases h
    · injection h with h; subst h; exact hk
  case validateFullKeyable =>
    simp only [execAct, actValidateFullKeyable, bind, Except.bind, pure, Except.pure] at h
    split at h
    · cases h
    · split at h
      · cases h
      · injection h with h; subst h; exact hk
  case validateFullStringlikeKeyable =>
    simp only [execAct, actValidateFullStringlikeKeyable, bind, Except.bind, pure, Except.pure] at h
    split at h
    · cases h
    · split at h
      · cases h
      · injection h with h; subst h; exact hk
  case beginArrayKeyable =>
    simp only [execAct, actBeginArrayKeyable, bind, Except.bind, pure, Except.pure] at h
    split at h
    · cases h
    · split at h
      · cases h
      · rename_i v hv; injection h with h; subst h; exact beginArrayAny_f _ _ _ _ hv hk
  case validateFirst =>
    simp only [execAct, bind, Except.bind, pure, Except.pure] at h
    split at h
    · cases h
    · injection h with h; subst h; exact hk
  case validateNext =>
    simp only [execAct, bind, Except.bind, pure, Except.pure] at h
    split at h
    · cases h
    · injection h with h; subst h; exact hk
  case zeroChunkReturn =>
    simp only [execAct, actZeroChunkReturn] at h
    split at h
    · split at h
      · injection h with h; subst h; exact hk
      · exact leaveArray_f cfg _ _ _ _ h hk
    · injection h with h; subst h; exact hk
  case beginChunk k =>
    simp only [execAct, actBeginChunk] at h
    split at h
    · cases h
    · split at h
      · injection h with h; subst h; exact hk
      · cases h
  case endChunkIfComplete k =>
    simp only [execAct, actEndChunkIfComplete] at h
    split at h
    · split at h
      · split at h
        · injection h with h; subst h; exact hk
        · exact leaveArray_f cfg _ _ _ _ h hk
      · split at h
        · cases h
        · split at h
          · injection h with h; subst h; exact hk
          · exact leaveArray_f cfg _ _ _ _ h hk
    · injection h with h; subst h; exact hk
  case streamStringData =>
    simp only [execAct, actStreamStringData, bind, Except.bind, pure, Except.pure, streamStringData_eq] at h
    split at h
    · cases h
    · rename_i v hv
      injection h with h; subst h
      cases hr : Utf8.sraw s.utf8Rem args.data with
      | none => simp [hr] at hv
      | some rfn =>
        obtain ⟨r, f, n⟩ := rfn
        simp only [hr] at hv
        injection hv with hv; subst hv
        exact hk
  case endContainer notify =>
    simp only [execAct, actEndContainer, bind, Except.bind, pure, Except.pure, throw, throwThe, MonadExceptOf.throw] at h
    repeat' (split at h)
    all_goals first
      | (cases h; done)
      | (injection h with h; subst h
         first
           | exact unstack_depth_f cfg _ _ (by assumption) hk
           | exact unstack_depth_f cfg _ _ (by assumption) (ite_ok_f cfg _ _ _ _ _ (by assumption) hk))

end CE.Rules
namespace CE.Rules



theorem runActs_fwd (tbl : RuleTable) (cfg : Cfg) : ∀ (fuel : Nat) (acts : List Act) (s : RState) (args : Args) (s' : RState),
    runActs tbl cfg fuel acts s args = .ok s' → FInv cfg s → FInv cfg s'
  | _, [], s, _, s', h, hk => by
    simp only [runActs] at h
    injection h with h; subst h; exact hk
  | 0, _ :: _, _, _, _, h, _ => by simp [runActs] at h
  | fuel + 1, a :: rest, s, args, s', h, hk => by
    simp only [runActs] at h
    cases he : execAct cfg a s args with
    | error e => simp [he] at h
    | ok st =>
      have hk1 := execAct_fwd cfg a s args st he hk
      simp only [he] at h
      cases st with
      | next s1 args1 =>
        simp only [] at h
        exact runActs_fwd tbl cfg fuel rest s1 args1 s' h hk1
      | ret s1 =>
        simp only [] at h
        injection h with h; subst h
        exact hk1
      | call s1 r m args1 thenRet =>
        simp only [] at h
        cases hc : runActs tbl cfg fuel (tbl r m) s1 args1 with
        | error e => simp [hc] at h
        | ok s2 =>
          simp only [hc] at h
          have h2 := runActs_fwd tbl cfg fuel (tbl r m) s1 args1 s2 hc hk1
          cases thenRet with
          | true =>
            simp only [if_true] at h
            injection h with h; subst h
            exact h2
          | false =>
            simp only [Bool.false_eq_true, if_false] at h
            exact runActs_fwd tbl cfg fuel rest s2 args s' h h2

theorem nno_f (cfg : Cfg) (s s' : RState) (b : Bool) (h : notifyNewObject cfg s b = .ok s') (hk : FInv cfg s) : FInv cfg s' := by
  unfold notifyNewObject at h
  simp only [bind, Except.bind, pure, Except.pure, throw, throwThe, MonadExceptOf.throw] at h
  repeat' (split at h)
  all_goals first
    | (cases h; done)
    | (injection h with h; subst h; exact hk)

theorem fwd_nno_call (tbl : RuleTable) (cfg : Cfg) (s s1 s2 : RState) (b : Bool) (m : Method) (args : Args)
    (h1 : notifyNewObject cfg s b = .ok s1) (h2 : call tbl cfg s1 m args = .ok s2) (hk : FInv cfg s) : FInv cfg s2 :=
  runActs_fwd tbl cfg _ _ s1 args s2 h2 (nno_f cfg s s1 b h1 hk)

theorem step_fwd (env : Env) (s : RState) (e : Ev) (r : RState × List Ev) (h : step env s e = .ok r)
    (hk : FInv env.cfg s) : FInv env.cfg r.1 := by
  unfold step at h
  cases e
  all_goals simp only [bind, Except.bind, pure, Except.pure, throw, throwThe, MonadExceptOf.throw] at h
  all_goals repeat' (split at h)
  all_goals first
    | (cases h; done)
    | contradiction
    | (injection h with h; subst h
       first
         | exact fwd_nno_call _ _ _ _ _ _ _ _ (by assumption) (by assumption) hk
         | exact runActs_fwd _ _ _ _ _ _ _ (by assumption) hk)

/-- in every state the validator reaches on any stream: no identifier waits twice as a forward reference -/
theorem run_fwd (env : Env) : ∀ (evs : List Ev) (s : RState) (i : Nat), FInv env.cfg s → FInv env.cfg (run env s evs i).2.2
  | [], s, i, hk => by simpa [run] using hk
  | e :: es, s, i, hk => by
    simp only [run]
    cases hs : step env s e with
    | error err => simpa using hk
    | ok r =>
      obtain ⟨s1, fwd⟩ := r
      simp only []
      exact run_fwd env es s1 (i + 1) (step_fwd env s e (s1, fwd) hs hk)

end CE.Rules
