import CE.Rules.Machine
import CE.Rules.Table
import CE.Rules.TextSplit
/-
  C13, lifted from the single functions to whole documents.

  `covers s x`: the validator knows the identifier `x` - a marker with that name has been
  registered, or a reference to it is waiting for its marker.  Every statement a rule method can
  execute (all 45 kinds, `execAct_covers`), every statement list with its nested rule calls
  (`runActs_covers`), every event (`step_covers`) only ever adds to what is covered; an accepted
  local-reference event covers its identifier (`step_ref_covers`, through the extracted rule table:
  every rule's OnReferenceLocal rejects or starts by recording the reference); the end of the
  document is accepted only with nothing left waiting (`step_endDoc_resolved`).  Together
  (`accepted_references_have_markers`): in an accepted document every local reference names a
  registered marker.
-/
namespace CE.Rules

/-- identifiers the validator knows about: marked, or referenced and waiting for their marker -/
def covers (s : RState) (x : Bytes) : Prop := x ∈ s.marked.map (·.1) ∨ x ∈ s.forward.map (·.1)

/-- the marker bookkeeping of two states is the same -/
def SameRefs (s s' : RState) : Prop := s'.marked = s.marked ∧ s'.forward = s.forward ∧ s'.objectCount = s.objectCount

def Step.state : Step → RState
  | .next s _ => s | .ret s => s | .call s _ _ _ _ => s

theorem lookup_mem (l : List (Bytes × DT)) (id : Bytes) (dt : DT) (h : lookupForward l id = some dt) : id ∈ l.map (·.1) := by
  unfold lookupForward at h
  cases hf : l.find? (fun p => p.1 == id) with
  | none => simp [hf] at h
  | some p =>
    have hm := List.mem_of_find?_eq_some hf
    have hp := List.find?_some hf
    simp only [beq_iff_eq] at hp
    exact List.mem_map.mpr ⟨p, hm, hp⟩

theorem localReference_covers (s s' : RState) (id : Bytes) (allowed : DT) (h : localReference s id allowed = .ok s') :
    covers s' id ∧ ∀ x, covers s x → covers s' x := by
  unfold localReference at h
  cases hl : lookupForward s.marked id with
  | some dt =>
    simp only [hl] at h
    split at h
    · cases h
    · injection h with h; subst h
      exact ⟨Or.inl (lookup_mem _ _ _ hl), fun x hx => hx⟩
  | none =>
    simp only [hl] at h
    injection h with h; subst h
    refine ⟨Or.inr (by simp), ?_⟩
    intro x hx
    rcases hx with hx | hx
    · exact Or.inl hx
    · by_cases hxi : x = id
      · subst hxi; exact Or.inr (by simp)
      · right
        simp only [List.map_cons, List.mem_cons]
        right
        obtain ⟨p, hp, rfl⟩ := List.mem_map.mp hx
        exact List.mem_map.mpr ⟨p, List.mem_filter.mpr ⟨hp, by simpa using hxi⟩, rfl⟩

theorem markObject_covers (cfg : Cfg) (s s' : RState) (dt : DT) (h : markObject cfg s dt = .ok s') :
    ∀ x, covers s x → covers s' x := by
  unfold markObject at h
  simp only [bind, Except.bind, pure, Except.pure] at h
  split at h
  · cases h
  split at h
  · cases h
  intro x hx
  have key : ∀ (f' : List (Bytes × DT)), (∀ p ∈ s.forward, p.1 ≠ s.markerID → p ∈ f') →
      covers { s with refCount := s.refCount + 1, marked := (s.markerID, dt) :: s.marked, forward := f' } x := by
    intro f' hf
    rcases hx with hx | hx
    · exact Or.inl (by simp [hx])
    · obtain ⟨p, hp, rfl⟩ := List.mem_map.mp hx
      by_cases hpi : p.1 = s.markerID
      · exact Or.inl (by simp [hpi])
      · exact Or.inr (List.mem_map.mpr ⟨p, hf p hp hpi, rfl⟩)
  split at h
  · injection h with h; subst h
    exact key s.forward (fun p hp _ => hp)
  · split at h
    · cases h
    · injection h with h; subst h
      exact key _ (fun p hp hne => List.mem_filter.mpr ⟨hp, by simpa using hne⟩)

end CE.Rules
namespace CE.Rules

theorem sameRefs_covers {s s' : RState} (h : SameRefs s s') : ∀ x, covers s x → covers s' x := by
  intro x hx; unfold covers at *; rw [h.1, h.2.1]; exact hx

theorem unstackRule_same (s s' : RState) (h : unstackRule s = .ok s') : SameRefs s s' := by
  unfold unstackRule at h; split at h
  · cases h
  · injection h with h; subst h; exact ⟨rfl, rfl, rfl⟩

theorem beginContainer_same (cfg : Cfg) (s s' : RState) (r : Rule) (dt : DT) (e : Option Nat)
    (h : beginContainer cfg s r dt e = .ok s') : SameRefs s s' := by
  unfold beginContainer at h
  simp only [bind, Except.bind, pure, Except.pure] at h
  split at h
  · cases h
  · injection h with h; subst h; exact ⟨rfl, rfl, rfl⟩

theorem notifyKey_same (s s' : RState) (k : NormKey) (h : notifyKey s k = .ok s') : SameRefs s s' := by
  unfold notifyKey at h; split at h
  · cases h
  · injection h with h; subst h; exact ⟨rfl, rfl, rfl⟩

theorem beginArrayAny_same (cfg : Cfg) (s s' : RState) (t : ArrT) (h : beginArrayAny cfg s t = .ok s') : SameRefs s s' := by
  unfold beginArrayAny at h
  split at h
  · cases h
  · split at h <;> (injection h with h; subst h; exact ⟨rfl, rfl, rfl⟩)

theorem leaveArray_same (s : RState) (args : Args) (b : Bool) (st : Step) (h : leaveArray s args b = .ok st) :
    SameRefs s st.state := by
  unfold leaveArray at h
  simp only [bind, Except.bind, pure, Except.pure] at h
  cases hu : unstackRule s with
  | error e => simp [hu] at h
  | ok s1 =>
    simp only [hu] at h
    injection h with h; subst h
    exact unstackRule_same s s1 hu

end CE.Rules
namespace CE.Rules

theorem same_refl (s : RState) : SameRefs s s := ⟨rfl, rfl, rfl⟩

theorem same_trans {a b c : RState} (h1 : SameRefs a b) (h2 : SameRefs b c) : SameRefs a c :=
  ⟨h2.1.trans h1.1, h2.2.1.trans h1.2.1, h2.2.2.trans h1.2.2⟩

theorem ite_ok_same (s v : RState) (c : Prop) [Decidable c] (e : RErr) (rts : List (Bytes × Nat))
    (h : (if c then (Except.error e : M RState) else Except.ok { s with recordTypes := rts }) = Except.ok v) : SameRefs s v := by
  split at h
  · cases h
  · injection h with h; subst h; exact ⟨rfl, rfl, rfl⟩

theorem unstack_depth_same (a b : RState) (d : Nat) (h : unstackRule { a with depth := d } = .ok b) : SameRefs a b :=
  same_trans (⟨rfl, rfl, rfl⟩ : SameRefs a { a with depth := d }) (unstackRule_same _ _ h)

/-- every statement of a rule method leaves the marker bookkeeping alone, except the two that are
    there to change it: registering a marker and recording a reference -/
theorem execAct_kinds (cfg : Cfg) (a : Act) (s : RState) (args : Args) (st : Step)
    (h : execAct cfg a s args = .ok st) :
    SameRefs s st.state ∨ (∃ dt, markObject cfg s dt = .ok st.state) ∨
      (∃ id m, localReference s id m = .ok st.state) := by
  cases a
  case localRefKeyable =>
    simp only [execAct, bind, Except.bind, pure, Except.pure] at h
    cases hl : localReference s args.id Mask.keyable.bits with
    | error e => simp [hl] at h
    | ok s1 => simp only [hl] at h; injection h with h; subst h; exact Or.inr (Or.inr ⟨_, _, hl⟩)
  case localRefAny =>
    simp only [execAct, bind, Except.bind, pure, Except.pure] at h
    cases hl : localReference s args.id Mask.any.bits with
    | error e => simp [hl] at h
    | ok s1 => simp only [hl] at h; injection h with h; subst h; exact Or.inr (Or.inr ⟨_, _, hl⟩)
  case markObject src =>
    simp only [execAct, actMarkObject, bind, Except.bind, pure, Except.pure] at h
    split at h
    · cases h
    · rename_i v hm
      injection h with h; subst h
      exact Or.inr (Or.inl ⟨_, hm⟩)
  all_goals left
  case wrongType => simp [execAct] at h
  case unknown => simp [execAct] at h
  case changeRule r => simp only [execAct] at h; injection h with h; subst h; exact ⟨rfl, rfl, rfl⟩
  case beginList =>
    simp only [execAct, bind, Except.bind, pure, Except.pure] at h
    split at h
    · cases h
    · rename_i v hv; injection h with h; subst h; exact beginContainer_same _ _ _ _ _ _ hv
  case beginMap =>
    simp only [execAct, bind, Except.bind, pure, Except.pure] at h
    split at h
    · cases h
    · rename_i v hv; injection h with h; subst h; exact beginContainer_same _ _ _ _ _ _ hv
  case beginEdge =>
    simp only [execAct, bind, Except.bind, pure, Except.pure] at h
    split at h
    · cases h
    · rename_i v hv; injection h with h; subst h; exact beginContainer_same _ _ _ _ _ _ hv
  case beginNode =>
    simp only [execAct, bind, Except.bind, pure, Except.pure] at h
    split at h
    · cases h
    · rename_i v hv; injection h with h; subst h; exact beginContainer_same _ _ _ _ _ _ hv
  case beginRecordType =>
    simp only [execAct, actBeginRecordType, bind, Except.bind, pure, Except.pure] at h
    split at h
    · cases h
    split at h
    · cases h
    split at h
    · cases h
    · rename_i v hv; injection h with h; subst h
      exact same_trans (beginContainer_same _ _ _ _ _ _ hv) ⟨rfl, rfl, rfl⟩
  case beginRecord =>
    simp only [execAct, actBeginRecord, bind, Except.bind, pure, Except.pure] at h
    split at h
    · cases h
    · split at h
      · cases h
      · rename_i v hv; injection h with h; subst h; exact beginContainer_same _ _ _ _ _ _ hv
  case endDocument =>
    simp only [execAct] at h
    split at h
    · cases h
    · injection h with h; subst h; exact ⟨rfl, rfl, rfl⟩
  case checkVersion =>
    simp only [execAct] at h
    split at h
    · cases h
    · injection h with h; subst h; exact ⟨rfl, rfl, rfl⟩
  case notifyKey =>
    simp only [execAct, actNotifyKey, bind, Except.bind, pure, Except.pure] at h
    split at h
    · split at h
      · cases h
      · rename_i v hv; injection h with h; subst h; exact notifyKey_same _ _ _ hv
    · injection h with h; subst h; exact ⟨rfl, rfl, rfl⟩
  case notifyKeyOfArray =>
    simp only [execAct, actNotifyKeyOfArray, bind, Except.bind, pure, Except.pure] at h
    split at h
    · split at h
      · cases h
      · rename_i v hv; injection h with h; subst h; exact notifyKey_same _ _ _ hv
    · injection h with h; subst h; exact ⟨rfl, rfl, rfl⟩
  case notifyKeyOfBuilt =>
    simp only [execAct, actNotifyKeyOfBuilt, bind, Except.bind, pure, Except.pure] at h
    split at h
    · split at h
      · cases h
      · rename_i v hv; injection h with h; subst h; exact notifyKey_same _ _ _ hv
    · split at h
      · split at h
        · cases h
        · rename_i v hv; injection h with h; subst h; exact notifyKey_same _ _ _ hv
      · injection h with h; subst h; exact ⟨rfl, rfl, rfl⟩
  case beginMarkerKeyable m =>
    simp only [execAct, actBeginMarkerKeyable] at h; injection h with h; subst h; exact ⟨rfl, rfl, rfl⟩
  case beginMarkerAny m =>
    simp only [execAct, actBeginMarkerAny] at h; injection h with h; subst h; exact ⟨rfl, rfl, rfl⟩
  case unstack =>
    simp only [execAct, bind, Except.bind, pure, Except.pure] at h
    split at h
    · cases h
    · rename_i v hv; injection h with h; subst h; exact unstackRule_same _ _ hv
  case redispatch m ek => simp only [execAct] at h; injection h with h; subst h; exact ⟨rfl, rfl, rfl⟩
  case restoreMarkerID => simp only [execAct] at h; injection h with h; subst h; exact ⟨rfl, rfl, rfl⟩
  case addFirst => simp only [execAct] at h; injection h with h; subst h; exact ⟨rfl, rfl, rfl⟩
  case addNext => simp only [execAct] at h; injection h with h; subst h; exact ⟨rfl, rfl, rfl⟩
  case addBuiltData => simp only [execAct] at h; injection h with h; subst h; exact ⟨rfl, rfl, rfl⟩
  case parentDispatch m =>
    simp only [execAct, actParentDispatch, bind, Except.bind, pure, Except.pure] at h
    split at h
    · cases h
    · injection h with h; subst h; exact ⟨rfl, rfl, rfl⟩
  case lookupArrayDataType =>
    simp only [execAct, actLookupArrayDataType] at h
    split at h
    · cases h
    · injection h with h; subst h; exact ⟨rfl, rfl, rfl⟩
  case markCompletedChunk =>
    simp only [execAct, actMarkCompletedChunk] at h
    split at h
    · cases h
    · injection h with h; subst h; exact ⟨rfl, rfl, rfl⟩
  case beginArrayAny =>
    simp only [execAct, bind, Except.bind, pure, Except.pure] at h
    split at h
    · cases h
    · rename_i v hv; injection h with h; subst h; exact beginArrayAny_same _ _ _ _ hv
  case validateFullAny =>
    simp only [execAct, bind, Except.bind, pure, Except.pure] at h
    split at h
    · cases h
    · injection h with h; subst h; exact ⟨rfl, rfl, rfl⟩
  case validateFullStringlike =>
    simp only [execAct, bind, Except.bind, pure, Except.pure] at h
    split at h
    · cases h
    · injection h with h; subst h; exact ⟨rfl, rfl, rfl⟩
  case assertArrayType m =>
    simp only [execAct, bind, Except.bind, pure, Except.pure] at h
    split at h
    · cases h
    · injection h with h; subst h; exact ⟨rfl, rfl, rfl⟩
  case validateFullKeyable =>
    simp only [execAct, actValidateFullKeyable, bind, Except.bind, pure, Except.pure] at h
    split at h
    · cases h
    · split at h
      · cases h
      · injection h with h; subst h; exact ⟨rfl, rfl, rfl⟩
  case validateFullStringlikeKeyable =>
    simp only [execAct, actValidateFullStringlikeKeyable, bind, Except.bind, pure, Except.pure] at h
    split at h
    · cases h
    · split at h
      · cases h
      · injection h with h; subst h; exact ⟨rfl, rfl, rfl⟩
  case beginArrayKeyable =>
    simp only [execAct, actBeginArrayKeyable, bind, Except.bind, pure, Except.pure] at h
    split at h
    · cases h
    · split at h
      · cases h
      · rename_i v hv; injection h with h; subst h; exact beginArrayAny_same _ _ _ _ hv
  case validateFirst =>
    simp only [execAct, bind, Except.bind, pure, Except.pure] at h
    split at h
    · cases h
    · injection h with h; subst h; exact ⟨rfl, rfl, rfl⟩
  case validateNext =>
    simp only [execAct, bind, Except.bind, pure, Except.pure] at h
    split at h
    · cases h
    · injection h with h; subst h; exact ⟨rfl, rfl, rfl⟩
  case zeroChunkReturn =>
    simp only [execAct, actZeroChunkReturn] at h
    split at h
    · split at h
      · injection h with h; subst h; exact ⟨rfl, rfl, rfl⟩
      · exact leaveArray_same _ _ _ _ h
    · injection h with h; subst h; exact ⟨rfl, rfl, rfl⟩
  case beginChunk k =>
    simp only [execAct, actBeginChunk] at h
    split at h
    · cases h
    · split at h
      · injection h with h; subst h; exact ⟨rfl, rfl, rfl⟩
      · cases h
  case endChunkIfComplete k =>
    simp only [execAct, actEndChunkIfComplete] at h
    split at h
    · split at h
      · split at h
        · injection h with h; subst h; exact ⟨rfl, rfl, rfl⟩
        · exact leaveArray_same _ _ _ _ h
      · split at h
        · cases h
        · split at h
          · injection h with h; subst h; exact ⟨rfl, rfl, rfl⟩
          · exact leaveArray_same _ _ _ _ h
    · injection h with h; subst h; exact ⟨rfl, rfl, rfl⟩
  case streamStringData =>
    simp only [execAct, actStreamStringData, bind, Except.bind, pure, Except.pure, streamStringData_eq] at h
    split at h
    · cases h
    · rename_i v hv
      injection h with h; subst h
      cases hr : Utf8.sraw s.utf8Rem args.data with
      | none => simp [hr] at hv
      | some rfn =>
        obtain ⟨r, f, n⟩ := rfn
        simp only [hr] at hv
        injection hv with hv; subst hv
        exact ⟨rfl, rfl, rfl⟩
  case endContainer notify =>
    simp only [execAct, actEndContainer, bind, Except.bind, pure, Except.pure, throw, throwThe, MonadExceptOf.throw] at h
    repeat' (split at h)
    all_goals first
      | (cases h; done)
      | (injection h with h; subst h
         first
           | exact unstack_depth_same _ _ _ (by assumption)
           | exact same_trans (ite_ok_same _ _ _ _ _ (by assumption)) (unstack_depth_same _ _ _ (by assumption)))

end CE.Rules
namespace CE.Rules

/-- … so coverage only grows -/
theorem execAct_covers (cfg : Cfg) (a : Act) (s : RState) (args : Args) (st : Step)
    (h : execAct cfg a s args = .ok st) : ∀ x, covers s x → covers st.state x := by
  rcases execAct_kinds cfg a s args st h with hs | ⟨dt, hm⟩ | ⟨id, m, hl⟩
  · exact sameRefs_covers hs
  · exact markObject_covers cfg _ _ _ hm
  · exact (localReference_covers _ _ _ _ hl).2

/-- running any statement list, nested rule calls included: coverage only grows -/
theorem runActs_covers (tbl : RuleTable) (cfg : Cfg) : ∀ (fuel : Nat) (acts : List Act) (s : RState) (args : Args) (s' : RState),
    runActs tbl cfg fuel acts s args = .ok s' → ∀ x, covers s x → covers s' x
  | _, [], s, _, s', h => by
    simp only [runActs] at h
    injection h with h; subst h; exact fun x hx => hx
  | 0, _ :: _, _, _, _, h => by simp [runActs] at h
  | fuel + 1, a :: rest, s, args, s', h => by
    simp only [runActs] at h
    cases he : execAct cfg a s args with
    | error e => simp [he] at h
    | ok st =>
      have hcov := execAct_covers cfg a s args st he
      simp only [he] at h
      cases st with
      | next s1 args1 =>
        simp only [] at h
        exact fun x hx => runActs_covers tbl cfg fuel rest s1 args1 s' h x (hcov x hx)
      | ret s1 =>
        simp only [] at h
        injection h with h; subst h
        exact hcov
      | call s1 r m args1 thenRet =>
        simp only [] at h
        cases hc : runActs tbl cfg fuel (tbl r m) s1 args1 with
        | error e => simp [hc] at h
        | ok s2 =>
          simp only [hc] at h
          have h2 := runActs_covers tbl cfg fuel (tbl r m) s1 args1 s2 hc
          cases thenRet with
          | true =>
            simp only [if_true] at h
            injection h with h; subst h
            exact fun x hx => h2 x (hcov x hx)
          | false =>
            simp only [Bool.false_eq_true, if_false] at h
            exact fun x hx => runActs_covers tbl cfg fuel rest s2 args s' h x (h2 x (hcov x hx))

theorem call_covers (tbl : RuleTable) (cfg : Cfg) (s : RState) (m : Method) (args : Args) (s' : RState)
    (h : call tbl cfg s m args = .ok s') : ∀ x, covers s x → covers s' x :=
  runActs_covers tbl cfg _ _ s args s' h

theorem nno_same (cfg : Cfg) (s s' : RState) (b : Bool) (h : notifyNewObject cfg s b = .ok s') :
    s'.marked = s.marked ∧ s'.forward = s.forward := by
  unfold notifyNewObject at h
  simp only [bind, Except.bind, pure, Except.pure, throw, throwThe, MonadExceptOf.throw] at h
  repeat' (split at h)
  all_goals first
    | (cases h; done)
    | (injection h with h; subst h; exact ⟨rfl, rfl⟩)

end CE.Rules
namespace CE.Rules

def CovMono (s s' : RState) : Prop := ∀ x, covers s x → covers s' x

theorem covMono_nno_call (tbl : RuleTable) (cfg : Cfg) (s s1 s2 : RState) (b : Bool) (m : Method) (args : Args)
    (h1 : notifyNewObject cfg s b = .ok s1) (h2 : call tbl cfg s1 m args = .ok s2) : CovMono s s2 :=
  fun x hx => call_covers tbl cfg s1 m args s2 h2 x (by
    have hn := nno_same cfg s s1 b h1
    unfold covers at *; rw [hn.1, hn.2]; exact hx)

theorem covMono_call (tbl : RuleTable) (cfg : Cfg) (s s2 : RState) (m : Method) (args : Args)
    (h2 : call tbl cfg s m args = .ok s2) : CovMono s s2 :=
  call_covers tbl cfg s m args s2 h2

/-- one event: whatever identifier was covered before is covered afterwards -/
theorem step_covers (env : Env) (s : RState) (e : Ev) (r : RState × List Ev) (h : step env s e = .ok r) : CovMono s r.1 := by
  unfold step at h
  cases e
  all_goals simp only [bind, Except.bind, pure, Except.pure, throw, throwThe, MonadExceptOf.throw] at h
  all_goals repeat' (split at h)
  all_goals first
    | (cases h; done)
    | (injection h with h; subst h
       first
         | exact covMono_nno_call _ _ _ _ _ _ _ _ (by assumption) (by assumption)
         | exact covMono_call _ _ _ _ _ _ (by assumption))

end CE.Rules
namespace CE.Rules

def refHead : List Act → Bool
  | .wrongType :: _ => true
  | .localRefAny :: _ => true
  | .localRefKeyable :: _ => true
  | _ => false

theorem refHead_table : ∀ r ∈ Rule.all, refHead (Model.ruleTable r .onReferenceLocal) = true := by decide

/-- a local-reference event that is accepted leaves its identifier covered -/
theorem call_ref_covers (cfg : Cfg) (s s' : RState) (args : Args) (hr : s.cur.rule ∈ Rule.all)
    (h : call Model.ruleTable cfg s .onReferenceLocal args = .ok s') : covers s' args.id := by
  have ht := refHead_table s.cur.rule hr
  unfold call fuel0 at h
  generalize Model.ruleTable s.cur.rule .onReferenceLocal = acts at h ht
  match acts, ht with
  | .wrongType :: rest, _ => simp [runActs, execAct] at h
  | .localRefAny :: rest, _ =>
    simp only [runActs, execAct, bind, Except.bind, pure, Except.pure] at h
    cases hl : localReference s args.id Mask.any.bits with
    | error e => simp [hl] at h
    | ok s1 =>
      simp only [hl] at h
      exact runActs_covers _ _ _ _ _ _ _ h _ (localReference_covers _ _ _ _ hl).1
  | .localRefKeyable :: rest, _ =>
    simp only [runActs, execAct, bind, Except.bind, pure, Except.pure] at h
    cases hl : localReference s args.id Mask.keyable.bits with
    | error e => simp [hl] at h
    | ok s1 =>
      simp only [hl] at h
      exact runActs_covers _ _ _ _ _ _ _ h _ (localReference_covers _ _ _ _ hl).1

end CE.Rules
namespace CE.Rules

theorem rule_mem_all (r : Rule) : r ∈ Rule.all := by cases r <;> decide

theorem step_ref_covers (env : Env) (htbl : env.tbl = Model.ruleTable) (s : RState) (id : Bytes) (r : RState × List Ev)
    (h : step env s (.refLocal id) = .ok r) : covers r.1 id := by
  unfold step at h
  simp only [bind, Except.bind, pure, Except.pure, htbl] at h
  repeat' (split at h)
  all_goals first
    | (cases h; done)
    | (injection h with h; subst h
       exact call_ref_covers _ _ _ { id := id } (rule_mem_all _) (by assumption))

/-- a whole stream: every local reference seen so far is covered - its marker has been registered,
    or it is on the list of references still waiting for their marker -/
theorem run_covers (env : Env) (htbl : env.tbl = Model.ruleTable) : ∀ (evs : List Ev) (s : RState) (i : Nat),
    (run env s evs i).2.1 = none →
    (∀ x, covers s x → covers (run env s evs i).2.2 x) ∧
    ∀ id, Ev.refLocal id ∈ evs → covers (run env s evs i).2.2 id
  | [], s, i, _ => by simp [run]
  | e :: es, s, i, h => by
    simp only [run] at h ⊢
    cases hs : step env s e with
    | error err => simp [hs] at h
    | ok r =>
      obtain ⟨s1, fwd⟩ := r
      simp only [hs] at h ⊢
      obtain ⟨ih1, ih2⟩ := run_covers env htbl es s1 (i + 1) h
      have hmono := step_covers env s e (s1, fwd) hs
      refine ⟨fun x hx => ih1 x (hmono x hx), ?_⟩
      intro id hid
      rcases List.mem_cons.mp hid with rfl | hid
      · exact ih1 id (step_ref_covers env htbl s id (s1, fwd) hs)
      · exact ih2 id hid

end CE.Rules
namespace CE.Rules

def endHead : List Act → Bool
  | [.wrongType] => true
  | [.endDocument] => true
  | _ => false

theorem endHead_table : ∀ r ∈ Rule.all, endHead (Model.ruleTable r .onEndDocument) = true := by decide

/-- the end of the document is accepted only when no reference is still waiting for its marker -/
theorem step_endDoc_resolved (env : Env) (htbl : env.tbl = Model.ruleTable) (s : RState) (r : RState × List Ev)
    (h : step env s .endDoc = .ok r) : r.1.forward = [] ∧ r.1.marked = s.marked := by
  unfold step at h
  simp only [bind, Except.bind, pure, Except.pure, htbl] at h
  split at h
  · cases h
  · rename_i v hv
    injection h with h; subst h
    have ht := endHead_table s.cur.rule (rule_mem_all _)
    unfold call fuel0 at hv
    generalize Model.ruleTable s.cur.rule .onEndDocument = acts at hv ht
    match acts, ht with
    | [.wrongType], _ => simp [runActs, execAct] at hv
    | [.endDocument], _ =>
      by_cases hlen : s.forward.length > 0
      · simp [runActs, execAct, hlen] at hv
      · simp only [runActs, execAct, hlen, if_false] at hv
        injection hv with hv; subst hv
        refine ⟨?_, rfl⟩
        simp only [changeRule]
        exact List.eq_nil_of_length_eq_zero (by omega)

theorem run_append (env : Env) : ∀ (a b : List Ev) (s : RState) (i : Nat), (run env s (a ++ b) i).2.1 = none →
    (run env s a i).2.1 = none ∧
    (run env s (a ++ b) i).2.2 = (run env (run env s a i).2.2 b (i + a.length)).2.2 ∧
    (run env (run env s a i).2.2 b (i + a.length)).2.1 = none
  | [], b, s, i, h => by simpa [run] using h
  | e :: es, b, s, i, h => by
    simp only [List.cons_append, run] at h ⊢
    cases hs : step env s e with
    | error err => simp [hs] at h
    | ok r =>
      obtain ⟨s1, fwd⟩ := r
      simp only [hs] at h ⊢
      have := run_append env es b s1 (i + 1) h
      simp only [List.length_cons]
      have e1 : i + (es.length + 1) = i + 1 + es.length := by omega
      rw [e1]
      exact this

/-- EVERY LOCAL REFERENCE OF AN ACCEPTED DOCUMENT HAS ITS MARKER: if the validator accepts every event
    of a stream that ends with the end of the document, then the identifier of every local-reference
    event in it is among the markers the validator has registered when the document ends - whether
    the marker came before the reference or after it. -/
theorem accepted_references_have_markers (env : Env) (htbl : env.tbl = Model.ruleTable) (evs : List Ev)
    (h : (run env RState.init (evs ++ [.endDoc]) 0).2.1 = none) :
    ∀ id, Ev.refLocal id ∈ evs →
      id ∈ ((run env RState.init (evs ++ [.endDoc]) 0).2.2.marked.map (·.1)) := by
  obtain ⟨h1, h2, h3⟩ := run_append env evs [.endDoc] RState.init 0 h
  intro id hid
  have hcov := (run_covers env htbl evs RState.init 0 h1).2 id hid
  rw [h2]
  generalize (run env RState.init evs 0).2.2 = s1 at hcov h3 ⊢
  simp only [run] at h3 ⊢
  cases hs : step env s1 .endDoc with
  | error err => simp [hs] at h3
  | ok r =>
    obtain ⟨hf, hm⟩ := step_endDoc_resolved env htbl s1 r hs
    simp only [run]
    rw [hm]
    rcases hcov with hc | hc
    · exact hc
    · -- still waiting at the end of the document: impossible
      have hcall : ∀ x, covers s1 x → covers r.1 x := step_covers env s1 .endDoc r hs
      rcases hcall id (Or.inr hc) with h' | h'
      · rw [hm] at h'; exact h'
      · rw [hf] at h'; simp at h'

end CE.Rules

namespace CE.Rules

/-- the registered marker identifiers are pairwise distinct -/
def MarkersDistinct (s : RState) : Prop := (s.marked.map (·.1)).Nodup

theorem lookup_none_not_mem (l : List (Bytes × DT)) (id : Bytes) (h : (lookupForward l id).isSome = false) :
    id ∉ l.map (·.1) := by
  intro hm
  obtain ⟨p, hp, rfl⟩ := List.mem_map.mp hm
  unfold lookupForward at h
  have : (l.find? (fun q => q.1 == p.1)).isSome = true := by
    rw [List.find?_isSome]
    exact ⟨p, hp, by simp⟩
  cases hf : l.find? (fun q => q.1 == p.1) with
  | none => simp [hf] at this
  | some q => simp [hf] at h

theorem markObject_distinct (cfg : Cfg) (s s' : RState) (dt : DT) (h : markObject cfg s dt = .ok s')
    (hd : MarkersDistinct s) : MarkersDistinct s' := by
  unfold markObject at h
  simp only [bind, Except.bind, pure, Except.pure, throw, throwThe, MonadExceptOf.throw] at h
  split at h
  · cases h
  split at h
  · cases h
  rename_i hdup
  have hnot : s.markerID ∉ s.marked.map (·.1) := lookup_none_not_mem _ _ (by simpa using hdup)
  have key : ∀ f', MarkersDistinct { s with refCount := s.refCount + 1, marked := (s.markerID, dt) :: s.marked, forward := f' } := by
    intro f'
    unfold MarkersDistinct
    simp only [List.map_cons, List.nodup_cons]
    exact ⟨hnot, hd⟩
  split at h
  · injection h with h; subst h; exact key _
  · split at h
    · cases h
    · injection h with h; subst h; exact key _

theorem localReference_distinct (s s' : RState) (id : Bytes) (m : DT) (h : localReference s id m = .ok s')
    (hd : MarkersDistinct s) : MarkersDistinct s' := by
  unfold localReference at h
  split at h
  · split at h
    · cases h
    · injection h with h; subst h; exact hd
  · injection h with h; subst h; exact hd

theorem execAct_distinct (cfg : Cfg) (a : Act) (s : RState) (args : Args) (st : Step)
    (h : execAct cfg a s args = .ok st) (hd : MarkersDistinct s) : MarkersDistinct st.state := by
  rcases execAct_kinds cfg a s args st h with hs | ⟨dt, hm⟩ | ⟨id, m, hl⟩
  · unfold MarkersDistinct at *; rw [hs.1]; exact hd
  · exact markObject_distinct cfg _ _ _ hm hd
  · exact localReference_distinct _ _ _ _ hl hd

theorem runActs_distinct (tbl : RuleTable) (cfg : Cfg) : ∀ (fuel : Nat) (acts : List Act) (s : RState) (args : Args) (s' : RState),
    runActs tbl cfg fuel acts s args = .ok s' → MarkersDistinct s → MarkersDistinct s'
  | _, [], s, _, s', h, hd => by
    simp only [runActs] at h
    injection h with h; subst h; exact hd
  | 0, _ :: _, _, _, _, h, _ => by simp [runActs] at h
  | fuel + 1, a :: rest, s, args, s', h, hd => by
    simp only [runActs] at h
    cases he : execAct cfg a s args with
    | error e => simp [he] at h
    | ok st =>
      have hd1 := execAct_distinct cfg a s args st he hd
      simp only [he] at h
      cases st with
      | next s1 args1 =>
        simp only [] at h
        exact runActs_distinct tbl cfg fuel rest s1 args1 s' h hd1
      | ret s1 =>
        simp only [] at h
        injection h with h; subst h
        exact hd1
      | call s1 r m args1 thenRet =>
        simp only [] at h
        cases hc : runActs tbl cfg fuel (tbl r m) s1 args1 with
        | error e => simp [hc] at h
        | ok s2 =>
          simp only [hc] at h
          have h2 := runActs_distinct tbl cfg fuel (tbl r m) s1 args1 s2 hc hd1
          cases thenRet with
          | true =>
            simp only [if_true] at h
            injection h with h; subst h
            exact h2
          | false =>
            simp only [Bool.false_eq_true, if_false] at h
            exact runActs_distinct tbl cfg fuel rest s2 args s' h h2

theorem distinct_nno_call (tbl : RuleTable) (cfg : Cfg) (s s1 s2 : RState) (b : Bool) (m : Method) (args : Args)
    (h1 : notifyNewObject cfg s b = .ok s1) (h2 : call tbl cfg s1 m args = .ok s2) (hd : MarkersDistinct s) :
    MarkersDistinct s2 := by
  have : MarkersDistinct s1 := by unfold MarkersDistinct at *; rw [(nno_same cfg s s1 b h1).1]; exact hd
  exact runActs_distinct tbl cfg _ _ s1 args s2 h2 this

theorem step_distinct (env : Env) (s : RState) (e : Ev) (r : RState × List Ev) (h : step env s e = .ok r)
    (hd : MarkersDistinct s) : MarkersDistinct r.1 := by
  unfold step at h
  cases e
  all_goals simp only [bind, Except.bind, pure, Except.pure, throw, throwThe, MonadExceptOf.throw] at h
  all_goals repeat' (split at h)
  all_goals first
    | (cases h; done)
    | (injection h with h; subst h
       first
         | exact distinct_nno_call _ _ _ _ _ _ _ _ (by assumption) (by assumption) hd
         | exact runActs_distinct _ _ _ _ _ _ _ (by assumption) hd)

/-- NO MARKER IDENTIFIER IS REGISTERED TWICE, in any state the validator reaches on any stream -/
theorem run_distinct (env : Env) : ∀ (evs : List Ev) (s : RState) (i : Nat), MarkersDistinct s →
    MarkersDistinct (run env s evs i).2.2
  | [], s, i, hd => by simpa [run] using hd
  | e :: es, s, i, hd => by
    simp only [run]
    cases hs : step env s e with
    | error err => simpa using hd
    | ok r =>
      obtain ⟨s1, fwd⟩ := r
      simp only []
      exact run_distinct env es s1 (i + 1) (step_distinct env s e (s1, fwd) hs hd)

end CE.Rules
