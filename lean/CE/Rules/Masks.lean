import CE.Rules.PendingDistinct
/-
  C13, type masks over whole documents: a local reference that the validator accepts in a position with
  mask m (key positions: the keyable mask; everywhere else: any) names, in every accepted document, a
  marker whose registered type is inside m (`accepted_reference_types_fit`) - whether the marker came
  before the reference or after it.  Invariant over `run` (same layering as CE/Rules/Markers.lean):
  "x is covered for mask m" = x is registered with a type inside m, or x is waiting with a mask inside m;
  every statement kind preserves it (the waiting mask only narrows; registering checks the type against
  it), an accepted reference establishes it, and the document ends only with nothing waiting.
  The only masks references are recorded with are `any` and `keyable` (`execAct_kinds2`), keyable ⊆ any:
  that is what keeps a waiting mask from ever narrowing to 0, which the code would read as "not waiting".
-/
namespace CE.Rules

/-- the two masks a local reference is ever recorded with -/
def MaskOK (m : DT) : Prop := m = Mask.any.bits ∨ m = Mask.keyable.bits

theorem K_and_A : Mask.keyable.bits &&& Mask.any.bits = Mask.keyable.bits := by decide
theorem A_ne : Mask.any.bits ≠ 0 := by decide
theorem K_ne : Mask.keyable.bits ≠ 0 := by decide

theorem maskOK_ne {m : DT} (h : MaskOK m) : m ≠ 0 := by
  rcases h with h | h
  · subst h; exact A_ne
  · subst h; exact K_ne

theorem maskOK_and {w a : DT} (hw : MaskOK w) (ha : MaskOK a) : MaskOK (w &&& a) := by
  rcases hw with hw | hw <;> rcases ha with ha | ha <;> subst hw <;> subst ha
  · left; exact Nat.and_self _
  · right; rw [Nat.and_comm]; exact K_and_A
  · right; exact K_and_A
  · right; exact Nat.and_self _

theorem execAct_kinds2 (cfg : Cfg) (a : Act) (s : RState) (args : Args) (st : Step)
    (h : execAct cfg a s args = .ok st) :
    SameRefs s st.state ∨ (∃ dt, markObject cfg s dt = .ok st.state) ∨
      (∃ id m, MaskOK m ∧ localReference s id m = .ok st.state) := by
  cases a
  case localRefKeyable =>
    simp only [execAct, bind, Except.bind, pure, Except.pure] at h
    cases hl : localReference s args.id Mask.keyable.bits with
    | error e => simp [hl] at h
    | ok s1 => simp only [hl] at h; injection h with h; subst h; exact Or.inr (Or.inr ⟨_, _, Or.inr rfl, hl⟩)
  case localRefAny =>
    simp only [execAct, bind, Except.bind, pure, Except.pure] at h
    cases hl : localReference s args.id Mask.any.bits with
    | error e => simp [hl] at h
    | ok s1 => simp only [hl] at h; injection h with h; subst h; exact Or.inr (Or.inr ⟨_, _, Or.inl rfl, hl⟩)
  case markObject src =>
    simp only [execAct, actMarkObject, bind, Except.bind, pure, Except.pure] at h
    split at h
    · cases h
    · rename_i v hm
      injection h with h; subst h
      exact Or.inr (Or.inl ⟨_, hm⟩)
  all_goals left
  case wrongType => simp [execAct] at h
  case unknown => simp [execAct] at h
  case changeRule r => simp only [execAct] at h; injection h with h; subst h; exact ⟨rfl, rfl, rfl⟩
  case beginList =>
    simp only [execAct, bind, Except.bind, pure, Except.pure] at h
    split at h
    · cases h
    · rename_i v hv; injection h with h; subst h; exact beginContainer_same _ _ _ _ _ _ hv
  case beginMap =>
    simp only [execAct, bind, Except.bind, pure, Except.pure] at h
    split at h
    · cases h
    · rename_i v hv; injection h with h; subst h; exact beginContainer_same _ _ _ _ _ _ hv
  case beginEdge =>
    simp only [execAct, bind, Except.bind, pure, Except.pure] at h
    split at h
    · cases h
    · rename_i v hv; injection h with h; subst h; exact beginContainer_same _ _ _ _ _ _ hv
  case beginNode =>
    simp only [execAct, bind, Except.bind, pure, Except.pure] at h
    split at h
    · cases h
    · rename_i v hv; injection h with h; subst h; exact beginContainer_same _ _ _ _ _ _ hv
  case beginRecordType =>
    simp only [execAct, actBeginRecordType, bind, Except.bind, pure, Except.pure] at h
    split at h
    · cases h
    split at h
    · cases h
    split at h
    · cases h
    · rename_i v hv; injection h with h; subst h
      exact same_trans (beginContainer_same _ _ _ _ _ _ hv) ⟨rfl, rfl, rfl⟩
  case beginRecord =>
    simp only [execAct, actBeginRecord, bind, Except.bind, pure, Except.pure] at h
    split at h
    · cases h
    · split at h
      · cases h
      · rename_i v hv; injection h with h; subst h; exact beginContainer_same _ _ _ _ _ _ hv
  case endDocument =>
    simp only [execAct] at h
    split at h
    · cases h
    · injection h with h; subst h; exact ⟨rfl, rfl, rfl⟩
  case checkVersion =>
    simp only [execAct] at h
    split at h
    · cases h
    · injection h with h; subst h; exact ⟨rfl, rfl, rfl⟩
  case notifyKey =>
    simp only [execAct, actNotifyKey, bind, Except.bind, pure, Except.pure] at h
    split at h
    · split at h
      · cases h
      · rename_i v hv; injection h with h; subst h; exact notifyKey_same _ _ _ hv
    · injection h with h; subst h; exact ⟨rfl, rfl, rfl⟩
  case notifyKeyOfArray =>
    simp only [execAct, actNotifyKeyOfArray, bind, Except.bind, pure, Except.pure] at h
    split at h
    · split at h
      · cases h
      · rename_i v hv; injection h with h; subst h; exact notifyKey_same _ _ _ hv
    · injection h with h; subst h; exact ⟨rfl, rfl, rfl⟩
  case notifyKeyOfBuilt =>
    simp only [execAct, actNotifyKeyOfBuilt, bind, Except.bind, pure, Except.pure] at h
    split at h
    · split at h
      · cases h
      · rename_i v hv; injection h with h; subst h; exact notifyKey_same _ _ _ hv
    · split at h
      · split at h
        · cases h
        · rename_i v hv; injection h with h; subst h; exact notifyKey_same _ _ _ hv
      · injection h with h; subst h; exact ⟨rfl, rfl, rfl⟩
  case beginMarkerKeyable m =>
    simp only [execAct, actBeginMarkerKeyable] at h; injection h with h; subst h; exact ⟨rfl, rfl, rfl⟩
  case beginMarkerAny m =>
    simp only [execAct, actBeginMarkerAny] at h; injection h with h; subst h; exact ⟨rfl, rfl, rfl⟩
  case unstack =>
    simp only [execAct, bind, Except.bind, pure, Except.pure] at h
    split at h
    · cases h
    · rename_i v hv; injection h with h; subst h; exact unstackRule_same _ _ hv
  case redispatch m ek => simp only [execAct] at h; injection h with h; subst h; exact ⟨rfl, rfl, rfl⟩
  case restoreMarkerID => simp only [execAct] at h; injection h with h; subst h; exact ⟨rfl, rfl, rfl⟩
  case addFirst => simp only [execAct] at h; injection h with h; subst h; exact ⟨rfl, rfl, rfl⟩
  case addNext => simp only [execAct] at h; injection h with h; subst h; exact ⟨rfl, rfl, rfl⟩
  case addBuiltData => simp only [execAct] at h; injection h with h; subst h; exact ⟨rfl, rfl, rfl⟩
  case parentDispatch m =>
    simp only [execAct, actParentDispatch, bind, Except.bind, pure, Except.pure] at h
    split at h
    · cases h
    · injection h with h; subst h; exact ⟨rfl, rfl, rfl⟩
  case lookupArrayDataType =>
    simp only [execAct, actLookupArrayDataType] at h
    split at h
    · cases h
    · injection h with h; subst h; exact ⟨rfl, rfl, rfl⟩
  case markCompletedChunk =>
    simp only [execAct, actMarkCompletedChunk] at h
    split at h
    · cases h
    · injection h with h; subst h; exact ⟨rfl, rfl, rfl⟩
  case beginArrayAny =>
    simp only [execAct, bind, Except.bind, pure, Except.pure] at h
    split at h
    · cases h
    · rename_i v hv; injection h with h; subst h; exact beginArrayAny_same _ _ _ _ hv
  case validateFullAny =>
    simp only [execAct, bind, Except.bind, pure, Except.pure] at h
    split at h
    · cases h
    · injection h with h; subst h; exact ⟨rfl, rfl, rfl⟩
  case validateFullStringlike =>
    simp only [execAct, bind, Except.bind, pure, Except.pure] at h
    split at h
    · cases h
    · injection h with h; subst h; exact ⟨rfl, rfl, rfl⟩
  case assertArrayType m =>
    simp only [execAct, bind, Except.bind, pure, Except.pure] at h
    split at h
    · cases h
    · injection h with h; subst h; exact ⟨rfl, rfl, rfl⟩
  case validateFullKeyable =>
    simp only [execAct, actValidateFullKeyable, bind, Except.bind, pure, Except.pure] at h
    split at h
    · cases h
    · split at h
      · cases h
      · injection h with h; subst h; exact ⟨rfl, rfl, rfl⟩
  case validateFullStringlikeKeyable =>
    simp only [execAct, actValidateFullStringlikeKeyable, bind, Except.bind, pure, Except.pure] at h
    split at h
    · cases h
    · split at h
      · cases h
      · injection h with h; subst h; exact ⟨rfl, rfl, rfl⟩
  case beginArrayKeyable =>
    simp only [execAct, actBeginArrayKeyable, bind, Except.bind, pure, Except.pure] at h
    split at h
    · cases h
    · split at h
      · cases h
      · rename_i v hv; injection h with h; subst h; exact beginArrayAny_same _ _ _ _ hv
  case validateFirst =>
    simp only [execAct, bind, Except.bind, pure, Except.pure] at h
    split at h
    · cases h
    · injection h with h; subst h; exact ⟨rfl, rfl, rfl⟩
  case validateNext =>
    simp only [execAct, bind, Except.bind, pure, Except.pure] at h
    split at h
    · cases h
    · injection h with h; subst h; exact ⟨rfl, rfl, rfl⟩
  case zeroChunkReturn =>
    simp only [execAct, actZeroChunkReturn] at h
    split at h
    · split at h
      · injection h with h; subst h; exact ⟨rfl, rfl, rfl⟩
      · exact leaveArray_same _ _ _ _ h
    · injection h with h; subst h; exact ⟨rfl, rfl, rfl⟩
  case beginChunk k =>
    simp only [execAct, actBeginChunk] at h
    split at h
    · cases h
    · split at h
      · injection h with h; subst h; exact ⟨rfl, rfl, rfl⟩
      · cases h
  case endChunkIfComplete k =>
    simp only [execAct, actEndChunkIfComplete] at h
    split at h
    · split at h
      · split at h
        · injection h with h; subst h; exact ⟨rfl, rfl, rfl⟩
        · exact leaveArray_same _ _ _ _ h
      · split at h
        · cases h
        · split at h
          · injection h with h; subst h; exact ⟨rfl, rfl, rfl⟩
          · exact leaveArray_same _ _ _ _ h
    · injection h with h; subst h; exact ⟨rfl, rfl, rfl⟩
  case streamStringData =>
    simp only [execAct, actStreamStringData, bind, Except.bind, pure, Except.pure, streamStringData_eq] at h
    split at h
    · cases h
    · rename_i v hv
      injection h with h; subst h
      cases hr : Utf8.sraw s.utf8Rem args.data with
      | none => simp [hr] at hv
      | some rfn =>
        obtain ⟨r, f, n⟩ := rfn
        simp only [hr] at hv
        injection hv with hv; subst hv
        exact ⟨rfl, rfl, rfl⟩
  case endContainer notify =>
    simp only [execAct, actEndContainer, bind, Except.bind, pure, Except.pure, throw, throwThe, MonadExceptOf.throw] at h
    repeat' (split at h)
    all_goals first
      | (cases h; done)
      | (injection h with h; subst h
         first
           | exact unstack_depth_same _ _ _ (by assumption)
           | exact same_trans (ite_ok_same _ _ _ _ _ (by assumption)) (unstack_depth_same _ _ _ (by assumption)))



theorem lookup_cons_self (l : List (Bytes × DT)) (id : Bytes) (dt : DT) : lookupForward ((id, dt) :: l) id = some dt := by
  simp [lookupForward, List.find?]

theorem lookup_filter_ne (l : List (Bytes × DT)) (id x : Bytes) (hne : (id == x) = false) :
    lookupForward (l.filter (·.1 != id)) x = lookupForward l x := by
  induction l with
  | nil => rfl
  | cons p l ih =>
    obtain ⟨k, v⟩ := p
    by_cases hk : (k == id) = true
    · have hkid : k = id := eq_of_beq hk
      subst hkid
      have : (List.filter (fun q : Bytes × DT => q.1 != k) ((k, v) :: l)) = List.filter (fun q : Bytes × DT => q.1 != k) l := by
        simp [List.filter_cons]
      rw [this, ih, lookup_cons_ne _ _ _ _ hne]
    · simp only [Bool.not_eq_true] at hk
      have : (List.filter (fun q : Bytes × DT => q.1 != id) ((k, v) :: l)) = (k, v) :: List.filter (fun q : Bytes × DT => q.1 != id) l := by
        have hkne : k ≠ id := fun e => by subst e; simp at hk
        simp [List.filter_cons, hkne]
      rw [this]
      cases hkx : (k == x) with
      | true =>
        have : k = x := eq_of_beq hkx
        subst this
        rw [lookup_cons_self, lookup_cons_self]
      | false => rw [lookup_cons_ne _ _ _ _ hkx, lookup_cons_ne _ _ _ _ hkx, ih]

theorem lookup_pair_mem (l : List (Bytes × DT)) (x : Bytes) (w : DT) (h : lookupForward l x = some w) : ∃ p ∈ l, p.2 = w := by
  simp only [lookupForward, Option.map_eq_some_iff] at h
  obtain ⟨p, hp, hpw⟩ := h
  exact ⟨p, List.mem_of_find?_eq_some hp, hpw⟩

/-- every waiting reference waits with one of the two masks -/
def WInv (s : RState) : Prop := ∀ p ∈ s.forward, MaskOK p.2

/-- identifier x is covered for mask m: registered with a type inside m, or waiting with a mask inside m -/
def tcov (s : RState) (x : Bytes) (m : DT) : Prop :=
  (∃ dt, lookupForward s.marked x = some dt ∧ dt &&& m ≠ 0) ∨
  (lookupForward s.marked x = none ∧ ∃ w, lookupForward s.forward x = some w ∧ w &&& m = w)

/-- from s to s': the waiting masks stay the two known ones and mask coverage is kept -/
def TMono (s s' : RState) : Prop := WInv s → (WInv s' ∧ ∀ x m, tcov s x m → tcov s' x m)

theorem tmono_refl (s : RState) : TMono s s := fun h => ⟨h, fun _ _ hx => hx⟩
theorem tmono_trans {a b c : RState} (h1 : TMono a b) (h2 : TMono b c) : TMono a c := fun h =>
  ⟨(h2 (h1 h).1).1, fun x m hx => (h2 (h1 h).1).2 x m ((h1 h).2 x m hx)⟩

theorem sameRefs_t {s s' : RState} (h : SameRefs s s') : TMono s s' := by
  intro hw
  unfold WInv tcov at *
  rw [h.1, h.2.1]
  exact ⟨hw, fun _ _ hx => hx⟩

theorem same_fields_t {s s' : RState} (h1 : s'.marked = s.marked) (h2 : s'.forward = s.forward) : TMono s s' := by
  intro hw
  unfold WInv tcov at *
  rw [h1, h2]
  exact ⟨hw, fun _ _ hx => hx⟩

theorem ne_of_lookups {l : List (Bytes × DT)} {id x : Bytes} (h1 : lookupForward l id = none) {d : DT} (h2 : lookupForward l x = some d) :
    (id == x) = false := by
  cases hb : (id == x) with
  | false => rfl
  | true => have := eq_of_beq hb; subst this; rw [h1] at h2; cases h2

theorem markObject_t (cfg : Cfg) (s s' : RState) (dt : DT) (h : markObject cfg s dt = .ok s') : TMono s s' := by
  intro hw
  unfold markObject at h
  simp only [bind, Except.bind, pure, Except.pure, throw, throwThe, MonadExceptOf.throw] at h
  split at h
  · cases h
  split at h
  · cases h
  rename_i hdup
  have hmnone : lookupForward s.marked s.markerID = none := by
    cases hx : lookupForward s.marked s.markerID with
    | none => rfl
    | some v => simp [hx] at hdup
  split at h
  · rename_i hfnone
    injection h with h; subst h
    refine ⟨hw, ?_⟩
    intro x m hx
    rcases hx with ⟨d, hd, hdm⟩ | ⟨hn, w, hwx, hwm⟩
    · exact Or.inl ⟨d, by simpa [lookup_cons_ne _ _ _ _ (ne_of_lookups hmnone hd)] using hd, hdm⟩
    · have hne := ne_of_lookups hfnone hwx
      exact Or.inr ⟨by simpa [lookup_cons_ne _ _ _ _ hne] using hn, w, hwx, hwm⟩
  · rename_i allowed hfsome
    split at h
    · cases h
    · rename_i hchk
      injection h with h; subst h
      refine ⟨fun p hp => hw p (List.mem_filter.1 hp).1, ?_⟩
      intro x m hx
      rcases hx with ⟨d, hd, hdm⟩ | ⟨hn, w, hwx, hwm⟩
      · exact Or.inl ⟨d, by simpa [lookup_cons_ne _ _ _ _ (ne_of_lookups hmnone hd)] using hd, hdm⟩
      · cases hb : (s.markerID == x) with
        | true =>
          have := eq_of_beq hb; subst this
          rw [hfsome] at hwx; injection hwx with hwx; subst hwx
          refine Or.inl ⟨dt, lookup_cons_self _ _ _, ?_⟩
          intro hz
          apply hchk
          have : allowed &&& dt = allowed &&& (dt &&& m) := by
            rw [Nat.and_comm dt m, ← Nat.and_assoc, hwm]
          rw [this, hz, Nat.and_zero]
        | false =>
          refine Or.inr ⟨by simpa [lookup_cons_ne _ _ _ _ hb] using hn, w, ?_, hwm⟩
          show lookupForward (List.filter (fun q : Bytes × DT => q.1 != s.markerID) s.forward) x = some w
          rw [lookup_filter_ne _ _ _ hb]; exact hwx


theorem localReference_t (s s' : RState) (id : Bytes) (a : DT) (ha : MaskOK a) (h : localReference s id a = .ok s') :
    TMono s s' ∧ (WInv s → tcov s' id a) := by
  unfold localReference at h
  split at h
  · rename_i d hd
    split at h
    · cases h
    · rename_i hchk
      injection h with h; subst h
      exact ⟨tmono_refl _, fun _ => Or.inl ⟨d, hd, hchk⟩⟩
  · rename_i hnone
    injection h with h; subst h
    -- the mask the id waits with afterwards
    have hnw : WInv s → MaskOK (if (lookupForward s.forward id).getD 0 = 0 then a else (lookupForward s.forward id).getD 0 &&& a) := by
      intro hw
      split
      · exact ha
      · rename_i hc
        cases hl : lookupForward s.forward id with
        | none => simp [hl] at hc
        | some w =>
          obtain ⟨p, hp, hpw⟩ := lookup_pair_mem _ _ _ hl
          simp only [Option.getD_some]
          exact maskOK_and (hpw ▸ hw p hp) ha
    have hnwa : (if (lookupForward s.forward id).getD 0 = 0 then a else (lookupForward s.forward id).getD 0 &&& a) &&& a
        = (if (lookupForward s.forward id).getD 0 = 0 then a else (lookupForward s.forward id).getD 0 &&& a) := by
      split
      · exact Nat.and_self _
      · rw [Nat.and_assoc, Nat.and_self]
    refine ⟨?_, fun _ => Or.inr ⟨hnone, _, lookup_cons_self _ _ _, hnwa⟩⟩
    intro hw
    refine ⟨?_, ?_⟩
    · intro p hp
      rcases List.mem_cons.1 hp with hp | hp
      · subst hp; exact hnw hw
      · exact hw p (List.mem_filter.1 hp).1
    · intro x m hx
      rcases hx with ⟨d, hd, hdm⟩ | ⟨hn, w, hwx, hwm⟩
      · exact Or.inl ⟨d, hd, hdm⟩
      · cases hb : (id == x) with
        | true =>
          have := eq_of_beq hb; subst this
          refine Or.inr ⟨hn, _, lookup_cons_self _ _ _, ?_⟩
          obtain ⟨p, hp, hpw⟩ := lookup_pair_mem _ _ _ hwx
          have hw0 : w ≠ 0 := maskOK_ne (hpw ▸ hw p hp)
          simp only [hwx, Option.getD_some, hw0, if_false]
          rw [Nat.and_assoc, Nat.and_comm a m, ← Nat.and_assoc, hwm]
        | false =>
          refine Or.inr ⟨hn, w, ?_, hwm⟩
          show lookupForward ((id, _) :: List.filter (fun q : Bytes × DT => q.1 != id) s.forward) x = some w
          rw [lookup_cons_ne _ _ _ _ hb, lookup_filter_ne _ _ _ hb]; exact hwx

/-- every statement kind keeps mask coverage -/
theorem execAct_t (cfg : Cfg) (a : Act) (s : RState) (args : Args) (st : Step)
    (h : execAct cfg a s args = .ok st) : TMono s st.state := by
  rcases execAct_kinds2 cfg a s args st h with hs | ⟨dt, hm⟩ | ⟨id, m, hmk, hl⟩
  · exact sameRefs_t hs
  · exact markObject_t cfg _ _ _ hm
  · exact (localReference_t _ _ _ _ hmk hl).1

/-- running any statement list, nested rule calls included, keeps mask coverage -/
theorem runActs_t (tbl : RuleTable) (cfg : Cfg) : ∀ (fuel : Nat) (acts : List Act) (s : RState) (args : Args) (s' : RState),
    runActs tbl cfg fuel acts s args = .ok s' → TMono s s'
  | _, [], s, _, s', h => by
    simp only [runActs] at h
    injection h with h; subst h; exact tmono_refl _
  | 0, _ :: _, _, _, _, h => by simp [runActs] at h
  | fuel + 1, a :: rest, s, args, s', h => by
    simp only [runActs] at h
    cases he : execAct cfg a s args with
    | error e => simp [he] at h
    | ok st =>
      have hcov := execAct_t cfg a s args st he
      simp only [he] at h
      cases st with
      | next s1 args1 =>
        simp only [] at h
        exact tmono_trans hcov (runActs_t tbl cfg fuel rest s1 args1 s' h)
      | ret s1 =>
        simp only [] at h
        injection h with h; subst h
        exact hcov
      | call s1 r m args1 thenRet =>
        simp only [] at h
        cases hc : runActs tbl cfg fuel (tbl r m) s1 args1 with
        | error e => simp [hc] at h
        | ok s2 =>
          simp only [hc] at h
          have h2 := runActs_t tbl cfg fuel (tbl r m) s1 args1 s2 hc
          cases thenRet with
          | true =>
            simp only [if_true] at h
            injection h with h; subst h
            exact tmono_trans hcov h2
          | false =>
            simp only [Bool.false_eq_true, if_false] at h
            exact tmono_trans hcov (tmono_trans h2 (runActs_t tbl cfg fuel rest s2 args s' h))

theorem call_t (tbl : RuleTable) (cfg : Cfg) (s : RState) (m : Method) (args : Args) (s' : RState)
    (h : call tbl cfg s m args = .ok s') : TMono s s' :=
  runActs_t tbl cfg _ _ s args s' h

theorem nno_t (cfg : Cfg) (s s' : RState) (b : Bool) (h : notifyNewObject cfg s b = .ok s') : TMono s s' :=
  have hn := nno_same cfg s s' b h
  same_fields_t hn.1 hn.2

theorem tmono_nno_call (tbl : RuleTable) (cfg : Cfg) (s s1 s2 : RState) (b : Bool) (m : Method) (args : Args)
    (h1 : notifyNewObject cfg s b = .ok s1) (h2 : call tbl cfg s1 m args = .ok s2) : TMono s s2 :=
  tmono_trans (nno_t cfg s s1 b h1) (call_t tbl cfg s1 m args s2 h2)

/-- one event keeps mask coverage -/
theorem step_t (env : Env) (s : RState) (e : Ev) (r : RState × List Ev) (h : step env s e = .ok r) : TMono s r.1 := by
  unfold step at h
  cases e
  all_goals simp only [bind, Except.bind, pure, Except.pure, throw, throwThe, MonadExceptOf.throw] at h
  all_goals repeat' (split at h)
  all_goals first
    | (cases h; done)
    | (injection h with h; subst h
       first
         | exact tmono_nno_call _ _ _ _ _ _ _ _ (by assumption) (by assumption)
         | exact call_t _ _ _ _ _ _ (by assumption))


/-- mask of the position a reference is in: what the current rule's OnReferenceLocal records it with -/
def refMask : List Act → Option DT
  | .localRefAny :: _ => some Mask.any.bits
  | .localRefKeyable :: _ => some Mask.keyable.bits
  | _ => none

theorem nno_rule (cfg : Cfg) (s s' : RState) (b : Bool) (h : notifyNewObject cfg s b = .ok s') : s'.cur.rule = s.cur.rule := by
  unfold notifyNewObject at h
  simp only [bind, Except.bind, pure, Except.pure, throw, throwThe, MonadExceptOf.throw] at h
  repeat' (split at h)
  all_goals first
    | (cases h; done)
    | (injection h with h; subst h; rfl)

/-- an accepted local-reference event leaves its identifier covered for the mask of its position -/
theorem call_ref_t (cfg : Cfg) (s s' : RState) (args : Args) (m : DT)
    (hm : refMask (Model.ruleTable s.cur.rule .onReferenceLocal) = some m)
    (h : call Model.ruleTable cfg s .onReferenceLocal args = .ok s') (hw : WInv s) : WInv s' ∧ tcov s' args.id m := by
  unfold call fuel0 at h
  generalize Model.ruleTable s.cur.rule .onReferenceLocal = acts at h hm
  match acts, hm with
  | .localRefAny :: rest, hm =>
    simp only [refMask] at hm; injection hm with hm; subst hm
    simp only [runActs, execAct, bind, Except.bind, pure, Except.pure] at h
    cases hl : localReference s args.id Mask.any.bits with
    | error e => simp [hl] at h
    | ok s1 =>
      simp only [hl] at h
      have hlr := localReference_t _ _ _ _ (Or.inl rfl) hl
      have hrest := runActs_t _ _ _ _ _ _ _ h (hlr.1 hw).1
      exact ⟨hrest.1, hrest.2 _ _ (hlr.2 hw)⟩
  | .localRefKeyable :: rest, hm =>
    simp only [refMask] at hm; injection hm with hm; subst hm
    simp only [runActs, execAct, bind, Except.bind, pure, Except.pure] at h
    cases hl : localReference s args.id Mask.keyable.bits with
    | error e => simp [hl] at h
    | ok s1 =>
      simp only [hl] at h
      have hlr := localReference_t _ _ _ _ (Or.inr rfl) hl
      have hrest := runActs_t _ _ _ _ _ _ _ h (hlr.1 hw).1
      exact ⟨hrest.1, hrest.2 _ _ (hlr.2 hw)⟩

theorem nno_call_ref_t (cfg : Cfg) (s s1 s2 : RState) (b : Bool) (id : Bytes) (m : DT)
    (h1 : notifyNewObject cfg s b = .ok s1)
    (h2 : call Model.ruleTable cfg s1 .onReferenceLocal { id := id } = .ok s2)
    (hm : refMask (Model.ruleTable s.cur.rule .onReferenceLocal) = some m) (hw : WInv s) : WInv s2 ∧ tcov s2 id m :=
  call_ref_t cfg s1 s2 { id := id } m (by rw [nno_rule cfg s s1 b h1]; exact hm) h2 (nno_t cfg s s1 b h1 hw).1

theorem step_ref_t (env : Env) (htbl : env.tbl = Model.ruleTable) (s : RState) (id : Bytes) (m : DT) (r : RState × List Ev)
    (hm : refMask (Model.ruleTable s.cur.rule .onReferenceLocal) = some m) (hw : WInv s)
    (h : step env s (.refLocal id) = .ok r) : WInv r.1 ∧ tcov r.1 id m := by
  unfold step at h
  simp only [bind, Except.bind, pure, Except.pure, htbl] at h
  repeat' (split at h)
  all_goals first
    | (cases h; done)
    | (injection h with h; subst h
       exact nno_call_ref_t _ _ _ _ _ _ _ (by assumption) (by assumption) hm hw)

/-- a whole accepted stream keeps mask coverage -/
theorem run_t (env : Env) : ∀ (evs : List Ev) (s : RState) (i : Nat), (run env s evs i).2.1 = none → TMono s (run env s evs i).2.2
  | [], s, i, _ => by simpa [run] using tmono_refl s
  | e :: es, s, i, h => by
    simp only [run] at h ⊢
    cases hs : step env s e with
    | error err => simp [hs] at h
    | ok r =>
      obtain ⟨s1, fwd⟩ := r
      simp only [hs] at h ⊢
      exact tmono_trans (step_t env s e (s1, fwd) hs) (run_t env es s1 (i + 1) h)

/-- THE TYPE OF EVERY REFERENCED OBJECT FITS THE POSITION OF THE REFERENCE: if the validator accepts a whole
    document in which a local reference to `id` stands in a position whose rule records references with
    mask m (key positions: keyable; elsewhere: any), then at the end `id` is registered with a type inside m -
    whether its marker came before the reference or after it. -/
theorem accepted_reference_types_fit (env : Env) (htbl : env.tbl = Model.ruleTable) (a b : List Ev) (id : Bytes) (m : DT)
    (h : (run env RState.init (a ++ (Ev.refLocal id :: (b ++ [Ev.endDoc]))) 0).2.1 = none)
    (hm : refMask (Model.ruleTable (run env RState.init a 0).2.2.cur.rule .onReferenceLocal) = some m) :
    ∃ dt, lookupForward (run env RState.init (a ++ (Ev.refLocal id :: (b ++ [Ev.endDoc]))) 0).2.2.marked id = some dt ∧ dt &&& m ≠ 0 := by
  obtain ⟨h1, h2, h3⟩ := run_append env a (Ev.refLocal id :: (b ++ [Ev.endDoc])) RState.init 0 h
  have hwa : WInv (run env RState.init a 0).2.2 :=
    (run_t env a RState.init 0 h1 (by intro p hp; simp [RState.init] at hp)).1
  rw [h2]
  generalize (run env RState.init a 0).2.2 = sa at hm hwa h3 ⊢
  generalize 0 + a.length = i at h3 ⊢
  simp only [run] at h3 ⊢
  cases hs : step env sa (.refLocal id) with
  | error err => simp [hs] at h3
  | ok r1 =>
    obtain ⟨s1, fwd1⟩ := r1
    simp only [hs] at h3 ⊢
    obtain ⟨hw1, hc1⟩ := step_ref_t env htbl sa id m (s1, fwd1) hm hwa hs
    obtain ⟨g1, g2, g3⟩ := run_append env b [Ev.endDoc] s1 (i + 1) h3
    rw [g2]
    obtain ⟨hwb, hcb⟩ := run_t env b s1 (i + 1) g1 hw1
    have hcb' := hcb id m hc1
    generalize (run env s1 b (i + 1)).2.2 = sb at hwb hcb' g3 ⊢
    generalize i + 1 + b.length = j at g3 ⊢
    simp only [run] at g3 ⊢
    cases hs2 : step env sb .endDoc with
    | error err => simp [hs2] at g3
    | ok r2 =>
      simp only [hs2]
      obtain ⟨hf, _⟩ := step_endDoc_resolved env htbl sb r2 hs2
      rcases (step_t env sb .endDoc r2 hs2 hwb).2 id m hcb' with hd | ⟨_, w, hwx, _⟩
      · exact hd
      · rw [hf] at hwx; simp [lookupForward] at hwx

end CE.Rules
