import CE.Event
import CE.Basic.Float
/-
  Structural measures of a (valid) event stream for C14, and the expected forwarding of C15,
  both defined directly on events, independently of the validator model.
-/
namespace CE.Spec

structure Usage where
  depth : Nat := 0
  objects : Nat := 0
  array : Nat := 0
  id : Nat := 0
  markers : Nat := 0
deriving DecidableEq, Repr, Inhabited

/-- (current depth, current array bytes, element bits) threaded through the stream -/
def measureFrom : List Ev → Nat → Nat → Nat → Usage → Usage
  | [], _, _, _, u => u
  | e :: es, d, arr, bits, u =>
    let obj (u : Usage) : Usage := { u with objects := u.objects + 1 }
    let idl (u : Usage) (id : Bytes) : Usage := { u with id := max u.id id.length }
    let whole (u : Usage) (n : Nat) : Usage := { u with array := max u.array n }
    match e with
    | .list | .map | .edge | .node =>
      measureFrom es (d + 1) arr bits { obj u with depth := max u.depth (d + 1) }
    | .record id | .recordType id =>
      measureFrom es (d + 1) arr bits (idl { obj u with depth := max u.depth (d + 1) } id)
    | .endContainer => measureFrom es (d - 1) arr bits u
    | .beginDoc | .endDoc | .version _ | .padding | .comment _ _ | .arrayData _ => measureFrom es d arr bits u
    | .arrayChunk n _ =>
      let arr' := arr + elemsToBytes bits n
      measureFrom es d arr' bits { u with array := max u.array arr' }
    | .arrayBegin t => measureFrom es d 0 t.elemBits (obj u)
    | .mediaBegin _ | .customBegin _ _ => measureFrom es d 0 8 (obj u)
    | .marker id => measureFrom es d arr bits (idl { obj u with markers := u.markers + 1 } id)
    | .refLocal id => measureFrom es d arr bits (idl (obj u) id)
    | .array _ _ data | .stringlike _ data | .media _ data | .customBinary _ data | .customText _ data =>
      measureFrom es d arr bits (whole (obj u) data.length)
    | _ => measureFrom es d arr bits (obj u)

def measure (evs : List Ev) : Usage := measureFrom evs 0 0 8 {}

/-- C15: what the next receiver must see for an accepted event -/
def forwardOf : Ev → Ev
  | .bigInt none => .null
  | .bigFloat none => .null
  | .bigDecimal none => .null
  | .float b => if F.isNaN64 b then .nan (!F.quiet64 b) else .float b
  | .dfloat .nan => .nan false
  | .dfloat .snan => .nan true
  | .bigDecimal (some .nan) => .nan false
  | .bigDecimal (some .snan) => .nan true
  | e => e

end CE.Spec
