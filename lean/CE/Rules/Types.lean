import CE.Event
/-
  Validator (package rules): data types, rule names, event-rule methods and the action DSL
  into which the extractor (extract/) translates every EventRule method body of /repo.
-/
namespace CE.Rules

/-- `rules.DataType` is a bit mask; a single type is 2^k in the order of the Go `iota`. -/
abbrev DT := Nat

namespace DT
abbrev null : DT := 2 ^ 0
abbrev nan : DT := 2 ^ 1
abbrev bool : DT := 2 ^ 2
abbrev int : DT := 2 ^ 3
abbrev float : DT := 2 ^ 4
abbrev uid : DT := 2 ^ 5
abbrev time : DT := 2 ^ 6
abbrev list : DT := 2 ^ 7
abbrev map : DT := 2 ^ 8
abbrev recordType : DT := 2 ^ 9
abbrev record : DT := 2 ^ 10
abbrev edge : DT := 2 ^ 11
abbrev node : DT := 2 ^ 12
abbrev string : DT := 2 ^ 13
abbrev media : DT := 2 ^ 14
abbrev arrayBit : DT := 2 ^ 15
abbrev arrayU8 : DT := 2 ^ 16
abbrev arrayU16 : DT := 2 ^ 17
abbrev arrayU32 : DT := 2 ^ 18
abbrev arrayU64 : DT := 2 ^ 19
abbrev arrayI8 : DT := 2 ^ 20
abbrev arrayI16 : DT := 2 ^ 21
abbrev arrayI32 : DT := 2 ^ 22
abbrev arrayI64 : DT := 2 ^ 23
abbrev arrayF16 : DT := 2 ^ 24
abbrev arrayF32 : DT := 2 ^ 25
abbrev arrayF64 : DT := 2 ^ 26
abbrev arrayUID : DT := 2 ^ 27
abbrev customText : DT := 2 ^ 28
abbrev customBinary : DT := 2 ^ 29
abbrev marker : DT := 2 ^ 30
abbrev localReference : DT := 2 ^ 31
abbrev resourceID : DT := 2 ^ 32
abbrev remoteReference : DT := 2 ^ 33
abbrev comment : DT := 2 ^ 34
abbrev padding : DT := 2 ^ 35
abbrev invalid : DT := 0
end DT

/-- the `Allow*` masks of rules/generated-do-not-edit.go -/
inductive Mask | any | nonNull | keyable | markable | string | resourceID
deriving DecidableEq, Repr, Inhabited

/-- mask values as the model uses them (GenCheck equates them with the extracted constants) -/
def Mask.bits : Mask → Nat
  | .any => 2 ^ 36 - 1
  | .nonNull => 2 ^ 36 - 2
  | .keyable => DT.bool + DT.int + DT.float + DT.uid + DT.time + DT.string + DT.marker
                + DT.localReference + DT.resourceID + DT.comment + DT.padding
  | .markable => 2 ^ 36 - 1 - DT.recordType - DT.marker - DT.localReference - DT.remoteReference - DT.comment
  | .string => DT.string
  | .resourceID => DT.resourceID

/-- `arrayTypeToDataType`; `none` = index out of range (run-time panic) -/
def arrayDT : ArrT → Option DT
  | .invalid => some DT.invalid
  | .string => some DT.string
  | .rid => some DT.resourceID
  | .remoteRef => some DT.remoteReference
  | .customText => some DT.customText
  | .customBinary => some DT.customBinary
  | .bit => some DT.arrayBit
  | .u8 => some DT.arrayU8
  | .u16 => some DT.arrayU16
  | .u32 => some DT.arrayU32
  | .u64 => some DT.arrayU64
  | .i8 => some DT.arrayI8
  | .i16 => some DT.arrayI16
  | .i32 => some DT.arrayI32
  | .i64 => some DT.arrayI64
  | .f16 => some DT.arrayF16
  | .f32 => some DT.arrayF32
  | .f64 => some DT.arrayF64
  | .uid => some DT.arrayUID
  | .media => some DT.media
  | .mediaData => none

inductive Rule
  | beginDocument | endDocument | terminal | version | topLevel | list | mapKey | mapValue
  | recordType | record | array | arrayChunk | string | stringChunk | markedObjectKeyable
  | markedObjectAnyType | stringBuilder | stringBuilderChunk | edgeSource | edgeDescription
  | edgeDestination | node | awaitEnd
deriving DecidableEq, Repr, Inhabited

def Rule.all : List Rule :=
  [.beginDocument, .endDocument, .terminal, .version, .topLevel, .list, .mapKey, .mapValue,
   .recordType, .record, .array, .arrayChunk, .string, .stringChunk, .markedObjectKeyable,
   .markedObjectAnyType, .stringBuilder, .stringBuilderChunk, .edgeSource, .edgeDescription,
   .edgeDestination, .node, .awaitEnd]

/-- the 23 methods of the Go interface `EventRule` -/
inductive Method
  | onBeginDocument | onEndDocument | onChildContainerEnded | onVersion | onPadding | onComment
  | onKeyableObject | onNonKeyableObject | onNull | onList | onMap | onRecordType | onRecord
  | onEdge | onNode | onEnd | onMarker | onReferenceLocal | onArray | onStringlikeArray
  | onArrayBegin | onArrayChunk | onArrayData
deriving DecidableEq, Repr, Inhabited

def Method.all : List Method :=
  [.onBeginDocument, .onEndDocument, .onChildContainerEnded, .onVersion, .onPadding, .onComment,
   .onKeyableObject, .onNonKeyableObject, .onNull, .onList, .onMap, .onRecordType, .onRecord,
   .onEdge, .onNode, .onEnd, .onMarker, .onReferenceLocal, .onArray, .onStringlikeArray,
   .onArrayBegin, .onArrayChunk, .onArrayData]

inductive ObjSrc | objType | arrayDataType | cType | null
deriving DecidableEq, Repr, Inhabited

inductive ChunkKind | any | string | stringBuilder
deriving DecidableEq, Repr, Inhabited

/-- one statement of an EventRule method body -/
inductive Act
  | wrongType
  | changeRule (r : Rule)
  | beginList | beginMap | beginEdge | beginNode | beginRecord | beginRecordType
  | endContainer (notifyParent : Bool)
  | endDocument
  | checkVersion
  | notifyKey | notifyKeyOfArray | notifyKeyOfBuilt
  | beginMarkerKeyable (m : Mask) | beginMarkerAny (m : Mask)
  | localRefKeyable | localRefAny
  | validateFullAny | validateFullStringlike | validateFullKeyable | validateFullStringlikeKeyable
  | assertArrayType (m : Mask)
  | beginArrayAny | beginArrayKeyable
  | unstack
  | redispatch (m : Method) (emptyKey : Bool)      -- ctx.CurrentEntry.Rule.OnX(ctx, …)
  | parentDispatch (m : Method)                    -- ctx.ParentRule().OnX(ctx, …)
  | lookupArrayDataType                            -- dataType := arrayTypeToDataType[arrayType]
  | markObject (src : ObjSrc)
  | restoreMarkerID
  | zeroChunkReturn                                -- if length == 0 { tryEndArray(more, nil); return }
  | beginChunk (k : ChunkKind)
  | markCompletedChunk
  | endChunkIfComplete (k : ChunkKind)
  | streamStringData | validateFirst | validateNext | addFirst | addNext | addBuiltData
  | unknown (src : String)
deriving DecidableEq, Repr, Inhabited

abbrev RuleTable := Rule → Method → List Act

end CE.Rules
