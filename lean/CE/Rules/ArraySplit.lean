import CE.Rules.Machine
import CE.Rules.Table
/-
  Lemmas for C11 (binary arrays): inside a chunk the validator's state depends on the data
  events only through the concatenation of their bytes.
-/
namespace CE.Rules

def env0 (cfg : Cfg) (f : Bytes → Bool) : Env := { tbl := Model.ruleTable, cfg := cfg, identSafe := f }

/-- state after one event, dropping what is forwarded -/
def stepS (env : Env) (s : RState) (e : Ev) : M RState := (step env s e).map (·.1)

/-- feed data events one after the other -/
def feed (env : Env) : RState → List Bytes → M RState
  | s, [] => .ok s
  | s, d :: ds => (stepS env s (.arrayData d)).bind (fun s' => feed env s' ds)

theorem arrayChunk_table :
    Model.ruleTable .arrayChunk .onArrayData = [.markCompletedChunk, .endChunkIfComplete .any] := rfl

/-- a data event that does not complete the chunk only advances the byte counter -/
theorem stepS_noncompleting (cfg : Cfg) (f : Bytes → Bool) (s : RState) (d : Bytes)
    (hr : s.cur.rule = .arrayChunk) (h : s.chunkActual + d.length < s.chunkExpected) :
    stepS (env0 cfg f) s (.arrayData d) = .ok { s with chunkActual := s.chunkActual + d.length } := by
  have hne : ¬ (s.chunkActual + d.length > s.chunkExpected) := by omega
  have hne2 : ¬ (s.chunkActual + d.length = s.chunkExpected) := by omega
  simp only [stepS, step, call, env0, hr, arrayChunk_table, fuel0, runActs, execAct, actMarkCompletedChunk,
    actEndChunkIfComplete, bind, Except.bind, pure, Except.pure, hne, hne2, if_false, Except.map]

/-- two data events, the first of which does not complete the chunk, act like one -/
theorem binary_data_split (cfg : Cfg) (f : Bytes → Bool) (s : RState) (d1 d2 : Bytes)
    (hr : s.cur.rule = .arrayChunk) (h1 : s.chunkActual + d1.length < s.chunkExpected) :
    (stepS (env0 cfg f) s (.arrayData d1)).bind (fun s' => stepS (env0 cfg f) s' (.arrayData d2))
      = stepS (env0 cfg f) s (.arrayData (d1 ++ d2)) := by
  rw [stepS_noncompleting cfg f s d1 hr h1]
  simp only [Except.bind, stepS, step, call, env0, hr, arrayChunk_table, fuel0, runActs, execAct,
    actMarkCompletedChunk, actEndChunkIfComplete, bind, Except.bind, pure, Except.pure, Except.map,
    List.length_append, Nat.add_assoc]
  by_cases hov : s.chunkActual + (d1.length + d2.length) > s.chunkExpected
  · simp only [hov, if_true]
  · simp only [hov, if_false]
    by_cases hc : s.chunkActual + (d1.length + d2.length) = s.chunkExpected
    · simp only [hc, if_true]
      by_cases hm : s.moreChunks = true
      · simp only [hm, if_true, changeRule]
      · have hm' : s.moreChunks = false := by simpa using hm
        simp only [hm', leaveArray, bind, Except.bind]
        cases hu : unstackRule _ with
        | error e => simp
        | ok v =>
          simp only [pure, Except.pure, Bool.false_eq_true, if_false]
          generalize runActs Model.ruleTable cfg 62 _ v _ = r
          cases r <;> simp
    · simp only [hc, if_false]

def totalLen (ds : List Bytes) : Nat := (ds.map List.length).sum

/-- Any division of a chunk's bytes among data events: feeding `ds` (which together do not
    complete the chunk) and then `d` leaves the validator exactly where the single data event
    `ds.flatten ++ d` leaves it — accepted, rejected (with the same error) or completed alike. -/
theorem binary_any_split (cfg : Cfg) (f : Bytes → Bool) (ds : List Bytes) :
    ∀ (s : RState) (d : Bytes), s.cur.rule = .arrayChunk →
      s.chunkActual + totalLen ds < s.chunkExpected →
      (feed (env0 cfg f) s ds).bind (fun s' => stepS (env0 cfg f) s' (.arrayData d))
        = stepS (env0 cfg f) s (.arrayData (ds.flatten ++ d)) := by
  induction ds with
  | nil => intro s d _ _; simp [feed, Except.bind]
  | cons d0 ds ih =>
    intro s d hr h
    have hlen : totalLen (d0 :: ds) = d0.length + totalLen ds := by simp [totalLen]
    rw [hlen] at h
    have h0 : s.chunkActual + d0.length < s.chunkExpected := by omega
    have hs1 := stepS_noncompleting cfg f s d0 hr h0
    have hfeed : feed (env0 cfg f) s (d0 :: ds)
        = feed (env0 cfg f) { s with chunkActual := s.chunkActual + d0.length } ds := by
      show (stepS (env0 cfg f) s (.arrayData d0)).bind _ = _
      rw [hs1]; rfl
    rw [hfeed, ih { s with chunkActual := s.chunkActual + d0.length } d hr (by simp; omega)]
    have h2 := binary_data_split cfg f s d0 (ds.flatten ++ d) hr h0
    rw [hs1] at h2
    simp only [List.flatten_cons, List.append_assoc]
    exact h2

end CE.Rules
