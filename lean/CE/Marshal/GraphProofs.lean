import CE.Marshal.Graph
namespace CE.Marshal.Graph

/-- marker discipline of an event sequence, given the pointers already named: a marker names a
    pointer not named before; a reference names a pointer already named -/
def wf : List Nat → List GEv → Bool
  | _, [] => true
  | known, .marker i :: rest => !known.contains i && wf (i :: known) rest
  | known, .ref r :: rest => known.contains r && wf known rest
  | known, _ :: rest => wf known rest

def knownAfter : List Nat → List GEv → List Nat
  | known, [] => known
  | known, .marker i :: rest => knownAfter (i :: known) rest
  | known, _ :: rest => knownAfter known rest

theorem wf_append (a : List GEv) : ∀ (k : List Nat) (b : List GEv),
    wf k (a ++ b) = (wf k a && wf (knownAfter k a) b) := by
  induction a with
  | nil => intro k b; simp [wf, knownAfter]
  | cons e es ih =>
    intro k b
    cases e <;> simp [wf, knownAfter, ih, Bool.and_assoc]

theorem knownAfter_append (a : List GEv) : ∀ (k : List Nat) (b : List GEv),
    knownAfter k (a ++ b) = knownAfter (knownAfter k a) b := by
  induction a with
  | nil => intro k b; rfl
  | cons e es ih => intro k b; cases e <;> simp [knownAfter, ih]

/-- the three emission functions keep the marker discipline, for every heap, every choice of
    shared pointers and every amount of fuel -/
theorem emit_wf (h : Heap) (shared : Nat → Bool) : ∀ fuel : Nat,
    (∀ named i out named', emitPtr h shared fuel named i = some (out, named') →
        wf named out = true ∧ named' = knownAfter named out) ∧
    (∀ named i out named', emitBody h shared fuel named i = some (out, named') →
        wf named out = true ∧ named' = knownAfter named out) ∧
    (∀ named es out named', emitEdges h shared fuel named es = some (out, named') →
        wf named out = true ∧ named' = knownAfter named out) := by
  intro fuel
  induction fuel with
  | zero => refine ⟨?_, ?_, ?_⟩ <;> intro a b c d hh <;> simp [emitPtr, emitBody, emitEdges] at hh
  | succ f ih =>
    obtain ⟨ihP, ihB, ihE⟩ := ih
    refine ⟨?_, ?_, ?_⟩
    · intro named i out named' hh
      simp only [emitPtr] at hh
      by_cases hs : shared i = true
      · simp only [hs, if_true] at hh
        by_cases hn : named.contains i = true
        · simp only [hn, if_true, Option.some.injEq, Prod.mk.injEq] at hh
          obtain ⟨h1, h2⟩ := hh
          subst h1; subst h2
          have hm : i ∈ named := by simpa using hn
          simp [wf, knownAfter, hm]
        · simp only [hn, Bool.false_eq_true, if_false] at hh
          cases hb : emitBody h shared f (i :: named) i with
          | none => simp [hb] at hh
          | some r =>
            obtain ⟨o, n⟩ := r
            simp only [hb, Option.map_some, Option.some.injEq, Prod.mk.injEq] at hh
            obtain ⟨h1, h2⟩ := hh
            subst h1; subst h2
            obtain ⟨w, k⟩ := ihB (i :: named) i o n hb
            have hm : ¬ i ∈ named := by simpa using hn
            simp [wf, knownAfter, hm, w, k]
      · simp only [hs, Bool.false_eq_true, if_false] at hh
        exact ihB named i out named' hh
    · intro named i out named' hh
      simp only [emitBody] at hh
      cases h1 : emitEdges h shared f named (h i).ptrs with
      | none => simp [h1] at hh
      | some r1 =>
        obtain ⟨o1, n1⟩ := r1
        obtain ⟨w1, k1⟩ := ihE named _ o1 n1 h1
        simp only [h1] at hh
        cases hk : (h i).kids with
        | none =>
          simp only [hk, Option.some.injEq, Prod.mk.injEq] at hh
          obtain ⟨e1, e2⟩ := hh
          subst e1; subst e2
          simp [wf, knownAfter, wf_append, knownAfter_append, w1, k1]
        | some ks =>
          simp only [hk] at hh
          cases h2 : emitEdges h shared f n1 ks with
          | none => simp [h2] at hh
          | some r2 =>
            obtain ⟨o2, n2⟩ := r2
            obtain ⟨w2, k2⟩ := ihE n1 ks o2 n2 h2
            simp only [h2, Option.some.injEq, Prod.mk.injEq] at hh
            obtain ⟨e1, e2⟩ := hh
            subst e1; subst e2
            subst k1
            simp [wf, knownAfter, wf_append, knownAfter_append, w1, w2, k2]
    · intro named es out named' hh
      cases es with
      | nil =>
        simp only [emitEdges, Option.some.injEq, Prod.mk.injEq] at hh
        obtain ⟨e1, e2⟩ := hh
        subst e1; subst e2
        simp [wf, knownAfter]
      | cons e es =>
        cases e with
        | none =>
          simp only [emitEdges] at hh
          cases h1 : emitEdges h shared f named es with
          | none => simp [h1] at hh
          | some r =>
            obtain ⟨o, n⟩ := r
            obtain ⟨w, k⟩ := ihE named es o n h1
            simp only [h1, Option.map_some, Option.some.injEq, Prod.mk.injEq] at hh
            obtain ⟨e1, e2⟩ := hh
            subst e1; subst e2
            simp [wf, knownAfter, w, k]
        | some j =>
          simp only [emitEdges] at hh
          cases h1 : emitPtr h shared f named j with
          | none => simp [h1] at hh
          | some r1 =>
            obtain ⟨o1, n1⟩ := r1
            obtain ⟨w1, k1⟩ := ihP named j o1 n1 h1
            simp only [h1] at hh
            cases h2 : emitEdges h shared f n1 es with
            | none => simp [h2] at hh
            | some r2 =>
              obtain ⟨o2, n2⟩ := r2
              obtain ⟨w2, k2⟩ := ihE n1 es o2 n2 h2
              simp only [h2, Option.map_some, Option.some.injEq, Prod.mk.injEq] at hh
              obtain ⟨e1, e2⟩ := hh
              subst e1; subst e2
              subst k1
              simp [wf_append, knownAfter_append, w1, w2, k2]

/-- more fuel never changes a result: what the three emission functions return with some fuel they
    return with one more -/
theorem emit_fuel_succ (h : Heap) (shared : Nat → Bool) : ∀ fuel : Nat,
    (∀ named i r, emitPtr h shared fuel named i = some r → emitPtr h shared (fuel + 1) named i = some r) ∧
    (∀ named i r, emitBody h shared fuel named i = some r → emitBody h shared (fuel + 1) named i = some r) ∧
    (∀ named es r, emitEdges h shared fuel named es = some r → emitEdges h shared (fuel + 1) named es = some r) := by
  intro fuel
  induction fuel with
  | zero => refine ⟨?_, ?_, ?_⟩ <;> intro a b c hh <;> simp [emitPtr, emitBody, emitEdges] at hh
  | succ f ih =>
    obtain ⟨ihP, ihB, ihE⟩ := ih
    refine ⟨?_, ?_, ?_⟩
    · intro named i r hh
      simp only [emitPtr] at hh ⊢
      by_cases hs : shared i = true
      · simp only [hs, if_true] at hh ⊢
        by_cases hn : named.contains i = true
        · simp only [hn, if_true] at hh ⊢; exact hh
        · simp only [hn, Bool.false_eq_true, if_false] at hh ⊢
          cases hb : emitBody h shared f (i :: named) i with
          | none => simp [hb] at hh
          | some rb => rw [hb] at hh; rw [ihB _ _ _ hb]; exact hh
      · simp only [hs, Bool.false_eq_true, if_false] at hh ⊢
        exact ihB _ _ _ hh
    · intro named i r hh
      simp only [emitBody] at hh ⊢
      cases h1 : emitEdges h shared f named (h i).ptrs with
      | none => simp [h1] at hh
      | some r1 =>
        obtain ⟨o1, n1⟩ := r1
        simp only [h1] at hh
        simp only [ihE _ _ _ h1]
        cases hk : (h i).kids with
        | none => simp only [hk] at hh ⊢; exact hh
        | some ks =>
          simp only [hk] at hh ⊢
          cases h2 : emitEdges h shared f n1 ks with
          | none => simp [h2] at hh
          | some r2 =>
            obtain ⟨o2, n2⟩ := r2
            simp only [h2] at hh
            simp only [ihE _ _ _ h2]
            exact hh
    · intro named es r hh
      cases es with
      | nil => simp only [emitEdges] at hh ⊢; exact hh
      | cons e es =>
        cases e with
        | none =>
          simp only [emitEdges] at hh ⊢
          cases h1 : emitEdges h shared f named es with
          | none => simp [h1] at hh
          | some r1 => rw [h1] at hh; rw [ihE _ _ _ h1]; exact hh
        | some j =>
          simp only [emitEdges] at hh ⊢
          cases h1 : emitPtr h shared f named j with
          | none => simp [h1] at hh
          | some r1 =>
            obtain ⟨o1, n1⟩ := r1
            simp only [h1] at hh
            simp only [ihP _ _ _ h1]
            cases h2 : emitEdges h shared f n1 es with
            | none => simp [h2] at hh
            | some r2 => rw [h2] at hh; rw [ihE _ _ _ h2]; exact hh

theorem emitPtr_fuel_add (h : Heap) (shared : Nat → Bool) (fuel : Nat) (named : List Nat) (i : Nat) (r : List GEv × List Nat)
    (hh : emitPtr h shared fuel named i = some r) : ∀ k, emitPtr h shared (fuel + k) named i = some r
  | 0 => hh
  | k + 1 => (emit_fuel_succ h shared (fuel + k)).1 named i r (emitPtr_fuel_add h shared fuel named i r hh k)

end CE.Marshal.Graph
