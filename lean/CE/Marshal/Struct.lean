/-
  M-MARSHAL (struct fragment): which fields a struct contributes to a document, under which
  names and in which order (iterator/iterators.go extractFields / shouldIncludeField /
  newStructField, internal/common/go_tags.go DecodeGoTags, internal/common/common.go
  CamelCaseToSnakeCase / ToStructFieldIdentifier) and how a document key finds its field
  (builder/builder_struct.go makeGeneratorDescs / BuildFromStringlikeArray).
  ASCII names only (the two regular expressions and the lower-casing are ASCII-defined).
-/
namespace CE.Marshal.Struct

inductive Omit | chooseDefault | never | always | empty | zero
deriving DecidableEq, Repr, Inhabited

structure Tags where
  name : List Char
  omitB : Omit := .chooseDefault
  order : Option Int := none          -- none = math.MaxInt64
deriving DecidableEq, Repr, Inhabited

def trim (s : List Char) : List Char :=
  ((s.dropWhile (· = ' ')).reverse.dropWhile (· = ' ')).reverse

def splitOn (c : Char) : List Char → List (List Char)
  | [] => [[]]
  | x :: xs =>
    if x = c then [] :: splitOn c xs
    else match splitOn c xs with
      | [] => [[x]]
      | h :: t => (x :: h) :: t

def parseIntStr (s : List Char) : Option Int :=
  let (neg, d) := match s with | '-' :: r => (true, r) | '+' :: r => (false, r) | r => (false, r)
  if d.isEmpty || !d.all Char.isDigit then none
  else
    let n : Nat := d.foldl (fun a c => a * 10 + (c.toNat - 48)) 0
    some (if neg then -(n : Int) else n)

/-- `DecodeGoTags`: none = the Go code panics (unknown key, missing value, bad order) -/
def decodeTags (fieldName : List Char) (tag : List Char) : Option Tags :=
  let t := trim tag
  if t.isEmpty then some { name := fieldName }
  else
    (splitOn ',' t).foldl (fun acc entry =>
      acc.bind fun tags =>
        let kv := splitOn '=' entry
        let key := trim (kv.headD [])
        if key = "omit".toList then some { tags with omitB := .always }
        else if key = "omit_empty".toList then some { tags with omitB := .empty }
        else if key = "omit_zero".toList then some { tags with omitB := .zero }
        else if key = "omit_never".toList then some { tags with omitB := .never }
        else if key = "name".toList then
          (if kv.length = 2 then some { tags with name := trim (kv.getD 1 []) } else none)
        else if key = "order".toList then
          (match kv with
           | [_, v] => (parseIntStr (trim v)).map fun o => { tags with order := some o }
           | _ => none)
        else none) (some { name := fieldName })

def isUpper (c : Char) : Bool := 'A' ≤ c && c ≤ 'Z'
def isLower (c : Char) : Bool := 'a' ≤ c && c ≤ 'z'
def isLowerOrDigit (c : Char) : Bool := isLower c || Char.isDigit c
/-- ASCII lower-casing (`strings.ToLower` on ASCII names), letter by letter -/
def toLowerAscii : Char → Char
  | 'A' => 'a' | 'B' => 'b' | 'C' => 'c' | 'D' => 'd' | 'E' => 'e' | 'F' => 'f' | 'G' => 'g'
  | 'H' => 'h' | 'I' => 'i' | 'J' => 'j' | 'K' => 'k' | 'L' => 'l' | 'M' => 'm' | 'N' => 'n'
  | 'O' => 'o' | 'P' => 'p' | 'Q' => 'q' | 'R' => 'r' | 'S' => 's' | 'T' => 't' | 'U' => 'u'
  | 'V' => 'v' | 'W' => 'w' | 'X' => 'x' | 'Y' => 'y' | 'Z' => 'z' | c => c

/-- `snakeCase1.ReplaceAllString(name, "${1}_${2}")` for `([A-Z]+)([A-Z][a-z])`: scanning left to
    right, a maximal run of capitals that is followed by a lower-case letter gets an underscore
    before its last capital (runs of a single capital do not match: group 1 needs a capital) -/
def snake1 : Nat → List Char → List Char
  | 0, s => s
  | fuel + 1, s =>
    match s with
    | [] => []
    | c :: rest =>
      if isUpper c then
        let run := (c :: rest).takeWhile isUpper
        let after := (c :: rest).dropWhile isUpper
        match after with
        | a :: after' =>
          if isLower a && run.length ≥ 2 then
            -- ([A-Z]+) = all but the last capital, ([A-Z][a-z]) = last capital + a
            run.dropLast ++ ['_'] ++ [run.getLast!] ++ [a] ++ snake1 fuel after'
          else run ++ snake1 fuel after
        | [] => run
      else c :: snake1 fuel rest

/-- `snakeCase2` for `([a-z\d])([A-Z])`: an underscore between a lower-case letter or digit and a
    capital that follows it (matches do not overlap, and cannot: the second group is a capital) -/
def snake2 : List Char → List Char
  | a :: b :: rest => if isLowerOrDigit a && isUpper b then a :: '_' :: b :: snake2 rest else a :: snake2 (b :: rest)
  | s => s

def camelToSnake (name : List Char) : List Char :=
  (snake2 (snake1 (name.length + 1) name)).map toLowerAscii

/-- `ToStructFieldIdentifier`: lower-case, spaces and underscores deleted -/
def identifier (s : List Char) : List Char :=
  (s.map toLowerAscii).filter (fun c => c != ' ' && c != '_')

inductive Style | camel | snake
deriving DecidableEq, Repr

structure Field where
  tags : Tags
  isEmpty : Bool       -- `isValueEmpty` of the field's value
  isZero : Bool        -- `isValueZero`
deriving Repr, Inhabited

def keep (dflt : Omit) (f : Field) : Bool :=
  let o := if f.tags.omitB = .chooseDefault then dflt else f.tags.omitB
  match o with
  | .always => false
  | .never => true
  | .empty => !f.isEmpty
  | .zero => !f.isZero
  | .chooseDefault => true

def orderKey (f : Field) : Int := f.tags.order.getD 9223372036854775807

/-- stable insertion sort by `orderKey` (Go: sort.SliceStable with `<`): an element is inserted
    in front of the already sorted later elements, before the first one that is not smaller -/
def insertBy (x : Field) : List Field → List Field
  | [] => [x]
  | y :: ys => if orderKey x ≤ orderKey y then x :: y :: ys else y :: insertBy x ys

def sortStable : List Field → List Field
  | [] => []
  | x :: xs => insertBy x (sortStable xs)

def emittedName (style : Style) (f : Field) : List Char :=
  if style = .snake then camelToSnake f.tags.name else f.tags.name

/-- the keys a struct value contributes, in order: `fields` is the depth-first flattening of the
    exported, not always-omitted fields (embedded structs in place) -/
def emitted (style : Style) (dflt : Omit) (fields : List Field) : List (List Char) :=
  ((sortStable (fields.filter fun f => f.tags.omitB ≠ .always)).filter (keep dflt)).map (emittedName style)

/-- builder side: the field a document key selects; `names` are the tag-applied names in
    flattening order (a later field with the same name replaces an earlier one).  With
    case-insensitive matching the key is normalised first.  The map also holds every field under
    its normalised identifier when that does not collide with an exact name. -/
def lookup (caseInsensitive : Bool) (names : List (List Char)) (key : List Char) : Option Nat :=
  let k := if caseInsensitive then identifier key else key
  let exact := (names.zipIdx.filter fun p => p.1 == k).getLast?.map (·.2)
  match exact with
  | some i => some i
  | none =>
    -- normalised entries exist for names whose identifier is not itself an exact name
    match (names.zipIdx.filter fun p => identifier p.1 == k && !(names.contains (identifier p.1))) with
    | [p] => some p.2
    | [] => none
    | _ => none        -- several fields share the identifier: Go's map iteration order decides (not modelled)

end CE.Marshal.Struct
