/-
  M-MARSHAL (pointer graphs): what the iterator emits for a pointer graph when
  Iterator.RecursionSupport is on (iterator/iterator_root.go addLocalReference /
  getNamedLocalReference, iterator/iterators.go newPointerIterator and the container iterators).

    foundReferences := FindDuplicatePointers(root)     -- pointers met twice by a DFS that stops
                                                          at pointers it has already seen
    visiting pointer p:   nil → null
                          p ∈ foundReferences: already named → reference, stop
                                               else name it (next number), emit marker, go on
                          emit the pointee (its pointers recursively)
  A heap is a function from node index to the node's out-pointers.
-/
namespace CE.Marshal.Graph

structure Cell where
  ptrs : List (Option Nat) := []            -- pointer fields, in field order
  kids : Option (List (Option Nat)) := none -- a slice of pointers (none = nil slice)
deriving Repr, Inhabited

abbrev Heap := Nat → Cell

inductive GEv
  | marker (i : Nat) | ref (i : Nat) | node (i : Nat) | endNode | null | list | endList
deriving DecidableEq, Repr, Inhabited

def Cell.out (c : Cell) : List (Option Nat) := c.ptrs ++ (c.kids.getD [])

/-- `FindDuplicatePointers`: (seen, duplicates) after visiting pointer i -/
def findDups (h : Heap) : Nat → Nat → List Nat × List Nat → List Nat × List Nat
  | 0, _, st => st
  | fuel + 1, i, (seen, dups) =>
    if seen.contains i then (seen, if dups.contains i then dups else i :: dups)
    else
      (h i).out.foldl (fun st e => match e with
        | none => st
        | some j => findDups h fuel j st) (i :: seen, dups)

mutual
/-- events for pointer `i`, threading the list of already named pointers -/
def emitPtr (h : Heap) (shared : Nat → Bool) : Nat → List Nat → Nat → Option (List GEv × List Nat)
  | 0, _, _ => none
  | fuel + 1, named, i =>
    if shared i then
      if named.contains i then some ([.ref i], named)
      else (emitBody h shared fuel (i :: named) i).map fun r => (.marker i :: r.1, r.2)
    else emitBody h shared fuel named i

def emitBody (h : Heap) (shared : Nat → Bool) : Nat → List Nat → Nat → Option (List GEv × List Nat)
  | 0, _, _ => none
  | fuel + 1, named, i =>
    match emitEdges h shared fuel named (h i).ptrs with
    | none => none
    | some (o1, n1) =>
      match (h i).kids with
      | none => some (.node i :: o1 ++ [.null, .endNode], n1)
      | some ks =>
        match emitEdges h shared fuel n1 ks with
        | none => none
        | some (o2, n2) => some (.node i :: o1 ++ [.list] ++ o2 ++ [.endList, .endNode], n2)

def emitEdges (h : Heap) (shared : Nat → Bool) : Nat → List Nat → List (Option Nat) → Option (List GEv × List Nat)
  | 0, _, _ => none
  | _ + 1, named, [] => some ([], named)
  | fuel + 1, named, none :: es =>
    (emitEdges h shared fuel named es).map fun r => (.null :: r.1, r.2)
  | fuel + 1, named, some j :: es =>
    match emitPtr h shared fuel named j with
    | none => none
    | some (o1, n1) => (emitEdges h shared fuel n1 es).map fun r => (o1 ++ r.1, r.2)
end

/-- the whole document: duplicates from the first pass decide which pointers get markers -/
def emitRoot (h : Heap) (fuel : Nat) (root : Nat) : Option (List GEv) :=
  let dups := (findDups h fuel root ([], [])).2
  (emitPtr h (fun i => dups.contains i) fuel [] root).map (·.1)

def GEv.text : GEv → String
  | .marker i => s!"M{i}" | .ref i => s!"R{i}" | .node i => s!"N{i}" | .endNode => ")"
  | .null => "0" | .list => "[" | .endList => "]"

end CE.Marshal.Graph
