import CE.Basic.Bytes
/-
  IEEE-754 bit-pattern layer: binary64 patterns are `Nat < 2^64`, binary32 `Nat < 2^32`.
  Only what the CBE float-width selection needs: classification, exact narrowing,
  exact widening.  No rounding is modelled: Go's `float64(float32(v)) == v` is, by
  IEEE correct rounding, "v is representable in binary32" (trusted: F32Conv).
-/
namespace CE.F

def sign64 (b : Nat) : Nat := b / 2 ^ 63 % 2
def exp64 (b : Nat) : Nat := b / 2 ^ 52 % 2048
def mant64 (b : Nat) : Nat := b % 2 ^ 52

def isNaN64 (b : Nat) : Bool := exp64 b == 2047 && mant64 b != 0
def isInf64 (b : Nat) : Bool := exp64 b == 2047 && mant64 b == 0
def isZero64 (b : Nat) : Bool := exp64 b == 0 && mant64 b == 0
/-- quiet bit (bit 51) -/
def quiet64 (b : Nat) : Bool := b / 2 ^ 51 % 2 == 1

def quietNaN64 : Nat := 0x7ff8000000000000
def signalingNaN64 : Nat := 0x7ff4000000000000

/-- canonical form used on the wire between harness and model: a NaN keeps only its kind -/
def canonNaN (b : Nat) : Nat :=
  if isNaN64 b then (if quiet64 b then quietNaN64 else signalingNaN64) else b

def sign32 (s : Nat) : Nat := s / 2 ^ 31 % 2
def exp32 (s : Nat) : Nat := s / 2 ^ 23 % 256
def mant32 (s : Nat) : Nat := s % 2 ^ 23

/-- number of bits of n (0 for 0) -/
def bitLen (n : Nat) : Nat := if n = 0 then 0 else Nat.log2 n + 1

/-- exact widening binary32 → binary64 for finite inputs and infinities; NaNs by kind. -/
def widen32 (s : Nat) : Nat :=
  let sg := sign32 s * 2 ^ 63
  let e := exp32 s
  let m := mant32 s
  if e = 255 then
    if m = 0 then sg + 2047 * 2 ^ 52
    else if m / 2 ^ 22 % 2 = 1 then sg + 2047 * 2 ^ 52 + m * 2 ^ 29 else signalingNaN64
  else if e = 0 then
    if m = 0 then sg
    else
      -- subnormal: m · 2^-149, normalise
      let k := bitLen m            -- 1..23
      let shift := 24 - k          -- bring leading one to bit 23
      let m' := (m * 2 ^ shift) % 2 ^ 23
      sg + (1023 - 126 - shift) * 2 ^ 52 + m' * 2 ^ 29
  else sg + (e + 896) * 2 ^ 52 + m * 2 ^ 29

/-- exact narrowing of a finite non-zero binary64: `some s` iff representable in binary32. -/
def exactF32? (b : Nat) : Option Nat :=
  let sg := sign64 b * 2 ^ 31
  let e := exp64 b
  let m := mant64 b
  if e = 0 ∨ e = 2047 then none
  else if 897 ≤ e ∧ e ≤ 1150 then          -- unbiased -126..127
    if m % 2 ^ 29 = 0 then some (sg + (e - 896) * 2 ^ 23 + m / 2 ^ 29) else none
  else if 874 ≤ e ∧ e < 897 then           -- unbiased -149..-127: binary32 subnormal
    let sh := 926 - e                      -- 30..52
    let full := 2 ^ 52 + m
    if full % 2 ^ sh = 0 then some (sg + full / 2 ^ sh) else none
  else none

/-- exact conversion of ±mant·2^exp to a binary64 pattern, if representable -/
def ofMantExp? (neg : Bool) (mant : Nat) (exp : Int) : Option Nat :=
  let sg := if neg then 2 ^ 63 else 0
  if mant = 0 then some sg
  else
    let L := bitLen mant
    let E : Int := exp + L - 1
    if L ≤ 53 ∧ -1022 ≤ E ∧ E ≤ 1023 then
      some (sg + (E + 1023).toNat * 2 ^ 52 + (mant * 2 ^ (53 - L) - 2 ^ 52))
    else if E < -1022 ∧ -1074 ≤ exp then
      some (sg + mant * 2 ^ (exp + 1074).toNat)
    else none

end CE.F
