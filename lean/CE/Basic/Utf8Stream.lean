import CE.Basic.Utf8
/-
  The streaming UTF-8 validator of the rules (`Context.StreamStringData`, context_array.go, with
  the two `ValidateString` calls of `StringChunkRule.OnArrayData`) against `utf8.Valid` on the
  whole string.

  `sstep rem data` is one data event: complete the character held over from the previous event
  (`stage1`), hold back a trailing incomplete character (`stage2`, `IndexOfLastRuneStart`),
  validate the two pieces in between.  `sfeed` is any number of events.

  Theorem `sfeed_accepts_iff_valid`: for EVERY division of a chunk's bytes among data events -
  also inside characters, with empty events, with bytes that start no character - all events
  are accepted and nothing is left pending exactly when the bytes are valid UTF-8 as a whole.
-/
namespace CE.Utf8

theorem rbc_cont (b : UInt8) (h : isCont b = true) : runeByteCount b = 0 := by
  simp only [isCont, Bool.and_eq_true, decide_eq_true_eq] at h
  unfold runeByteCount
  simp only []
  have : 16 ≤ b.toNat / 8 ∧ b.toNat / 8 < 24 := by omega
  simp [this]

theorem valid_ascii (b0 : UInt8) (r : Bytes) (h : b0.toNat < 0x80) : valid (b0 :: r) = valid r := by
  conv => lhs; unfold valid
  simp only [h, if_true]

theorem valid_two (b0 b1 : UInt8) (r : Bytes) (h : 0xC2 ≤ b0.toNat ∧ b0.toNat ≤ 0xDF) :
    valid (b0 :: b1 :: r) = (isCont b1 && valid r) := by
  have h1 : ¬ b0.toNat < 0x80 := by omega
  simp only [valid, h1, h, and_self, if_true, if_false]

theorem valid_three (b0 b1 b2 : UInt8) (r : Bytes) (h : 0xE0 ≤ b0.toNat ∧ b0.toNat ≤ 0xEF) :
    valid (b0 :: b1 :: b2 :: r) =
      ((decide ((if b0.toNat = 0xE0 then 0xA0 else 0x80) ≤ b1.toNat) && decide (b1.toNat ≤ (if b0.toNat = 0xED then 0x9F else 0xBF)))
        && isCont b2 && valid r) := by
  have h1 : ¬ b0.toNat < 0x80 := by omega
  have h2 : ¬ (0xC2 ≤ b0.toNat ∧ b0.toNat ≤ 0xDF) := by omega
  simp only [valid, h1, h2, h, and_self, if_true, if_false]

theorem valid_four (b0 b1 b2 b3 : UInt8) (r : Bytes) (h : 0xF0 ≤ b0.toNat ∧ b0.toNat ≤ 0xF4) :
    valid (b0 :: b1 :: b2 :: b3 :: r) =
      ((decide ((if b0.toNat = 0xF0 then 0x90 else 0x80) ≤ b1.toNat) && decide (b1.toNat ≤ (if b0.toNat = 0xF4 then 0x8F else 0xBF)))
        && isCont b2 && isCont b3 && valid r) := by
  have h1 : ¬ b0.toNat < 0x80 := by omega
  have h2 : ¬ (0xC2 ≤ b0.toNat ∧ b0.toNat ≤ 0xDF) := by omega
  have h3 : ¬ (0xE0 ≤ b0.toNat ∧ b0.toNat ≤ 0xEF) := by omega
  simp only [valid, h1, h2, h3, h, and_self, if_true, if_false]

/-- a lead byte outside every range starts no character -/
theorem valid_badlead (b0 : UInt8) (r : Bytes) (h1 : ¬ b0.toNat < 0x80) (h2 : ¬ (0xC2 ≤ b0.toNat ∧ b0.toNat ≤ 0xDF))
    (h3 : ¬ (0xE0 ≤ b0.toNat ∧ b0.toNat ≤ 0xEF)) (h4 : ¬ (0xF0 ≤ b0.toNat ∧ b0.toNat ≤ 0xF4)) :
    valid (b0 :: r) = false := by
  conv => lhs; unfold valid
  simp only [h1, h2, h3, h4, if_false]

/-- truncated characters -/
theorem valid_two_trunc (b0 : UInt8) (h : 0xC2 ≤ b0.toNat ∧ b0.toNat ≤ 0xDF) : valid [b0] = false := by
  have h1 : ¬ b0.toNat < 0x80 := by omega
  simp only [valid, h1, h, and_self, if_true, if_false]

theorem valid_three_trunc (b0 : UInt8) (t : Bytes) (h : 0xE0 ≤ b0.toNat ∧ b0.toNat ≤ 0xEF) (ht : t.length < 2) :
    valid (b0 :: t) = false := by
  have h1 : ¬ b0.toNat < 0x80 := by omega
  have h2 : ¬ (0xC2 ≤ b0.toNat ∧ b0.toNat ≤ 0xDF) := by omega
  conv => lhs; unfold valid
  simp only [h1, h2, h, and_self, if_true, if_false]
  match t, ht with
  | [], _ => rfl
  | [_], _ => rfl

theorem valid_four_trunc (b0 : UInt8) (t : Bytes) (h : 0xF0 ≤ b0.toNat ∧ b0.toNat ≤ 0xF4) (ht : t.length < 3) :
    valid (b0 :: t) = false := by
  have h1 : ¬ b0.toNat < 0x80 := by omega
  have h2 : ¬ (0xC2 ≤ b0.toNat ∧ b0.toNat ≤ 0xDF) := by omega
  have h3 : ¬ (0xE0 ≤ b0.toNat ∧ b0.toNat ≤ 0xEF) := by omega
  conv => lhs; unfold valid
  simp only [h1, h2, h3, h, and_self, if_true, if_false]
  match t, ht with
  | [], _ => rfl
  | [_], _ => rfl
  | [_, _], _ => rfl

/-- a byte that cannot start a character makes everything from it on invalid -/
theorem valid_rbc0 (c : UInt8) (r : Bytes) (h : runeByteCount c = 0) : valid (c :: r) = false := by
  unfold runeByteCount at h
  simp only [] at h
  have hlt := c.toNat_lt
  have : (16 ≤ c.toNat / 8 ∧ c.toNat / 8 < 24) ∨ 31 ≤ c.toNat / 8 := by
    repeat' split at h
    all_goals omega
  exact valid_badlead c r (by omega) (by omega) (by omega) (by omega)

theorem valid_append (p q : Bytes) (h : valid p = true) : valid (p ++ q) = valid q := by
  fun_induction valid p with
  | case1 => rfl
  | case2 b0 rest x hx ih =>
    rw [List.cons_append, valid_ascii _ _ hx]; exact ih h
  | case3 b0 x hx1 hx2 b1 r ih =>
    simp only [Bool.and_eq_true] at h
    rw [List.cons_append, List.cons_append, valid_two _ _ _ hx2, h.1, Bool.true_and]
    exact ih h.2
  | case4 => simp at h
  | case5 b0 x hx1 hx2 hx3 b1 b2 r lo hi ih =>
    simp only [Bool.and_eq_true] at h
    rw [List.cons_append, List.cons_append, List.cons_append, valid_three _ _ _ _ hx3]
    simp only [lo, hi, x] at h
    simp only [h.1.1.1, h.1.1.2, h.1.2, Bool.true_and, Bool.and_self]
    exact ih h.2
  | case6 => simp at h
  | case7 b0 x hx1 hx2 hx3 hx4 b1 b2 b3 r lo hi ih =>
    simp only [Bool.and_eq_true] at h
    rw [List.cons_append, List.cons_append, List.cons_append, List.cons_append, valid_four _ _ _ _ _ hx4]
    simp only [lo, hi, x] at h
    simp only [h.1.1.1.1, h.1.1.1.2, h.1.1.2, h.1.2, Bool.true_and, Bool.and_self]
    exact ih h.2
  | case8 => simp at h
  | case9 => simp at h

/-- the next byte, if any, is not a continuation byte -/
def startsFresh : Bytes → Bool
  | [] => true
  | b :: _ => !isCont b

/-- an invalid sequence stays invalid whatever follows, when what follows cannot complete a
    truncated character -/
theorem invalid_append (v w : Bytes) (h : valid v = false) (hw : startsFresh w = true) : valid (v ++ w) = false := by
  fun_induction valid v with
  | case1 => simp at h
  | case2 b0 rest x hx ih =>
    rw [List.cons_append, valid_ascii _ _ hx]; exact ih h
  | case3 b0 x hx1 hx2 b1 r ih =>
    rw [List.cons_append, List.cons_append, valid_two _ _ _ hx2]
    cases hc : isCont b1
    · rfl
    · simp only [hc, Bool.true_and] at h ⊢; exact ih h
  | case4 b0 rest x hx1 hx2 hrest =>
    -- a two-byte lead with nothing after it
    match rest, hrest with
    | [], _ =>
      match w, hw with
      | [], _ => simpa using valid_two_trunc b0 hx2
      | b :: w', hw =>
        simp only [startsFresh, Bool.not_eq_true'] at hw
        rw [List.cons_append, List.nil_append, valid_two _ _ _ hx2, hw]; rfl
    | b1 :: r, hrest => exact (hrest b1 r rfl).elim
  | case5 b0 x hx1 hx2 hx3 b1 b2 r lo hi ih =>
    rw [List.cons_append, List.cons_append, List.cons_append, valid_three _ _ _ _ hx3]
    simp only [lo, hi, x] at h
    cases hr : valid r
    · rw [ih hr]; simp
    · simp only [hr, Bool.and_true] at h
      simp only [h, Bool.false_and]
  | case6 b0 rest x hx1 hx2 hx3 hrest =>
    match rest, hrest with
    | [], _ =>
      match w, hw with
      | [], _ => simpa using valid_three_trunc b0 [] hx3 (by simp)
      | [b], hw =>
        simpa using valid_three_trunc b0 [b] hx3 (by simp)
      | b :: b' :: w', hw =>
        simp only [startsFresh, Bool.not_eq_true'] at hw
        rw [List.cons_append, List.nil_append, valid_three _ _ _ _ hx3]
        -- the first following byte would have to be a continuation byte
        simp only [isCont, Bool.and_eq_false_iff, decide_eq_false_iff_not] at hw
        simp only [Bool.and_eq_false_iff, decide_eq_false_iff_not]
        left; left
        split <;> split <;> omega
    | [b1], _ =>
      match w, hw with
      | [], _ => simpa using valid_three_trunc b0 [b1] hx3 (by simp)
      | b :: w', hw =>
        simp only [startsFresh, Bool.not_eq_true'] at hw
        rw [List.cons_append, List.cons_append, List.nil_append, valid_three _ _ _ _ hx3, hw]
        simp
    | b1 :: b2 :: r, hrest => exact (hrest b1 b2 r rfl).elim
  | case7 b0 x hx1 hx2 hx3 hx4 b1 b2 b3 r lo hi ih =>
    rw [List.cons_append, List.cons_append, List.cons_append, List.cons_append, valid_four _ _ _ _ _ hx4]
    simp only [lo, hi, x] at h
    cases hr : valid r
    · rw [ih hr]; simp
    · simp only [hr, Bool.and_true] at h
      simp only [h, Bool.false_and]
  | case8 b0 rest x hx1 hx2 hx3 hx4 hrest =>
    match rest, hrest with
    | [], _ =>
      match w, hw with
      | [], _ => simpa using valid_four_trunc b0 [] hx4 (by simp)
      | [b], _ => simpa using valid_four_trunc b0 [b] hx4 (by simp)
      | [b, b'], _ => simpa using valid_four_trunc b0 [b, b'] hx4 (by simp)
      | b :: b' :: b'' :: w', hw =>
        simp only [startsFresh, Bool.not_eq_true'] at hw
        rw [List.cons_append, List.nil_append, valid_four _ _ _ _ _ hx4]
        simp only [isCont, Bool.and_eq_false_iff, decide_eq_false_iff_not] at hw
        simp only [Bool.and_eq_false_iff, decide_eq_false_iff_not]
        left; left; left
        split <;> split <;> omega
    | [b1], _ =>
      match w, hw with
      | [], _ => simpa using valid_four_trunc b0 [b1] hx4 (by simp)
      | [b], _ => simpa using valid_four_trunc b0 [b1, b] hx4 (by simp)
      | b :: b' :: w', hw =>
        simp only [startsFresh, Bool.not_eq_true'] at hw
        rw [List.cons_append, List.cons_append, List.nil_append, valid_four _ _ _ _ _ hx4, hw]
        simp
    | [b1, b2], _ =>
      match w, hw with
      | [], _ => simpa using valid_four_trunc b0 [b1, b2] hx4 (by simp)
      | b :: w', hw =>
        simp only [startsFresh, Bool.not_eq_true'] at hw
        rw [List.cons_append, List.cons_append, List.cons_append, List.nil_append, valid_four _ _ _ _ _ hx4, hw]
        simp
    | b1 :: b2 :: b3 :: r, hrest => exact (hrest b1 b2 b3 r rfl).elim
  | case9 b0 rest x hx1 hx2 hx3 hx4 =>
    rw [List.cons_append]; exact valid_badlead b0 _ hx1 hx2 hx3 hx4

theorem rbc_range (b : UInt8) :
    (runeByteCount b = 1 ∧ b.toNat < 0x80) ∨ (runeByteCount b = 2 ∧ 0xC0 ≤ b.toNat ∧ b.toNat ≤ 0xDF) ∨
    (runeByteCount b = 3 ∧ 0xE0 ≤ b.toNat ∧ b.toNat ≤ 0xEF) ∨ (runeByteCount b = 4 ∧ 0xF0 ≤ b.toNat ∧ b.toNat ≤ 0xF7) ∨
    (runeByteCount b = 0 ∧ ((0x80 ≤ b.toNat ∧ b.toNat ≤ 0xBF) ∨ 0xF8 ≤ b.toNat)) := by
  have hlt := b.toNat_lt
  unfold runeByteCount
  simp only []
  by_cases h1 : b.toNat / 8 < 16
  · simp only [h1, if_true]; simp; omega
  by_cases h2 : b.toNat / 8 < 24
  · simp only [h1, h2, if_true, if_false]; simp; omega
  by_cases h3 : b.toNat / 8 < 28
  · simp only [h1, h2, h3, if_true, if_false]; simp; omega
  by_cases h4 : b.toNat / 8 < 30
  · simp only [h1, h2, h3, h4, if_true, if_false]; simp; omega
  by_cases h5 : b.toNat / 8 = 30
  · simp only [h1, h2, h3, h4, h5, if_true, if_false]; simp; omega
  · simp only [h1, h2, h3, h4, h5, if_false]; simp; omega

/-- a character of exactly the length its lead byte announces is judged on its own -/
theorem valid_exact (b0 : UInt8) (t q : Bytes) (h : (b0 :: t).length = runeByteCount b0) :
    valid ((b0 :: t) ++ q) = (valid (b0 :: t) && valid q) := by
  cases hv : valid (b0 :: t)
  · -- invalid on its own: invalid with anything after it
    rw [Bool.false_and]
    rcases rbc_range b0 with ⟨hr, hb⟩ | ⟨hr, hb⟩ | ⟨hr, hb⟩ | ⟨hr, hb⟩ | ⟨hr, hb⟩
    · rw [hr] at h
      have : t = [] := List.eq_nil_of_length_eq_zero (by simpa using h)
      subst this
      rw [valid_ascii _ _ hb] at hv; simp [valid] at hv
    · rw [hr] at h
      match t, h with
      | [b1], _ =>
        by_cases hb' : 0xC2 ≤ b0.toNat
        · rw [valid_two _ _ _ ⟨hb', hb.2⟩] at hv
          rw [List.cons_append, List.cons_append, List.nil_append, valid_two _ _ _ ⟨hb', hb.2⟩]
          simp only [valid, Bool.and_true] at hv
          rw [hv]; rfl
        · exact valid_badlead b0 _ (by omega) (by omega) (by omega) (by omega)
    · rw [hr] at h
      match t, h with
      | [b1, b2], _ =>
        rw [valid_three _ _ _ _ hb] at hv
        rw [List.cons_append, List.cons_append, List.cons_append, List.nil_append, valid_three _ _ _ _ hb]
        simp only [valid, Bool.and_true] at hv
        rw [hv]; rfl
    · rw [hr] at h
      match t, h with
      | [b1, b2, b3], _ =>
        by_cases hb' : b0.toNat ≤ 0xF4
        · rw [valid_four _ _ _ _ _ ⟨hb.1, hb'⟩] at hv
          rw [List.cons_append, List.cons_append, List.cons_append, List.cons_append, List.nil_append,
            valid_four _ _ _ _ _ ⟨hb.1, hb'⟩]
          simp only [valid, Bool.and_true] at hv
          rw [hv]; rfl
        · exact valid_badlead b0 _ (by omega) (by omega) (by omega) (by omega)
    · rw [hr] at h; simp at h
  · rw [Bool.true_and]; exact valid_append _ _ hv

/-- fewer bytes than the lead byte announces: not valid yet -/
theorem valid_pending (b0 : UInt8) (t : Bytes) (h : (b0 :: t).length < runeByteCount b0) : valid (b0 :: t) = false := by
  rcases rbc_range b0 with ⟨hr, hb⟩ | ⟨hr, hb⟩ | ⟨hr, hb⟩ | ⟨hr, hb⟩ | ⟨hr, hb⟩ <;> rw [hr] at h <;> simp only [List.length_cons] at h
  · omega
  · have : t = [] := List.eq_nil_of_length_eq_zero (by omega)
    subst this
    by_cases hb' : 0xC2 ≤ b0.toNat
    · exact valid_two_trunc b0 ⟨hb', hb.2⟩
    · exact valid_badlead b0 _ (by omega) (by omega) (by omega) (by omega)
  · exact valid_three_trunc b0 t hb (by omega)
  · by_cases hb' : b0.toNat ≤ 0xF4
    · exact valid_four_trunc b0 t ⟨hb.1, hb'⟩ (by omega)
    · exact valid_badlead b0 _ (by omega) (by omega) (by omega) (by omega)
  · omega

/-- more bytes than the lead byte announces, none of which starts a character: invalid whatever follows -/
theorem valid_doomed (b0 : UInt8) (t q : Bytes) (h : runeByteCount b0 < (b0 :: t).length)
    (ht : ∀ c ∈ t, runeByteCount c = 0) : valid ((b0 :: t) ++ q) = false := by
  rcases rbc_range b0 with ⟨hr, hb⟩ | ⟨hr, hb⟩ | ⟨hr, hb⟩ | ⟨hr, hb⟩ | ⟨hr, hb⟩ <;> rw [hr] at h <;> simp only [List.length_cons] at h
  · match t, h, ht with
    | c :: t', _, ht =>
      rw [List.cons_append, valid_ascii _ _ hb, List.cons_append]
      exact valid_rbc0 c _ (ht c (by simp))
  · match t, h, ht with
    | c1 :: c2 :: t', _, ht =>
      by_cases hb' : 0xC2 ≤ b0.toNat
      · rw [List.cons_append, List.cons_append, valid_two _ _ _ ⟨hb', hb.2⟩, List.cons_append,
          valid_rbc0 c2 _ (ht c2 (by simp))]
        simp
      · exact valid_badlead b0 _ (by omega) (by omega) (by omega) (by omega)
  · match t, h, ht with
    | c1 :: c2 :: c3 :: t', _, ht =>
      rw [List.cons_append, List.cons_append, List.cons_append, valid_three _ _ _ _ hb, List.cons_append,
          valid_rbc0 c3 _ (ht c3 (by simp))]
      simp
  · match t, h, ht with
    | c1 :: c2 :: c3 :: c4 :: t', _, ht =>
      by_cases hb' : b0.toNat ≤ 0xF4
      · rw [List.cons_append, List.cons_append, List.cons_append, List.cons_append, valid_four _ _ _ _ _ ⟨hb.1, hb'⟩,
          List.cons_append, valid_rbc0 c4 _ (ht c4 (by simp))]
        simp
      · exact valid_badlead b0 _ (by omega) (by omega) (by omega) (by omega)
  · rw [List.cons_append]; exact valid_rbc0 b0 _ hr

theorem lrs_none (l : List UInt8) (k : Nat) (h : lastRuneStartRev l k = none) : ∀ b ∈ l, runeByteCount b = 0 := by
  induction l generalizing k with
  | nil => simp
  | cons b rest ih =>
    unfold lastRuneStartRev at h
    by_cases hb : runeByteCount b > 0
    · simp [hb] at h
    · simp only [hb, if_false] at h
      intro x hx
      rcases List.mem_cons.mp hx with rfl | hx
      · omega
      · exact ih _ h x hx

theorem lrs_some (l : List UInt8) (k i c : Nat) (h : lastRuneStartRev l k = some (i, c)) :
    ∃ pre b post, l = pre ++ b :: post ∧ (∀ x ∈ pre, runeByteCount x = 0) ∧ runeByteCount b = c ∧ c > 0 ∧
      i = k + pre.length := by
  induction l generalizing k with
  | nil => simp [lastRuneStartRev] at h
  | cons b rest ih =>
    unfold lastRuneStartRev at h
    by_cases hb : runeByteCount b > 0
    · simp only [hb, if_true, Option.some.injEq, Prod.mk.injEq] at h
      exact ⟨[], b, rest, rfl, by simp, h.2, by omega, by simp [h.1]⟩
    · simp only [hb, if_false] at h
      obtain ⟨pre, b', post, hl, hpre, hc, hc0, hi⟩ := ih _ h
      refine ⟨b :: pre, b', post, by simp [hl], ?_, hc, hc0, by simp; omega⟩
      intro x hx
      rcases List.mem_cons.mp hx with rfl | hx
      · omega
      · exact hpre x hx

/-- what `IndexOfLastRuneStart` finds in a non-empty slice -/
theorem ilrs_spec (next : Bytes) (hne : next ≠ []) :
    (indexOfLastRuneStart next = (0, false) ∧ ∀ b ∈ next, runeByteCount b = 0) ∨
    (∃ p b t, next = p ++ b :: t ∧ runeByteCount b > 0 ∧ (∀ x ∈ t, runeByteCount x = 0) ∧
      indexOfLastRuneStart next = (p.length, p.length + runeByteCount b == next.length)) := by
  unfold indexOfLastRuneStart
  have he : next.isEmpty = false := by cases next <;> simp_all
  simp only [he, Bool.false_eq_true, if_false]
  cases hl : lastRuneStartRev next.reverse 0 with
  | none =>
    left
    refine ⟨rfl, ?_⟩
    intro b hb
    exact lrs_none _ _ hl b (by simpa using hb)
  | some ic =>
    obtain ⟨i, c⟩ := ic
    right
    obtain ⟨pre, b, post, hrev, hpre, hc, hc0, hi⟩ := lrs_some _ _ _ _ hl
    have hnext : next = post.reverse ++ b :: pre.reverse := by
      have := congrArg List.reverse hrev
      simpa using this
    refine ⟨post.reverse, b, pre.reverse, hnext, by omega, ?_, ?_⟩
    · intro x hx; exact hpre x (by simpa using hx)
    · have hlen : next.length = post.length + 1 + pre.length := by rw [hnext]; simp; omega
      have hidx : next.length - 1 - i = post.length := by omega
      simp only [hidx, List.length_reverse, hc]

/-! ### the streaming validator (`Context.StreamStringData` + the two `ValidateString` calls) -/

/-- first half of `StreamStringData`: complete the character left over from the previous call -/
def stage1 (rem data : Bytes) : Option (Bytes × Bytes × Bytes × Bool) :=
  if rem.length > 0 then
    match rem with
    | [] => some (rem, [], data, false)
    | b0 :: _ =>
      let required := runeByteCount b0
      if required < rem.length then none
      else
        let copied := min (required - rem.length) data.length
        let rem' := rem ++ data.take copied
        let next := data.drop copied
        if rem.length + copied < required then some (rem', [], next, true) else some ([], rem', next, false)
  else some (rem, [], data, false)

/-- second half: hold back a trailing incomplete character -/
def stage2 (r first next : Bytes) : Option (Bytes × Bytes × Bytes) :=
  let (li, complete) := indexOfLastRuneStart next
  if !complete then
    let rb := next.drop li
    if rb.length > 4 then none else some (rb, first, next.take li)
  else some (r, first, next)

def sraw (rem data : Bytes) : Option (Bytes × Bytes × Bytes) :=
  match stage1 rem data with
  | none => none
  | some (r, f, n, done) => if done then some (r, f, n) else stage2 r f n

/-- one data event: the new remainder and the bytes validated, or rejection -/
def sstep (rem data : Bytes) : Option (Bytes × Bytes) :=
  match sraw rem data with
  | none => none
  | some (r, f, n) => if valid f && valid n then some (r, f ++ n) else none

/-- the remainders the validator can hold: nothing, a character still short of its announced
    length, or bytes that can no longer become valid (rejected at the next event or at the end
    of the chunk) -/
def RemOK (rem : Bytes) : Prop :=
  rem = [] ∨ (∃ b0 t, rem = b0 :: t ∧ rem.length < runeByteCount b0) ∨
  (∃ b0 t, rem = b0 :: t ∧ runeByteCount b0 < rem.length ∧ ∀ c ∈ t, runeByteCount c = 0)

theorem startsFresh_of_rbc (b : UInt8) (t : Bytes) (h : runeByteCount b > 0) : startsFresh (b :: t) = true := by
  simp only [startsFresh, Bool.not_eq_true']
  cases hc : isCont b
  · rfl
  · have := rbc_cont b hc; omega

theorem rbc_le4 (b : UInt8) : runeByteCount b ≤ 4 := by
  rcases rbc_range b with ⟨h, _⟩ | ⟨h, _⟩ | ⟨h, _⟩ | ⟨h, _⟩ | ⟨h, _⟩ <;> omega

theorem stage2_spec (f n : Bytes) :
    (n = [] ∧ stage2 [] f n = some ([], f, [])) ∨
    (n ≠ [] ∧ (∀ b ∈ n, runeByteCount b = 0) ∧ stage2 [] f n = if n.length > 4 then none else some (n, f, [])) ∨
    (∃ p b t, n = p ++ b :: t ∧ runeByteCount b > 0 ∧ (∀ x ∈ t, runeByteCount x = 0) ∧
      stage2 [] f n = if (b :: t).length = runeByteCount b then some ([], f, n)
                      else if (b :: t).length > 4 then none else some (b :: t, f, p)) := by
  by_cases hn : n = []
  · left; subst hn; exact ⟨rfl, rfl⟩
  · right
    rcases ilrs_spec n hn with ⟨hi, hall⟩ | ⟨p, b, t, hnx, hb, ht, hi⟩
    · left
      refine ⟨hn, hall, ?_⟩
      simp only [stage2, hi, Bool.not_false, if_true, List.drop_zero, List.take_zero]
    · right
      refine ⟨p, b, t, hnx, hb, ht, ?_⟩
      have hlen : n.length = p.length + (b :: t).length := by rw [hnx]; simp
      simp only [stage2, hi]
      by_cases hc : (b :: t).length = runeByteCount b
      · have : (p.length + runeByteCount b == n.length) = true := by simp; omega
        simp only [this, Bool.not_true, Bool.false_eq_true, if_false, hc, if_true]
      · have : (p.length + runeByteCount b == n.length) = false := by simp; omega
        have hd : n.drop p.length = b :: t := by rw [hnx]; simp
        have htk : n.take p.length = p := by rw [hnx]; simp
        simp only [this, Bool.not_false, if_true, hc, if_false, hd, htk]

/-- second half plus the two validations -/
def fin2 (f n : Bytes) : Option (Bytes × Bytes) :=
  match stage2 [] f n with
  | none => none
  | some (r, f', v) => if valid f' && valid v then some (r, f' ++ v) else none

/-- `f` is empty or one character of exactly its announced length -/
def Whole (f : Bytes) : Prop := f = [] ∨ ∃ b0 t, f = b0 :: t ∧ f.length = runeByteCount b0

theorem valid_whole (f X : Bytes) (hf : Whole f) : valid (f ++ X) = (valid f && valid X) := by
  rcases hf with rfl | ⟨b0, t, rfl, hl⟩
  · simp [valid]
  · exact valid_exact b0 t X hl

theorem valid_split (p X : Bytes) (hX : startsFresh X = true) (hXf : valid X = false) : valid (p ++ X) = false := by
  cases hp : valid p
  · exact invalid_append p X hp hX
  · rw [valid_append p X hp, hXf]

theorem fin2_spec (f n : Bytes) (hf : Whole f) :
    (∀ r pv, fin2 f n = some (r, pv) → f ++ n = pv ++ r ∧ valid pv = true ∧ RemOK r) ∧
    (fin2 f n = none → ∀ q, valid (f ++ n ++ q) = false) := by
  have hfq : ∀ q, valid f = false → valid (f ++ n ++ q) = false := by
    intro q h; rw [List.append_assoc, valid_whole f _ hf, h]; rfl
  rcases stage2_spec f n with ⟨rfl, h2⟩ | ⟨hne, hall, h2⟩ | ⟨p, b, t, hn, hb, ht, h2⟩
  · -- nothing after the completed character
    simp only [fin2, h2, valid, Bool.and_true]
    cases hv : valid f
    · exact ⟨by simp, fun _ q => hfq q hv⟩
    · refine ⟨?_, by simp⟩
      intro r pv h
      simp only [if_true, Option.some.injEq, Prod.mk.injEq] at h
      obtain ⟨rfl, rfl⟩ := h
      exact ⟨by simp, by simpa using hv, Or.inl rfl⟩
  · -- no byte of `n` starts a character
    obtain ⟨c, n', rfl⟩ := List.exists_cons_of_ne_nil hne
    have hc : runeByteCount c = 0 := hall c (by simp)
    have hbad : ∀ q, valid (f ++ c :: n' ++ q) = false := by
      intro q
      rw [List.append_assoc, valid_whole f _ hf, List.cons_append, valid_rbc0 c _ hc, Bool.and_false]
    by_cases h4 : (c :: n').length > 4
    · simp only [fin2, h2, h4, if_true]
      exact ⟨by simp, fun _ => hbad⟩
    · simp only [fin2, h2, h4, if_false, valid, Bool.and_true]
      cases hv : valid f
      · exact ⟨by simp, fun _ => hbad⟩
      · refine ⟨?_, by simp⟩
        intro r pv h
        simp only [if_true, Option.some.injEq, Prod.mk.injEq] at h
        obtain ⟨rfl, rfl⟩ := h
        refine ⟨by simp, by simpa using hv, Or.inr (Or.inr ⟨c, n', rfl, by rw [hc]; simp, ?_⟩)⟩
        intro x hx; exact hall x (by simp [hx])
  · -- `n = p ++ b :: t`, `b` the last byte that starts a character
    have hfresh : ∀ q, startsFresh ((b :: t) ++ q) = true := fun q => startsFresh_of_rbc b _ hb
    subst hn
    by_cases hex : (b :: t).length = runeByteCount b
    · simp only [fin2, h2, hex, if_true]
      cases hv : valid f
      · exact ⟨by simp, fun _ q => hfq q hv⟩
      · cases hvn : valid (p ++ b :: t)
        · refine ⟨by simp, ?_⟩
          intro _ q
          rw [List.append_assoc, valid_whole f _ hf, hv, Bool.true_and, List.append_assoc]
          cases hp : valid p
          · exact invalid_append p _ hp (hfresh q)
          · rw [valid_append p _ hp] at hvn ⊢
            rw [valid_exact b t q hex, hvn]; rfl
        · refine ⟨?_, by simp⟩
          intro r pv h
          simp only [Bool.and_self, if_true, Option.some.injEq, Prod.mk.injEq] at h
          obtain ⟨rfl, rfl⟩ := h
          refine ⟨by simp, ?_, Or.inl rfl⟩
          rw [valid_whole f _ hf, hv, hvn]; rfl
    · -- `b :: t` is not a whole character: held back, or hopeless
      have hbtbad : ∀ q, valid (p ++ ((b :: t) ++ q)) = false → valid (f ++ (p ++ b :: t) ++ q) = false := by
        intro q h
        rw [List.append_assoc, valid_whole f _ hf, List.append_assoc, h, Bool.and_false]
      by_cases h4 : (b :: t).length > 4
      · simp only [fin2, h2, hex, h4, if_true, if_false]
        refine ⟨by simp, fun _ q => hbtbad q ?_⟩
        have hd : valid ((b :: t) ++ q) = false :=
          valid_doomed b t q (by have := rbc_le4 b; omega) ht
        exact valid_split p _ (hfresh q) hd
      · simp only [fin2, h2, hex, h4, if_false]
        cases hv : valid f
        · exact ⟨by simp, fun _ q => hfq q hv⟩
        · cases hp : valid p
          · refine ⟨by simp, fun _ q => hbtbad q ?_⟩
            exact invalid_append p _ hp (hfresh q)
          · refine ⟨?_, by simp⟩
            intro r pv h
            simp only [Bool.and_self, if_true, Option.some.injEq, Prod.mk.injEq] at h
            obtain ⟨rfl, rfl⟩ := h
            refine ⟨by simp, by rw [valid_whole f _ hf, hv, hp]; rfl, ?_⟩
            by_cases hlt : (b :: t).length < runeByteCount b
            · exact Or.inr (Or.inl ⟨b, t, rfl, hlt⟩)
            · exact Or.inr (Or.inr ⟨b, t, rfl, by omega, ht⟩)

theorem sstep_spec (rem data : Bytes) (hok : RemOK rem) :
    (∀ r pv, sstep rem data = some (r, pv) → rem ++ data = pv ++ r ∧ valid pv = true ∧ RemOK r) ∧
    (sstep rem data = none → ∀ q, valid (rem ++ data ++ q) = false) := by
  rcases hok with rfl | ⟨b0, t, rfl, hlt⟩ | ⟨b0, t, rfl, hgt, ht⟩
  · have h : sstep [] data = fin2 [] data := by
      simp only [sstep, sraw, stage1, List.length_nil, Nat.lt_irrefl, if_false, Bool.false_eq_true, fin2]
    rw [h]
    exact fin2_spec [] data (Or.inl rfl)
  · -- a character still short of its length
    have hpos : (b0 :: t).length > 0 := by simp
    have hnr : ¬ runeByteCount b0 < (b0 :: t).length := by omega
    by_cases hshort : (b0 :: t).length + min (runeByteCount b0 - (b0 :: t).length) data.length < runeByteCount b0
    · -- still short after this event: everything is kept, nothing validated
      have hcop : min (runeByteCount b0 - (b0 :: t).length) data.length = data.length := by omega
      have h : sstep (b0 :: t) data = some ((b0 :: t) ++ data, []) := by
        have hshort' : (b0 :: t).length + data.length < runeByteCount b0 := by omega
        simp only [sstep, sraw, stage1, hpos, if_true, hnr, if_false, hcop, List.take_length, List.drop_length,
          hshort', valid, Bool.and_self, List.append_nil]
      rw [h]
      refine ⟨?_, by simp⟩
      intro r pv hr
      simp only [Option.some.injEq, Prod.mk.injEq] at hr
      obtain ⟨rfl, rfl⟩ := hr
      refine ⟨by simp, rfl, Or.inr (Or.inl ⟨b0, t ++ data, by simp, ?_⟩)⟩
      rw [hcop] at hshort
      simp only [List.length_cons, List.length_append] at hshort ⊢
      omega
    · -- completed by the first bytes of this event
      generalize hc : min (runeByteCount b0 - (b0 :: t).length) data.length = copied at hshort
      have h : sstep (b0 :: t) data = fin2 ((b0 :: t) ++ data.take copied) (data.drop copied) := by
        simp only [sstep, sraw, stage1, hpos, if_true, hnr, if_false, hc, hshort, Bool.false_eq_true, fin2]
      rw [h]
      have hw : Whole ((b0 :: t) ++ data.take copied) := by
        refine Or.inr ⟨b0, t ++ data.take copied, by simp, ?_⟩
        simp only [List.length_append, List.length_take]
        omega
      have := fin2_spec ((b0 :: t) ++ data.take copied) (data.drop copied) hw
      simp only [List.append_assoc, List.take_append_drop] at this
      simpa only [List.append_assoc] using this
  · -- hopeless: rejected, and rightly so
    have hpos : (b0 :: t).length > 0 := by simp
    have h : sstep (b0 :: t) data = none := by
      simp only [sstep, sraw, stage1, hpos, if_true, hgt]
    rw [h]
    refine ⟨by simp, ?_⟩
    intro _ q
    rw [List.append_assoc]
    exact valid_doomed b0 t _ hgt ht

/-- the data events of one chunk, one after the other: final remainder and everything validated -/
def sfeed : Bytes → List Bytes → Option (Bytes × Bytes)
  | rem, [] => some (rem, [])
  | rem, d :: ds =>
    match sstep rem d with
    | none => none
    | some (r, p) =>
      match sfeed r ds with
      | none => none
      | some (r', p') => some (r', p ++ p')

theorem sfeed_spec (ds : List Bytes) : ∀ (rem : Bytes), RemOK rem →
    (∀ r pv, sfeed rem ds = some (r, pv) → rem ++ ds.flatten = pv ++ r ∧ valid pv = true ∧ RemOK r) ∧
    (sfeed rem ds = none → ∀ q, valid (rem ++ ds.flatten ++ q) = false) := by
  induction ds with
  | nil =>
    intro rem hok
    refine ⟨?_, by simp [sfeed]⟩
    intro r pv h
    simp only [sfeed, Option.some.injEq, Prod.mk.injEq] at h
    obtain ⟨rfl, rfl⟩ := h
    exact ⟨by simp, rfl, hok⟩
  | cons d ds ih =>
    intro rem hok
    obtain ⟨hs, hn⟩ := sstep_spec rem d hok
    cases h1 : sstep rem d with
    | none =>
      simp only [sfeed, h1]
      refine ⟨by simp, ?_⟩
      intro _ q
      have := hn h1 (ds.flatten ++ q)
      simpa [List.append_assoc] using this
    | some rp =>
      obtain ⟨r1, p1⟩ := rp
      obtain ⟨heq, hv, hok1⟩ := hs r1 p1 h1
      obtain ⟨ihs, ihn⟩ := ih r1 hok1
      cases h2 : sfeed r1 ds with
      | none =>
        simp only [sfeed, h1, h2]
        refine ⟨by simp, ?_⟩
        intro _ q
        have := ihn h2 q
        rw [List.flatten_cons, ← List.append_assoc rem, heq, List.append_assoc, List.append_assoc, valid_append _ _ hv]
        simpa [List.append_assoc] using this
      | some rp2 =>
        obtain ⟨r2, p2⟩ := rp2
        obtain ⟨heq2, hv2, hok2⟩ := ihs r2 p2 h2
        simp only [sfeed, h1, h2]
        refine ⟨?_, by simp⟩
        intro r pv h
        simp only [Option.some.injEq, Prod.mk.injEq] at h
        obtain ⟨rfl, rfl⟩ := h
        refine ⟨?_, by rw [valid_append _ _ hv, hv2], hok2⟩
        rw [List.flatten_cons, ← List.append_assoc rem, heq, List.append_assoc, heq2, List.append_assoc]

/-- a remainder that is not empty is not valid UTF-8 -/
theorem remOK_valid (r : Bytes) (hok : RemOK r) (hv : valid r = true) : r = [] := by
  rcases hok with rfl | ⟨b0, t, rfl, hlt⟩ | ⟨b0, t, rfl, hgt, ht⟩
  · rfl
  · rw [valid_pending b0 t hlt] at hv; simp at hv
  · have := valid_doomed b0 t [] hgt ht
    rw [List.append_nil] at this
    rw [this] at hv; simp at hv

/-- THE STREAMING VALIDATOR IS THE WHOLE-STRING VALIDATOR: a chunk's data events are all accepted and
    leave nothing pending exactly when the bytes they carry, together, are valid UTF-8 — however
    they are divided, also inside characters. -/
theorem sfeed_accepts_iff_valid (rem : Bytes) (ds : List Bytes) (hok : RemOK rem) :
    (∃ pv, sfeed rem ds = some ([], pv)) ↔ valid (rem ++ ds.flatten) = true := by
  obtain ⟨hs, hn⟩ := sfeed_spec ds rem hok
  constructor
  · rintro ⟨pv, h⟩
    obtain ⟨heq, hv, _⟩ := hs [] pv h
    rw [heq, List.append_nil]; exact hv
  · intro hv
    cases h : sfeed rem ds with
    | none =>
      have := hn h []
      rw [List.append_nil, hv] at this; simp at this
    | some rp =>
      obtain ⟨r, pv⟩ := rp
      obtain ⟨heq, hvp, hokr⟩ := hs r pv h
      rw [heq, valid_append _ _ hvp] at hv
      have := remOK_valid r hokr hv
      subst this
      exact ⟨pv, rfl⟩

/-- when accepted, what was validated (and appended to the string being built) is all the bytes -/
theorem sfeed_validated (rem : Bytes) (ds : List Bytes) (hok : RemOK rem) (pv : Bytes)
    (h : sfeed rem ds = some ([], pv)) : pv = rem ++ ds.flatten := by
  obtain ⟨heq, _, _⟩ := (sfeed_spec ds rem hok).1 [] pv h
  rw [heq, List.append_nil]

/-- the verdict does not depend on how the bytes are divided among data events -/
theorem sfeed_split_irrelevant (ds ds' : List Bytes) (h : ds.flatten = ds'.flatten) :
    (∃ pv, sfeed [] ds = some ([], pv)) ↔ (∃ pv, sfeed [] ds' = some ([], pv)) := by
  rw [sfeed_accepts_iff_valid [] ds (Or.inl rfl), sfeed_accepts_iff_valid [] ds' (Or.inl rfl), h]

/-- accepted with nothing pending: the bytes validated -/
def acc (rem : Bytes) (ds : List Bytes) : Option Bytes :=
  (sfeed rem ds).bind (fun rp => if rp.1 = [] then some rp.2 else none)

theorem acc_eq (rem : Bytes) (ds : List Bytes) (hok : RemOK rem) :
    acc rem ds = if valid (rem ++ ds.flatten) = true then some (rem ++ ds.flatten) else none := by
  have hiff := sfeed_accepts_iff_valid rem ds hok
  by_cases hv : valid (rem ++ ds.flatten) = true
  · obtain ⟨pv, h⟩ := hiff.mpr hv
    have := sfeed_validated rem ds hok pv h
    simp [acc, h, hv, this]
  · simp only [hv, if_false]
    unfold acc
    cases h : sfeed rem ds with
    | none => rfl
    | some rp =>
      obtain ⟨r, pv⟩ := rp
      by_cases hr : r = []
      · subst hr; exact absurd (hiff.mp ⟨pv, h⟩) hv
      · simp [Option.bind, hr]

theorem sfeed_snoc (ds : List Bytes) (d : Bytes) : ∀ rem,
    sfeed rem (ds ++ [d]) = (sfeed rem ds).bind (fun rp => (sstep rp.1 d).map (fun rp' => (rp'.1, rp.2 ++ rp'.2))) := by
  induction ds with
  | nil =>
    intro rem
    simp only [List.nil_append, sfeed, Option.bind]
    cases sstep rem d with
    | none => rfl
    | some rp => simp
  | cons d0 ds ih =>
    intro rem
    simp only [List.cons_append, sfeed]
    cases sstep rem d0 with
    | none => rfl
    | some rp =>
      simp only [ih rp.1]
      cases sfeed rp.1 ds with
      | none => rfl
      | some rp2 =>
        simp only [Option.bind]
        cases sstep rp2.1 d with
        | none => rfl
        | some rp3 => simp [List.append_assoc]

end CE.Utf8
