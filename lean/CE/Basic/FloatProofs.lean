import CE.Basic.Float
namespace CE.F

theorem decomp64 (b : Nat) (h : b < 2 ^ 64) : b = sign64 b * 2 ^ 63 + exp64 b * 2 ^ 52 + mant64 b := by
  unfold sign64 exp64 mant64
  omega

theorem narrow_fields (S E q : Nat) (hS : S ≤ 1) (hE1 : 897 ≤ E) (hE2 : E ≤ 1150) (hq : q < 2 ^ 23) :
    (S * 2 ^ 31 + (E - 896) * 2 ^ 23 + q) / 2 ^ 31 % 2 = S ∧
    (S * 2 ^ 31 + (E - 896) * 2 ^ 23 + q) / 2 ^ 23 % 256 = E - 896 ∧
    (S * 2 ^ 31 + (E - 896) * 2 ^ 23 + q) % 2 ^ 23 = q := by
  refine ⟨by omega, by omega, by omega⟩

theorem mul_div_29 (M : Nat) (hm : M % 2 ^ 29 = 0) : M = M / 2 ^ 29 * 2 ^ 29 := by omega

/-- narrowing a double in the float32 normal range and widening it again gives the double back -/
theorem widen_exact_normal (b s : Nat) (hb : b < 2 ^ 64) (he1 : 897 ≤ exp64 b) (he2 : exp64 b ≤ 1150)
    (h : exactF32? b = some s) : widen32 s = b := by
  have hd := decomp64 b hb
  unfold exactF32? at h
  have hne : ¬ (exp64 b = 0 ∨ exp64 b = 2047) := by omega
  simp only [hne, if_false, he1, he2, and_self, if_true] at h
  split at h
  · rename_i hm
    simp only [Option.some.injEq] at h
    subst h
    have hsg : sign64 b ≤ 1 := by unfold sign64; omega
    have hmant : mant64 b < 2 ^ 52 := by unfold mant64; omega
    have hq23 : mant64 b / 2 ^ 29 < 2 ^ 23 := by
      have := mul_div_29 _ hm
      generalize mant64 b / 2 ^ 29 = q at *
      generalize mant64 b = M at *
      clear hd hne hm
      omega
    obtain ⟨f1, f2, f3⟩ := narrow_fields (sign64 b) (exp64 b) (mant64 b / 2 ^ 29) hsg he1 he2 hq23
    unfold widen32 sign32 exp32 mant32
    simp only [f1, f2, f3]
    have g1 : ¬ (exp64 b - 896 = 255) := by omega
    have g2 : ¬ (exp64 b - 896 = 0) := by omega
    simp only [g1, g2, if_false]
    have hmq := mul_div_29 _ hm
    have hE : exp64 b - 896 + 896 = exp64 b := by omega
    rw [hE]
    rw [← hmq]
    exact hd.symm
  · simp at h

end CE.F
