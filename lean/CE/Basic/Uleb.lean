import CE.Basic.Bytes
/-
  ULEB128 as used by go-uleb128 v1.1.0 (EncodeUint64ToBytes / DecodeWithByteBuffer).
-/
namespace CE

/-- `EncodeUint64ToBytes`: minimal little-endian base-128 with continuation bits. -/
def uleb (n : Nat) : Bytes :=
  if n < 128 then [n.toUInt8] else (n % 128 + 128).toUInt8 :: uleb (n / 128)
decreasing_by omega

/-- Raw group decoder: value, number of bytes consumed, rest.  `none` = input ended
    inside the number (the Go decoder returns the reader's error, i.e. EOF). -/
def unulebRaw : Bytes → Option (Nat × Nat × Bytes)
  | [] => none
  | b :: rest =>
    if b.toNat < 128 then some (b.toNat, 1, rest)
    else match unulebRaw rest with
      | none => none
      | some (v, k, r) => some ((b.toNat - 128) + 128 * v, k + 1, r)

inductive UlebErr | eof | tooBig
deriving DecidableEq, Repr

/-- `DecodeWithByteBuffer` followed by the `asBig != nil` test every caller makes:
    the word-based decoder yields a uint64 exactly when at most 18 bytes were used and
    the value is below 2^64 (see DESIGN, "ULEB128 decoder"). -/
def unuleb (bs : Bytes) : Except UlebErr (Nat × Nat × Bytes) :=
  match unulebRaw bs with
  | none => .error .eof
  | some (v, k, r) => if k ≤ 18 ∧ v < 2 ^ 64 then .ok (v, k, r) else .error .tooBig

theorem uleb_length_pos (n : Nat) : 0 < (uleb n).length := by
  unfold uleb; split <;> simp

theorem toUInt8_toNat_lt (n : Nat) (h : n < 256) : n.toUInt8.toNat = n := by
  simp [Nat.toUInt8, UInt8.toNat_ofNat', Nat.mod_eq_of_lt h]

/-- length of the encoding: number of 7-bit groups -/
def ulebLen (n : Nat) : Nat := if n < 128 then 1 else 1 + ulebLen (n / 128)
decreasing_by omega

theorem uleb_length (n : Nat) : (uleb n).length = ulebLen n := by
  induction n using Nat.strongRecOn with
  | _ n ih =>
    unfold uleb ulebLen
    split
    · simp
    · simp [ih (n / 128) (by omega)]; omega

theorem unulebRaw_uleb (n : Nat) (rest : Bytes) :
    unulebRaw (uleb n ++ rest) = some (n, ulebLen n, rest) := by
  induction n using Nat.strongRecOn with
  | _ n ih =>
    unfold uleb ulebLen
    split
    · rename_i h
      simp [unulebRaw, toUInt8_toNat_lt n (by omega), h]
    · rename_i h
      have h1 : (n % 128 + 128).toUInt8.toNat = n % 128 + 128 := toUInt8_toNat_lt _ (by omega)
      simp only [List.cons_append, unulebRaw, h1]
      rw [ih (n / 128) (by omega)]
      have : ¬ (n % 128 + 128 < 128) := by omega
      simp only [this, if_false]
      congr 2
      · omega
      · congr 1; omega

theorem ulebLen_le (n : Nat) (k : Nat) (h : n < 128 ^ k) (hk : 0 < k) : ulebLen n ≤ k := by
  induction k generalizing n with
  | zero => omega
  | succ k ih =>
    unfold ulebLen
    split
    · omega
    · rename_i h128
      have hk' : 0 < k := by
        rcases k with _ | k
        · simp at h; omega
        · omega
      have : n / 128 < 128 ^ k := by
        rw [Nat.pow_succ] at h
        exact Nat.div_lt_of_lt_mul (by rw [Nat.mul_comm]; exact h)
      have := ih (n / 128) this hk'
      omega

theorem ulebLen_u64 (n : Nat) (h : n < 2 ^ 64) : ulebLen n ≤ 10 := by
  apply ulebLen_le n 10 _ (by omega)
  have : (2:Nat) ^ 64 < 128 ^ 10 := by decide
  omega

/-- Round trip with arbitrary suffix for every uint64. -/
theorem unuleb_uleb (n : Nat) (h : n < 2 ^ 64) (rest : Bytes) :
    unuleb (uleb n ++ rest) = .ok (n, ulebLen n, rest) := by
  unfold unuleb
  rw [unulebRaw_uleb]
  have := ulebLen_u64 n h
  simp only
  rw [if_pos]
  exact ⟨by omega, h⟩

end CE
