import CE.Basic.Bytes
/-
  UTF-8 as Go's unicode/utf8 validates it, and the two helpers of internal/chars used by
  the streaming validator (CalculateRuneByteCount, IndexOfLastRuneStart).
-/
namespace CE.Utf8

def isCont (b : UInt8) : Bool := 0x80 ≤ b.toNat && b.toNat ≤ 0xBF

/-- `utf8.Valid` -/
def valid : Bytes → Bool
  | [] => true
  | b0 :: rest =>
    let x := b0.toNat
    if x < 0x80 then valid rest
    else if 0xC2 ≤ x ∧ x ≤ 0xDF then
      match rest with
      | b1 :: r => isCont b1 && valid r
      | _ => false
    else if 0xE0 ≤ x ∧ x ≤ 0xEF then
      match rest with
      | b1 :: b2 :: r =>
        let lo := if x = 0xE0 then 0xA0 else 0x80
        let hi := if x = 0xED then 0x9F else 0xBF
        (lo ≤ b1.toNat && b1.toNat ≤ hi) && isCont b2 && valid r
      | _ => false
    else if 0xF0 ≤ x ∧ x ≤ 0xF4 then
      match rest with
      | b1 :: b2 :: b3 :: r =>
        let lo := if x = 0xF0 then 0x90 else 0x80
        let hi := if x = 0xF4 then 0x8F else 0xBF
        (lo ≤ b1.toNat && b1.toNat ≤ hi) && isCont b2 && isCont b3 && valid r
      | _ => false
    else false

/-- `viable bs`: bs is a prefix of some valid UTF-8 string (complete characters valid, the
    tail a proper prefix of a valid character) -/
def viable : Bytes → Bool
  | [] => true
  | b0 :: rest =>
    let x := b0.toNat
    if x < 0x80 then viable rest
    else if 0xC2 ≤ x ∧ x ≤ 0xDF then
      match rest with
      | [] => true
      | b1 :: r => isCont b1 && viable r
    else if 0xE0 ≤ x ∧ x ≤ 0xEF then
      let lo := if x = 0xE0 then 0xA0 else 0x80
      let hi := if x = 0xED then 0x9F else 0xBF
      match rest with
      | [] => true
      | [b1] => lo ≤ b1.toNat && b1.toNat ≤ hi
      | b1 :: b2 :: r => (lo ≤ b1.toNat && b1.toNat ≤ hi) && isCont b2 && viable r
    else if 0xF0 ≤ x ∧ x ≤ 0xF4 then
      let lo := if x = 0xF0 then 0x90 else 0x80
      let hi := if x = 0xF4 then 0x8F else 0xBF
      match rest with
      | [] => true
      | [b1] => lo ≤ b1.toNat && b1.toNat ≤ hi
      | [b1, b2] => (lo ≤ b1.toNat && b1.toNat ≤ hi) && isCont b2
      | b1 :: b2 :: b3 :: r => (lo ≤ b1.toNat && b1.toNat ≤ hi) && isCont b2 && isCont b3 && viable r
    else false

/-- `chars.CalculateRuneByteCount` (table `runeByteCounts[b>>3]`): 0 for continuation bytes
    and for 0xF8..0xFF -/
def runeByteCount (b : UInt8) : Nat :=
  let k := b.toNat / 8
  if k < 16 then 1 else if k < 24 then 0 else if k < 28 then 2 else if k < 30 then 3
  else if k = 30 then 4 else 0

/-- scan from the end for the last byte with a non-zero rune byte count -/
def lastRuneStartRev : List UInt8 → Nat → Option (Nat × Nat)
  | [], _ => none
  | b :: rest, idxFromEnd =>
    if runeByteCount b > 0 then some (idxFromEnd, runeByteCount b)
    else lastRuneStartRev rest (idxFromEnd + 1)

/-- `chars.IndexOfLastRuneStart` (after the fix: (0, false) when there is no rune start) -/
def indexOfLastRuneStart (data : Bytes) : Nat × Bool :=
  if data.isEmpty then (0, true)
  else match lastRuneStartRev data.reverse 0 with
    | none => (0, false)
    | some (fromEnd, cnt) =>
      let idx := data.length - 1 - fromEnd
      (idx, idx + cnt == data.length)

end CE.Utf8
