/-
  Bytes, hex text, little-endian integers.  Core Lean only.
-/
namespace CE

abbrev Bytes := List UInt8

namespace Hex

def digit (n : Nat) : Char :=
  if n < 10 then Char.ofNat (48 + n) else Char.ofNat (87 + n)

def ofByte (b : UInt8) : List Char := [digit (b.toNat / 16), digit (b.toNat % 16)]

def encode (bs : Bytes) : String := String.ofList (bs.flatMap ofByte)

def val (c : Char) : Option Nat :=
  let n := c.toNat
  if 48 ≤ n ∧ n ≤ 57 then some (n - 48)
  else if 97 ≤ n ∧ n ≤ 102 then some (n - 87)
  else if 65 ≤ n ∧ n ≤ 70 then some (n - 55)
  else none

def decodeChars : List Char → Option Bytes
  | [] => some []
  | [_] => none
  | a :: b :: rest => do
    let x ← val a
    let y ← val b
    let r ← decodeChars rest
    pure ((x * 16 + y).toUInt8 :: r)

def decode (s : String) : Option Bytes := decodeChars s.toList

end Hex

/-- `n` as `k` little-endian bytes (low `8k` bits). -/
def leBytes : Nat → Nat → Bytes
  | 0, _ => []
  | k + 1, n => (n % 256).toUInt8 :: leBytes k (n / 256)

/-- little-endian bytes to a natural number. -/
def leNat : Bytes → Nat
  | [] => 0
  | b :: bs => b.toNat + 256 * leNat bs

@[simp] theorem leBytes_length (k n : Nat) : (leBytes k n).length = k := by
  induction k generalizing n with
  | zero => rfl
  | succ k ih => simp [leBytes, ih]

theorem toUInt8_toNat_mod (n : Nat) : (n % 256).toUInt8.toNat = n % 256 := by
  simp [Nat.toUInt8, UInt8.toNat_ofNat']

theorem leNat_leBytes (k n : Nat) : leNat (leBytes k n) = n % 256 ^ k := by
  induction k generalizing n with
  | zero => simp [leBytes, leNat, Nat.mod_one]
  | succ k ih =>
    simp only [leBytes, leNat, ih, toUInt8_toNat_mod]
    rw [Nat.pow_succ, Nat.mul_comm (256 ^ k) 256, Nat.mod_mul]

theorem leNat_lt (bs : Bytes) : leNat bs < 256 ^ bs.length := by
  induction bs with
  | nil => simp [leNat]
  | cons b bs ih =>
    have hb : b.toNat < 256 := b.toNat_lt
    simp only [leNat, List.length_cons, Nat.pow_succ]
    omega

theorem leBytes_leNat (bs : Bytes) : leBytes bs.length (leNat bs) = bs := by
  induction bs with
  | nil => rfl
  | cons b bs ih =>
    have hb : b.toNat < 256 := b.toNat_lt
    simp only [List.length_cons, leBytes, leNat]
    have h1 : (b.toNat + 256 * leNat bs) % 256 = b.toNat := by omega
    have h2 : (b.toNat + 256 * leNat bs) / 256 = leNat bs := by omega
    rw [h1, h2, ih]
    simp

end CE
