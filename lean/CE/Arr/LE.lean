import CE.Basic.Bytes
/-
  M-ARR: internal/arrays — typed slice ↔ little-endian bytes.  Elements are their unsigned
  bit patterns (Nat < 256^w): signedness and float interpretation do not affect the bytes.
-/
namespace CE.Arr

/-- `<T>SliceAsBytes`: each element as w little-endian bytes -/
def toLE (w : Nat) : List Nat → Bytes
  | [] => []
  | x :: xs => leBytes w x ++ toLE w xs

/-- `BytesTo<T>Slice`: groups of w bytes (a trailing partial group is dropped, as
    `length := len(data) / w` does); fuel = number of elements -/
def fromLEAux (w : Nat) : Nat → Bytes → List Nat
  | 0, _ => []
  | n + 1, bs => leNat (bs.take w) :: fromLEAux w n (bs.drop w)

def fromLE (w : Nat) (bs : Bytes) : List Nat := if w = 0 then [] else fromLEAux w (bs.length / w) bs

theorem toLE_length (w : Nat) (xs : List Nat) : (toLE w xs).length = w * xs.length := by
  induction xs with
  | nil => simp [toLE]
  | cons x xs ih => simp [toLE, ih, Nat.mul_succ, Nat.add_comm]

theorem fromLEAux_toLE (w : Nat) (xs : List Nat) (h : ∀ x ∈ xs, x < 256 ^ w) :
    fromLEAux w xs.length (toLE w xs) = xs := by
  induction xs with
  | nil => simp [fromLEAux]
  | cons x xs ih =>
    have hx : x < 256 ^ w := h x (by simp)
    have hrest : ∀ y ∈ xs, y < 256 ^ w := fun y hy => h y (by simp [hy])
    simp only [List.length_cons, fromLEAux, toLE]
    have h1 : (leBytes w x ++ toLE w xs).take w = leBytes w x :=
      List.take_left' (by simp)
    have h2 : (leBytes w x ++ toLE w xs).drop w = toLE w xs :=
      List.drop_left' (by simp)
    rw [h1, h2, leNat_leBytes, Nat.mod_eq_of_lt hx, ih hrest]

/-- bytes → slice is the exact inverse of slice → bytes -/
theorem fromLE_toLE (w : Nat) (hw : 0 < w) (xs : List Nat) (h : ∀ x ∈ xs, x < 256 ^ w) :
    fromLE w (toLE w xs) = xs := by
  unfold fromLE
  have hw' : w ≠ 0 := by omega
  simp only [hw', if_false, toLE_length]
  rw [Nat.mul_div_cancel_left _ hw]
  exact fromLEAux_toLE w xs h

theorem toLE_fromLEAux (w : Nat) : ∀ (n : Nat) (bs : Bytes), bs.length = w * n → toLE w (fromLEAux w n bs) = bs := by
  intro n
  induction n with
  | zero =>
    intro bs h
    have : bs = [] := List.eq_nil_of_length_eq_zero (by simpa using h)
    simp [fromLEAux, toLE, this]
  | succ n ih =>
    intro bs h
    simp only [fromLEAux, toLE]
    have hlen : (bs.take w).length = w := by
      simp; rw [h, Nat.mul_succ]; omega
    have hd : (bs.drop w).length = w * n := by
      simp; rw [h, Nat.mul_succ]; omega
    rw [ih (bs.drop w) hd]
    have := leBytes_leNat (bs.take w)
    rw [hlen] at this
    rw [this, List.take_append_drop]

/-- slice → bytes is the exact inverse of bytes → slice on whole elements -/
theorem toLE_fromLE (w : Nat) (hw : 0 < w) (bs : Bytes) (h : bs.length % w = 0) :
    toLE w (fromLE w bs) = bs := by
  unfold fromLE
  have hw' : w ≠ 0 := by omega
  simp only [hw', if_false]
  apply toLE_fromLEAux
  have := Nat.div_add_mod bs.length w
  rw [h] at this
  omega

/-- the elements bytes→slice produces are in range, so the round trip above applies to them -/
theorem fromLEAux_lt (w : Nat) : ∀ (n : Nat) (bs : Bytes), ∀ x ∈ fromLEAux w n bs, x < 256 ^ w := by
  intro n
  induction n with
  | zero => intro bs x hx; simp [fromLEAux] at hx
  | succ n ih =>
    intro bs x hx
    simp only [fromLEAux, List.mem_cons] at hx
    rcases hx with rfl | hx
    · have := leNat_lt (bs.take w)
      have hl : (bs.take w).length ≤ w := by simp; omega
      calc leNat (bs.take w) < 256 ^ (bs.take w).length := this
        _ ≤ 256 ^ w := Nat.pow_le_pow_right (by decide) hl
    · exact ih _ x hx

/-- little-endian order: byte i of an element is bits 8i … 8i+7 -/
theorem toLE_is_little_endian (w x i : Nat) (hi : i < w) :
    (leBytes w x)[i]? = some ((x / 256 ^ i % 256).toUInt8) := by
  induction w generalizing x i with
  | zero => omega
  | succ w ih =>
    cases i with
    | zero => simp [leBytes]
    | succ i =>
      simp only [leBytes, List.getElem?_cons_succ]
      rw [ih (x / 256) i (by omega)]
      congr 2
      rw [Nat.pow_succ, Nat.div_div_eq_div_mul, Nat.mul_comm]

end CE.Arr
