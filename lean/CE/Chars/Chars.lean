import CE.Chars.Tables
import CE.Basic.Bytes
/-
  internal/chars: rune classes as range tables, and Go's utf8.DecodeRune.
-/
namespace CE.Chars

def inRanges (rs : List (Nat × Nat)) (r : Nat) : Bool := rs.any (fun p => p.1 ≤ r && r ≤ p.2)

/-- `utf8.DecodeRune`: (rune, width); invalid or short input gives (U+FFFD, 1) -/
def decodeRune : Bytes → Nat × Nat
  | [] => (0xFFFD, 0)
  | b0 :: rest =>
    let x := b0.toNat
    let cont (b : UInt8) : Bool := 0x80 ≤ b.toNat && b.toNat ≤ 0xBF
    if x < 0x80 then (x, 1)
    else if 0xC2 ≤ x ∧ x ≤ 0xDF then
      match rest with
      | b1 :: _ => if cont b1 then ((x % 32) * 64 + b1.toNat % 64, 2) else (0xFFFD, 1)
      | _ => (0xFFFD, 1)
    else if 0xE0 ≤ x ∧ x ≤ 0xEF then
      match rest with
      | b1 :: b2 :: _ =>
        let lo := if x = 0xE0 then 0xA0 else 0x80
        let hi := if x = 0xED then 0x9F else 0xBF
        if lo ≤ b1.toNat ∧ b1.toNat ≤ hi ∧ cont b2 then
          ((x % 16) * 4096 + (b1.toNat % 64) * 64 + b2.toNat % 64, 3)
        else (0xFFFD, 1)
      | _ => (0xFFFD, 1)
    else if 0xF0 ≤ x ∧ x ≤ 0xF4 then
      match rest with
      | b1 :: b2 :: b3 :: _ =>
        let lo := if x = 0xF0 then 0x90 else 0x80
        let hi := if x = 0xF4 then 0x8F else 0xBF
        if lo ≤ b1.toNat ∧ b1.toNat ≤ hi ∧ cont b2 ∧ cont b3 then
          ((x % 8) * 262144 + (b1.toNat % 64) * 4096 + (b2.toNat % 64) * 64 + b3.toNat % 64, 4)
        else (0xFFFD, 1)
      | _ => (0xFFFD, 1)
    else (0xFFFD, 1)

/-- all runes of a byte string, decoded as Go's `for len(str) > 0 { DecodeRune }` loop does -/
def runes : Nat → Bytes → List Nat
  | 0, _ => []
  | _, [] => []
  | fuel + 1, bs =>
    let (r, w) := decodeRune bs
    r :: runes fuel (bs.drop (max w 1))

/-- `chars.IsIdentifierSafe` -/
def isIdentifierSafe (id : Bytes) : Bool :=
  !id.isEmpty && (runes id.length id).all (inRanges Model.identifierSafeRanges)

end CE.Chars
