/-
  M-API: format detection on the first byte and version mapping, parameterised by the facts
  extracted from /repo (CE/Gen/Api.lean).
-/
namespace CE.Api

inductive Fmt | cte | cbe
deriving DecidableEq, Repr

def fmtOfName (s : String) : Option Fmt :=
  if s == "cte" then some .cte else if s == "cbe" then some .cbe else none

/-- `chooseDecoder` / `chooseUnmarshaler` as a function of the switch's case table -/
def detect (cases : List (Nat × String)) (b : Nat) : Option Fmt :=
  match cases.find? (·.1 == b) with
  | some (_, n) => fmtOfName n
  | none => none

/-- the version a decoder reports for header version v (`if ver == a { ver = b }` steps) -/
def mapVersion (m : List (Nat × Nat)) (v : Nat) : Nat :=
  match m.find? (·.1 == v) with
  | some (_, w) => w
  | none => v

/-- the rules accept exactly the library version (VersionRule.checkVersion) -/
def versionAccepted (m : List (Nat × Nat)) (lib : Nat) (v : Nat) : Bool := mapVersion m v == lib

end CE.Api
