/-
  M-API (panic containment): what the C07 / C29 reasoning needs to know about each public entry
  point.  The facts are extracted from the source on every run (CE/Gen/EntryPoints.lean); the
  obligation `entry_points_contain_panics` (CE/Gen/CheckEntry.lean) is decided over them.
-/
namespace CE.Api

structure EP where
  name : String            -- pkg.Receiver.Name
  short : String           -- Name (how callers refer to it)
  hasRecover : Bool        -- installs `defer func() { … recover() … }()`
  unguardedIndex : Bool    -- indexes / slices a parameter without a leading `if len(p) == 0 { return }`
  callees : List String
  entry : Bool             -- name starts with Marshal / Unmarshal / Decode (decided by the extractor)
deriving Repr, DecidableEq

/-- the entry points the property is about: marshal, unmarshal, decode (universal ones included) -/
def isEntry (e : EP) : Bool := e.entry

/-- helpers an entry point may call outside a recover: constructors and Init (allocation and
    field assignment only), the two pure dispatch switches, the error constructor and the
    standard-library buffer wrappers (assumed not to panic: trusted base) -/
def safeCallees : List String :=
  ["NewCBEMarshaler", "NewCTEMarshaler", "NewCBEUnmarshaler", "NewCTEUnmarshaler", "NewBuffer", "NewReader",
   "Peek", "Bytes", "Grow", "Errorf", "chooseDecoder", "chooseUnmarshaler"]

/-- contained: recovers itself, or touches nothing that can panic outside contained callees -/
def contained (eps : List EP) : Nat → EP → Bool
  | 0, e => e.hasRecover
  | fuel + 1, e =>
    e.hasRecover ||
    (!e.unguardedIndex &&
      e.callees.all fun c =>
        safeCallees.contains c ||
        ((eps.any fun x => x.short == c && x.name != e.name) &&
         (eps.filter fun x => x.short == c && x.name != e.name).all (contained eps fuel)))

/-- the entry points the library must keep offering (a removed one would make the obligation vacuous) -/
def requiredEntries : List String :=
  ["ce.UnmarshalCE", "ce.UnmarshalFromCEDocument", "ce.MarshalCBE", "ce.MarshalToCBEDocument", "ce.UnmarshalCBE",
   "ce.UnmarshalFromCBEDocument", "ce.MarshalCTE", "ce.MarshalToCTEDocument", "ce.UnmarshalCTE",
   "ce.UnmarshalFromCTEDocument", "ce.UniversalDecoder.Decode", "ce.UniversalDecoder.DecodeDocument",
   "cbe.Decoder.Decode", "cbe.Decoder.DecodeDocument", "cte.Decoder.Decode", "cte.Decoder.DecodeDocument",
   "cbe.Marshaler.Marshal", "cbe.Marshaler.MarshalToDocument", "cte.Marshaler.Marshal", "cte.Marshaler.MarshalToDocument",
   "cbe.Unmarshaler.Unmarshal", "cbe.Unmarshaler.UnmarshalFromDocument", "cte.Unmarshaler.Unmarshal",
   "cte.Unmarshaler.UnmarshalFromDocument"]

end CE.Api
