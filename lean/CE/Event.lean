import CE.Basic.Bytes
/-
  The event alphabet: one constructor per method of events.DataEventReceiver,
  and its line-protocol text form (shared with the Go harness, harness/evtext.go).
-/
namespace CE

inductive ArrT
  | invalid | string | rid | remoteRef | customText | customBinary | bit
  | u8 | u16 | u32 | u64 | i8 | i16 | i32 | i64 | f16 | f32 | f64 | uid | media | mediaData
deriving DecidableEq, Repr, Inhabited

namespace ArrT
def all : List ArrT :=
  [invalid, string, rid, remoteRef, customText, customBinary, bit, u8, u16, u32, u64,
   i8, i16, i32, i64, f16, f32, f64, uid, media, mediaData]

def name : ArrT → String
  | invalid => "inv" | string => "str" | rid => "rid" | remoteRef => "rref"
  | customText => "ctxt" | customBinary => "cbin" | bit => "bit"
  | u8 => "u8" | u16 => "u16" | u32 => "u32" | u64 => "u64"
  | i8 => "i8" | i16 => "i16" | i32 => "i32" | i64 => "i64"
  | f16 => "f16" | f32 => "f32" | f64 => "f64" | uid => "uid" | media => "media" | mediaData => "mdata"

def ofName (s : String) : Option ArrT := all.find? (fun t => t.name == s)

/-- `events.arrayTypeElementSizes` (bits per element). -/
def elemBits : ArrT → Nat
  | invalid => 0 | string => 8 | rid => 8 | remoteRef => 8 | customText => 8 | customBinary => 8
  | bit => 1 | u8 => 8 | u16 => 16 | u32 => 32 | u64 => 64 | i8 => 8 | i16 => 16 | i32 => 32
  | i64 => 64 | f16 => 16 | f32 => 32 | f64 => 64 | uid => 128 | media => 8 | mediaData => 8

/-- Go enum value (`events.ArrayType`). -/
def code (t : ArrT) : Nat := (all.idxOf t)
end ArrT

/-- `common.ElementCountToByteCount` in uint64 arithmetic: (count·bits mod 2^64)/8, plus one
    for a bit array whose count is not a multiple of 8. -/
def elemsToBytes (bits count : Nat) : Nat :=
  (count * bits) % 2 ^ 64 / 8 + (if bits = 1 ∧ count % 8 ≠ 0 then 1 else 0)

/-- compact_float.DFloat -/
inductive DF
  | zero | negZero | inf | negInf | nan | snan
  | val (exp : Int) (coeff : Int)
deriving DecidableEq, Repr, Inhabited

/-- DFloat{Exponent: e, Coefficient: c}; {0,0} is the library's `dfloatZero` -/
def DF.mk (e c : Int) : DF := if e = 0 ∧ c = 0 then .zero else .val e c

/-- *apd.Decimal -/
inductive BigDec
  | val (neg : Bool) (coeff : Nat) (exp : Int)
  | inf (neg : Bool) | nan | snan
deriving DecidableEq, Repr, Inhabited

/-- *big.Float: ±mant·2^exp with precision `prec` -/
inductive BigF
  | val (neg : Bool) (mant : Nat) (exp : Int) (prec : Nat)
  | inf (neg : Bool)
deriving DecidableEq, Repr, Inhabited

inductive Zone
  | unset | utc | localZ | area (name : Bytes) | latlong (lat long : Int) | offset (min : Int)
deriving DecidableEq, Repr, Inhabited

/-- compact_time.Time, field by field. kind: 0 date, 1 time, 2 timestamp -/
structure TimeV where
  kind : Nat
  year : Int
  month : Nat
  day : Nat
  hour : Nat
  minute : Nat
  second : Nat
  nanos : Nat
  zone : Zone
deriving DecidableEq, Repr, Inhabited

inductive Ev
  | beginDoc | endDoc | version (v : Nat) | padding | comment (multi : Bool) (s : Bytes)
  | null | bool (b : Bool) | true_ | false_
  | posInt (n : Nat) | negInt (n : Nat) | int (i : Int)
  | bigInt (i : Option Int)
  | float (bits : Nat)                       -- IEEE-754 binary64 bit pattern, < 2^64
  | bigFloat (x : Option BigF)
  | dfloat (d : DF) | bigDecimal (x : Option BigDec)
  | uid (b : Bytes) | nan (signaling : Bool) | time (t : TimeV)
  | list | map | recordType (id : Bytes) | record (id : Bytes) | edge | node | endContainer
  | marker (id : Bytes) | refLocal (id : Bytes)
  | array (t : ArrT) (count : Nat) (data : Bytes) | stringlike (t : ArrT) (s : Bytes)
  | media (mt : Bytes) (data : Bytes) | customBinary (ty : Nat) (data : Bytes)
  | customText (ty : Nat) (s : Bytes)
  | arrayBegin (t : ArrT) | mediaBegin (mt : Bytes) | customBegin (t : ArrT) (ty : Nat)
  | arrayChunk (n : Nat) (more : Bool) | arrayData (data : Bytes)
deriving DecidableEq, Repr, Inhabited

namespace Ev

private def b01 (b : Bool) : String := if b then "1" else "0"

def zoneText : Zone → String
  | .unset => "u" | .utc => "z" | .localZ => "l"
  | .area n => "a." ++ Hex.encode n
  | .latlong la lo => "g." ++ toString la ++ "." ++ toString lo
  | .offset m => "o." ++ toString m

def timeText (t : TimeV) : String :=
  String.intercalate ":" [toString t.kind, toString t.year, toString t.month, toString t.day,
    toString t.hour, toString t.minute, toString t.second, toString t.nanos, zoneText t.zone]

def toText : Ev → String
  | beginDoc => "bd" | endDoc => "ed" | version v => s!"v:{v}" | padding => "pad"
  | comment m s => s!"cm:{b01 m}:{Hex.encode s}"
  | null => "n" | bool b => s!"b:{b01 b}" | true_ => "t" | false_ => "f"
  | posInt n => s!"pi:{n}" | negInt n => s!"ni:{n}" | int i => s!"i:{i}"
  | bigInt none => "bi:nil" | bigInt (some i) => s!"bi:{i}"
  | float bits => s!"fl:{Hex.encode (leBytes 8 bits).reverse}"
  | bigFloat none => "bf:nil"
  | bigFloat (some (.inf neg)) => s!"bf:inf:{b01 neg}"
  | bigFloat (some (.val neg m e p)) => s!"bf:{b01 neg}:{m}:{e}:{p}"
  | dfloat .zero => "df:0:0" | dfloat .negZero => "df:nz" | dfloat .inf => "df:inf"
  | dfloat .negInf => "df:ninf" | dfloat .nan => "df:nan" | dfloat .snan => "df:snan"
  | dfloat (.val e c) => s!"df:{e}:{c}"
  | bigDecimal none => "bdf:nil"
  | bigDecimal (some (.inf neg)) => s!"bdf:inf:{b01 neg}"
  | bigDecimal (some .nan) => "bdf:nan" | bigDecimal (some .snan) => "bdf:snan"
  | bigDecimal (some (.val neg c e)) => s!"bdf:{b01 neg}:{c}:{e}"
  | uid b => s!"uid:{Hex.encode b}" | nan s => s!"nan:{b01 s}" | time t => "tm:" ++ timeText t
  | list => "l" | map => "m" | recordType id => s!"rt:{Hex.encode id}" | record id => s!"r:{Hex.encode id}"
  | edge => "e" | node => "nd" | endContainer => "end"
  | marker id => s!"mk:{Hex.encode id}" | refLocal id => s!"ref:{Hex.encode id}"
  | array t c d => s!"a:{t.name}:{c}:{Hex.encode d}" | stringlike t s => s!"s:{t.name}:{Hex.encode s}"
  | media mt d => s!"md:{Hex.encode mt}:{Hex.encode d}"
  | customBinary ty d => s!"cb:{ty}:{Hex.encode d}" | customText ty s => s!"ct:{ty}:{Hex.encode s}"
  | arrayBegin t => s!"ab:{t.name}" | mediaBegin mt => s!"mb:{Hex.encode mt}"
  | customBegin t ty => s!"cbg:{t.name}:{ty}"
  | arrayChunk n more => s!"ac:{n}:{b01 more}" | arrayData d => s!"ad:{Hex.encode d}"

def listText (evs : List Ev) : String := String.intercalate " " (evs.map toText)

private def pBool (s : String) : Option Bool :=
  if s == "1" then some true else if s == "0" then some false else none

def parseZone (s : String) : Option Zone :=
  match s.splitOn "." with
  | ["u"] => some .unset | ["z"] => some .utc | ["l"] => some .localZ
  | ["a", h] => (Hex.decode h).map .area
  | ["g", la, lo] => do some (.latlong (← la.toInt?) (← lo.toInt?))
  | ["o", m] => do some (.offset (← m.toInt?))
  | _ => none

def ofText (tok : String) : Option Ev :=
  match tok.splitOn ":" with
  | ["bd"] => some beginDoc | ["ed"] => some endDoc
  | ["v", v] => v.toNat?.map version | ["pad"] => some padding
  | ["cm", m, s] => do some (comment (← pBool m) (← Hex.decode s))
  | ["n"] => some null | ["b", b] => (pBool b).map bool | ["t"] => some true_ | ["f"] => some false_
  | ["pi", n] => n.toNat?.map posInt | ["ni", n] => n.toNat?.map negInt | ["i", i] => i.toInt?.map int
  | ["bi", "nil"] => some (bigInt none) | ["bi", i] => i.toInt?.map (fun i => bigInt (some i))
  | ["fl", h] => do
      let bs ← Hex.decode h
      if bs.length = 8 then some (float (leNat bs.reverse)) else none
  | ["bf", "nil"] => some (bigFloat none)
  | ["bf", "inf", n] => do some (bigFloat (some (.inf (← pBool n))))
  | ["bf", n, m, e, p] => do some (bigFloat (some (.val (← pBool n) (← m.toNat?) (← e.toInt?) (← p.toNat?))))
  | ["df", "nz"] => some (dfloat .negZero)
  | ["df", "inf"] => some (dfloat .inf) | ["df", "ninf"] => some (dfloat .negInf)
  | ["df", "nan"] => some (dfloat .nan) | ["df", "snan"] => some (dfloat .snan)
  | ["df", e, c] => do some (dfloat (DF.mk (← e.toInt?) (← c.toInt?)))
  | ["bdf", "nil"] => some (bigDecimal none)
  | ["bdf", "nan"] => some (bigDecimal (some .nan)) | ["bdf", "snan"] => some (bigDecimal (some .snan))
  | ["bdf", "inf", n] => do some (bigDecimal (some (.inf (← pBool n))))
  | ["bdf", n, c, e] => do some (bigDecimal (some (.val (← pBool n) (← c.toNat?) (← e.toInt?))))
  | ["uid", h] => (Hex.decode h).map uid | ["nan", s] => (pBool s).map nan
  | ["tm", k, y, mo, d, h, mi, s, ns, z] => do
      some (time { kind := ← k.toNat?, year := ← y.toInt?, month := ← mo.toNat?, day := ← d.toNat?,
                   hour := ← h.toNat?, minute := ← mi.toNat?, second := ← s.toNat?, nanos := ← ns.toNat?,
                   zone := ← parseZone z })
  | ["l"] => some list | ["m"] => some map
  | ["rt", h] => (Hex.decode h).map recordType | ["r", h] => (Hex.decode h).map record
  | ["e"] => some edge | ["nd"] => some node | ["end"] => some endContainer
  | ["mk", h] => (Hex.decode h).map marker | ["ref", h] => (Hex.decode h).map refLocal
  | ["a", t, c, d] => do some (array (← ArrT.ofName t) (← c.toNat?) (← Hex.decode d))
  | ["s", t, d] => do some (stringlike (← ArrT.ofName t) (← Hex.decode d))
  | ["md", mt, d] => do some (media (← Hex.decode mt) (← Hex.decode d))
  | ["cb", ty, d] => do some (customBinary (← ty.toNat?) (← Hex.decode d))
  | ["ct", ty, d] => do some (customText (← ty.toNat?) (← Hex.decode d))
  | ["ab", t] => (ArrT.ofName t).map arrayBegin | ["mb", h] => (Hex.decode h).map mediaBegin
  | ["cbg", t, ty] => do some (customBegin (← ArrT.ofName t) (← ty.toNat?))
  | ["ac", n, m] => do some (arrayChunk (← n.toNat?) (← pBool m))
  | ["ad", d] => (Hex.decode d).map arrayData
  | _ => none

def parseList (s : String) : Option (List Ev) :=
  ((s.splitOn " ").filter (· ≠ "")).mapM ofText

end Ev
end CE
