import CE.Cbe.Encode
import CE.Cbe.Decode
import CE.Canon
/-
  Line-protocol driver: executes the model's definitions on the operations the Go
  harness ran on the implementation.  Input line:  kind \t id \t op \t arg... \t => \t expected
  Output: one line per input line: "OK", "SKIP ...", or "DIFF \t kind \t id \t op \t got \t expected".
-/
namespace CE.Driver
open CE

def encErrName : Cbe.EncErr → String
  | .customText => "CUSTOMTEXT" | .badArrayType => "BADARRAY"
  | .timeUnmodelled => "UNMODELLED" | .bigFloatUnmodelled => "UNMODELLED"

def decErrName : Cbe.DecErr → String
  | .eof => "EOF" | .badHeader => "HEADER" | .badType => "TYPE" | .tooBig => "TOOBIG"
  | .emptyId => "EMPTYID" | .tooLong => "TOOBIG" | .timeUnmodelled => "UNMODELLED" | .noProgress => "NOPROGRESS"

def cbeEnc (args : List String) : String :=
  match args with
  | [evs] =>
    match Ev.parseList evs with
    | none => "BADINPUT"
    | some l =>
      match Cbe.encode l with
      | (bs, none) => "OK " ++ Hex.encode bs
      | (bs, some e) => if encErrName e == "UNMODELLED" then "UNMODELLED" else s!"ERR {encErrName e} {Hex.encode bs}"
  | _ => "BADINPUT"

def cbeDec (args : List String) : String :=
  match args with
  | [h] =>
    match Hex.decode h with
    | none => "BADINPUT"
    | some bs =>
      match Cbe.decode bs with
      | (evs, none) => "OK " ++ Ev.listText evs
      | (evs, some e) => if decErrName e == "UNMODELLED" then "UNMODELLED" else s!"ERR {decErrName e} {Ev.listText evs}"
  | _ => "BADINPUT"

def canonEq (args : List String) : String :=
  match args with
  | [keep, a, b] =>
    match Ev.parseList a, Ev.parseList b with
    | some x, some y => if canon (keep == "1") x == canon (keep == "1") y then "1" else "0"
    | _, _ => "BADINPUT"
  | _ => "BADINPUT"

def ops : List (String × (List String → String)) :=
  [("CBE.ENC", cbeEnc), ("CBE.DEC", cbeDec), ("CANON.EQ", canonEq)]

def splitArrow : List String → List String × String
  | [] => ([], "")
  | "=>" :: rest => ([], String.intercalate "\t" rest)
  | x :: rest => let (a, e) := splitArrow rest; (x :: a, e)

def handle (line : String) : String :=
  match line.splitOn "\t" with
  | kind :: id :: op :: rest =>
    let (args, expected) := splitArrow rest
    match ops.lookup op with
    | none => s!"SKIP\t{kind}\t{id}\t{op}\tunknown-op"
    | some f =>
      let got := f args
      if got == "UNMODELLED" then s!"SKIP\t{kind}\t{id}\t{op}\tunmodelled"
      else if got == expected then "OK"
      else s!"DIFF\t{kind}\t{id}\t{op}\t{got}\t{expected}"
  | _ => "SKIP\t?\t?\t?\tmalformed-line"

end CE.Driver
