import CE.Cbe.Encode
import CE.Cbe.Decode
import CE.Canon
import CE.Conv.Int
import CE.Arr.LE
import CE.Tree
import CE.Io.Reader
import CE.Api.Dispatch
import CE.Gen.Api
import CE.Cbe.Minimal
import CE.Rules.Machine
import CE.Rules.Table
import CE.Chars.Chars
import CE.Rules.Spec
import CE.Rules.Measure
import CE.Cte.ArrFmt
import CE.Cte.Lit
import CE.Cte.ArrEngine
import CE.Marshal.Struct
import CE.Marshal.Graph
import CE.Cte.Escape
import CE.Cbe.Cost
/-
  Line-protocol driver: executes the model's definitions on the operations the Go
  harness ran on the implementation.  Input line:  kind \t id \t op \t arg... \t => \t expected
  Output: one line per input line: "OK", "SKIP ...", or "DIFF \t kind \t id \t op \t got \t expected".
-/
namespace CE.Driver
open CE

def encErrName : Cbe.EncErr → String
  | .customText => "CUSTOMTEXT" | .badArrayType => "BADARRAY"
  | .timeUnmodelled => "UNMODELLED" | .bigFloatUnmodelled => "UNMODELLED"

def decErrName : Cbe.DecErr → String
  | .eof => "EOF" | .badHeader => "HEADER" | .badType => "TYPE" | .tooBig => "TOOBIG"
  | .emptyId => "EMPTYID" | .tooLong => "TOOBIG" | .timeUnmodelled => "UNMODELLED" | .noProgress => "NOPROGRESS"

def cbeEnc (args : List String) : String :=
  match args with
  | [evs] =>
    match Ev.parseList evs with
    | none => "BADINPUT"
    | some l =>
      match Cbe.encode l with
      | (bs, none) => "OK " ++ Hex.encode bs
      | (bs, some e) => if encErrName e == "UNMODELLED" then "UNMODELLED" else s!"ERR {encErrName e} {Hex.encode bs}"
  | _ => "BADINPUT"

def cbeDec (args : List String) : String :=
  match args with
  | [h] =>
    match Hex.decode h with
    | none => "BADINPUT"
    | some bs =>
      match Cbe.decode bs with
      | (evs, none) => "OK " ++ Ev.listText evs
      | (evs, some e) => if decErrName e == "UNMODELLED" then "UNMODELLED" else s!"ERR {decErrName e} {Ev.listText evs}"
  | _ => "BADINPUT"

def canonEq (args : List String) : String :=
  match args with
  | [keep, a, b] =>
    match Ev.parseList a, Ev.parseList b with
    | some x, some y =>
      -- keep: 0 = comments dropped, 1 = comments kept, 2 = text formats: comments kept and NaN array elements by kind
      if keep == "2" then (if canonText true x == canonText true y then "1" else "0")
      else if canon (keep == "1") x == canon (keep == "1") y then "1" else "0"
    | _, _ => "BADINPUT"
  | _ => "BADINPUT"

/-- CANON.DIFF keep a b → the first position where the canonical forms differ (debugging aid) -/
def canonDiff (args : List String) : String :=
  match args with
  | [keep, a, b] =>
    match Ev.parseList a, Ev.parseList b with
    | some x, some y =>
      let cx := if keep == "2" then canonText true x else canon (keep == "1") x
      let cy := if keep == "2" then canonText true y else canon (keep == "1") y
      let rec go : List CEv → List CEv → Nat → String
        | [], [], _ => "same"
        | p :: ps, q :: qs, i => if p == q then go ps qs (i + 1) else s!"@{i}: {reprStr p} <> {reprStr q}"
        | p :: _, [], i => s!"@{i}: {reprStr p} <> END"
        | [], q :: _, i => s!"@{i}: END <> {reprStr q}"
      go cx cy 0
    | _, _ => "BADINPUT"
  | _ => "BADINPUT"

def rerrName : Rules.RErr → String
  | .wrongType => "STRUCT" | .count => "STRUCT" | .tooManyEnds => "STRUCT"
  | .recordTypeNotAllowed => "STRUCT" | .noRecordType => "STRUCT"
  | .version => "VERSION"
  | .limitDepth => "LIMIT:depth" | .limitObjects => "LIMIT:objects" | .limitArray => "LIMIT:array"
  | .limitId => "LIMIT:id" | .limitRefs => "LIMIT:refs"
  | .dupKey => "DUPKEY" | .dupRecordType => "DUPRT"
  | .utf8 => "UTF8" | .chunkOverflow => "CHUNK" | .byteCount => "BYTECOUNT"
  | .idEmpty => "ID" | .idChars => "ID"
  | .markerDup => "MARKER" | .refType => "MARKER" | .forwardUnresolved => "MARKER"
  | .apiMisuse => "API" | .arrayType => "ARRTYPE" | .runtime => "RUNTIME" | .unknownAct => "UNKNOWNACT"
  | .comment => "COMMENT" | .time => "TIME" | .mediaType => "MEDIATYPE"

/-- cfg text: depth,objects,array,id,refs -/
def parseCfg (s : String) : Option Rules.Cfg :=
  match (s.splitOn ",").map String.toNat? with
  | [some d, some o, some a, some i, some r] =>
    some { maxContainerDepth := d, maxObjectCount := o, maxArrayBytes := a, maxIdLength := i, maxLocalRefCount := r }
  | _ => none

def rulesEnv (cfg : Rules.Cfg) : Rules.Env :=
  { tbl := Rules.Model.ruleTable, cfg := cfg, identSafe := Chars.isIdentifierSafe }

/-- RULES cfg evs  →  ACC|END:<rule-not-terminal>|REJ@i:CLASS  then the forwarded events -/
def rulesOp (args : List String) : String :=
  match args with
  | [cfg, evs] =>
    match parseCfg cfg, Ev.parseList evs with
    | some c, some l =>
      let (fwd, res, s) := Rules.run (rulesEnv c) Rules.RState.init l 0
      let verdict := match res with
        | some (i, e) => s!"REJ@{i}:{rerrName e}"
        | none => if s.cur.rule == .terminal then "ACC" else "OPEN"
      verdict ++ " " ++ Ev.listText fwd
    | _, _ => "BADINPUT"
  | _ => "BADINPUT"

def specText (v : Spec.Verdict) : String :=
  (match v.structural with
   | none => "WF" | some none => "STRUCT@END" | some (some i) => s!"STRUCT@{i}")
  ++ (if v.globalOK then "" else "+GLOBAL")

def globalClass (c : String) : Bool := c == "MARKER"

/-- WF.REL cfg evs implVerdict: does the implementation's verdict agree with the independent
    grammar (C10: accepts exactly the well-formed documents, rejects at the first invalid event)? -/
def wfRel (args : List String) : String :=
  match args with
  | [cfg, evs, impl] =>
    match parseCfg cfg, Ev.parseList evs with
    | some c, some l =>
      let v := Spec.check { cfg := { maxArrayBytes := c.maxArrayBytes, maxIdLength := c.maxIdLength },
                            identSafe := Chars.isIdentifierSafe } l
      let ok : Bool :=
        if impl == "ACC" then v.structural == none && v.globalOK
        else if impl == "OPEN" then v.structural == some none
        else match (impl.drop 4).toString.splitOn ":" with
          | k :: cls =>
            let cls := String.intercalate ":" cls
            match k.toNat?, v.structural with
            | some k, some (some j) =>
              k == j || (k < j && globalClass cls) || (v.content && j ≤ k)
            | some _, some none => false
            | some _, none => !v.globalOK && globalClass cls
            | none, _ => false
          | _ => false
      if ok then "1" else "0 spec=" ++ specText v
    | _, _ => "BADINPUT"
  | _ => "BADINPUT"

def fwdEq (args : List String) : String :=
  match args with
  | [evs, fwd] =>
    match Ev.parseList evs, Ev.parseList fwd with
    | some a, some b => if a.map Spec.forwardOf == b then "1" else "0"
    | _, _ => "BADINPUT"
  | _ => "BADINPUT"

def measureOp (args : List String) : String :=
  match args with
  | [evs] =>
    match Ev.parseList evs with
    | some a => let u := Spec.measure a; s!"{u.depth},{u.objects},{u.array},{u.id},{u.markers}"
    | none => "BADINPUT"
  | _ => "BADINPUT"

def minLenOp (args : List String) : String :=
  match args with
  | [ev] =>
    match Ev.parseList ev with
    | some [e] => match Cbe.minLen e with | some n => toString n | none => "UNMODELLED"
    | _ => "BADINPUT"
  | _ => "BADINPUT"

def fmtName : Option Api.Fmt → String
  | some .cte => "cte" | some .cbe => "cbe" | none => "none"

/-- API.DETECT byte → cte|cbe|none for the decoder table, then for the unmarshaler table -/
def apiDetect (args : List String) : String :=
  match args with
  | [b] => match b.toNat? with
    | some n => fmtName (Api.detect Gen.decoderCases n) ++ " " ++ fmtName (Api.detect Gen.unmarshalerCases n)
    | none => "BADINPUT"
  | _ => "BADINPUT"

/-- API.VERSION fmt v → 1 if a document with header version v is accepted -/
def apiVersion (args : List String) : String :=
  match args with
  | [f, v] => match v.toNat? with
    | some n =>
      let m := if f == "cbe" then Gen.cbeVersionMap else Gen.cteVersionMap
      if Api.versionAccepted m Gen.libVersion n then "1" else "0"
    | none => "BADINPUT"
  | _ => "BADINPUT"

def schedOf (l : List Nat) : Nat → Nat :=
  fun i => if l.isEmpty then 1073741824 else l.getD (i % l.length) 1

def parseSizes (s : String) : Option (List Nat) :=
  if s == "-" then some [] else (s.splitOn ",").mapM String.toNat?

def ioErrName : Io.IOErr → String
  | .eof => "EOF" | .fault => "FAULT" | .noProgress => "NOPROGRESS"

/-- READER.ALL doc sizes eofWithData: the bytes the adapter hands the decoder, read byte-wise -/
def readerAll (args : List String) : String :=
  match args with
  | [doc, sizes, flag] =>
    match Hex.decode doc, parseSizes sizes with
    | some bs, some l =>
      let a : Io.Adapter := { src := { data := bs, sched := schedOf l, eofWithData := flag == "1" } }
      match Io.readAll (bs.length + 1) a with
      | (out, none) => "OK " ++ Hex.encode out
      | (out, some e) => s!"ERR {ioErrName e} {Hex.encode out}"
    | _, _ => "BADINPUT"
  | _ => "BADINPUT"

/-- READER.FAULT doc sizes failAt withData -/
def readerFault (args : List String) : String :=
  match args with
  | [doc, sizes, k, flag] =>
    match Hex.decode doc, parseSizes sizes, k.toNat? with
    | some bs, some l, some k =>
      let a : Io.Adapter := { src := { data := bs, sched := schedOf l, failIn := some k, failWithData := flag == "1" } }
      match Io.readAll (bs.length + 1) a with
      | (out, none) => "OK " ++ Hex.encode out
      | (out, some e) => s!"ERR {ioErrName e} {Hex.encode out}"
    | _, _, _ => "BADINPUT"
  | _ => "BADINPUT"

/-- TREE.EQ resolveA resolveB evsA evsB: same value trees up to map-entry order; with resolve=1
    records are turned into maps and local references are replaced by their targets -/
def treeEq (args : List String) : String :=
  match args with
  | [ra, rb, a, b] =>
    match Ev.parseList a, Ev.parseList b with
    | some x, some y =>
      let flag (s : String) (c : Char) : Bool := s.toList.contains c
      match docNormalForm (flag ra '1') x (flag ra 'h'), docNormalForm (flag rb '1') y (flag rb 'h') with
      | some nx, some ny => if nx == ny then "1" else "0 " ++ (nx.take 600).toString ++ " <> " ++ (ny.take 600).toString
      | _, _ => "0 malformed"
    | _, _ => "BADINPUT"
  | _ => "BADINPUT"

def parseNats (s : String) : Option (List Nat) :=
  if s == "-" then some [] else (s.splitOn ",").mapM String.toNat?

def natsText (l : List Nat) : String := if l.isEmpty then "-" else String.intercalate "," (l.map toString)

def arrToLE (args : List String) : String :=
  match args with
  | [w, xs] => match w.toNat?, parseNats xs with
    | some w, some l => Hex.encode (Arr.toLE w l)
    | _, _ => "BADINPUT"
  | _ => "BADINPUT"

def arrFromLE (args : List String) : String :=
  match args with
  | [w, h] => match w.toNat?, Hex.decode h with
    | some w, some bs => natsText (Arr.fromLE w bs)
    | _, _ => "BADINPUT"
  | _ => "BADINPUT"

/-- CONV ev dst(s|u) width: integer event form into a w-bit signed/unsigned destination -/
def convOp (args : List String) : String :=
  match args with
  | [ev, dst, w] =>
    match Ev.parseList ev, w.toNat? with
    | some [e], some w =>
      let r : Option (Option Int) := match e, dst with
        | .posInt n, "s" => some (Conv.setIntFromUint w n)
        | .posInt n, "u" => some (Conv.setUintFromUint w n)
        | .negInt n, "s" => some (if n = 0 then none else if n ≤ 2 ^ 63 - 1 then Conv.setIntFromInt w (-(n : Int)) else Conv.setIntFromBigInt w (-(n : Int)))
        | .negInt n, "u" => some (if n = 0 then none else if n ≤ 2 ^ 63 - 1 then Conv.setUintFromInt w (-(n : Int)) else Conv.setUintFromBigInt w (-(n : Int)))
        | .int i, "s" => some (Conv.setIntFromInt w i)
        | .int i, "u" => some (Conv.setUintFromInt w i)
        | .bigInt (some i), "s" => some (Conv.setIntFromBigInt w i)
        | .bigInt (some i), "u" => some (Conv.setUintFromBigInt w i)
        | _, _ => none
      match r with
      | none => "UNMODELLED"
      | some none => "ERR"
      | some (some x) => s!"OK {x}"
    | _, _ => "BADINPUT"
  | _ => "BADINPUT"

/-- CTE.ARRFMT kind fmt elems → the array text the encoder writes -/
def cteArrFmt (args : List String) : String :=
  match args with
  | [k, f, es] =>
    match Cte.ArrFmt.Kind.ofName k, Cte.ArrFmt.Fmt.ofName f, parseNats es with
    | some k, some f, some l => if k.isFloat then "UNMODELLED" else Cte.ArrFmt.printArray k f l
    | _, _, _ => "BADINPUT"
  | _ => "BADINPUT"

/-- CTE.ARRPARSE kind text → OK elems | ERR : the decoder's reading of an array text -/
def cteArrParse (args : List String) : String :=
  match args with
  | [k, body] =>
    match Cte.ArrFmt.Kind.ofName k with
    | none => "BADINPUT"
    | some k =>
      if k.isFloat then "UNMODELLED" else
      let pre := "@" ++ k.name
      if !body.startsWith pre || !body.endsWith "]" then "ERR" else
      let rest := (body.drop pre.length).toString
      let (f, inner) : Option Cte.ArrFmt.Fmt × String :=
        if rest.startsWith "[" then (some .dec, (rest.drop 1).toString)
        else if rest.startsWith "b[" then (some .bin, (rest.drop 2).toString)
        else if rest.startsWith "o[" then (some .oct, (rest.drop 2).toString)
        else if rest.startsWith "x[" then (some .hex, (rest.drop 2).toString)
        else (none, "")
      match f with
      | none => "ERR"
      | some f =>
        let inner := (inner.dropEnd 1).toString
        let toks := (inner.splitOn " ").filter (· ≠ "")
        match toks.mapM (fun t => Cte.ArrFmt.parseElem k f t.toList) with
        | some es => "OK " ++ natsText es
        | none => "ERR"
  | _ => "BADINPUT"

/-- LIT.NUM spelling → the value the reference semantics gives the literal -/
def litNum (args : List String) : String :=
  match args with
  | [s] => match Cte.Lit.value s with | some v => v.text | none => "NOTLIT"
  | _ => "BADINPUT"

/-- LIT.ELEM kind suffix spelling → OK bits (ints) / OK value (floats) / ERR (does not fit) -/
def litElem (args : List String) : String :=
  match args with
  | [k, suffix, s] =>
    match Cte.ArrFmt.Kind.ofName k with
    | none => "BADINPUT"
    | some k =>
      if k.isFloat then
        match Cte.Lit.floatElemValue suffix s with
        | none => "NOTLIT"
        | some (.num neg n d) =>
          let (p, emin, top) : Nat × Int × Nat :=
            if k.bits = 16 then (8, -133, 128) else if k.bits = 32 then (24, -149, 128) else (53, -1074, 1024)
          if Cte.Lit.representable p emin top n d then "OK " ++ (Cte.Lit.Val.num neg n d).text
          else if n / d ≥ 2 ^ top then "ERR"
          else "UNMODELLED"     -- inexact spelling: rounding is not part of the property
        | some v => "OK " ++ v.text
      else
        match Cte.Lit.intElemValue suffix s with
        | none => "NOTLIT"
        | some v => match Cte.Lit.intElemBits k.signed k.bits v with
          | some b => s!"OK {b}"
          | none => "ERR"
  | _ => "BADINPUT"

/-- LIT.STR hex(utf-8 of the string body) → OK hex(bytes the literal spells) | ERR -/
def litStr (args : List String) : String :=
  match args with
  | [h] =>
    match Hex.decode h with
    | none => "BADINPUT"
    | some bs =>
      match String.fromUTF8? (ByteArray.mk bs.toArray) with
      | none => "BADINPUT"
      | some body =>
        match Cte.Lit.strBytes body with
        | some out => "OK " ++ Hex.encode (out.map (fun n => n.toUInt8))
        | none => "ERR"
  | _ => "BADINPUT"

/-- CTE.ENGINE kind fmt data-events(hex, comma separated; - = empty) → the array text: the engine
    model turns the data events into elements, the format model writes them -/
def cteEngine (args : List String) : String :=
  match args with
  | [k, f, ds] =>
    match Cte.ArrFmt.Kind.ofName k, Cte.ArrFmt.Fmt.ofName f with
    | some k, some f =>
      if k.isFloat then "UNMODELLED" else
      let parts := if ds == "" then [] else ds.splitOn ","
      match parts.mapM (fun p => if p == "-" then some [] else Hex.decode p) with
      | none => "BADINPUT"
      | some datas =>
        let w := k.bits / 8
        let st := if w = 1 then ({ out := datas.flatten.map (fun b => [b]), leftover := [] } : Cte.ArrEngine.St)
                  else Cte.ArrEngine.feed w datas
        Cte.ArrFmt.printArray k f (st.out.map leNat)
    | _, _ => "BADINPUT"
  | _ => "BADINPUT"

def parseOmit (s : String) : Marshal.Struct.Omit :=
  if s == "never" then .never else if s == "always" then .always else if s == "empty" then .empty
  else if s == "zero" then .zero else .chooseDefault

/-- STRUCT.EMIT style default fields(Name~tag~empty~zero;…) → OK key,key,… | ERR (a tag panics) -/
def structEmit (args : List String) : String :=
  match args with
  | [style, dflt, fields] =>
    let descs := if fields == "" then [] else fields.splitOn ";"
    let parsed : Option (List Marshal.Struct.Field) := descs.mapM fun d =>
      match d.splitOn "~" with
      | [name, tag, e, z] =>
        (Marshal.Struct.decodeTags name.toList tag.toList).map fun t =>
          ({ tags := t, isEmpty := e == "1", isZero := z == "1" } : Marshal.Struct.Field)
      | _ => none
    match parsed with
    | none => "ERR"
    | some fs =>
      let st := if style == "snake" then Marshal.Struct.Style.snake else .camel
      "OK " ++ String.intercalate "," ((Marshal.Struct.emitted st (parseOmit dflt) fs).map String.ofList)
  | _ => "BADINPUT"

/-- STRUCT.LOOKUP ci names(|) key → index of the field the key reaches, -1 for none -/
def structLookup (args : List String) : String :=
  match args with
  | [ci, names, key] =>
    match Marshal.Struct.lookup (ci == "1") ((names.splitOn "|").map String.toList) key.toList with
    | some i => toString i
    | none => "-1"
  | _ => "BADINPUT"

def parseOptNat (s : String) : Option (Option Nat) :=
  if s == "-1" then some none else s.toNat?.map some

/-- GRAPH.EMIT root cells(next,alt|kids… ; per node, kids "-" = nil slice) → abstract event text -/
def graphEmit (args : List String) : String :=
  match args with
  | [root, cells] =>
    let parsed : Option (List Marshal.Graph.Cell) := (cells.splitOn ";").mapM fun c =>
      match c.splitOn "|" with
      | [ps, ks] =>
        match (ps.splitOn ",").mapM parseOptNat with
        | none => none
        | some ptrs =>
          if ks == "-" then some { ptrs := ptrs, kids := none }
          else if ks == "" then some { ptrs := ptrs, kids := some [] }
          else ((ks.splitOn ",").mapM parseOptNat).map fun k => { ptrs := ptrs, kids := some k }
      | _ => none
    match root.toNat?, parsed with
    | some r, some cs =>
      let h : Marshal.Graph.Heap := fun i => cs.getD i {}
      let fuel := 8 * (cs.length + 1) * (cs.length + 8) + 64
      match Marshal.Graph.emitRoot h fuel r with
      | some out => String.intercalate " " (out.map Marshal.Graph.GEv.text)
      | none => "NOFUEL"
    | _, _ => "BADINPUT"
  | _ => "BADINPUT"

/-- CTE.ESCAPE hex(utf-8 string) → the body the encoder writes between the quotes -/
def cteEscape (args : List String) : String :=
  match args with
  | [h] =>
    match Hex.decode h with
    | none => "BADINPUT"
    | some bs =>
      match String.fromUTF8? (ByteArray.mk bs.toArray) with
      | none => "UNMODELLED"
      | some str => Hex.encode (String.ofList (Cte.Escape.escape Cte.Escape.tableSafe str.toList)).toUTF8.toList
  | _ => "BADINPUT"

/-- COST.READ count docLen sched(comma list, "-" = empty) → "OK|EOF cap" : one ReadBytes(count) on a fresh reader -/
def costRead (args : List String) : String :=
  match args with
  | [c, l, sch] =>
    match c.toNat?, l.toNat? with
    | some count, some docLen =>
      let sched := if sch == "-" then [] else (sch.splitOn ",").filterMap String.toNat?
      let o := CE.Cbe.Cost.readInto count CE.Cbe.Cost.RS.init docLen sched
      s!"{if o.ok then "OK" else "EOF"} {o.s.len}"
    | _, _ => "UNMODELLED"
  | _ => "UNMODELLED"

def ops : List (String × (List String → String)) :=
  [("CBE.ENC", cbeEnc), ("CBE.DEC", cbeDec), ("CANON.EQ", canonEq), ("CANON.DIFF", canonDiff), ("RULES", rulesOp), ("WF.REL", wfRel), ("FWD.EQ", fwdEq), ("MEASURE", measureOp), ("CBE.MINLEN", minLenOp), ("API.DETECT", apiDetect), ("API.VERSION", apiVersion), ("READER.ALL", readerAll), ("READER.FAULT", readerFault), ("TREE.EQ", treeEq), ("ARR.TOLE", arrToLE), ("ARR.FROMLE", arrFromLE), ("CONV", convOp), ("CTE.ARRFMT", cteArrFmt), ("CTE.ARRPARSE", cteArrParse), ("CTE.ENGINE", cteEngine), ("CTE.ESCAPE", cteEscape), ("GRAPH.EMIT", graphEmit), ("STRUCT.EMIT", structEmit), ("STRUCT.LOOKUP", structLookup), ("LIT.NUM", litNum), ("LIT.ELEM", litElem), ("LIT.STR", litStr), ("COST.READ", costRead)]

def splitArrow : List String → List String × String
  | [] => ([], "")
  | "=>" :: rest => ([], String.intercalate "\t" rest)
  | x :: rest => let (a, e) := splitArrow rest; (x :: a, e)

def handle (line : String) : String :=
  match line.splitOn "\t" with
  | kind :: id :: op :: rest =>
    let (args, expected) := splitArrow rest
    match ops.lookup op with
    | none => s!"SKIP\t{kind}\t{id}\t{op}\tunknown-op"
    | some f =>
      let got := (f args).replace "\n" " " 
      if got == "UNMODELLED" then s!"SKIP\t{kind}\t{id}\t{op}\tunmodelled"
      else if got == expected then "OK"
      else s!"DIFF\t{kind}\t{id}\t{op}\t{got}\t{expected}"
  | _ => "SKIP\t?\t?\t?\tmalformed-line"

end CE.Driver
