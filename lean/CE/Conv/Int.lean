/-
  M-CONV (integer fragment): builder/conversions.go set{Int,Uint}From{Int,Uint,BigInt} and the
  event-receiver entry points that call them, on mathematical integers with Go's fixed-width
  stores modelled as wrap-around.
-/
namespace CE.Conv

/-- reflect.Value.SetInt on a w-bit signed destination followed by .Int(): two's complement wrap -/
def wrapS (w : Nat) (x : Int) : Int :=
  let m : Int := 2 ^ w
  let r := x % m
  if r < 2 ^ (w - 1) then r else r - m

/-- SetUint on a w-bit unsigned destination followed by .Uint() -/
def wrapU (w : Nat) (x : Int) : Int := x % 2 ^ w

def inS (w : Nat) (x : Int) : Prop := -(2 : Int) ^ (w - 1) ≤ x ∧ x < 2 ^ (w - 1)
def inU (w : Nat) (x : Int) : Prop := 0 ≤ x ∧ x < 2 ^ w

instance (w : Nat) (x : Int) : Decidable (inS w x) := by unfold inS; exact inferInstance
instance (w : Nat) (x : Int) : Decidable (inU w x) := by unfold inU; exact inferInstance

/-- setIntFromInt: store, then compare what was stored with the int64 source -/
def setIntFromInt (w : Nat) (v : Int) : Option Int :=
  if wrapS w v ≠ v then none else some (wrapS w v)

/-- setIntFromUint: UintToInt (error above MaxInt64), store, compare as uint64 -/
def setIntFromUint (w : Nat) (v : Int) : Option Int :=
  if v > 2 ^ 63 - 1 then none
  else if (wrapS w v) % 2 ^ 64 ≠ v then none else some (wrapS w v)

/-- setIntFromBigInt: BigIntToInt (error unless IsInt64), store, compare -/
def setIntFromBigInt (w : Nat) (v : Int) : Option Int :=
  if ¬ inS 64 v then none
  else if wrapS w v ≠ v then none else some (wrapS w v)

/-- setUintFromUint: store, compare -/
def setUintFromUint (w : Nat) (v : Int) : Option Int :=
  if wrapU w v ≠ v then none else some (wrapU w v)

/-- setUintFromInt: IntToUint (error if negative) then setUintFromUint -/
def setUintFromInt (w : Nat) (v : Int) : Option Int :=
  if v < 0 then none else setUintFromUint w v

/-- setUintFromBigInt: BigIntToUint (error unless IsUint64) then setUintFromUint -/
def setUintFromBigInt (w : Nat) (v : Int) : Option Int :=
  if ¬ inU 64 v then none else setUintFromUint w v

theorem wrapS_id (w : Nat) (hw : 0 < w) (x : Int) (h : inS w x) : wrapS w x = x := by
  obtain ⟨h1, h2⟩ := h
  have hp : (2 : Int) ^ w = 2 * 2 ^ (w - 1) := by
    have : w = (w - 1) + 1 := by omega
    conv => lhs; rw [this, Int.pow_succ]
    omega
  have hpos : (0 : Int) < 2 ^ (w - 1) := Int.pow_pos (by decide)
  unfold wrapS
  simp only
  by_cases hx : 0 ≤ x
  · have : x % 2 ^ w = x := Int.emod_eq_of_lt hx (by omega)
    rw [this]; simp [h2]
  · have hx' : x < 0 := by omega
    have : x % 2 ^ w = x + 2 ^ w := by
      have h3 : (x + 2 ^ w) % 2 ^ w = x + 2 ^ w := Int.emod_eq_of_lt (by omega) (by omega)
      rw [← h3]; simp
    rw [this]
    have : ¬ (x + 2 ^ w < 2 ^ (w - 1)) := by omega
    simp [this]

theorem wrapS_range (w : Nat) (hw : 0 < w) (x : Int) : inS w (wrapS w x) := by
  have hp : (2 : Int) ^ w = 2 * 2 ^ (w - 1) := by
    have : w = (w - 1) + 1 := by omega
    conv => lhs; rw [this, Int.pow_succ]
    omega
  have hpos : (0 : Int) < 2 ^ w := Int.pow_pos (by decide)
  have h0 := Int.emod_nonneg x (Int.ne_of_gt hpos)
  have h1 := Int.emod_lt_of_pos x hpos
  unfold wrapS inS
  simp only
  split <;> constructor <;> omega

theorem wrapU_id (w : Nat) (x : Int) (h : inU w x) : wrapU w x = x :=
  Int.emod_eq_of_lt h.1 h.2

theorem wrapU_range (w : Nat) (x : Int) : inU w (wrapU w x) := by
  have hpos : (0 : Int) < 2 ^ w := Int.pow_pos (by decide)
  exact ⟨Int.emod_nonneg x (Int.ne_of_gt hpos), Int.emod_lt_of_pos x hpos⟩

end CE.Conv
