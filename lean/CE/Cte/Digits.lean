import CE.Cte.ArrFmt
/-
  Digit lemmas: writing a natural number in base b (2 ≤ b ≤ 16) and reading it back, with
  leading zeros.  Shared by C25 (array elements) and C24 (integer literals).
-/
namespace CE.Cte.ArrFmt

theorem digitVal_digitChar_fin : ∀ d : Fin 16, digitVal (digitChar d.val) = some d.val := by decide

theorem digitVal_digitChar (d : Nat) (h : d < 16) : digitVal (digitChar d) = some d :=
  digitVal_digitChar_fin ⟨d, h⟩

theorem digitChar_ne_zero_fin : ∀ d : Fin 16, d.val ≠ 0 → digitChar d.val ≠ '0' := by decide

theorem parseDigits_append (b : Nat) : ∀ (l1 l2 : List Char) (acc : Nat),
    parseDigits b (l1 ++ l2) acc = (parseDigits b l1 acc).bind (parseDigits b l2) := by
  intro l1
  induction l1 with
  | nil => intro l2 acc; simp [parseDigits]
  | cons c cs ih =>
    intro l2 acc
    simp only [List.cons_append, parseDigits]
    cases digitVal c with
    | none => simp
    | some d => by_cases h : d < b <;> simp [h, ih]

theorem parseDigits_zeros (b : Nat) (hb : 0 < b) (k : Nat) (l : List Char) :
    parseDigits b (List.replicate k '0' ++ l) 0 = parseDigits b l 0 := by
  induction k with
  | zero => simp
  | succ k ih =>
    simp only [List.replicate_succ, List.cons_append, parseDigits]
    have : digitVal '0' = some 0 := by decide
    simp [this, hb, ih]

/-- accumulator form of the digit writer -/
theorem natDigitsAux_acc (b : Nat) : ∀ (fuel n : Nat) (acc : List Char),
    natDigitsAux b fuel n acc = natDigitsAux b fuel n [] ++ acc := by
  intro fuel
  induction fuel with
  | zero => intro n acc; simp [natDigitsAux]
  | succ f ih =>
    intro n acc
    simp only [natDigitsAux]
    split
    · simp
    · rw [ih (n / b) (digitChar (n % b) :: acc), ih (n / b) [digitChar (n % b)]]; simp

/-- with enough fuel the writer follows the positional recursion -/
theorem natDigitsAux_step (b : Nat) (hb : 2 ≤ b) (fuel n : Nat) (hf : n < fuel) (hn : b ≤ n) :
    natDigitsAux b fuel n [] = natDigitsAux b (fuel - 1) (n / b) [] ++ [digitChar (n % b)] := by
  cases fuel with
  | zero => omega
  | succ f =>
    simp only [natDigitsAux, Nat.add_sub_cancel]
    have : ¬ n < b := by omega
    simp only [this, if_false]
    exact natDigitsAux_acc b f (n / b) _

theorem parse_natDigitsAux (b : Nat) (hb : 2 ≤ b) (hb16 : b ≤ 16) :
    ∀ (n fuel : Nat), n < fuel → parseDigits b (natDigitsAux b fuel n []) 0 = some n := by
  intro n
  induction n using Nat.strongRecOn with
  | _ n ih =>
    intro fuel hf
    by_cases hn : n < b
    · cases fuel with
      | zero => omega
      | succ f =>
        simp only [natDigitsAux, hn, if_true, parseDigits]
        rw [digitVal_digitChar n (by omega)]
        simp [hn]
    · have hn' : b ≤ n := by omega
      rw [natDigitsAux_step b hb fuel n hf hn', parseDigits_append]
      have hdiv : n / b < n := Nat.div_lt_self (by omega) (by omega)
      rw [ih (n / b) hdiv (fuel - 1) (by omega)]
      simp only [Option.bind, parseDigits]
      have hm : n % b < b := Nat.mod_lt _ (by omega)
      rw [digitVal_digitChar (n % b) (by omega)]
      simp only [hm, if_true]
      congr 1
      rw [Nat.mul_comm]; exact Nat.div_add_mod n b

theorem natDigits_ne_nil (b n : Nat) : natDigits b n ≠ [] := by
  unfold natDigits
  simp only [natDigitsAux]
  split
  · simp
  · rw [natDigitsAux_acc]; simp

/-- **writing then reading a number in base b, with any zero padding, gives the number** -/
theorem parseNat_leftPad_natDigits (b : Nat) (hb : 2 ≤ b) (hb16 : b ≤ 16) (w n : Nat) :
    parseNat b (leftPad w (natDigits b n)) = some n := by
  unfold parseNat leftPad
  have hne : (List.replicate (w - (natDigits b n).length) '0' ++ natDigits b n).isEmpty = false := by
    cases h : natDigits b n with
    | nil => exact absurd h (natDigits_ne_nil b n)
    | cons c cs => simp
  rw [hne]
  simp only [Bool.false_eq_true, if_false]
  rw [parseDigits_zeros b (by omega)]
  exact parse_natDigitsAux b hb hb16 n (n + 1) (by omega)

/-- a positive number's first digit is not 0 -/
theorem natDigitsAux_head (b : Nat) (hb : 2 ≤ b) (hb16 : b ≤ 16) :
    ∀ (n fuel : Nat), n < fuel → 0 < n → ∃ c cs, natDigitsAux b fuel n [] = c :: cs ∧ c ≠ '0' := by
  intro n
  induction n using Nat.strongRecOn with
  | _ n ih =>
    intro fuel hf hpos
    by_cases hn : n < b
    · cases fuel with
      | zero => omega
      | succ f =>
        refine ⟨digitChar n, [], by simp [natDigitsAux, hn], ?_⟩
        exact digitChar_ne_zero_fin ⟨n, by omega⟩ (by simp; omega)
    · have hn' : b ≤ n := by omega
      rw [natDigitsAux_step b hb fuel n hf hn']
      have hdiv : n / b < n := Nat.div_lt_self (by omega) (by omega)
      have hq : 0 < n / b := Nat.div_pos hn' (by omega)
      obtain ⟨c, cs, he, hc⟩ := ih (n / b) hdiv (fuel - 1) (by omega) hq
      exact ⟨c, cs ++ [digitChar (n % b)], by rw [he]; simp, hc⟩


theorem digitChar_not_sign_fin : ∀ d : Fin 16, digitChar d.val ≠ '-' ∧ digitChar d.val ≠ '+' := by decide

theorem natDigitsAux_chars (b : Nat) (hb : 2 ≤ b) (hb16 : b ≤ 16) :
    ∀ (fuel n : Nat) (acc : List Char), (∀ c ∈ acc, c ≠ '-' ∧ c ≠ '+') →
      ∀ c ∈ natDigitsAux b fuel n acc, c ≠ '-' ∧ c ≠ '+' := by
  intro fuel
  induction fuel with
  | zero => intro n acc h c hc; exact h c (by simpa [natDigitsAux] using hc)
  | succ f ih =>
    intro n acc h c hc
    simp only [natDigitsAux] at hc
    split at hc
    · rename_i hlt
      rcases List.mem_cons.mp hc with rfl | hc'
      · exact digitChar_not_sign_fin ⟨n, by omega⟩
      · exact h c hc'
    · refine ih (n / b) _ ?_ c hc
      intro c' hc'
      rcases List.mem_cons.mp hc' with rfl | hc''
      · exact digitChar_not_sign_fin ⟨n % b, by have := Nat.mod_lt n (show 0 < b by omega); omega⟩
      · exact h c' hc''

/-- a written magnitude never starts with a sign character -/
theorem leftPad_natDigits_no_sign (b : Nat) (hb : 2 ≤ b) (hb16 : b ≤ 16) (w n : Nat) :
    ∀ c ∈ leftPad w (natDigits b n), c ≠ '-' ∧ c ≠ '+' := by
  intro c hc
  unfold leftPad at hc
  rcases List.mem_append.mp hc with h | h
  · have := List.eq_of_mem_replicate h; subst this; decide
  · exact natDigitsAux_chars b hb hb16 (n + 1) n [] (by simp) c h

end CE.Cte.ArrFmt
