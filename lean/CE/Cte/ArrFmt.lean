/-
  M-CTE (array fragment): how the CTE encoder writes the elements of a numeric typed array under
  each `CTENumericFormat` setting, and how the CTE decoder reads them back.

  Writer (cte/encoder_array.go): header from `arrayHeaders<Kind>[fmt]`, each element through
  `fmt.Sprintf(arrayFormats<bits>[fmt], elem)` with `elem` of the Go type the engine passes
  (uint8, uint, uint32, uint64, int8, int16, int32, int64) — i.e. Go's %v %b %o %x verbs with an
  optional zero-padded width that *includes* the minus sign.
  Reader (cte/parser.go): `strconv.ParseInt/ParseUint(text, base, bits)` with the base given by
  the header suffix (none → base 0, b → 2, o → 8, x → 16).
  The tables are hand-written here and proved equal to the ones extracted from the source on
  every run (CE/Gen/CheckCte.lean).
-/
namespace CE.Cte.ArrFmt

inductive Fmt | dec | bin | binz | oct | octz | hex | hexz
deriving DecidableEq, Repr, Inhabited

inductive Kind | u8 | u16 | u32 | u64 | i8 | i16 | i32 | i64 | f16 | f32 | f64
deriving DecidableEq, Repr, Inhabited

def Fmt.all : List Fmt := [.dec, .bin, .binz, .oct, .octz, .hex, .hexz]
def Kind.all : List Kind := [.u8, .u16, .u32, .u64, .i8, .i16, .i32, .i64, .f16, .f32, .f64]
def Kind.ints : List Kind := [.u8, .u16, .u32, .u64, .i8, .i16, .i32, .i64]

def Fmt.name : Fmt → String
  | .dec => "dec" | .bin => "bin" | .binz => "binz" | .oct => "oct" | .octz => "octz" | .hex => "hex" | .hexz => "hexz"
def Kind.name : Kind → String
  | .u8 => "u8" | .u16 => "u16" | .u32 => "u32" | .u64 => "u64" | .i8 => "i8" | .i16 => "i16"
  | .i32 => "i32" | .i64 => "i64" | .f16 => "f16" | .f32 => "f32" | .f64 => "f64"
def Kind.ofName (s : String) : Option Kind := Kind.all.find? (·.name == s)
def Fmt.ofName (s : String) : Option Fmt := Fmt.all.find? (·.name == s)

def Kind.bits : Kind → Nat
  | .u8 | .i8 => 8 | .u16 | .i16 | .f16 => 16 | .u32 | .i32 | .f32 => 32 | .u64 | .i64 | .f64 => 64
def Kind.signed : Kind → Bool
  | .i8 | .i16 | .i32 | .i64 => true | _ => false
def Kind.isFloat : Kind → Bool
  | .f16 | .f32 | .f64 => true | _ => false

/-- index of the setting in Go (`configuration.CTEEncodingFormat*`) -/
def Fmt.code : Fmt → Nat
  | .dec => 0 | .bin => 4 | .binz => 5 | .oct => 6 | .octz => 7 | .hex => 8 | .hexz => 9

/-- header suffix: the base letter the decoder dispatches on -/
def Fmt.suffix : Fmt → String
  | .dec => "" | .bin | .binz => "b" | .oct | .octz => "o" | .hex | .hexz => "x"

/-- `arrayHeaders<Kind>[fmt]`: float kinds have no binary/octal notation in CTE and fall back to x -/
def header (k : Kind) (f : Fmt) : String :=
  "@" ++ k.name ++ (if k.isFloat then (if f = .dec then "" else "x") else f.suffix) ++ "["

def Fmt.base : Fmt → Nat
  | .dec => 10 | .bin | .binz => 2 | .oct | .octz => 8 | .hex | .hexz => 16

/-- zero-padded width of `arrayFormats<bits>[fmt]` (0 = no padding) -/
def padWidth (bits : Nat) : Fmt → Nat
  | .binz => bits
  | .octz => (bits + 2) / 3
  | .hexz => bits / 4
  | _ => 0

/-- the Go format string, as the table spells it -/
def verbText (bits : Nat) (f : Fmt) : String :=
  let letter := match f with | .dec => "v" | .bin | .binz => "b" | .oct | .octz => "o" | .hex | .hexz => "x"
  let w := padWidth bits f
  if w = 0 then "%" ++ letter else "%0" ++ toString w ++ letter

def digitChar (d : Nat) : Char :=
  if d < 10 then Char.ofNat (48 + d) else Char.ofNat (87 + d)

/-- digits of `n` in base `b`, most significant first, as `strconv.AppendUint` / fmt produce them -/
def natDigitsAux (b : Nat) : Nat → Nat → List Char → List Char
  | 0, _, acc => acc
  | fuel + 1, n, acc =>
    if n < b then digitChar n :: acc else natDigitsAux b fuel (n / b) (digitChar (n % b) :: acc)

def natDigits (b n : Nat) : List Char := natDigitsAux b (n + 1) n []

def leftPad (w : Nat) (l : List Char) : List Char := List.replicate (w - l.length) '0' ++ l

/-- Go fmt with a `0` flag: the width counts the minus sign -/
def fmtInt (b w : Nat) (x : Int) : List Char :=
  if x < 0 then '-' :: leftPad (w - 1) (natDigits b x.natAbs) else leftPad w (natDigits b x.natAbs)

/-- the integer an element's bit pattern denotes for its kind -/
def elemValue (k : Kind) (e : Nat) : Int :=
  if k.signed ∧ e ≥ 2 ^ (k.bits - 1) then (e : Int) - ((2 ^ k.bits : Nat) : Int) else e

def fmtElem (k : Kind) (f : Fmt) (e : Nat) : List Char :=
  fmtInt f.base (padWidth k.bits f) (elemValue k e)

def digitVal (c : Char) : Option Nat :=
  if '0' ≤ c ∧ c ≤ '9' then some (c.toNat - 48)
  else if 'a' ≤ c ∧ c ≤ 'f' then some (c.toNat - 87)
  else if 'A' ≤ c ∧ c ≤ 'F' then some (c.toNat - 55)
  else none

/-- positional value of a non-empty digit string, every digit below the base -/
def parseDigits (b : Nat) : List Char → Nat → Option Nat
  | [], acc => some acc
  | c :: cs, acc =>
    match digitVal c with
    | some d => if d < b then parseDigits b cs (acc * b + d) else none
    | none => none

def parseNat (b : Nat) (s : List Char) : Option Nat := if s.isEmpty then none else parseDigits b s 0

/-- `strconv.ParseUint(s, base, bits)` for base 2/8/16 and, for base 0, the prefix-free decimal
    spelling (a leading 0 selects octal, as in Go); no sign allowed -/
def parseUintBase (base : Nat) (s : List Char) : Option Nat :=
  if base = 0 then
    match s with
    | ['0'] => some 0
    | '0' :: 'x' :: r | '0' :: 'X' :: r => parseNat 16 r
    | '0' :: 'b' :: r | '0' :: 'B' :: r => parseNat 2 r
    | '0' :: 'o' :: r | '0' :: 'O' :: r => parseNat 8 r
    | '0' :: r => parseNat 8 r
    | _ => parseNat 10 s
  else parseNat base s

/-- the decoder's reading of one element text as a bit pattern of the kind (none = rejected) -/
def parseElem (k : Kind) (f : Fmt) (s : List Char) : Option Nat :=
  let base := if f = .dec then 0 else f.base
  if k.signed then
    match s with
    | '-' :: r => (parseUintBase base r).bind fun m =>
        if m ≤ 2 ^ (k.bits - 1) then some ((2 ^ k.bits - m) % 2 ^ k.bits) else none
    | '+' :: r => (parseUintBase base r).bind fun m => if m < 2 ^ (k.bits - 1) then some m else none
    | _ => (parseUintBase base s).bind fun m => if m < 2 ^ (k.bits - 1) then some m else none
  else (parseUintBase base s).bind fun m => if m < 2 ^ k.bits then some m else none

def printArray (k : Kind) (f : Fmt) (es : List Nat) : String :=
  header k f ++ String.intercalate " " (es.map fun e => String.ofList (fmtElem k f e)) ++ "]"

end CE.Cte.ArrFmt
