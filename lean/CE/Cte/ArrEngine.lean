import CE.Basic.Bytes
/-
  M-CTE (array engine): `arrayEncoderEngine.AddArrayData` (cte/encoder_array.go) for element
  widths above one byte — the carry-over of a partial element between data events.

  Go:   if len(leftover) > 0 {
            fill := width - len(leftover)
            if len(data) < fill { leftover = append(leftover, data...); return }
            leftover = append(leftover, data[:fill]...); data = data[fill:]
            addElements(leftover); leftover = leftover[:0] }
        rem := len(data) & (width-1)                      -- width is a power of two: len % width
        if rem != 0 { leftover = append(leftover, data[len-rem:]...); data = data[:len-rem] }
        addElements(data)                                  -- writes len(data)/width elements
  The element writer prints each width-byte group with the format of the array kind
  (CE/Cte/ArrFmt.lean), so the text of the array is a function of the list of groups.
-/
namespace CE.Cte.ArrEngine
open CE

/-- the first n complete w-byte groups of a byte string -/
def blocks (w : Nat) : Nat → Bytes → List Bytes
  | 0, _ => []
  | n + 1, bs => bs.take w :: blocks w n (bs.drop w)

/-- specification: all complete elements of a byte string, and the incomplete tail -/
def groups (w : Nat) (bs : Bytes) : List Bytes × Bytes :=
  (blocks w (bs.length / w) bs, bs.drop (bs.length / w * w))

structure St where
  out : List Bytes := []       -- elements handed to the element writer so far, in order
  leftover : Bytes := []
deriving Repr

/-- one `AddArrayData` call, statement by statement -/
def addData (w : Nat) (s : St) (data : Bytes) : St :=
  if s.leftover.length > 0 then
    let fill := w - s.leftover.length
    if data.length < fill then { s with leftover := s.leftover ++ data }
    else
      let first := s.leftover ++ data.take fill
      let data := data.drop fill
      let rem := data.length % w
      { out := s.out ++ [first] ++ blocks w ((data.length - rem) / w) (data.take (data.length - rem)),
        leftover := data.drop (data.length - rem) }
  else
    let rem := data.length % w
    { out := s.out ++ blocks w ((data.length - rem) / w) (data.take (data.length - rem)),
      leftover := data.drop (data.length - rem) }

def feed (w : Nat) (ds : List Bytes) : St := ds.foldl (addData w) {}

end CE.Cte.ArrEngine
