import CE.Cte.ArrEngine
namespace CE.Cte.ArrEngine
open CE

theorem blocks_append_exact (w : Nat) : ∀ (n m : Nat) (a b : Bytes), a.length = n * w →
    blocks w (n + m) (a ++ b) = blocks w n a ++ blocks w m b := by
  intro n
  induction n with
  | zero =>
    intro m a b h
    have : a = [] := by simpa using h
    subst this; simp [blocks]
  | succ n ih =>
    intro m a b h
    have hw : w ≤ a.length := by rw [h, Nat.succ_mul]; omega
    have e : n + 1 + m = (n + m) + 1 := by omega
    rw [e]
    simp only [blocks]
    have ht : (a ++ b).take w = a.take w := by
      rw [List.take_append_of_le_length hw]
    have hd : (a ++ b).drop w = a.drop w ++ b := by
      rw [List.drop_append_of_le_length hw]
    rw [ht, hd, ih m (a.drop w) b (by simp [h, Nat.succ_mul])]
    rfl

theorem blocks_take (w : Nat) : ∀ (n : Nat) (bs : Bytes), blocks w n (bs.take (n * w)) = blocks w n bs := by
  intro n
  induction n with
  | zero => intro bs; rfl
  | succ n ih =>
    intro bs
    simp only [blocks]
    have h1 : (bs.take ((n + 1) * w)).take w = bs.take w := by
      rw [List.take_take]; congr 1; rw [Nat.succ_mul]; omega
    have h2 : (bs.take ((n + 1) * w)).drop w = (bs.drop w).take (n * w) := by
      rw [List.drop_take]; congr 1; rw [Nat.succ_mul]; omega
    rw [h1, h2, ih]

theorem groups_leftover_lt (w : Nat) (hw : 0 < w) (bs : Bytes) : (groups w bs).2.length < w := by
  simp only [groups, List.length_drop]
  have := Nat.mod_lt bs.length hw
  have := Nat.div_add_mod bs.length w
  rw [Nat.mul_comm] at this
  omega

/-- the engine's step is the specification's step: everything complete in leftover ++ data is
    emitted, in order, the incomplete tail is kept -/
theorem addData_spec (w : Nat) (hw : 0 < w) (s : St) (data : Bytes) (hl : s.leftover.length < w) :
    addData w s data =
      { out := s.out ++ (groups w (s.leftover ++ data)).1, leftover := (groups w (s.leftover ++ data)).2 } := by
  have key : ∀ (d : Bytes), (d.length - d.length % w) / w = d.length / w ∧ d.length - d.length % w = d.length / w * w := by
    intro d
    have h := Nat.div_add_mod d.length w
    have h2 : d.length - d.length % w = d.length / w * w := by rw [Nat.mul_comm]; omega
    exact ⟨by rw [h2, Nat.mul_div_cancel _ hw], h2⟩
  unfold addData
  by_cases hlo : s.leftover.length > 0
  · simp only [hlo, if_true]
    by_cases hshort : data.length < w - s.leftover.length
    · simp only [hshort, if_true]
      have hlen : (s.leftover.length + data.length) / w = 0 := Nat.div_eq_of_lt (by omega)
      simp [groups, hlen, blocks]
    · simp only [hshort, if_false]
      have hfill : w - s.leftover.length ≤ data.length := by omega
      obtain ⟨k1, k2⟩ := key (data.drop (w - s.leftover.length))
      rw [k1, k2, blocks_take]
      -- leftover ++ data = first ++ rest with |first| = w
      have hsplit : s.leftover ++ data =
          (s.leftover ++ data.take (w - s.leftover.length)) ++ data.drop (w - s.leftover.length) := by
        rw [List.append_assoc, List.take_append_drop]
      have hfirst : (s.leftover ++ data.take (w - s.leftover.length)).length = 1 * w := by
        simp [List.length_take]; omega
      have hlen : (s.leftover ++ data).length / w = 1 + (data.drop (w - s.leftover.length)).length / w := by
        rw [hsplit, List.length_append, hfirst, Nat.one_mul, Nat.add_comm w, Nat.add_div_right _ hw]; omega
      simp only [groups]
      rw [hlen]
      conv => rhs; rw [hsplit]
      rw [blocks_append_exact w 1 _ _ _ hfirst]
      have hb1 : blocks w 1 (s.leftover ++ data.take (w - s.leftover.length)) =
          [s.leftover ++ data.take (w - s.leftover.length)] := by
        simp only [blocks]
        rw [List.take_of_length_le (by rw [hfirst]; omega)]
      rw [hb1]
      congr 1
      · simp [List.append_assoc]
      · have e : (1 + (data.drop (w - s.leftover.length)).length / w) * w =
            (s.leftover ++ data.take (w - s.leftover.length)).length +
              (data.drop (w - s.leftover.length)).length / w * w := by
          rw [hfirst, Nat.add_mul]
        rw [e, List.drop_append, List.drop_eq_nil_of_le (Nat.le_add_right _ _), Nat.add_sub_cancel_left]
        rfl
  · have hnil : s.leftover = [] := by
      cases h : s.leftover with
      | nil => rfl
      | cons _ _ => simp [h] at hlo
    simp only [hlo, if_false, hnil, List.nil_append]
    obtain ⟨k1, k2⟩ := key data
    rw [k1, k2, blocks_take]
    rfl


/-- complete elements of x, then the complete elements of (tail of x) ++ y -/
theorem groups_append (w : Nat) (hw : 0 < w) (x y : Bytes) :
    groups w (x ++ y) =
      ((groups w x).1 ++ (groups w ((groups w x).2 ++ y)).1, (groups w ((groups w x).2 ++ y)).2) := by
  have hx : x = x.take (x.length / w * w) ++ x.drop (x.length / w * w) := (List.take_append_drop _ _).symm
  have hle : x.length / w * w ≤ x.length := Nat.div_mul_le_self _ _
  have hX : (x.take (x.length / w * w)).length = x.length / w * w := by
    rw [List.length_take]; omega
  generalize hn : x.length / w = n at *
  generalize hr : x.drop (n * w) = r at *
  have hxy : x ++ y = x.take (n * w) ++ (r ++ y) := by
    conv => lhs; rw [hx]
    rw [List.append_assoc]
  have hlen : (x ++ y).length / w = n + (r ++ y).length / w := by
    rw [hxy, List.length_append, hX, Nat.add_comm, Nat.add_mul_div_right _ _ hw, Nat.add_comm]
  simp only [groups, hn, hr]
  rw [hlen]
  congr 1
  · rw [hxy, blocks_append_exact w n _ _ _ hX, blocks_take]
  · have e : n * w + (r ++ y).length / w * w = (x.take (n * w)).length + (r ++ y).length / w * w := by rw [hX]
    rw [hxy, Nat.add_mul, e, List.drop_append, List.drop_eq_nil_of_le (Nat.le_add_right _ _),
      Nat.add_sub_cancel_left]
    rfl

theorem foldl_addData (w : Nat) (hw : 0 < w) : ∀ (ds : List Bytes) (s : St), s.leftover.length < w →
    ds.foldl (addData w) s =
      { out := s.out ++ (groups w (s.leftover ++ ds.flatten)).1,
        leftover := (groups w (s.leftover ++ ds.flatten)).2 } := by
  intro ds
  induction ds with
  | nil =>
    intro s hl
    have h0 : s.leftover.length / w = 0 := Nat.div_eq_of_lt hl
    simp [groups, h0, blocks]
  | cons d ds ih =>
    intro s hl
    simp only [List.foldl_cons, List.flatten_cons]
    rw [addData_spec w hw s d hl]
    rw [ih _ (groups_leftover_lt w hw _)]
    simp only
    rw [← List.append_assoc s.leftover d, groups_append w hw (s.leftover ++ d) ds.flatten]
    simp [List.append_assoc]

/-- **what the element writer sees depends only on the concatenated bytes**: however the data
    of an array is divided among data events (mid-element included), the engine hands the
    writer the complete elements of the concatenation, in order, and keeps the incomplete tail -/
theorem feed_spec (w : Nat) (hw : 0 < w) (ds : List Bytes) :
    (feed w ds).out = (groups w ds.flatten).1 ∧ (feed w ds).leftover = (groups w ds.flatten).2 := by
  have := foldl_addData w hw ds {} (by simpa using hw)
  unfold feed
  rw [this]
  simp

theorem split_irrelevant (w : Nat) (hw : 0 < w) (ds ds' : List Bytes) (h : ds.flatten = ds'.flatten) :
    (feed w ds).out = (feed w ds').out ∧ (feed w ds).leftover = (feed w ds').leftover := by
  obtain ⟨a, b⟩ := feed_spec w hw ds
  obtain ⟨a', b'⟩ := feed_spec w hw ds'
  rw [a, b, a', b', h]
  exact ⟨rfl, rfl⟩

end CE.Cte.ArrEngine
