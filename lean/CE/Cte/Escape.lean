import CE.Cte.Lit
import CE.Chars.Chars
/-
  M-CTE (string fragment): the escaping layer of the encoder — cte/escapes.go escapeCharQuoted /
  unicodeEscape, cte/encoder_writer.go WriteQuotedString(Bytes): a character the safety table
  allows is written as it is, any other as a named escape or as \\[hex].
-/
namespace CE.Cte.Escape
open CE.Cte.ArrFmt

/-- `escapeCharQuoted` for a character the table does not allow -/
def escapeUnsafe (c : Char) : List Char :=
  if c = '\t' then ['\\', 't'] else if c = '\r' then ['\\', 'r'] else if c = '\n' then ['\\', 'n']
  else if c = '"' then ['\\', '"'] else if c = '*' then ['\\', '*'] else if c = '/' then ['\\', '/']
  else if c = '\\' then ['\\', '\\']
  else ['\\', '['] ++ natDigits 16 c.toNat ++ [']']

def escapeChar (safe : Char → Bool) (c : Char) : List Char := if safe c then [c] else escapeUnsafe c

/-- the body the encoder writes between the quotes -/
def escape (safe : Char → Bool) (s : List Char) : List Char := s.flatMap (escapeChar safe)

def tableSafe (c : Char) : Bool := CE.Chars.inRanges CE.Chars.Model.stringlikeSafeRanges c.toNat


end CE.Cte.Escape
