import CE.Cte.ArrFmt
/-
  Reference semantics of CTE numeric literals (C24), written from the property text and the
  Concise Encoding text format, not from the decoder: the mathematical value a spelling denotes.

    integer   :=  -? (0b BIN | 0o OCT | 0x HEX | DEC)            digits may be separated by '_'
    dec float :=  -? DEC ('.' DEC)? ([eE] [+-]? DEC)?            value = digits · 10^(exp − #fraction digits)
    hex float :=  -? 0x HEX ('.' HEX)? ([pP] [+-]? DEC)?         value = digits · 2^(exp − 4·#fraction digits)
    specials  :=  inf | -inf | nan | snan                        (any letter case)
  A value is an exact rational (sign kept separately so that negative zero is representable).
-/
namespace CE.Cte.Lit
open CE.Cte.ArrFmt (digitVal)

inductive Val
  | num (neg : Bool) (n d : Nat)      -- (−1)^neg · n / d, lowest terms, d > 0
  | inf (neg : Bool) | nan | snan
deriving DecidableEq, Repr, Inhabited

def mkNum (neg : Bool) (n d : Nat) : Val :=
  let g := Nat.gcd n d
  if g = 0 then .num neg 0 1 else .num neg (n / g) (d / g)

/-- digits in base b with '_' separators between digits: first and last character are digits -/
def digitsValue (b : Nat) (s : List Char) : Option (Nat × Nat) :=   -- (value, number of digits)
  let rec go : List Char → Nat → Nat → Bool → Option (Nat × Nat)
    | [], acc, k, lastDigit => if lastDigit && k > 0 then some (acc, k) else none
    | c :: cs, acc, k, lastDigit =>
      if c = '_' then (if k > 0 then go cs acc k false else none)
      else match digitVal c with
        | some d => if d < b then go cs (acc * b + d) (k + 1) true else none
        | none => none
  go s 0 0 false

def lower (s : List Char) : List Char := s.map Char.toLower

def splitAt (p : Char → Bool) (s : List Char) : List Char × Option (List Char) :=
  match s.span (fun c => !p c) with
  | (a, []) => (a, none)
  | (a, _ :: b) => (a, some b)

def parseExp (s : List Char) : Option Int :=
  match s with
  | '+' :: r => (digitsValue 10 r).map fun p => (p.1 : Int)
  | '-' :: r => (digitsValue 10 r).map fun p => -(p.1 : Int)
  | r => (digitsValue 10 r).map fun p => (p.1 : Int)

/-- m · base^e as a rational -/
def scale (neg : Bool) (m : Nat) (base : Nat) (e : Int) : Val :=
  if e ≥ 0 then mkNum neg (m * base ^ e.toNat) 1 else mkNum neg m (base ^ (-e).toNat)

/-- mantissa `I[.F]` in base b followed by an optional exponent introduced by `expChar`;
    each fraction digit divides by b (= by 10, or by 2^4) -/
def parseFloatBody (neg : Bool) (b : Nat) (perDigit : Nat × Nat) (expChars : List Char) (s : List Char) : Option Val :=
  let (mant, expPart) := splitAt (fun c => expChars.contains c) s
  let (ip, fp) := splitAt (· = '.') mant
  match digitsValue b ip with
  | none => none
  | some (iv, _) =>
    let frac : Option (Nat × Nat) := match fp with
      | none => some (0, 0)
      | some f => digitsValue b f
    match frac with
    | none => none
    | some (fv, fk) =>
      let e : Option Int := match expPart with | none => some 0 | some x => parseExp x
      match e with
      | none => none
      | some e =>
        let m := iv * b ^ fk + fv
        -- value = m · (expBase)^(e) / b^fk, with b^fk = (expBase)^(fk · perDigit.2 / perDigit.1 …): handled per base
        some (scale neg m perDigit.1 (e - (fk * perDigit.2 : Nat)))

/-- the value a numeric literal spells (none = not a literal of the grammar above) -/
def value (str : String) : Option Val :=
  let s := str.toList
  let (neg, r) := match s with | '-' :: r => (true, r) | r => (false, r)
  let l := lower r
  if l = "inf".toList then some (.inf neg)
  else if l = "nan".toList then (if neg then none else some .nan)
  else if l = "snan".toList then (if neg then none else some .snan)
  else match l with
    | '0' :: 'b' :: d => (digitsValue 2 d).map fun p => mkNum neg p.1 1
    | '0' :: 'o' :: d => (digitsValue 8 d).map fun p => mkNum neg p.1 1
    | '0' :: 'x' :: d =>
      if d.any (fun c => c = '.' || c = 'p') then parseFloatBody neg 16 (2, 4) ['p'] d
      else (digitsValue 16 d).map fun p => mkNum neg p.1 1
    | d =>
      if d.any (fun c => c = '.' || c = 'e') then parseFloatBody neg 10 (10, 1) ['e'] d
      else (digitsValue 10 d).map fun p => mkNum neg p.1 1

def Val.text : Val → String
  | .num neg n d => (if neg then "-" else "") ++ toString n ++ "/" ++ toString d
  | .inf neg => if neg then "-inf" else "inf"
  | .nan => "nan" | .snan => "snan"

end CE.Cte.Lit

namespace CE.Cte.Lit
open CE.Cte.ArrFmt (digitVal)

/-! ### typed-array elements -/

def log2Exact (d : Nat) : Option Nat :=
  let k := d.log2
  if 2 ^ k = d then some k else none

def trailingZeros : Nat → Nat → Nat
  | 0, _ => 0
  | fuel + 1, n => if n = 0 then 0 else if n % 2 = 0 then 1 + trailingZeros fuel (n / 2) else 0

/-- exactly representable in a binary format with p significand bits, least exponent emin (of
    the unit in the last place of subnormals) and values below 2^top -/
def representable (p : Nat) (emin : Int) (top : Nat) (n d : Nat) : Bool :=
  if n = 0 then true else
  match log2Exact d with
  | none => false
  | some ld =>
    let tz := trailingZeros (n.log2 + 1) n
    let m := n / 2 ^ tz
    let e : Int := (tz : Int) - ld
    decide (m.log2 + 1 ≤ p) && decide (e ≥ emin) && decide ((m.log2 + 1 : Int) + e ≤ top)

/-- element spelling under a header with base suffix "", "b", "o", "x" (integers) -/
def intElemValue (suffix : String) (s : String) : Option Val :=
  if suffix = "" then
    match value s with
    | some (.num neg n 1) => some (.num neg n 1)
    | _ => none
  else
    let (neg, r) := match s.toList with | '-' :: r => (true, r) | r => (false, r)
    let b := if suffix = "b" then 2 else if suffix = "o" then 8 else 16
    (digitsValue b r).map fun p => mkNum neg p.1 1

/-- the bit pattern an integer element must decode to, none if it does not fit the kind -/
def intElemBits (signed : Bool) (bits : Nat) (v : Val) : Option Nat :=
  match v with
  | .num neg n 1 =>
    if signed then
      if neg then (if n ≤ 2 ^ (bits - 1) then some ((2 ^ bits - n) % 2 ^ bits) else none)
      else (if n < 2 ^ (bits - 1) then some n else none)
    else if neg then none   -- the grammar of unsigned arrays has no sign at all: "-0" is not an element
    else (if n < 2 ^ bits then some n else none)
  | _ => none

/-- float element spelling: prefix forms under a plain header, bare hex under an x header -/
def floatElemValue (suffix : String) (s : String) : Option Val :=
  if suffix = "x" then
    let (neg, r) := match s.toList with | '-' :: r => (true, r) | r => (false, r)
    let l := lower r
    if l = "inf".toList then some (.inf neg)
    else if l = "nan".toList then (if neg then none else some .nan)
    else if l = "snan".toList then (if neg then none else some .snan)
    else if l.any (fun c => c = '.' || c = 'p') then parseFloatBody neg 16 (2, 4) ['p'] l
    else (digitsValue 16 l).map fun p => mkNum neg p.1 1
  else value s

/-! ### strings -/

def utf8Encode (c : Nat) : List Nat :=
  if c < 0x80 then [c]
  else if c < 0x800 then [0xC0 + c / 64, 0x80 + c % 64]
  else if c < 0x10000 then [0xE0 + c / 4096, 0x80 + c / 64 % 64, 0x80 + c % 64]
  else [0xF0 + c / 262144, 0x80 + c / 4096 % 64, 0x80 + c / 64 % 64, 0x80 + c % 64]

def validScalar (c : Nat) : Bool := c < 0xD800 || (0xE000 ≤ c && c < 0x110000)

def isWs (c : Char) : Bool := c = ' ' || c = '\t' || c = '\n' || c = '\r'

/-- drop the verbatim sentinel-delimited block: returns (contents, rest) -/
def takeVerbatim (sentinel : List Char) : List Char → List Char → Option (List Char × List Char)
  | [], _ => none
  | c :: cs, acc =>
    if sentinel.isPrefixOf (c :: cs) then some (acc.reverse, (c :: cs).drop sentinel.length)
    else takeVerbatim sentinel cs (c :: acc)

/-- split at the first character satisfying p (which stays at the head of the second part) -/
def breakOn (p : Char → Bool) : List Char → List Char × List Char
  | [] => ([], [])
  | x :: xs => if p x then ([], x :: xs) else ((breakOn p xs).1.cons x, (breakOn p xs).2)

/-- the code points a quoted-string body spells (none = not a well-formed literal) -/
def strValue : Nat → List Char → Option (List Nat)
  | 0, _ => none
  | _ + 1, [] => some []
  | fuel + 1, c :: rest =>
    if c = '\\' then
      match rest with
      | [] => none
      | e :: r =>
        if e = '[' then
          let hex := (breakOn (· = ']') r).1
          match (breakOn (· = ']') r).2 with
          | ']' :: r' =>
            if hex.isEmpty then none else
            match CE.Cte.ArrFmt.parseDigits 16 hex 0 with
            | some cp => if validScalar cp then (strValue fuel r').map (cp :: ·) else none
            | none => none
          | _ => none
        else if e = '.' then
          let sentinel := (breakOn isWs r).1
          if sentinel.isEmpty then none else
          let body : Option (List Char) := match (breakOn isWs r).2 with
            | '\r' :: '\n' :: b => some b
            | ' ' :: b | '\t' :: b | '\n' :: b => some b
            | _ => none
          match body with
          | none => none
          | some b =>
            match takeVerbatim sentinel b [] with
            | some (contents, r') => (strValue fuel r').map ((contents.map Char.toNat) ++ ·)
            | none => none
        else if e = '\n' || e = '\r' then strValue fuel (r.dropWhile isWs)
        else
          let one (cp : Nat) := (strValue fuel r).map (cp :: ·)
          if e = 'n' || e = 'N' then one 10
          else if e = 'r' || e = 'R' then one 13
          else if e = 't' || e = 'T' then one 9
          else if e = '"' then one 34
          else if e = '*' then one 42
          else if e = '/' then one 47
          else if e = '\\' then one 92
          else if e = '-' then one 0xAD
          else if e = '_' then one 0xA0
          else none
    else if c = '"' then none
    else (strValue fuel rest).map (c.toNat :: ·)

def strBytes (body : String) : Option (List Nat) :=
  (strValue (body.length + 1) body.toList).map fun cps => cps.flatMap utf8Encode

end CE.Cte.Lit
