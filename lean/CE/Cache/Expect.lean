/-
  What the model of the type caches (CE/Cache/Model.lean) and the reset-point reasoning of C16
  expect of the source.  CE/Gen/CheckSession.lean (regenerated on every run) proves that the
  facts extracted from /repo's working tree are exactly these.
-/
namespace CE.Cache.Expect

/-- protocol operations of GetIteratorForType / GetBuilderGeneratorForType in source order:
      cache.Load                      — pc init
      wg.Add, cache.LoadOrStore       — pc tryStore; the stored value is the placeholder
      func{ wg.Wait, callReal }       — the placeholder: pc holding (some owner) / waiting
      defer{ recover, cache.Delete, cache.Range func{ cache.Delete }, assignReal func{panic}, wg.Done, panic }
                                      — failure branch of pc generating (fix e509a33); the Range deletes
                                        the entries of types built on top of the failed one (pointer to
                                        it, slice of it, ...: fix for the stale-wrapper defect), which in
                                        the one-entry model is the same transition `slot := empty`
      assignReal generate             — pc generating
      wg.Done                         — pc doneGen
      cache.Store                     — pc storing -/
def cacheProtocol : List String :=
  ["cache.Load", "wg.Add", "cache.LoadOrStore", "func{", "wg.Wait", "callReal", "}",
   "defer{", "recover", "cache.Delete", "cache.Range", "func{", "cache.Delete", "}",
   "assignReal", "func{", "panic", "}", "wg.Done", "panic", "}",
   "assignReal", "generate", "wg.Done", "cache.Store"]

/-- the structs that carry state from one document to the next, with all their fields (a new
    field must be reviewed: does the per-document reset point have to clear it?) -/
def resetFields : List (String × List String) := [
  ("cbe.Reader.SetReader", ["reader", "adapter", "buffer", "bytesRead", "config"]),
  ("cbe.Encoder.PrepareToEncode", ["writer", "config", "arrayType", "trySmallArrayHeader"]),
  ("rules.Context.Reset",
    ["config", "ExpectedVersion", "objectCount", "recordTypes", "recordTypeName", "CurrentEntry", "stack",
     "containerDepth", "arrayType", "moreChunksFollow", "builtArrayBuffer", "arrayMaxByteCount",
     "arrayTotalByteCount", "chunkExpectedByteCount", "chunkActualByteCount", "utf8RemainderBacking",
     "utf8FirstRuneBacking", "utf8RemainderBuffer", "ValidateArrayDataFunc", "markerID", "markedObjects",
     "forwardLocalReferences", "LocalReferenceCount"]),
  ("cte.EncoderContext.Begin",
    ["config", "indenter", "stack", "Decorator", "ContainerHasObjects", "Stream", "ArrayEngine"])]

/-- fields whose value at the start of a document influences how the document is processed
    (the others are configuration, scratch buffers re-initialised by the begin-array paths, or
    overwritten before they are read) -/
def mustReset (point : String) : List String :=
  if point = "cbe.Reader.SetReader" then ["reader", "adapter", "bytesRead"]
  else if point = "cbe.Encoder.PrepareToEncode" then ["writer", "arrayType", "trySmallArrayHeader"]
  else if point = "rules.Context.Reset" then
    ["objectCount", "recordTypes", "CurrentEntry", "stack", "containerDepth", "markedObjects",
     "forwardLocalReferences", "LocalReferenceCount"]
  else if point = "cte.EncoderContext.Begin" then ["indenter", "stack", "Decorator"]
  else []

end CE.Cache.Expect
