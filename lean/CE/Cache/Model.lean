/-
  M-CACHE — the type caches of iterator.Session.GetIteratorForType and
  builder.Session.GetBuilderGeneratorForType (one cache entry, any number of goroutines).

  Go (both functions have this shape; `Gen/CacheProtocol.lean` re-extracts it on every run):

      f, ok := cache.Load(t);            if ok { return f }                 -- pc init
      wg.Add(1)
      f, loaded := cache.LoadOrStore(t, placeholder{ wg.Wait(); real(..) }) -- pc tryStore
      if loaded { return f }
      defer func() { if r := recover(); r != nil {                          -- failure branch
          cache.Delete(t); real = panicking(r); wg.Done(); panic(r) } }()
      real = generate(t)                                                    -- pc generating
      wg.Done()                                                             -- pc doneGen
      cache.Store(t, real)                                                  -- pc storing
      return real

  A goroutine that obtained a function then *calls* it (pc holding / waiting): the placeholder
  blocks on the owner's WaitGroup and then calls `real`.
  `genOk` says whether generating code for this type succeeds (an unsupported kind panics —
  deterministically, every time).  `fixed = false` is the code before fix e509a33 (no deferred
  recovery): kept so that the theorems can be seen to fail for it.
-/
namespace CE.Cache

inductive Res | ok | failed
deriving DecidableEq, Repr, Inhabited

inductive Slot
  | empty
  | placeholder (owner : Nat)
  | final
deriving DecidableEq, Repr, Inhabited

inductive Pc
  | init | tryStore | generating | doneGen | storing
  | holding (f : Option Nat)        -- none = the real function, some o = o's placeholder
  | waiting (o : Nat)
  | finished (r : Res)
deriving DecidableEq, Repr, Inhabited

structure Sys where
  slot : Slot := .empty
  released : List Nat := []         -- owners whose WaitGroup is done
  failedOwners : List Nat := []     -- owners whose `real` is the panicking function
  pcs : Nat → Pc := fun _ => .init

def upd (f : Nat → Pc) (t : Nat) (p : Pc) : Nat → Pc := fun u => if u = t then p else f u

@[simp] theorem upd_same (f : Nat → Pc) (t : Nat) (p : Pc) : upd f t p t = p := by simp [upd]
@[simp] theorem upd_other (f : Nat → Pc) (t u : Nat) (p : Pc) (h : u ≠ t) : upd f t p u = f u := by
  simp [upd, h]

structure Params where
  genOk : Bool
  fixed : Bool := true

/-- one step of goroutine `t`; `none` = blocked (or finished) -/
def step (P : Params) (s : Sys) (t : Nat) : Option Sys :=
  match s.pcs t with
  | .init =>
    match s.slot with
    | .empty => some { s with pcs := upd s.pcs t .tryStore }
    | .placeholder o => some { s with pcs := upd s.pcs t (.holding (some o)) }
    | .final => some { s with pcs := upd s.pcs t (.holding none) }
  | .tryStore =>
    match s.slot with
    | .empty => some { s with slot := .placeholder t, pcs := upd s.pcs t .generating }
    | .placeholder o => some { s with pcs := upd s.pcs t (.holding (some o)) }
    | .final => some { s with pcs := upd s.pcs t (.holding none) }
  | .generating =>
    if P.genOk then some { s with pcs := upd s.pcs t .doneGen }
    else if P.fixed then
      some { s with slot := .empty, failedOwners := t :: s.failedOwners, released := t :: s.released,
                    pcs := upd s.pcs t (.finished .failed) }
    else some { s with pcs := upd s.pcs t (.finished .failed) }
  | .doneGen => some { s with released := t :: s.released, pcs := upd s.pcs t .storing }
  | .storing => some { s with slot := .final, pcs := upd s.pcs t (.holding none) }
  | .holding none => some { s with pcs := upd s.pcs t (.finished .ok) }
  | .holding (some o) => some { s with pcs := upd s.pcs t (.waiting o) }
  | .waiting o =>
    if o ∈ s.released then
      some { s with pcs := upd s.pcs t (.finished (if o ∈ s.failedOwners then .failed else .ok)) }
    else none
  | .finished _ => none

/-- a schedule is any list of goroutine ids; a blocked or finished goroutine's turn is a no-op -/
def run (P : Params) : Sys → List Nat → Sys
  | s, [] => s
  | s, t :: ts => run P ((step P s t).getD s) ts

/-- what every caller must observe: the outcome of generating code for the type -/
def expected (P : Params) : Res := if P.genOk then .ok else .failed

end CE.Cache
