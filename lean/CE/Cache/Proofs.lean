import CE.Cache.Model
/-
  Invariants of the cache protocol for every schedule and any number of goroutines.
-/
namespace CE.Cache

structure Inv (P : Params) (s : Sys) : Prop where
  finalOk : s.slot = .final → P.genOk = true
  failedNotOk : ∀ o ∈ s.failedOwners, P.genOk = false
  releasedFailed : ∀ o ∈ s.released, P.genOk = false → o ∈ s.failedOwners
  finishedRes : ∀ t r, s.pcs t = .finished r → r = expected P
  genDone : ∀ t, s.pcs t = .doneGen ∨ s.pcs t = .storing ∨ s.pcs t = .holding none → P.genOk = true
  ownerAlive : ∀ o, (s.slot = .placeholder o ∨ ∃ t, s.pcs t = .holding (some o) ∨ s.pcs t = .waiting o) →
      o ∈ s.released ∨ s.pcs o = .generating ∨ s.pcs o = .doneGen
  ownerInFlight : ∀ o, s.slot = .placeholder o →
      s.pcs o = .generating ∨ s.pcs o = .doneGen ∨ s.pcs o = .storing

theorem inv_init (P : Params) : Inv P {} := by
  constructor <;> simp

theorem upd_eq_iff (f : Nat → Pc) (t u : Nat) (p q : Pc) :
    upd f t p u = q ↔ (u = t ∧ p = q) ∨ (u ≠ t ∧ f u = q) := by
  unfold upd; by_cases h : u = t <;> simp [h]


theorem upd_apply (f : Nat → Pc) (t u : Nat) (p : Pc) :
    upd f t p u = if u = t then p else f u := rfl

theorem step_inv (P : Params) (hfix : P.fixed = true) (s s' : Sys) (t : Nat)
    (h : Inv P s) (hs : step P s t = some s') : Inv P s' := by
  obtain ⟨h1, h2, h3, h4, h5, h6, h7⟩ := h
  unfold step at hs
  have fin : ∀ (x : Sys), some x = some s' →
      ((x.slot = .final → P.genOk = true) ∧ (∀ o ∈ x.failedOwners, P.genOk = false) ∧
       (∀ o ∈ x.released, P.genOk = false → o ∈ x.failedOwners) ∧
       (∀ t r, x.pcs t = .finished r → r = expected P) ∧
       (∀ t, x.pcs t = .doneGen ∨ x.pcs t = .storing ∨ x.pcs t = .holding none → P.genOk = true) ∧
       (∀ o, (x.slot = .placeholder o ∨ ∃ t, x.pcs t = .holding (some o) ∨ x.pcs t = .waiting o) →
          o ∈ x.released ∨ x.pcs o = .generating ∨ x.pcs o = .doneGen) ∧
       (∀ o, x.slot = .placeholder o → x.pcs o = .generating ∨ x.pcs o = .doneGen ∨ x.pcs o = .storing)) →
      Inv P s' := by
    intro x hx hh; cases hx
    exact ⟨hh.1, hh.2.1, hh.2.2.1, hh.2.2.2.1, hh.2.2.2.2.1, hh.2.2.2.2.2.1, hh.2.2.2.2.2.2⟩
  simp only [expected] at h4
  cases hp : s.pcs t with
  | init =>
    simp only [hp] at hs
    cases hsl : s.slot <;> simp only [hsl] at hs <;> refine fin _ hs ?_ <;> clear fin hs <;>
      simp only [upd_apply, expected] <;> refine ⟨?_, ?_, ?_, ?_, ?_, ?_, ?_⟩ <;> grind
  | tryStore =>
    simp only [hp] at hs
    cases hsl : s.slot <;> simp only [hsl] at hs <;> refine fin _ hs ?_ <;> clear fin hs <;>
      simp only [upd_apply, expected] <;> refine ⟨?_, ?_, ?_, ?_, ?_, ?_, ?_⟩ <;> grind
  | generating =>
    simp only [hp, hfix, if_true] at hs
    cases hg : P.genOk <;> simp only [hg, if_true, if_false, Bool.false_eq_true] at hs <;> refine fin _ hs ?_ <;> clear fin hs <;>
      simp only [upd_apply, expected, hg] <;> refine ⟨?_, ?_, ?_, ?_, ?_, ?_, ?_⟩ <;> grind
  | doneGen =>
    simp only [hp] at hs
    refine fin _ hs ?_
    clear fin hs
    simp only [upd_apply, expected]; refine ⟨?_, ?_, ?_, ?_, ?_, ?_, ?_⟩ <;> grind
  | storing =>
    simp only [hp] at hs
    refine fin _ hs ?_
    clear fin hs
    simp only [upd_apply, expected]; refine ⟨?_, ?_, ?_, ?_, ?_, ?_, ?_⟩ <;> grind
  | holding f =>
    cases f <;> simp only [hp] at hs <;> refine fin _ hs ?_ <;> clear fin hs <;>
      simp only [upd_apply, expected] <;> refine ⟨?_, ?_, ?_, ?_, ?_, ?_, ?_⟩ <;> grind
  | waiting o =>
    simp only [hp] at hs
    split at hs
    · refine fin _ hs ?_
      clear fin hs
      simp only [upd_apply, expected]; refine ⟨?_, ?_, ?_, ?_, ?_, ?_, ?_⟩ <;> grind
    · cases hs
  | finished r => simp [hp] at hs


theorem run_inv (P : Params) (hfix : P.fixed = true) :
    ∀ (ts : List Nat) (s : Sys), Inv P s → Inv P (run P s ts) := by
  intro ts
  induction ts with
  | nil => intro s h; exact h
  | cons t ts ih =>
    intro s h
    simp only [run]
    cases hs : step P s t with
    | none => simpa using ih s h
    | some s' => simpa using ih s' (step_inv P hfix s s' t h hs)

/-- progress measure of one goroutine -/
def rank : Pc → Nat
  | .init => 0 | .tryStore => 1 | .generating => 2 | .doneGen => 3 | .storing => 4
  | .holding _ => 5 | .waiting _ => 6 | .finished _ => 7

/-- every step moves exactly the stepping goroutine, strictly forward: no goroutine takes more
    than seven steps, so no schedule spins -/
theorem step_progress (P : Params) (s s' : Sys) (t : Nat) (hs : step P s t = some s') :
    rank (s.pcs t) < rank (s'.pcs t) ∧ ∀ u, u ≠ t → s'.pcs u = s.pcs u := by
  unfold step at hs
  cases hp : s.pcs t with
  | init => simp only [hp] at hs; cases hsl : s.slot <;> simp only [hsl] at hs <;> cases hs <;> (simp [rank, upd]; try (intro u h1 h2; exact absurd h2 h1))
  | tryStore => simp only [hp] at hs; cases hsl : s.slot <;> simp only [hsl] at hs <;> cases hs <;> (simp [rank, upd]; try (intro u h1 h2; exact absurd h2 h1))
  | generating =>
    simp only [hp] at hs
    cases hg : P.genOk <;> cases hf : P.fixed <;> simp [hg, hf] at hs <;> cases hs <;> (simp [rank, upd]; try (intro u h1 h2; exact absurd h2 h1))
  | doneGen => simp only [hp] at hs; cases hs; (simp [rank, upd]; try (intro u h1 h2; exact absurd h2 h1))
  | storing => simp only [hp] at hs; cases hs; (simp [rank, upd]; try (intro u h1 h2; exact absurd h2 h1))
  | holding f => cases f <;> simp only [hp] at hs <;> cases hs <;> (simp [rank, upd]; try (intro u h1 h2; exact absurd h2 h1))
  | waiting o => simp only [hp] at hs; split at hs <;> cases hs; (simp [rank, upd]; try (intro u h1 h2; exact absurd h2 h1))
  | finished r => simp [hp] at hs

end CE.Cache
