import CE.Cache.Multi
/-
  The many-entry cache stays sound through every request, successful or failed, however the types
  refer to each other (recursive types included).
-/
namespace CE.Cache.Multi
variable (T : Types)

theorem ta_not_inflight {P : Nat → Prop} {k : Nat} (h : TaintedAvoiding T P k) : ¬ P k := by
  cases h with
  | bad _ hp _ => exact hp
  | child _ _ hp _ _ => exact hp

/-- a taint path that avoids `P` either avoids `t` as well or passes through `t` -/
theorem ta_split_reach (P : Nat → Prop) (t : Nat) : ∀ k, TaintedAvoiding T P k →
    TaintedAvoiding T (fun x => P x ∨ x = t) k ∨ Reach T k t := by
  intro k h
  induction h with
  | bad k hp hb =>
    by_cases hk : k = t
    · exact .inr (hk ▸ Reach.refl k)
    · exact .inl (.bad k (fun h => h.elim hp hk) hb)
  | child k c hp hc _ ih =>
    by_cases hk : k = t
    · exact .inr (hk ▸ Reach.refl k)
    · rcases ih with h1 | h2
      · exact .inl (.child k c (fun h => h.elim hp hk) hc h1)
      · exact .inr (.step k c t hc h2)

/-- … and if `t` itself is a supported kind, the part of the path after its last visit to `t` starts
    at a component type of `t` -/
theorem ta_split_child (P : Nat → Prop) (t : Nat) (hgood : ¬ T.bad t) : ∀ k, TaintedAvoiding T P k →
    TaintedAvoiding T (fun x => P x ∨ x = t) k ∨ ∃ c, c ∈ T.children t ∧ TaintedAvoiding T (fun x => P x ∨ x = t) c := by
  intro k h
  induction h with
  | bad k hp hb =>
    by_cases hk : k = t
    · exact absurd (hk ▸ hb) hgood
    · exact .inl (.bad k (fun h => h.elim hp hk) hb)
  | child k c hp hc _ ih =>
    rcases ih with h1 | h2
    · by_cases hk : k = t
      · exact .inr ⟨c, hk ▸ hc, h1⟩
      · exact .inl (.child k c (fun h => h.elim hp hk) hc h1)
    · exact .inr h2


/-- avoiding more types is harder -/
theorem ta_mono {P P' : Nat → Prop} (hpp : ∀ x, P x → P' x) : ∀ k, TaintedAvoiding T P' k → TaintedAvoiding T P k := by
  intro k h
  induction h with
  | bad k hp hb => exact .bad k (fun h => hp (hpp k h)) hb
  | child k c hp hc _ ih => exact .child k c (fun h => hp (hpp k h)) hc ih

mutual
/-- a successful request only adds entries, and leaves its type cached or in flight -/
theorem gen_ok_mono : ∀ {F P : Nat → Prop} {t : Nat} {F' : Nat → Prop} {ok : Bool}, Gen T F P t F' ok → ok = true →
    (∀ k, F k → F' k) ∧ (F' t ∨ P t)
  | _, _, _, _, _, .hit F P t h, _ => ⟨fun _ hk => hk, h⟩
  | _, _, _, _, _, .stored F P F' t _ _ _ hl, _ =>
    have ih := genList_ok_mono hl rfl
    ⟨fun k hk => .inl (ih.1 k hk), .inl (.inr rfl)⟩
  | _, _, _, _, _, .unsupported F P t _ _ _, h => by cases h
  | _, _, _, _, _, .failed F P F' t _ _ _ _, h => by cases h

theorem genList_ok_mono : ∀ {F P : Nat → Prop} {cs : List Nat} {F' : Nat → Prop} {ok : Bool}, GenList T F P cs F' ok → ok = true →
    (∀ k, F k → F' k) ∧ (∀ c, c ∈ cs → F' c ∨ P c)
  | _, _, _, _, _, .nil F P, _ => ⟨fun _ hk => hk, fun c hc => by cases hc⟩
  | _, _, _, _, _, .cons_ok F P F1 F2 c cs ok hg hl, hok =>
    have ih1 := gen_ok_mono hg rfl
    have ih2 := genList_ok_mono hl hok
    ⟨fun k hk => ih2.1 k (ih1.1 k hk), fun c' hc' => by
      rcases List.mem_cons.mp hc' with h | h
      · subst h
        rcases ih1.2 with h1 | h1
        · exact .inl (ih2.1 _ h1)
        · exact .inr h1
      · exact ih2.2 c' h⟩
  | _, _, _, _, _, .cons_fail F P F1 c cs _, h => by cases h
end

mutual
/-- every request, successful or not, keeps the cache sound -/
theorem gen_sound : ∀ {F P : Nat → Prop} {t : Nat} {F' : Nat → Prop} {ok : Bool}, Gen T F P t F' ok →
    Sound T F P → Sound T F' P
  | _, _, _, _, _, .hit F P t _, hs => hs
  | _, _, _, _, _, .unsupported F P t _ _ _, hs => fun k hk hta => hs k hk.1 hta
  | _, _, _, _, _, .stored F P F' t _ hnp hgood hl, hs => by
    have hs' : Sound T F (fun k => P k ∨ k = t) := fun k hk hta =>
      hs k hk (ta_mono T (fun x hx => .inl hx) k hta)
    have ih := genList_sound hl hs'
    have hm := genList_ok_mono T hl rfl
    intro k hk hta
    rcases ta_split_child T P t hgood k hta with h1 | ⟨c, hc, h2⟩
    · rcases hk with hk | hk
      · exact ih k hk h1
      · exact ta_not_inflight T h1 (.inr hk)
    · rcases hm.2 c hc with hF | hP
      · exact ih c hF h2
      · exact ta_not_inflight T h2 hP
  | _, _, _, _, _, .failed F P F' t _ _ _ hl, hs => by
    have hs' : Sound T F (fun k => P k ∨ k = t) := fun k hk hta =>
      hs k hk (ta_mono T (fun x hx => .inl hx) k hta)
    have ih := genList_sound hl hs'
    intro k hk hta
    rcases ta_split_reach T P t k hta with h1 | h2
    · exact ih k hk.1 h1
    · exact hk.2 h2

theorem genList_sound : ∀ {F P : Nat → Prop} {cs : List Nat} {F' : Nat → Prop} {ok : Bool}, GenList T F P cs F' ok →
    Sound T F P → Sound T F' P
  | _, _, _, _, _, .nil F P, hs => hs
  | _, _, _, _, _, .cons_ok F P F1 F2 c cs ok hg hl, hs => genList_sound hl (gen_sound hg hs)
  | _, _, _, _, _, .cons_fail F P F1 c cs hg, hs => gen_sound hg hs
end


def noneInFlight : Nat → Prop := fun _ => False

theorem ta_none_iff (k : Nat) : TaintedAvoiding T noneInFlight k ↔ Tainted T k := by
  constructor
  · intro h
    induction h with
    | bad k _ hb => exact .bad k hb
    | child k c _ hc _ ih => exact .child k c hc ih
  · intro h
    induction h with
    | bad k hb => exact .bad k (fun h => h) hb
    | child k c hc _ ih => exact .child k c (fun h => h) hc ih

mutual
/-- a request fails only because an unsupported kind is reachable -/
theorem gen_fail_tainted : ∀ {F P : Nat → Prop} {t : Nat} {F' : Nat → Prop} {ok : Bool}, Gen T F P t F' ok → ok = false →
    Tainted T t
  | _, _, _, _, _, .hit F P t _, h => by cases h
  | _, _, _, _, _, .stored F P F' t _ _ _ _, h => by cases h
  | _, _, _, _, _, .unsupported F P t _ _ hb, _ => .bad t hb
  | _, _, _, _, _, .failed F P F' t _ _ _ hl, _ =>
    have ⟨c, hc, htc⟩ := genList_fail_tainted hl rfl
    .child t c hc htc

theorem genList_fail_tainted : ∀ {F P : Nat → Prop} {cs : List Nat} {F' : Nat → Prop} {ok : Bool}, GenList T F P cs F' ok → ok = false →
    ∃ c, c ∈ cs ∧ Tainted T c
  | _, _, _, _, _, .nil F P, h => by cases h
  | _, _, _, _, _, .cons_ok F P F1 F2 c cs ok _ hl, hok =>
    have ⟨c', hc', ht⟩ := genList_fail_tainted hl hok
    ⟨c', List.mem_cons_of_mem c hc', ht⟩
  | _, _, _, _, _, .cons_fail F P F1 c cs hg, _ => ⟨c, List.mem_cons_self, gen_fail_tainted hg rfl⟩
end

/-- THE statement for one request between documents (nothing in flight): on a sound cache - whatever
    successes and failures produced it - the request succeeds exactly when a fresh session would
    generate the type, and the cache it leaves is sound again -/
theorem request_like_fresh (F F' : Nat → Prop) (t : Nat) (ok : Bool)
    (hs : Sound T F noneInFlight) (hg : Gen T F noneInFlight t F' ok) :
    (ok = true ↔ ¬ Tainted T t) ∧ Sound T F' noneInFlight := by
  have hs' := gen_sound T hg hs
  refine ⟨⟨fun hok htaint => ?_, fun hnt => ?_⟩, hs'⟩
  · have hm := gen_ok_mono T hg hok
    rcases hm.2 with h | h
    · exact hs' t h ((ta_none_iff T t).mpr htaint)
    · exact h
  · cases ok with
    | true => rfl
    | false => exact absurd (gen_fail_tainted T hg rfl) hnt

/-- any history of requests on one session -/
inductive History : (Nat → Prop) → List Nat → (Nat → Prop) → List Bool → Prop
  | nil (F : Nat → Prop) : History F [] F []
  | cons (F F1 F2 : Nat → Prop) (t : Nat) (ts : List Nat) (ok : Bool) (oks : List Bool) :
      Gen T F noneInFlight t F1 ok → History F1 ts F2 oks → History F (t :: ts) F2 (ok :: oks)

/-- request by request: the outcome is the fresh one -/
inductive Answers : List Nat → List Bool → Prop
  | nil : Answers [] []
  | cons (t : Nat) (ok : Bool) (ts : List Nat) (oks : List Bool) :
      (ok = true ↔ ¬ Tainted T t) → Answers ts oks → Answers (t :: ts) (ok :: oks)

/-- a reused session answers every request of every history as a fresh session would, and is left
    sound: starting from the empty cache of a new session or from any sound cache -/
theorem history_like_fresh : ∀ {F : Nat → Prop} {ts : List Nat} {F' : Nat → Prop} {oks : List Bool},
    History T F ts F' oks → Sound T F noneInFlight →
    Sound T F' noneInFlight ∧ Answers T ts oks
  | _, _, _, _, .nil F, hs => ⟨hs, .nil⟩
  | _, _, _, _, .cons F F1 F2 t ts ok oks hg hh, hs =>
    have h1 := request_like_fresh T F F1 t ok hs hg
    have h2 := history_like_fresh hh h1.2
    ⟨h2.1, .cons t ok ts oks h1.1 h2.2⟩

theorem empty_cache_sound : Sound T (fun _ => False) noneInFlight := fun _ h => h.elim

end CE.Cache.Multi
