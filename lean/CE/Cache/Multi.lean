/-
  M-CACHE, many entries (one goroutine): the type caches of iterator.Session / builder.Session as
  sets of cached types, with the dependency structure of Go types.

  Generating the iterator / builder for a type generates those of its component types first
  (`children`); a type in flight is represented by its placeholder, which nested requests simply
  take (that is how recursive types terminate); an unsupported kind (`bad`) panics.  Since fix
  7c58b8f the failure branch of every frame the panic passes through deletes the frame's own
  placeholder AND every cached entry whose type can reach the frame's type (common.TypeReaches):
  pointer-to-T, slice-of-T, structs holding them, ... that were completed while T was in flight.

  The cache is a predicate on type ids (what is cached as a finished generator); placeholders exist
  only while their frame is in flight (`P`).  The relation `Gen F P t F' ok` says: requesting type
  `t` with cache `F` and in-flight types `P` ends with cache `F'` and outcome `ok`.
-/
namespace CE.Cache.Multi

structure Types where
  children : Nat → List Nat     -- component types whose generators are requested while generating
  bad : Nat → Prop              -- unsupported kinds: generating panics

variable (T : Types)

/-- `k` can contain a value of type `t` (common.TypeReaches): reflexive-transitive closure of `children` -/
inductive Reach : Nat → Nat → Prop
  | refl (k : Nat) : Reach k k
  | step (k c t : Nat) : c ∈ T.children k → Reach c t → Reach k t

/-- generating `k` from scratch would fail: an unsupported kind is reachable -/
inductive Tainted : Nat → Prop
  | bad (k : Nat) : T.bad k → Tainted k
  | child (k c : Nat) : c ∈ T.children k → Tainted c → Tainted k

/-- … along a path that avoids the types in flight -/
inductive TaintedAvoiding (P : Nat → Prop) : Nat → Prop
  | bad (k : Nat) : ¬ P k → T.bad k → TaintedAvoiding P k
  | child (k c : Nat) : ¬ P k → c ∈ T.children k → TaintedAvoiding P c → TaintedAvoiding P k

mutual
/-- one request `GetForType(t)` -/
inductive Gen : (Nat → Prop) → (Nat → Prop) → Nat → (Nat → Prop) → Bool → Prop
  /-- Load succeeds: a finished generator, or the placeholder of a type in flight -/
  | hit (F P : Nat → Prop) (t : Nat) : F t ∨ P t → Gen F P t F true
  /-- an unsupported kind: the frame's failure branch deletes what reaches `t` -/
  | unsupported (F P : Nat → Prop) (t : Nat) : ¬ F t → ¬ P t → T.bad t →
      Gen F P t (fun k => F k ∧ ¬ Reach T k t) false
  /-- all component types generated: Store -/
  | stored (F P F' : Nat → Prop) (t : Nat) : ¬ F t → ¬ P t → ¬ T.bad t →
      GenList F (fun k => P k ∨ k = t) (T.children t) F' true →
      Gen F P t (fun k => F' k ∨ k = t) true
  /-- a component type failed: the panic passes through this frame's failure branch -/
  | failed (F P F' : Nat → Prop) (t : Nat) : ¬ F t → ¬ P t → ¬ T.bad t →
      GenList F (fun k => P k ∨ k = t) (T.children t) F' false →
      Gen F P t (fun k => F' k ∧ ¬ Reach T k t) false

/-- the component types in order; a failure ends the sequence -/
inductive GenList : (Nat → Prop) → (Nat → Prop) → List Nat → (Nat → Prop) → Bool → Prop
  | nil (F P : Nat → Prop) : GenList F P [] F true
  | cons_ok (F P F1 F2 : Nat → Prop) (c : Nat) (cs : List Nat) (ok : Bool) :
      Gen F P c F1 true → GenList F1 P cs F2 ok → GenList F P (c :: cs) F2 ok
  | cons_fail (F P F1 : Nat → Prop) (c : Nat) (cs : List Nat) :
      Gen F P c F1 false → GenList F P (c :: cs) F1 false
end

/-- the invariant: no finished generator stands on an unsupported kind, except through a type that is
    still in flight (whose failure branch would delete it) -/
def Sound (F P : Nat → Prop) : Prop := ∀ k, F k → ¬ TaintedAvoiding T P k

end CE.Cache.Multi
