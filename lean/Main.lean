import CE.Driver

partial def loop (h : IO.FS.Stream) (out : IO.FS.Stream) : IO Unit := do
  let line ← h.getLine
  if line.isEmpty then return ()
  let l := if line.endsWith "\n" then (line.dropEnd 1).toString else line
  out.putStrLn (CE.Driver.handle l)
  loop h out

def main : IO Unit := do
  let stdin ← IO.getStdin
  let stdout ← IO.getStdout
  loop stdin stdout
