package main

// C08: decoding cost is bounded by document size and configured limits.
//
// (1) correspondence: Reader.ReadBytes(count) on a fresh reader, for declared counts up to 2^40
//     over documents of 0..3000 bytes delivered 1..N bytes per Read: whether it succeeds and the
//     capacity of the buffer afterwards must be what the Lean model of readIntoBuffer /
//     growBufferToward computes (COST.READ).
// (2) oracle: adversarial document families (oversized length fields in every header, long
//     runs of nested containers, many tiny tokens, long literals, numbers with absurd exponents)
//     at a size n and at 4n, under several MaxArraySizeBytes settings: the bytes allocated
//     during one decode (runtime.MemStats.TotalAlloc) must stay below K*len + 2*min(len,
//     MaxArraySizeBytes) + C, and must not grow more than ~linearly from n to 4n.
//     Time is recorded; only a gross bound is enforced.

import (
	"path/filepath"
	"bytes"
	"fmt"
	"io"
	"os"
	"runtime"
	"runtime/debug"
	"strings"
	"syscall"
	"time"

	"github.com/kstenerud/go-concise-encoding/cbe"
	"github.com/kstenerud/go-concise-encoding/ce"
	"github.com/kstenerud/go-concise-encoding/configuration"
	"github.com/kstenerud/go-concise-encoding/nullevent"
)

func init() {
	runners["C08"] = runC08
}

// bytes allocated per document byte the pipeline may use (the ANTLR token stream and parse tree
// cost a few hundred bytes per token, a token can be a single character)
const c08K = 4096
const c08C = 4 << 20
// watchdog of one decode: generous in the thorough tier, whose documents are megabytes long and whose
// shards share the machine (a 2 MB string of escapes took 23 s of CPU under load in a sweep)
var c08TimeLimit = 60 * time.Second

type chunkReader struct {
	data  []byte
	sched []int
	i     int
}

func (c *chunkReader) Read(p []byte) (int, error) {
	if len(c.data) == 0 {
		return 0, io.EOF
	}
	d := 1
	if c.i < len(c.sched) {
		d = c.sched[c.i]
		if d < 1 {
			d = 1
		}
	}
	c.i++
	n := d
	if n > len(p) {
		n = len(p)
	}
	if n > len(c.data) {
		n = len(c.data)
	}
	copy(p, c.data[:n])
	c.data = c.data[n:]
	return n, nil
}

func uleb(v uint64) []byte {
	var out []byte
	for {
		b := byte(v & 0x7f)
		v >>= 7
		if v != 0 {
			out = append(out, b|0x80)
		} else {
			return append(out, b)
		}
	}
}

type c08Family struct {
	name string
	// doc of scale n; huge = the inflated length to announce (CBE)
	make func(n int, huge uint64) []byte
	cte  bool
}

func cbeDoc(parts ...[]byte) []byte {
	d := []byte{0x81, 0}
	for _, p := range parts {
		d = append(d, p...)
	}
	return d
}

var c08ArrayHeaders = [][]byte{{0x90}, {0x91}, {0x93}, {0x94}, {0x7f, 0xe0}, {0x7f, 0xe1}, {0x7f, 0xe2}, {0x7f, 0xe3}, {0x7f, 0xe4}, {0x7f, 0xe5},
	{0x7f, 0xe6}, {0x7f, 0xe7}, {0x7f, 0xe8}, {0x7f, 0xe9}, {0x7f, 0xea}, {0x7f, 0xf2}, {0x92, 0x01}}

func c08Families() []c08Family {
	var fs []c08Family
	for _, h := range c08ArrayHeaders {
		h := h
		fs = append(fs, c08Family{name: fmt.Sprintf("cbe-array-%x-inflated", h), make: func(n int, huge uint64) []byte {
			// announces `huge` elements, holds n bytes
			return cbeDoc(h, uleb(huge<<1), bytes.Repeat([]byte{'a'}, n))
		}})
		fs = append(fs, c08Family{name: fmt.Sprintf("cbe-array-%x-inflated-continuation", h), make: func(n int, huge uint64) []byte {
			// n honest one-element chunks, then a chunk announcing `huge`
			var d []byte
			el := []byte{'a', 'a', 'a', 'a', 'a', 'a', 'a', 'a', 'a', 'a', 'a', 'a', 'a', 'a', 'a', 'a'}
			w := 1
			switch h[len(h)-1] {
			case 0xe2, 0xe3, 0xe8:
				w = 2
			case 0xe4, 0xe5, 0xe9:
				w = 4
			case 0xe6, 0xe7, 0xea:
				w = 8
			case 0xe0:
				w = 16
			}
			if h[0] == 0x94 {
				for i := 0; i < n; i++ {
					d = append(d, 0x11, 0xaa) // 8 bits, more follow
				}
			} else {
				for i := 0; i < n; i++ {
					d = append(d, 0x03)
					d = append(d, el[:w]...)
				}
			}
			return cbeDoc(h, d, uleb(huge<<1|1), []byte{'a', 'a'})
		}})
	}
	fs = append(fs,
		c08Family{name: "cbe-media-type-length-inflated", make: func(n int, huge uint64) []byte {
			return cbeDoc([]byte{0x7f, 0xf3}, uleb(huge&0xffffffff), bytes.Repeat([]byte{'a'}, n))
		}},
		c08Family{name: "cbe-media-data-inflated", make: func(n int, huge uint64) []byte {
			return cbeDoc([]byte{0x7f, 0xf3, 3, 'a', '/', 'b'}, uleb(huge<<1), bytes.Repeat([]byte{'a'}, n))
		}},
		c08Family{name: "cbe-identifier-length-inflated", make: func(n int, huge uint64) []byte {
			h := [][]byte{{0x7f, 0xf0}, {0x7f, 0xf1}, {0x77}, {0x96}}[n%4]
			return cbeDoc(h, uleb(100000), bytes.Repeat([]byte{'a'}, n))
		}},
		c08Family{name: "cbe-bigint-length-inflated", make: func(n int, huge uint64) []byte {
			return cbeDoc([]byte{0x66 + byte(n%2)}, uleb(1024), bytes.Repeat([]byte{0xff}, n%1000))
		}},
		c08Family{name: "cbe-nested-lists", make: func(n int, huge uint64) []byte { return cbeDoc(bytes.Repeat([]byte{0x9a}, n)) }},
		c08Family{name: "cbe-nested-nodes", make: func(n int, huge uint64) []byte { return cbeDoc(bytes.Repeat([]byte{0x98, 0x01}, n)) }},
		c08Family{name: "cbe-nested-maps", make: func(n int, huge uint64) []byte { return cbeDoc(bytes.Repeat([]byte{0x99, 0x01}, n)) }},
		c08Family{name: "cbe-nested-edges", make: func(n int, huge uint64) []byte { return cbeDoc(bytes.Repeat([]byte{0x97}, n)) }},
		c08Family{name: "cbe-many-small-ints", make: func(n int, huge uint64) []byte {
			return cbeDoc([]byte{0x9a}, bytes.Repeat([]byte{0x01}, n), []byte{0x9b})
		}},
		c08Family{name: "cbe-many-short-strings", make: func(n int, huge uint64) []byte {
			return cbeDoc([]byte{0x9a}, bytes.Repeat([]byte{0x81, 'a'}, n), []byte{0x9b})
		}},
		c08Family{name: "cbe-many-padding", make: func(n int, huge uint64) []byte {
			return cbeDoc(bytes.Repeat([]byte{0x95}, n), []byte{0x01})
		}},
		c08Family{name: "cbe-many-markers", make: func(n int, huge uint64) []byte {
			var d []byte
			for i := 0; i < n; i++ {
				id := fmt.Sprintf("m%d", i)
				d = append(d, 0x7f, 0xf0, byte(len(id)))
				d = append(d, id...)
				d = append(d, 0x01)
			}
			return cbeDoc([]byte{0x9a}, d, []byte{0x9b})
		}},
		c08Family{name: "cbe-long-string", make: func(n int, huge uint64) []byte {
			return cbeDoc([]byte{0x90}, uleb(uint64(n)<<1), bytes.Repeat([]byte{'a'}, n))
		}},
		c08Family{name: "cbe-long-string-many-chunks", make: func(n int, huge uint64) []byte {
			return cbeDoc([]byte{0x90}, bytes.Repeat([]byte{0x03, 'a'}, n), []byte{0x02, 'a'})
		}},
		c08Family{name: "cbe-large-string-then-many-short", make: func(n int, huge uint64) []byte {
			return cbeDoc([]byte{0x9a, 0x90}, uleb(uint64(n)<<1), bytes.Repeat([]byte{'a'}, n), bytes.Repeat([]byte{0x81, 'b'}, n/2), []byte{0x9b})
		}},
		c08Family{name: "cbe-long-u8-array", make: func(n int, huge uint64) []byte {
			return cbeDoc([]byte{0x93}, uleb(uint64(n)<<1), bytes.Repeat([]byte{7}, n))
		}},
		c08Family{name: "cbe-decimal-huge-exponent", make: func(n int, huge uint64) []byte {
			// 0x76, exponent field (uleb, up to 2^33), coefficient
			return cbeDoc([]byte{0x9a}, bytes.Repeat(append(append([]byte{0x76}, uleb(0x1fffffff0|uint64(n%4))...), 0x05), 1+n%50), []byte{0x9b})
		}},
	)
	text := func(name string, f func(n int) string) {
		fs = append(fs, c08Family{name: name, cte: true, make: func(n int, huge uint64) []byte { return []byte("c0\n" + f(n)) }})
	}
	for _, o := range []string{"[", "(", "@(", "{1=", "&a:[", "{\"a\"=[", "@x{"} {
		o := o
		text("cte-nested-"+o, func(n int) string { return strings.Repeat(o, n) })
	}
	// nesting with a complete value of another kind between consecutive openers
	for _, o := range []string{"[@u8x[ff] ", "[@u8[] ", "{1=@b[1] 2=", "[\"a\" ", "[/* c */ ", "[@application/x[ff] ", "[@1[ff] ", "[@f32[1.5] ", "(@u16x[ffff] ", "[&m:@i8[1] ", "@a{@u8x[] ", "[@uid[00000000-0000-0000-0000-000000000001] "} {
		o := o
		text("cte-nested-mixed-"+o, func(n int) string { return strings.Repeat(o, n) })
	}
	// valid nesting (within the depth limit when n <= 1000; the scale is capped below)
	for _, oc := range [][2]string{{"@a{", "}"}, {"[", "]"}, {"{1=", "}"}, {"(1 ", ")"}, {"[@a{", "}]"}} {
		oc := oc
		text("cte-valid-nested-"+oc[0], func(n int) string {
			if n > 240 {
				n = 240 // 4n stays below MaxContainerDepth
			}
			return "@a<\"x\"> " + strings.Repeat(oc[0], n) + "1" + strings.Repeat(oc[1], n)
		})
	}
	// one large array-like value, then many small ones: whatever one value needed must not be paid again
	// for each of the following (seeded change C08B3: every array started in a new buffer of the old capacity)
	text("cte-large-string-then-many-empty", func(n int) string {
		return "[\"" + strings.Repeat("a", n) + "\" " + strings.Repeat("\"\" ", n/4) + "]"
	})
	text("cte-large-u8x-then-many-small", func(n int) string {
		return "[@u8x[" + strings.Repeat("ff ", n/3) + "] " + strings.Repeat("@u8x[01] ", n/10) + "]"
	})
	text("cte-large-comment-then-many-strings", func(n int) string {
		return "[/* " + strings.Repeat("c", n) + " */ " + strings.Repeat("\"b\" ", n/5) + "]"
	})
	text("cte-nested-closed", func(n int) string { return strings.Repeat("[", n) + strings.Repeat("]", n) })
	text("cte-many-ints", func(n int) string { return "[" + strings.Repeat("1 ", n) + "]" })
	text("cte-many-strings", func(n int) string { return "[" + strings.Repeat("\"a\" ", n) + "]" })
	text("cte-many-pairs", func(n int) string {
		var b strings.Builder
		b.WriteString("{")
		for i := 0; i < n; i++ {
			fmt.Fprintf(&b, "%d=1 ", i)
		}
		b.WriteString("}")
		return b.String()
	})
	text("cte-many-markers", func(n int) string {
		var b strings.Builder
		b.WriteString("[")
		for i := 0; i < n; i++ {
			fmt.Fprintf(&b, "&m%d:1 ", i)
		}
		b.WriteString("]")
		return b.String()
	})
	text("cte-long-string", func(n int) string { return "\"" + strings.Repeat("a", n) + "\"" })
	text("cte-long-string-escapes", func(n int) string { return "\"" + strings.Repeat("\\n", n) + "\"" })
	text("cte-long-string-unterminated", func(n int) string { return "\"" + strings.Repeat("a", n) })
	text("cte-long-comment", func(n int) string { return "/*" + strings.Repeat("a", n) + "*/ 1" })
	text("cte-nested-comments", func(n int) string { return strings.Repeat("/*", n) + strings.Repeat("*/", n) + " 1" })
	text("cte-unclosed-comments", func(n int) string { return strings.Repeat("/*", n) })
	text("cte-many-line-comments", func(n int) string { return strings.Repeat("// a\n", n) + "1" })
	text("cte-whitespace", func(n int) string { return strings.Repeat(" ", n) + "1" })
	text("cte-newlines", func(n int) string { return strings.Repeat("\n", n) + "1" })
	text("cte-long-u8x-array", func(n int) string { return "@u8x[" + strings.Repeat("ff ", n) + "]" })
	text("cte-long-f64-array", func(n int) string { return "@f64[" + strings.Repeat("1.5 ", n) + "]" })
	text("cte-long-bit-array", func(n int) string { return "@b[" + strings.Repeat("1", n) + "]" })
	text("cte-long-integer", func(n int) string { return "1" + strings.Repeat("0", n) })
	text("cte-long-hex-integer", func(n int) string { return "0x1" + strings.Repeat("f", n) })
	text("cte-long-fraction", func(n int) string { return "0." + strings.Repeat("3", n) })
	text("cte-long-hex-float", func(n int) string { return "0x1." + strings.Repeat("8", n) + "p10" })
	text("cte-huge-exponent", func(n int) string {
		return []string{"1e999999999", "1e-999999999", "0x1p999999999", "0x1p-999999999", "1.5e2147483647", "9e99999", "1e" + strings.Repeat("9", 4+n%40), "0x1p" + strings.Repeat("9", 4+n%40)}[n%8]
	})
	text("cte-many-huge-exponents", func(n int) string { return "[" + strings.Repeat("1e99999 ", n) + "]" })
	text("cte-long-identifier", func(n int) string { return "&" + strings.Repeat("a", n) + ":1" })
	text("cte-long-verbatim", func(n int) string { return "\"\\.ZZ " + strings.Repeat("a", n) + "ZZ\"" })
	text("cte-long-media", func(n int) string { return "@application/x[" + strings.Repeat("ff ", n) + "]" })
	text("cte-garbage", func(n int) string { return strings.Repeat("\x01", n) })
	text("cte-invalid-utf8", func(n int) string { return strings.Repeat("\x9a", n) })
	text("cte-garbage-lines", func(n int) string { return strings.Repeat("\x01\n", n) })
	text("cte-error-lines", func(n int) string { return strings.Repeat("]\n", n) })
	text("cte-many-errors", func(n int) string { return strings.Repeat("] ", n) })
	return fs
}

type c08Mode struct {
	name string
	run  func(doc []byte, cfg *configuration.Configuration) error
}

var c08Modes = []c08Mode{
	{"decode+rules", func(doc []byte, cfg *configuration.Configuration) error {
		return ce.NewCEDecoder(cfg).DecodeDocument(doc, ce.NewRules(nullevent.NewNullEventReceiver(), cfg))
	}},
	{"decode-stream+rules", func(doc []byte, cfg *configuration.Configuration) error {
		return ce.NewCEDecoder(cfg).Decode(bytes.NewReader(doc), ce.NewRules(nullevent.NewNullEventReceiver(), cfg))
	}},
	{"unmarshal-untyped", func(doc []byte, cfg *configuration.Configuration) error {
		_, err := ce.UnmarshalFromCEDocument(doc, nil, cfg)
		return err
	}},
	{"unmarshal-float64", func(doc []byte, cfg *configuration.Configuration) error {
		_, err := ce.UnmarshalFromCEDocument(doc, float64(0), cfg)
		return err
	}},
	{"unmarshal-[]int", func(doc []byte, cfg *configuration.Configuration) error {
		_, err := ce.UnmarshalFromCEDocument(doc, []int{}, cfg)
		return err
	}},
}

// The shards of one run share the machine.  A decode of a megabyte-sized document is bound by memory
// bandwidth, so sixteen of them at once take several times longer per byte than one alone - which the
// time oracle would read as super-linear growth (all CTE families were reported at the two largest
// scales of the thorough tier, and measured linear in isolation).  Ordinary measurements therefore
// hold a shared lock on a file next to the case files, and a confirmation takes it exclusively: nothing
// else of this run is being measured while a report is being confirmed.
var c08Lock *os.File

func c08LockInit(r *Run) {
	if r.out != nil && r.out.f != nil {
		c08Lock, _ = os.OpenFile(filepath.Join(filepath.Dir(r.out.f.Name()), "c08-time.lock"), os.O_CREATE|os.O_RDWR, 0644)
	}
}

func c08WithLock(exclusive bool, fn func()) {
	if c08Lock == nil {
		fn()
		return
	}
	how := syscall.LOCK_SH
	if exclusive {
		how = syscall.LOCK_EX
	}
	syscall.Flock(int(c08Lock.Fd()), how)
	defer syscall.Flock(int(c08Lock.Fd()), syscall.LOCK_UN)
	fn()
}

// cpuTime: user CPU time of this process so far (wall-clock time would also measure how busy
// the machine is with other work)
func cpuTime() time.Duration {
	var ru syscall.Rusage
	if err := syscall.Getrusage(syscall.RUSAGE_SELF, &ru); err != nil {
		return 0
	}
	// user time only: system time is page faults and scheduling, which depend on how busy the machine is
	// (a false report of cte-garbage-lines under load came from 300 MB of fresh pages, not from the parser)
	return time.Duration(ru.Utime.Nano())
}

// c08Measure: bytes allocated, CPU time consumed (the harness runs one decode at a time) and outcome
func c08Measure(fn func() error) (alloc uint64, dur time.Duration, outcome string) {
	var m0, m1 runtime.MemStats
	runtime.ReadMemStats(&m0)
	c0 := cpuTime()
	t0 := time.Now()
	res, hung := withWatchdog(c08TimeLimit, func() string {
		if err := fn(); err != nil {
			return "error"
		}
		return "ok"
	})
	dur = cpuTime() - c0
	if dur <= 0 {
		dur = time.Since(t0)
	}
	runtime.ReadMemStats(&m1)
	if hung {
		return m1.TotalAlloc - m0.TotalAlloc, dur, "HANG"
	}
	return m1.TotalAlloc - m0.TotalAlloc, dur, res
}

func runC08(r *Run) {
	c08LockInit(r)
	if r.Tier == "thorough" {
		c08TimeLimit = 240 * time.Second
	}
	fams := c08Families()
	// warm-up: the ANTLR static tables, the type caches
	for _, d := range [][]byte{[]byte("c0\n[1 \"a\" @u8x[ff] 1.5 {1=2}]"), {0x81, 0, 0x9a, 1, 0x9b}} {
		for _, m := range c08Modes {
			m.run(d, configuration.New())
		}
	}
	hugeVals := []uint64{1<<31 - 1, 1 << 32, 1 << 40, 1<<62 - 1, 100000, 1 << 20}
	maxArr := []uint64{1 << 30, 4096, 1 << 20, 64}
	aborted := false
	r.each(func(idx int, rng *Rng) {
		if aborted {
			return // a decode is still running in the background: measurements would be meaningless
		}
		if idx%4 == 3 {
			// (1) model correspondence of the reader's buffer
			docLen := []int{0, 1, 5, 126, 127, 128, 253, 254, 255, 300, 1000, 3000}[rng.Intn(12)]
			if rng.P(1, 2) {
				docLen = rng.Intn(3000)
			}
			big := rng.P(1, 12)
			if big {
				docLen = []int{1<<20 + 5, 3 << 20, 5<<20 + 17, 12 << 20}[rng.Intn(4)]
			}
			var count int
			switch rng.Intn(5) {
			case 0:
				count = docLen
			case 1:
				count = rng.Intn(docLen + 2)
			case 2:
				count = docLen + 1 + rng.Intn(1000)
			case 3:
				count = []int{1 << 31, 1<<32 + 5, 1 << 40, 1<<31 - 1}[rng.Intn(4)]
			default:
				count = []int{0, 1, 126, 127, 128, 254, 255, 508, 509}[rng.Intn(9)]
			}
			var sched []int
			ns := rng.Intn(40)
			for i := 0; i < ns; i++ {
				sched = append(sched, 1+rng.Intn([]int{1, 3, 64, 200, 5000}[rng.Intn(5)]))
			}
			if big {
				// megabytes: delivered in large pieces (the model iterates once per Read)
				sched = nil
				for i := 0; i < 400; i++ {
					sched = append(sched, 1+rng.Intn([]int{4096, 65536, 1 << 20, 1 << 22}[rng.Intn(4)]))
				}
				if count < docLen && count < 1<<30 {
					count = docLen
				}
			}
			var m0, m1 runtime.MemStats
			r.noteCurrent(idx, fmt.Sprintf("Reader.ReadBytes(%d) over a %d-byte document delivered %v bytes per Read", count, docLen, sched), nil)
			source := &chunkReader{data: make([]byte, docLen), sched: sched}
			runtime.ReadMemStats(&m0)
			data, bufCap, err := cbe.VerifReadBytes(source, count)
			runtime.ReadMemStats(&m1)
			r.clearCurrent()
			if alloc := m1.TotalAlloc - m0.TotalAlloc; alloc > 4*uint64(docLen)+uint64(len(data))+1<<16 {
				r.out.Finding("C08", "reader:alloc-exceeds-arrived", fmt.Sprintf("ReadBytes(%d) over a %d-byte document allocated %d bytes (more than 4 x arrived + the copy + 64 KiB)", count, docLen, alloc), fmt.Sprintf("count=%d docLen=%d", count, docLen))
			}
			ss := make([]string, len(sched))
			for i, v := range sched {
				ss[i] = fmt.Sprint(v)
			}
			sarg := strings.Join(ss, ",")
			if sarg == "" {
				sarg = "-"
			}
			out := "OK"
			if err != nil {
				out = "EOF"
			} else if len(data) != count {
				r.out.Finding("C08", "reader:short", fmt.Sprintf("ReadBytes(%d) returned %d bytes without an error", count, len(data)), sarg)
			}
			r.out.Case(fmt.Sprintf("read %d of %d sched %s", count, docLen, sarg), count > 0 && docLen > 0)
			r.out.Count("reader:" + out)
			r.out.Line("corr", fmt.Sprint(idx), "COST.READ", []string{fmt.Sprint(count), fmt.Sprint(docLen), sarg}, fmt.Sprintf("%s %d", out, bufCap))
			// the property itself, on the implementation: the buffer is paid for by what arrived
			if bufCap > 127 && bufCap > 2*docLen {
				r.out.Finding("C08", "reader:buffer-exceeds-arrived", fmt.Sprintf("ReadBytes(%d) over a %d-byte document left a buffer of %d bytes", count, docLen, bufCap), sarg)
			}
			return
		}
		f := fams[(idx/4*3+idx%4)%len(fams)]
		scales := []int{64, 1000, 4000, 20000}
		if r.Tier == "thorough" {
			scales = append(scales, 100000, 250000)
		}
		n := scales[rng.Intn(len(scales))]
		switch f.name {
		case "cte-garbage", "cte-invalid-utf8", "cte-many-errors", "cte-garbage-lines", "cte-error-lines":
			if rng.P(1, 2) {
				n = 100000 // one syntax error per character: the cost of an error must not depend on the document
			}
		case "cte-many-ints", "cte-many-strings", "cte-many-pairs", "cte-many-markers", "cte-many-huge-exponents", "cte-many-line-comments":
			if n > 100000 {
				n = 100000 // the ANTLR parse is linear but slow (microseconds per token): stay below the watchdog
			}
		case "cbe-long-string-many-chunks":
			// one event pair per chunk: a per-chunk cost that grows with what came before is only measurable
			// (above the 250 ms floor of the time oracle) with many chunks - seeded change C08A3 re-validated
			// the whole string at every chunk
			n *= 8
		case "cbe-long-string", "cbe-long-u8-array":
			if rng.P(1, 3) {
				n = 3 << 20 // an honest array of megabytes: the buffer must still grow geometrically
			}
		case "cte-nested-comments", "cte-unclosed-comments":
			if n > 4000 {
				n = 4000 // lexing nested comments is quadratic (known finding): keep it below the watchdog
			}
		case "cte-long-integer", "cte-long-hex-integer", "cte-long-fraction", "cte-long-hex-float":
			if n > 100000 {
				n = 100000 // math/big scanning is quadratic in allocation (known finding)
			}
		}
		huge := hugeVals[rng.Intn(len(hugeVals))]
		cfg := configuration.New()
		cfg.Rules.MaxArraySizeBytes = maxArr[rng.Intn(len(maxArr))]
		mode := c08Modes[rng.Intn(len(c08Modes))]
		d1, d4 := f.make(n, huge), f.make(4*n, huge)
		r.out.Case(fmt.Sprintf("%s n=%d huge=%d maxarr=%d mode=%s", f.name, n, huge, cfg.Rules.MaxArraySizeBytes, mode.name), true)
		r.out.Count("family:" + f.name)
		r.out.Count("mode:" + mode.name)
		r.out.Count(fmt.Sprintf("maxarray:%d", cfg.Rules.MaxArraySizeBytes))
		budget := func(doc []byte) uint64 {
			arr := uint64(len(doc))
			if cfg.Rules.MaxArraySizeBytes < arr {
				arr = cfg.Rules.MaxArraySizeBytes
			}
			return c08K*uint64(len(doc)) + 2*arr + c08C
		}
		r.noteCurrent(idx, fmt.Sprintf("%s %s n=%d huge=%d maxarr=%d", mode.name, f.name, n, huge, cfg.Rules.MaxArraySizeBytes), d1)
		var a1, a4 uint64
		var t1, t4 time.Duration
		var o1, o4 string
		c08WithLock(false, func() { a1, t1, o1 = c08Measure(func() error { return mode.run(d1, cfg) }) })
		r.noteCurrent(idx, fmt.Sprintf("%s %s n=%d huge=%d maxarr=%d", mode.name, f.name, 4*n, huge, cfg.Rules.MaxArraySizeBytes), d4)
		c08WithLock(false, func() { a4, t4, o4 = c08Measure(func() error { return mode.run(d4, cfg) }) })
		r.clearCurrent()
		r.out.Count("outcome:" + o1)
		desc := fmt.Sprintf("%s (%s, MaxArraySizeBytes %d, announced length %d): %d-byte document: %d bytes allocated in %v (%s); %d-byte document: %d bytes in %v (%s)",
			f.name, mode.name, cfg.Rules.MaxArraySizeBytes, huge, len(d1), a1, t1.Round(time.Millisecond), o1, len(d4), a4, t4.Round(time.Millisecond), o4)
		if idx%97 == 0 {
			r.out.Sample(desc)
		}
		if dbg := os.Getenv("C08_DEBUG_FAMILY"); dbg != "" && dbg == f.name {
			fmt.Printf("case %d: %s\n", idx, desc)
		}
		replay := fmt.Sprintf("case %d family %s n=%d huge=%d: %s", idx, f.name, n, huge, trunc(hx(d1), 300))
		if o1 == "HANG" || o4 == "HANG" {
			r.out.Finding("C08", "cost:"+f.name, "decode does not finish within "+c08TimeLimit.String()+": "+desc, replay)
			aborted = true
			return
		}
		// time: only gross super-linear growth, confirmed by a second measurement of both sizes
		// (decodes that allocate hundreds of megabytes are left to the allocation oracle: they are bound by
		// memory bandwidth and by what the other shards of the run are doing, and measured 15-25x for 4x on
		// every CTE family at 1.6-4 MB documents / 700-850 MB allocated in the thorough tier, while the same
		// decodes are linear in a process of their own)
		steep := func(a, b time.Duration) bool {
			return a4 <= 320<<20 && a >= 250*time.Millisecond && b > 12*a
		}
		if steep(t1, t4) {
			// confirm without the collector: its work grows with everything the process still holds from
			// earlier cases (ANTLR's caches), not with this document (GOMEMLIMIT still bounds the heap)
			var u1, u4 time.Duration
			var p1, p4 string
			c08WithLock(true, func() {
				runtime.GC()
				oldGC := debug.SetGCPercent(-1)
				_, u1, p1 = c08Measure(func() error { return mode.run(d1, cfg) })
				runtime.GC()
				_, u4, p4 = c08Measure(func() error { return mode.run(d4, cfg) })
				debug.SetGCPercent(oldGC)
			})
			if p1 == "HANG" || p4 == "HANG" {
				aborted = true // the decode is still running: nothing measured after this would be meaningful
			}
			if steep(u1, u4) {
				r.out.Finding("C08", "cost:"+f.name, fmt.Sprintf("decoding CPU time grows much faster than linearly (4 times the document: %v -> %v, again with the collector off %v -> %v): %s",
					t1.Round(time.Millisecond), t4.Round(time.Millisecond), u1.Round(time.Millisecond), u4.Round(time.Millisecond), desc), replay)
			}
		}
		if a1 > budget(d1) || a4 > budget(d4) || a4 > 6*a1+c08C {
			// measure once more before reporting: an allocation the code really makes is made again
			b1, _, q1 := c08Measure(func() error { return mode.run(d1, cfg) })
			b4, _, q4 := c08Measure(func() error { return mode.run(d4, cfg) })
			if q1 == "HANG" || q4 == "HANG" {
				aborted = true
			}
			if b1 < a1 {
				a1 = b1
			}
			if b4 < a4 {
				a4 = b4
			}
			desc += fmt.Sprintf("; measured again: %d and %d bytes", b1, b4)
		}
		if a1 > budget(d1) || a4 > budget(d4) {
			r.out.Finding("C08", "cost:"+f.name, fmt.Sprintf("allocation exceeds %d*len + 2*min(len, MaxArraySizeBytes) + %d: %s", c08K, c08C, desc), replay)
		}
		if a4 > 6*a1+c08C {
			r.out.Finding("C08", "cost:"+f.name, "allocation grows faster than linearly when the document is 4 times longer: "+desc, replay)
		}
		// bytes per document byte and time ratio for the evidence
		if len(d4) > 0 {
			bpb := int(a4 / uint64(len(d4)))
			if bpb > r.out.Stats["max-alloc-bytes-per-doc-byte"] {
				r.out.Stats["max-alloc-bytes-per-doc-byte"] = bpb
			}
			if bpb > r.out.Stats["bpb:"+f.name] {
				r.out.Stats["bpb:"+f.name] = bpb
			}
		}
		if t1 > 20*time.Millisecond {
			ratio := int(t4 * 10 / t1)
			if ratio > r.out.Stats["max-time-ratio-x10(4n/n)"] {
				r.out.Stats["max-time-ratio-x10(4n/n)"] = ratio
			}
		}
	})
}
