package main

// C07: no input makes a public entry point panic, hang or crash.
//
// Every case: one input (byte string, or a Go value for the marshalers), every public entry
// point that takes it, rules on and off.  A panic that escapes, a call that does not return
// within the watchdog, or the death of the process is the violation.  Before every call the
// case is written (and flushed) to <out>.current so that bin/check can name the input when
// the process dies with a Go runtime fatal error (stack overflow, out of memory).

import (
	"bytes"
	"fmt"
	"math/big"
	"reflect"
	"strings"
	"time"
	"unsafe"

	"github.com/kstenerud/go-concise-encoding/cbe"
	"github.com/kstenerud/go-concise-encoding/ce"
	"github.com/kstenerud/go-concise-encoding/ce/events"
	"github.com/kstenerud/go-concise-encoding/configuration"
	"github.com/kstenerud/go-concise-encoding/cte"
	"github.com/kstenerud/go-concise-encoding/nullevent"
	"github.com/kstenerud/go-concise-encoding/types"
)

func init() {
	runners["C07"] = runC07
}

type c07Cyclic struct {
	Name string
	Self *c07Cyclic
}

type c07Mixed struct {
	A int
	B []string
	C map[string]interface{}
	D *c07Mixed
}

// recursive types without a struct on the cycle, next to a kind no session supports (seeded change C07B3:
// the cleanup after the failure walked such types for ever)
type c07Tree []c07Tree
type c07Dir map[string]c07Dir
type c07TreeBad struct {
	T c07Tree
	D c07Dir
	C chan int
}

func c07Templates(rng *Rng) (interface{}, string) {
	switch rng.Intn(15) {
	case 14:
		return c07TreeBad{}, "recursive-slice-and-map-with-chan"
	case 10:
		return float64(0), "float64"
	case 11:
		return (*big.Int)(nil), "*big.Int"
	case 12:
		return uint8(0), "uint8"
	case 13:
		return []float32{}, "[]float32"
	case 0:
		return nil, "nil"
	case 1:
		return 0, "int"
	case 2:
		return "", "string"
	case 3:
		return []string{}, "[]string"
	case 4:
		return map[string]interface{}{}, "map"
	case 5:
		return c07Mixed{}, "struct"
	case 6:
		return unsupportedA{}, "struct-with-chan"
	case 7:
		return make(chan int), "chan"
	case 8:
		return func() {}, "func"
	default:
		return [3]float32{}, "[3]float32"
	}
}

var c07Punct = []byte("[]{}()<>@&$\"\\/*= \n0x-.:|")

func c07Inputs(rng *Rng, cfg *configuration.Configuration, tier string) ([]byte, string) {
	valid := func(format string) []byte {
		g := NewGen(rng, cteGenCfg())
		evs := g.Doc()
		var d []byte
		if format == "cbe" {
			d, _ = cbeEncode(evs, cfg)
		} else {
			d, _ = cteEncode(evs, cfg)
		}
		return d
	}
	switch rng.Intn(15) {
	case 14:
		// a few bytes that denote an enormous (or tiny) number: refusing it must not cost more than reading it
		// (fix b69f20e: the error message printed 0x1p2000000000 in decimal)
		num := []string{"0x1p2000000000", "-0x1.8p-2000000000", "0x1p999999999", "1e2000000000", "-1.5e-2000000000", "0x1p70000", "1e400"}[rng.Intn(7)]
		if rng.P(1, 2) {
			return []byte("c0\n[" + num + " " + num + "]"), "huge-exponent-list"
		}
		return []byte("c0\n" + num), "huge-exponent"
	case 0:
		return []byte{}, "empty"
	case 1:
		return [][]byte{{0x81}, {0x81, 0}, {0x81, 1}, []byte("c"), []byte("c0"), []byte("c1"), []byte("C0"), []byte("c0 "), {0x81, 0x80}, {0x63}, {0x00}}[rng.Intn(11)], "header-only"
	case 2:
		n := rng.Intn(64)
		b := rng.Bytes(n)
		if n > 0 {
			b[0] = []byte{0x81, 'c', 'C', b[0]}[rng.Intn(4)]
		}
		if n > 1 && rng.P(1, 2) {
			b[1] = []byte{0, 1, '0', '1'}[rng.Intn(4)]
		}
		return b, "random"
	case 3, 4:
		d := cloneBytes(valid("cbe"))
		for k := 0; k < 1+rng.Intn(3) && len(d) > 2; k++ {
			d[2+rng.Intn(len(d)-2)] = byte(rng.Intn(256))
		}
		return d, "cbe-mutated"
	case 5:
		d := valid("cbe")
		if len(d) > 1 {
			d = d[:1+rng.Intn(len(d)-1)]
		}
		return d, "cbe-truncated"
	case 6:
		// a length field inflated: insert ULEB128 maximum after a random byte
		d := cloneBytes(valid("cbe"))
		if len(d) > 2 {
			i := 2 + rng.Intn(len(d)-2)
			infl := [][]byte{{0xff, 0xff, 0xff, 0xff, 0x0f}, {0xff, 0xff, 0xff, 0xff, 0xff, 0xff, 0xff, 0xff, 0xff, 0x01}, {0x80, 0x80, 0x80, 0x80, 0x80, 0x80, 0x80, 0x80, 0x80, 0x80, 0x01}}[rng.Intn(3)]
			d = append(append(append([]byte{}, d[:i]...), infl...), d[i:]...)
		}
		return d, "cbe-length-inflated"
	case 7:
		t := []byte{0x90, 0x91, 0x92, 0x93, 0x94, 0x7f, 0x7f, 0x7f}[rng.Intn(8)]
		d := []byte{0x81, 0, t}
		if t == 0x7f {
			d = append(d, []byte{0xe0, 0xe1, 0xe5, 0xea, 0xf3, 0xf0}[rng.Intn(6)])
		}
		d = append(d, [][]byte{{0xff, 0xff, 0xff, 0xff, 0x0f}, {0xfe, 0xff, 0xff, 0xff, 0xff, 0xff, 0xff, 0xff, 0xff, 0x01}, {0x80, 0x80, 0x01}}[rng.Intn(3)]...)
		return append(d, rng.Bytes(rng.Intn(8))...), "cbe-huge-array-header"
	case 8, 9:
		d := []byte(string(valid("cte")))
		for k := 0; k < 1+rng.Intn(3) && len(d) > 3; k++ {
			d[2+rng.Intn(len(d)-2)] = c07Punct[rng.Intn(len(c07Punct))]
		}
		return d, "cte-mutated"
	case 10:
		d := valid("cte")
		if len(d) > 2 {
			d = d[:2+rng.Intn(len(d)-2)]
		}
		return d, "cte-truncated"
	case 11:
		depths := []int{10, 999, 1000, 1001, 5000, 100000}
		if tier == "thorough" {
			depths = append(depths, 3000000)
		}
		n := depths[rng.Intn(len(depths))]
		open := []byte{0x9a, 0x99, 0x97, 0x96}[rng.Intn(4)]
		return append([]byte{0x81, 0}, bytes.Repeat([]byte{open}, n)...), fmt.Sprintf("cbe-nested-%d", n)
	case 12:
		// every depth is cheap on a tree that stops at the configured limit before parsing; 3 000 000
		// levels exhaust the goroutine stack of a parser that does not
		depths := []int{10, 999, 1001, 5000, 20000, 100000, 300000, 3000000}
		n := depths[rng.Intn(len(depths))]
		open := []string{"[", "(", "@(", "{1=", "&a:[", "@a{", "@a<", "@a{[", "{\"k\"=@a{", "[@u8x[] ", "&m:&n:", "[/**/"}[rng.Intn(12)]
		if (open == "&m:&n:" || open == "@(") && n > 5000 {
			n = 5000
		}
		return []byte("c0 " + strings.Repeat(open, n)), fmt.Sprintf("cte-nested-%d", n)
	default:
		// many tiny tokens
		sizes := []int{100, 10000, 50000}
		if tier == "thorough" {
			sizes = append(sizes, 200000)
		}
		n := sizes[rng.Intn(len(sizes))]
		return []byte("c0 [" + strings.Repeat("1 ", n) + "]"), fmt.Sprintf("cte-many-tokens-%d", n)
	}
}

var abortC07 bool

func runC07(r *Run) {
	note := r.noteCurrent
	r.each(func(idx int, rng *Rng) {
		if abortC07 {
			return // a call is still running in the background after a reported hang
		}
		cfg := configuration.New()
		rulesOn := rng.P(2, 3)
		cfg.Marshal.EnforceRules = rulesOn
		limit := 120 * time.Second
		if idx%7 == 6 {
			// ---- marshal a Go value
			var v interface{}
			what := ""
			switch rng.Intn(18) {
			case 17:
				v, what = c07TreeBad{T: c07Tree{c07Tree{}, c07Tree{c07Tree{}}}, D: c07Dir{"a": c07Dir{}}, C: make(chan int)}, "recursive-slice-and-map-with-chan"
			case 14:
				// a Node among its own children (fix 7bafbb7: iterateNode had no depth guard)
				children := make([]interface{}, 2)
				n := types.Node{Value: 1, Children: children}
				children[1] = n
				v, what = n, "cyclic-node"
			case 15:
				children := make([]interface{}, 1)
				n := &types.Node{Value: "v", Children: children}
				children[0] = n
				v, what = n, "cyclic-node-pointer"
			case 16:
				src := make([]interface{}, 1)
				e := types.Edge{Source: src, Description: 1, Destination: 2}
				src[0] = e
				v, what = e, "cyclic-edge"
			case 9:
				n := &c07Cyclic{Name: "a"}
				n.Self = n
				v, what = n, "cyclic-pointer"
			case 10:
				l := []interface{}{1, nil}
				l[1] = l
				v, what = l, "cyclic-slice"
			case 11:
				m := map[string]interface{}{"a": 1}
				m["self"] = m
				v, what = m, "cyclic-map"
			case 12:
				// two nodes pointing at each other through an interface field
				a, b := &c07Mixed{A: 1}, &c07Mixed{A: 2}
				a.D, b.D = b, a
				a.C = map[string]interface{}{"b": b}
				v, what = a, "cyclic-mutual"
			case 13:
				// not cyclic, only deep: a linked list of 100 .. 5000 nodes
				var head *c07Cyclic
				for i := []int{100, 999, 1001, 5000}[rng.Intn(4)]; i > 0; i-- {
					head = &c07Cyclic{Name: "n", Self: head}
				}
				v, what = head, "deep-list"
			case 0:
				v, what = make(chan int), "chan"
			case 1:
				v, what = func() {}, "func"
			case 2:
				v, what = complex(1, 2), "complex128"
			case 3:
				x := 5
				v, what = unsafe.Pointer(&x), "unsafe.Pointer"
			case 4:
				v, what = unsupportedA{A: 1}, "struct-with-chan"
			case 5:
				v, what = []interface{}{1, make(chan int)}, "interface-holding-chan"
			case 6:
				v, what = map[interface{}]interface{}{[2]int{1, 2}: 1}, "map-with-array-key"
			case 7:
				v, what = freshUnsupported(rng).Interface(), "fresh-unsupported-struct"
			default:
				tg := NewTyGen(rng, "all")
				ty := tg.GenType(2)
				v, what = tg.GenValue(ty, 2).Interface(), "generated "+ty.String()
			}
			if rng.P(1, 3) {
				cfg.Iterator.RecursionSupport = true
				what += " (recursion support)"
			}
			r.out.Case("marshal "+what, true)
			r.out.Count("marshal:" + strings.Fields(what)[0])
			for _, ep := range []struct {
				name string
				fn   func() error
			}{
				{"MarshalToCBEDocument", func() error { _, e := ce.MarshalToCBEDocument(v, cfg); return e }},
				{"MarshalToCTEDocument", func() error { _, e := ce.MarshalToCTEDocument(v, cfg); return e }},
				{"MarshalCBE", func() error { return ce.MarshalCBE(v, &bytes.Buffer{}, cfg) }},
				{"MarshalCTE", func() error { return ce.MarshalCTE(v, &bytes.Buffer{}, cfg) }},
			} {
				note(idx, ep.name+" "+what, nil)
				res, hung := withWatchdog(limit, func() string { ep.fn(); return "returned" })
				if hung {
					r.out.Finding("C07", "hang:"+ep.name, fmt.Sprintf("%s(%s) does not return", ep.name, what), what)
				} else if strings.HasPrefix(res, "PANIC") {
					r.out.Finding("C07", "panic:"+ep.name, fmt.Sprintf("%s(%s) lets a panic escape: %s", ep.name, what, trunc(res, 200)), what)
				}
			}
			return
		}
		// ---- decode / unmarshal an input
		doc, what := c07Inputs(rng, cfg, r.Tier)
		if idx < 28 {
			// the first cases of every run: each opener kind nested far beyond the depth limit, so that the
			// draw of the generator cannot miss one (seeded change C07A let records through the depth check
			// of the CTE lexer; a later change to the input mix made the random draw miss it)
			openers := []string{"[", "(", "@(", "{1=", "&a:[", "@a{", "@a<", "@a{[", "{\"k\"=@a{", "[@u8x[] ", "&m:&n:", "[/**/"}
			j := idx - idx/7 // decode cases only: every seventh case marshals a value
			o := openers[j%len(openers)]
			n := []int{300000, 3000000}[(j/len(openers))%2]
			if (o == "&m:&n:" || o == "@(") && n > 5000 {
				n = 5000
			}
			doc, what = []byte("c0 "+strings.Repeat(o, n)), fmt.Sprintf("cte-nested-%d", n)
		}
		tmpl, tname := c07Templates(rng)
		r.out.Case(what+":"+hx(doc[:min(len(doc), 64)]), len(doc) > 2)
		r.out.Count("input:" + strings.SplitN(what, "-nested-", 2)[0])
		r.out.Count(fmt.Sprintf("rules:%v", rulesOn))
		r.out.Count("template:" + tname)
		if idx%211 == 0 {
			r.out.Sample(fmt.Sprintf("%s (%d bytes) template=%s rules=%v: %s", what, len(doc), tname, rulesOn, trunc(hx(doc), 120)))
		}
		// a receiver that keeps nothing: millions of events must not make the harness itself the slow part
		rec := func() events.DataEventReceiver { return nullevent.NewNullEventReceiver() }
		type ep struct {
			name string
			fn   func()
		}
		eps := []ep{
			{"UnmarshalFromCEDocument", func() { ce.UnmarshalFromCEDocument(doc, tmpl, cfg) }},
			{"UnmarshalCE", func() { ce.UnmarshalCE(bytes.NewReader(doc), tmpl, cfg) }},
			{"UnmarshalFromCBEDocument", func() { ce.UnmarshalFromCBEDocument(doc, tmpl, cfg) }},
			{"UnmarshalCBE", func() { ce.UnmarshalCBE(bytes.NewReader(doc), tmpl, cfg) }},
			{"UnmarshalFromCTEDocument", func() { ce.UnmarshalFromCTEDocument(doc, tmpl, cfg) }},
			{"UnmarshalCTE", func() { ce.UnmarshalCTE(bytes.NewReader(doc), tmpl, cfg) }},
			{"UniversalDecoder.DecodeDocument", func() { ce.NewCEDecoder(cfg).DecodeDocument(doc, rec()) }},
			{"UniversalDecoder.Decode", func() { ce.NewCEDecoder(cfg).Decode(bytes.NewReader(doc), rec()) }},
			{"cbe.Decoder.DecodeDocument", func() { cbe.NewDecoder(cfg).DecodeDocument(doc, rec()) }},
			{"cbe.Decoder.Decode", func() { cbe.NewDecoder(cfg).Decode(bytes.NewReader(doc), rec()) }},
			{"cte.Decoder.DecodeDocument", func() { cte.NewDecoder(cfg).DecodeDocument(doc, rec()) }},
			{"cte.Decoder.Decode", func() { cte.NewDecoder(cfg).Decode(bytes.NewReader(doc), rec()) }},
			{"cbe.Decoder+rules", func() { cbe.NewDecoder(cfg).DecodeDocument(doc, ce.NewRules(rec(), cfg)) }},
			{"cte.Decoder+rules", func() { cte.NewDecoder(cfg).DecodeDocument(doc, ce.NewRules(rec(), cfg)) }},
		}
		t0 := time.Now()
		defer func() { r.out.Add("ms:"+strings.SplitN(what, "-nested-", 2)[0], int(time.Since(t0).Milliseconds())) }()
		if len(doc) > 2000000 {
			// megabytes of nesting: one entry point of each family is enough (every one of them copies the
			// document into a rune slice before anything else happens)
			eps = []ep{eps[0], eps[5], eps[7], eps[10], eps[13]}
		}
		for _, e := range eps {
			// the format-specific entry points get every input too: a CTE text is just a malformed CBE document
			note(idx, e.name+" "+what+" template="+tname, doc)
			res, hung := withWatchdog(limit, func() string { e.fn(); return "returned" })
			key := e.name
			if hung {
				r.out.Finding("C07", "hang:"+key, fmt.Sprintf("%s does not return within %v on a %s input of %d bytes (template %s, rules %v)", e.name, limit, what, len(doc), tname, rulesOn), trunc(hx(doc), 2000))
				abortC07 = true
				return // the goroutine is still running: do not pile more work on this process
			} else if strings.HasPrefix(res, "PANIC") {
				r.out.Finding("C07", "panic:"+key, fmt.Sprintf("%s lets a panic escape on a %s input (template %s, rules %v): %s", e.name, what, tname, rulesOn, trunc(res, 200)), trunc(hx(doc), 2000))
			}
		}
		_ = reflect.TypeOf(tmpl)
	})
	r.clearCurrent()
}

func min(a, b int) int {
	if a < b {
		return a
	}
	return b
}
