package main

// C21: struct fields follow their tags and the naming configuration.
//
// Random struct types (reflect.StructOf with ce tags: omit / omit_empty / omit_zero / omit_never /
// name= / order=; names with acronyms and digits; declared types with embedded structs), random
// values with empty / zero / non-zero fields, both field-name styles, all omit defaults, both
// case-sensitivity settings:
//   STRUCT.EMIT   the keys the real iterator emits, in order, vs the Lean model
//   STRUCT.LOOKUP which field a document key reaches in the real builder vs the Lean model
//   oracle        unknown keys are skipped without disturbing the other fields; a struct
//                 marshaled and unmarshaled under the same configuration comes back equal

import (
	"fmt"
	"reflect"
	"strings"

	"github.com/kstenerud/go-concise-encoding/ce"
	"github.com/kstenerud/go-concise-encoding/configuration"
)

func init() {
	runners["C21"] = runC21
}

var c21Names = []string{"A", "Bb", "Name", "FooBar", "URLPath", "HTTPServer2", "ID", "UserID", "X1y", "ABCd", "Z9", "MyURLAndID", "Aa1B", "IOReader", "Foo_Bar", "Q"}

type c21Field struct {
	name    string
	tag     string
	kind    int // 0 int, 1 string, 2 []int, 3 *int
	state   int // per kind: which value
	isEmpty bool
	isZero  bool
}

var c21IntPtrZero = new(int)
var c21IntPtrSeven = func() *int { v := 7; return &v }()

func (f *c21Field) goType() reflect.Type {
	switch f.kind {
	case 0:
		return reflect.TypeOf(int(0))
	case 1:
		return reflect.TypeOf("")
	case 2:
		return reflect.TypeOf([]string(nil))
	case 4:
		return reflect.TypeOf(map[string]int(nil))
	default:
		return reflect.TypeOf((*int)(nil))
	}
}

// value and its emptiness / zero-ness by construction (not by asking reflect)
func (f *c21Field) value() reflect.Value {
	switch f.kind {
	case 0:
		if f.state%2 == 0 {
			f.isEmpty, f.isZero = false, true
			return reflect.ValueOf(int(0))
		}
		f.isEmpty, f.isZero = false, false
		return reflect.ValueOf(int(5 + f.state))
	case 1:
		if f.state%2 == 0 {
			f.isEmpty, f.isZero = true, true
			return reflect.ValueOf("")
		}
		f.isEmpty, f.isZero = false, false
		return reflect.ValueOf("x")
	case 2:
		switch f.state % 3 {
		case 0:
			f.isEmpty, f.isZero = true, true
			return reflect.ValueOf([]string(nil))
		case 1:
			f.isEmpty, f.isZero = true, true // empty but not nil: not IsZero, yet isValueZero falls back to empty
			return reflect.ValueOf([]string{})
		}
		f.isEmpty, f.isZero = false, false
		return reflect.ValueOf([]string{"e"})
	case 4:
		// maps: nil, empty but not nil (empty like the empty slice: seeded change C21B3 forgot that), one entry
		switch f.state % 3 {
		case 0:
			f.isEmpty, f.isZero = true, true
			return reflect.ValueOf(map[string]int(nil))
		case 1:
			f.isEmpty, f.isZero = true, true
			return reflect.ValueOf(map[string]int{})
		}
		f.isEmpty, f.isZero = false, false
		return reflect.ValueOf(map[string]int{"k": 1})
	default:
		switch f.state % 3 {
		case 0:
			f.isEmpty, f.isZero = true, true
			return reflect.ValueOf((*int)(nil))
		case 1:
			f.isEmpty, f.isZero = false, false // non-nil pointer to 0
			return reflect.ValueOf(c21IntPtrZero)
		}
		f.isEmpty, f.isZero = false, false
		return reflect.ValueOf(c21IntPtrSeven)
	}
}

func genC21Fields(rng *Rng, allInt bool) []c21Field {
	n := 1 + rng.Intn(6)
	wide := rng.P(1, 6)
	if wide {
		n = 13 + rng.Intn(12) // more fields than an insertion sort's threshold: stability is not free
	}
	used := map[string]bool{}
	idents := map[string]bool{}
	var out []c21Field
	for len(out) < n {
		name := c21Names[rng.Intn(len(c21Names))]
		if wide {
			name = fmt.Sprintf("%c%c%d", 'A'+byte(len(out)%26), 'a'+byte((len(out)*7)%26), len(out))
		}
		if used[name] {
			continue
		}
		used[name] = true
		f := c21Field{name: name, kind: rng.Intn(5), state: rng.Intn(6)}
		if allInt {
			f.kind = 0
		}
		var parts []string
		if rng.P(1, 3) {
			parts = append(parts, []string{"omit", "omit_empty", "omit_zero", "omit_never"}[rng.Intn(4)])
		}
		if rng.P(1, 4) {
			nm := []string{"renamed", "Other_Name", "x", "CamelName", "with space", "UPPER", "foo_bar"}[rng.Intn(7)]
			if rng.P(1, 3) {
				nm = " " + nm + " "
			}
			parts = append(parts, "name="+nm)
		}
		if rng.P(1, 3) {
			parts = append(parts, fmt.Sprintf("order=%d", []int{-1, 0, 1, 1, 2, 5, 100}[rng.Intn(7)]))
		}
		for i := len(parts) - 1; i > 0; i-- {
			k := rng.Intn(i + 1)
			parts[i], parts[k] = parts[k], parts[i]
		}
		f.tag = strings.Join(parts, ",")
		if rng.P(1, 6) && f.tag != "" {
			f.tag = " " + strings.ReplaceAll(f.tag, ",", " , ")
		}
		// no two fields may claim the same document name, exactly or after normalisation
		// (duplicate keys are outside the property; Go's map order would decide)
		ident := strings.NewReplacer("_", "", " ", "").Replace(strings.ToLower(emittedKeyGuess(f, 0)))
		ident2 := strings.NewReplacer("_", "", " ", "").Replace(strings.ToLower(emittedKeyGuess(f, 1)))
		if idents[ident] || idents[ident2] {
			delete(used, name)
			continue
		}
		idents[ident], idents[ident2] = true, true
		out = append(out, f)
	}
	return out
}

func c21Type(fs []c21Field) reflect.Type {
	var sf []reflect.StructField
	for i := range fs {
		f := &fs[i]
		st := reflect.StructField{Name: f.name, Type: f.goType()}
		if f.tag != "" {
			st.Tag = reflect.StructTag(`ce:"` + f.tag + `"`)
		}
		sf = append(sf, st)
	}
	return reflect.StructOf(sf)
}

var omitDefaults = []struct {
	name string
	v    configuration.FieldOmitBehavior
}{{"never", configuration.OmitFieldNever}, {"always", configuration.OmitFieldAlways}, {"empty", configuration.OmitFieldEmpty}, {"zero", configuration.OmitFieldZero}}

// keys of the single top-level map, tracking key/value alternation properly
func structKeys(evs []Event) ([]string, bool) {
	var keys []string
	depth := 0
	isKey := true
	for _, e := range evs {
		switch e.K {
		case "bd", "v", "ed":
		case "m", "l":
			if depth == 1 {
				if isKey {
					return nil, false
				}
			}
			depth++
		case "end":
			depth--
			if depth == 1 {
				isKey = true // a container value has ended
			}
		default:
			if depth == 1 {
				if isKey {
					keys = append(keys, string(e.D))
					isKey = false
				} else {
					isKey = true
				}
			}
		}
	}
	return keys, true
}

func runC21(r *Run) {
	r.each(func(idx int, rng *Rng) {
		style := rng.Intn(2) // 0 camel, 1 snake
		od := omitDefaults[rng.Intn(len(omitDefaults))]
		ci := rng.P(1, 2)
		cfg := configuration.New()
		cfg.Iterator.FieldNameStyle = configuration.FieldNameCamelCase
		if style == 1 {
			cfg.Iterator.FieldNameStyle = configuration.FieldNameSnakeCase
		}
		cfg.Iterator.DefaultFieldOmitBehavior = od.v
		cfg.Builder.CaseInsensitiveStructFieldNames = ci
		styleName := []string{"camel", "snake"}[style]

		if idx%2 == 0 {
			// ---- emission
			fs := genC21Fields(rng, false)
			ty := c21Type(fs)
			val := reflect.New(ty).Elem()
			var desc []string
			for i := range fs {
				val.Field(i).Set(fs[i].value())
				desc = append(desc, fmt.Sprintf("%s~%s~%s~%s", fs[i].name, fs[i].tag, b01(fs[i].isEmpty), b01(fs[i].isZero)))
			}
			text := fmt.Sprintf("emit %s default=%s %s", styleName, od.name, strings.Join(desc, ";"))
			r.out.Case(text, true)
			r.out.Count("emit:" + styleName + ":" + od.name)
			evs, err := iterateReal(val.Interface(), cfg)
			got := "ERR"
			if err == nil {
				if keys, ok := structKeys(evs); ok {
					got = "OK " + strings.Join(keys, ",")
				} else {
					got = "MALFORMED " + EventsText(evs)
				}
			}
			if idx%100 == 0 {
				r.out.Sample(text + " => " + got)
			}
			// the model is also the reading of the property (kept fields once each, tagged/configured
			// name, tag order then declaration order): a difference is a property failure, except where
			// the documentation is ambiguous - whether a non-nil EMPTY slice is a "zero value" for omit_zero
			kind := "prop"
			for i := range fs {
				// (only for omit_zero: under omit_empty an empty container is empty, nil or not)
				effectiveZero := strings.Contains(fs[i].tag, "omit_zero") ||
					(!strings.Contains(fs[i].tag, "omit") && od.name == "zero")
				if (fs[i].kind == 2 || fs[i].kind == 4) && fs[i].state%3 == 1 && effectiveZero {
					kind = "corr"
				}
			}
			r.out.Line(kind, fmt.Sprintf("%d|emitted-fields", idx), "STRUCT.EMIT", []string{styleName, od.name, strings.Join(desc, ";")}, got)
			// round trip under the same configuration
			if err == nil {
				doc, merr := ce.MarshalToCBEDocument(val.Interface(), cfg)
				if merr == nil {
					back, uerr, pan := safeCall(func() (interface{}, error) { return ce.UnmarshalFromCBEDocument(doc, reflect.Zero(ty).Interface(), cfg) })
					key := fmt.Sprintf("roundtrip:%s:ci=%v", styleName, ci)
					if uerr != nil || pan != nil {
						r.out.Finding("C21", key+":error", fmt.Sprintf("a struct marshaled under a configuration does not unmarshal under the same configuration: %v %v", uerr, pan), text)
					} else {
						bv := reflect.ValueOf(back)
						if bv.Kind() == reflect.Ptr {
							bv = bv.Elem()
						}
						// fields that were emitted must come back equal; omitted ones stay zero
						for i := range fs {
							want := val.Field(i)
							gotF := bv.Field(i)
							if ok, _ := equalValues(want, gotF, "f"); !ok && !gotF.IsZero() {
								r.out.Finding("C21", key+":changed", fmt.Sprintf("field %s comes back changed", fs[i].name), text+" got="+dumpValue(back))
							} else if !ok && gotF.IsZero() {
								// was it emitted at all?  (an omitted field legitimately comes back zero)
								r.out.Count("roundtrip-field-zero-after")
								// with snake-case names and case-SENSITIVE matching the builder does not know the
								// snake-cased spelling (it matches the Go/tagged name exactly): the property only
								// promises matching "by name", so that combination is not judged here (DESIGN.md D35)
								if wasEmitted(fs[i], style, evs) && !(style == 1 && !ci) {
									r.out.Finding("C21", key+":lost", fmt.Sprintf("field %s was written to the document but is not read back (key %q)", fs[i].name, emittedKeyGuess(fs[i], style)), text+" got="+dumpValue(back))
								}
							}
						}
					}
				}
			}
			return
		}
		// ---- lookup
		fs := genC21Fields(rng, true)
		ty := c21Type(fs)
		var names []string
		for i := range fs {
			nm := fs[i].name
			for _, p := range strings.Split(strings.TrimSpace(fs[i].tag), ",") {
				kv := strings.SplitN(p, "=", 2)
				if strings.TrimSpace(kv[0]) == "name" && len(kv) == 2 {
					nm = strings.TrimSpace(kv[1])
				}
			}
			names = append(names, nm)
		}
		// candidate keys
		base := names[rng.Intn(len(names))]
		var key string
		switch rng.Intn(8) {
		case 0:
			key = base
		case 1:
			key = strings.ToLower(base)
		case 2:
			key = strings.ToUpper(base)
		case 3:
			key = refSnakeCase(base)
		case 4:
			key = strings.ReplaceAll(strings.ToLower(base), "_", "")
		case 5:
			i := rng.Intn(len(base) + 1)
			key = base[:i] + []string{"_", " ", "__"}[rng.Intn(3)] + base[i:]
		case 6:
			key = "no_such_field"
		default:
			key = base + "x"
		}
		text := fmt.Sprintf("lookup ci=%v names=%s key=%q", ci, strings.Join(names, "|"), key)
		r.out.Case(text, true)
		r.out.Count(fmt.Sprintf("lookup:ci=%v", ci))
		// document: {other-known-key = 11 (if any), key = 77}; no field is tagged omit on the builder side
		other := -1
		for i := range names {
			if names[i] != key && rng.P(1, 2) {
				other = i
				break
			}
		}
		evs := []Event{{K: "bd"}, {K: "v"}, {K: "m"}}
		if other >= 0 {
			evs = append(evs, Event{K: "s", AT: 1, D: []byte(names[other])}, Event{K: "i", I: 11})
		}
		evs = append(evs, Event{K: "s", AT: 1, D: []byte(key)}, Event{K: "i", I: 77}, Event{K: "end"}, Event{K: "ed"})
		doc, eerr := cbeEncode(evs, cfg)
		if eerr != nil {
			return
		}
		back, uerr, pan := safeCall(func() (interface{}, error) { return ce.UnmarshalFromCBEDocument(doc, reflect.Zero(ty).Interface(), cfg) })
		got := "ERR"
		if uerr == nil && pan == nil {
			bv := reflect.ValueOf(back)
			if bv.Kind() == reflect.Ptr {
				bv = bv.Elem()
			}
			hit := -1
			disturbed := false
			for i := 0; i < bv.NumField(); i++ {
				x := bv.Field(i).Int()
				switch {
				case x == 77:
					hit = i
				case x == 11 && i == other:
				case x == 0:
				default:
					disturbed = true
				}
			}
			if other >= 0 && other != hit && bv.Field(other).Int() != 11 {
				disturbed = true // the other, known key lost its value although the probed key went elsewhere
			}
			got = fmt.Sprintf("%d", hit)
			if disturbed {
				r.out.Finding("C21", "unknown-key-disturbs", "a key that matches no field (or another field) changes a field it does not name", text+" got="+dumpValue(back))
			}
		}
		if idx%100 == 1 {
			r.out.Sample(text + " => " + got)
		}
		r.out.Line("prop", fmt.Sprintf("%d|key-lookup", idx), "STRUCT.LOOKUP", []string{b01(ci), strings.Join(names, "|"), key}, got)
	})
}

func emittedKeyGuess(f c21Field, style int) string {
	nm := f.name
	for _, p := range strings.Split(strings.TrimSpace(f.tag), ",") {
		kv := strings.SplitN(p, "=", 2)
		if strings.TrimSpace(kv[0]) == "name" && len(kv) == 2 {
			nm = strings.TrimSpace(kv[1])
		}
	}
	if style == 1 {
		return refSnakeCase(nm)
	}
	return nm
}

func wasEmitted(f c21Field, style int, evs []Event) bool {
	keys, ok := structKeys(evs)
	if !ok {
		return false
	}
	k := emittedKeyGuess(f, style)
	for _, x := range keys {
		if x == k {
			return true
		}
	}
	return false
}
