package main

import (
	"fmt"
	"math"
	"math/big"
	"reflect"

	"github.com/cockroachdb/apd/v2"
	compact_float "github.com/kstenerud/go-compact-float"
	"github.com/kstenerud/go-concise-encoding/ce"
	"github.com/kstenerud/go-concise-encoding/configuration"
)

func init() {
	runners["C19"] = runC19
}

// exact value of a numeric event as a rational; ok=false for NaN/inf/nil
func eventRat(e *Event) (*big.Rat, string, bool) {
	switch e.K {
	case "pi":
		return new(big.Rat).SetInt(new(big.Int).SetUint64(e.N)), "int", true
	case "ni":
		v := new(big.Int).SetUint64(e.N)
		return new(big.Rat).SetInt(v.Neg(v)), "int", true
	case "i":
		return new(big.Rat).SetInt64(e.I), "int", true
	case "bi":
		return new(big.Rat).SetInt(e.Big), "int", true
	case "fl":
		if math.IsNaN(e.F) || math.IsInf(e.F, 0) {
			return nil, "float", false
		}
		r := new(big.Rat)
		r.SetFloat64(e.F)
		return r, "float", true
	case "bf":
		if e.BF.IsInf() {
			return nil, "bigfloat", false
		}
		r, _ := e.BF.Rat(nil)
		return r, "bigfloat", true
	case "df":
		d := e.DF
		if d.IsSpecial() && d.Coefficient != compact_float.CoeffNegativeZero {
			return nil, "decimal", false
		}
		if d.IsSpecial() {
			return new(big.Rat), "decimal", true
		}
		return decRat(big.NewInt(d.Coefficient), int64(d.Exponent)), "decimal", true
	case "bdf":
		if e.BD.Form != apd.Finite {
			return nil, "bigdecimal", false
		}
		c := new(big.Int).Set(&e.BD.Coeff)
		if e.BD.Negative {
			c.Neg(c)
		}
		return decRat(c, int64(e.BD.Exponent)), "bigdecimal", true
	}
	return nil, "", false
}

func decRat(c *big.Int, exp int64) *big.Rat {
	r := new(big.Rat).SetInt(c)
	if exp > 4000 || exp < -4000 {
		return nil
	}
	p := new(big.Int).Exp(big.NewInt(10), big.NewInt(abs64(exp)), nil)
	if exp >= 0 {
		return r.Mul(r, new(big.Rat).SetInt(p))
	}
	return r.Quo(r, new(big.Rat).SetInt(p))
}

func abs64(x int64) int64 {
	if x < 0 {
		return -x
	}
	return x
}

// exact value stored in a destination
func valueRat(v reflect.Value) (*big.Rat, bool) {
	for v.Kind() == reflect.Ptr || v.Kind() == reflect.Interface {
		if v.IsNil() {
			return nil, false
		}
		v = v.Elem()
	}
	switch x := v.Interface().(type) {
	case big.Int:
		return new(big.Rat).SetInt(&x), true
	case big.Float:
		if x.IsInf() {
			return nil, false
		}
		r, _ := x.Rat(nil)
		return r, true
	case apd.Decimal:
		if x.Form != apd.Finite {
			return nil, false
		}
		r := decRat(&x.Coeff, int64(x.Exponent))
		if x.Negative {
			r.Neg(r)
		}
		return r, true
	case compact_float.DFloat:
		if x.IsSpecial() {
			return nil, false
		}
		return decRat(big.NewInt(x.Coefficient), int64(x.Exponent)), true
	}
	switch v.Kind() {
	case reflect.Int, reflect.Int8, reflect.Int16, reflect.Int32, reflect.Int64:
		return new(big.Rat).SetInt64(v.Int()), true
	case reflect.Uint, reflect.Uint8, reflect.Uint16, reflect.Uint32, reflect.Uint64:
		return new(big.Rat).SetInt(new(big.Int).SetUint64(v.Uint())), true
	case reflect.Float32, reflect.Float64:
		f := v.Float()
		if math.IsNaN(f) || math.IsInf(f, 0) {
			return nil, false
		}
		r := new(big.Rat)
		r.SetFloat64(f)
		return r, true
	}
	return nil, false
}

type convDest struct {
	name     string
	template interface{}
	class    string // int, uint, float, bigint, bigfloat
}

var convDests = []convDest{
	{"int8", int8(0), "int"}, {"int16", int16(0), "int"}, {"int32", int32(0), "int"}, {"int64", int64(0), "int"}, {"int", int(0), "int"},
	{"uint8", uint8(0), "uint"}, {"uint16", uint16(0), "uint"}, {"uint32", uint32(0), "uint"}, {"uint64", uint64(0), "uint"}, {"uint", uint(0), "uint"},
	{"float32", float32(0), "float"}, {"float64", float64(0), "float"},
	{"big.Int", big.Int{}, "bigint"}, {"*big.Int", (*big.Int)(nil), "bigint"},
	{"big.Float", big.Float{}, "bigfloat"}, {"*big.Float", (*big.Float)(nil), "bigfloat"},
	{"apd.Decimal", apd.Decimal{}, "bigdecimal"}, {"*apd.Decimal", (*apd.Decimal)(nil), "bigdecimal"},
}

// numericSources: every event form with boundary magnitudes
func numericSource(rng *Rng, g *Gen) Event {
	switch rng.Intn(10) {
	case 0, 1, 2, 3:
		g.out = g.out[:0]
		g.integer()
		return g.out[len(g.out)-1]
	case 4, 5:
		pool := []float64{0, math.Copysign(0, -1), 1, -1, 1.5, 127, 128, 255, 256, 32767, 32768, 65535, 65536, 1 << 24, 1<<24 + 1, 1 << 31, 1<<31 - 1, 1 << 32,
			1 << 53, 1<<53 + 2, 1 << 62, 1 << 63, 1 << 64, -(1 << 63), -(1<<63 + 2048), 1e300, 5e-324, math.Inf(1), math.Inf(-1), math.NaN(), 0.1, -128, -129, 4294967295, 4294967296}
		if rng.P(1, 4) {
			return Event{K: "fl", F: math.Float64frombits(g.floatBits())}
		}
		return Event{K: "fl", F: pool[rng.Intn(len(pool))]}
	case 6:
		c := []int64{0, 1, -1, 5, -5, 127, 128, 255, 256, 65535, 65536, math.MaxInt64, math.MinInt64 + 1, 1000000, 15, 25, 3}[rng.Intn(17)]
		ex := []int32{0, 0, 1, 2, -1, -2, 5, 18, 19, 20, 30, -30, 300}[rng.Intn(13)]
		return Event{K: "df", DF: compact_float.DFloat{Exponent: ex, Coefficient: c}}
	case 7:
		c := new(big.Int).SetBytes(rng.Bytes(1 + rng.Intn(12)))
		ex := []int32{0, 0, 1, -1, 3, -3, 20, 40}[rng.Intn(8)]
		if rng.P(1, 2) {
			// boundary magnitudes of the integer destinations: 2^k, 2^k +- 1, also spelled with a negative exponent
			k := []uint{7, 8, 15, 16, 24, 31, 32, 53, 63, 64, 65, 127}[rng.Intn(12)]
			c = new(big.Int).Lsh(big.NewInt(1), k)
			c.Add(c, big.NewInt(int64(rng.Intn(3)-1)))
			ex = 0
			if rng.P(1, 4) {
				sh := 1 + rng.Intn(3)
				c.Mul(c, new(big.Int).Exp(big.NewInt(10), big.NewInt(int64(sh)), nil))
				ex = -int32(sh)
			}
		}
		d := apd.NewWithBigInt(c, ex)
		d.Negative = rng.P(1, 2)
		return Event{K: "bdf", BD: d}
	case 8:
		g.out = g.out[:0]
		g.bigFloat() // float64-exact values only: the CBE encoder itself rounds other big.Floats (C01 finding)
		return g.out[len(g.out)-1]
	default:
		if rng.P(1, 3) {
			// integers beyond 64 bits with few significant bits: exactly a float64, some exactly a
			// float32 (<= 24 significant bits), some not (25..53 bits)
			top := uint(64 + rng.Intn(60))
			width := uint([]int{1, 2, 12, 24, 25, 30, 53, 54}[rng.Intn(8)])
			v := new(big.Int).Lsh(big.NewInt(1), top)
			if width > 1 {
				low := new(big.Int).Lsh(big.NewInt(1), top-width+1)
				v.Add(v, low)
			}
			if rng.P(1, 2) {
				v.Neg(v)
			}
			return Event{K: "bi", Big: v}
		}
		g.out = g.out[:0]
		g.bigInt()
		return g.out[len(g.out)-1]
	}
}

// C19: numeric unmarshaling is exact or fails.
func runC19(r *Run) {
	cfg := configuration.New()
	r.each(func(idx int, rng *Rng) {
		g := NewGen(rng, GenCfg{})
		src := numericSource(rng, g)
		srcRat, srcClass, finite := eventRat(&src)
		doc, err := cbeEncode([]Event{{K: "bd"}, {K: "v"}, src, {K: "ed"}}, cfg)
		if err != nil {
			return
		}
		for _, d := range convDests {
			// in scope: any numeric value into int/uint/big.Int/big.Float; integer values into float
			if (d.class == "float" || d.class == "bigdecimal") && srcClass != "int" {
				continue
			}
			text := fmt.Sprintf("%s -> %s", src.Text(), d.name)
			r.out.Case(text, true)
			r.out.Count("dest:" + d.name)
			r.out.Count("src:" + srcClass)
			v, uerr, pan := safeCall(func() (interface{}, error) { return ce.UnmarshalFromCBEDocument(doc, d.template, cfg) })
			if pan != nil {
				r.out.Finding("C19", "panic:"+d.name, fmt.Sprintf("unmarshaling %s into %s lets a panic escape: %v", src.Text(), d.name, pan), text)
				continue
			}
			// model correspondence for the integer fragment (the CBE decoder re-forms integers by width:
			// the event the builder sees is what the decoder emits for these bytes)
			if srcClass == "int" && (d.class == "int" || d.class == "uint") {
				if dec, derr := cbeDecode(doc, cfg, false); derr == nil && len(dec) == 4 {
					w := reflect.TypeOf(d.template).Bits()
					cls := map[string]string{"int": "s", "uint": "u"}[d.class]
					exp := "ERR"
					if uerr == nil {
						exp = "OK " + fmt.Sprintf("%v", v)
					}
					// negative zero is built as a float (-0.0), outside the integer model
					if !(dec[2].K == "ni" && dec[2].N == 0) {
						r.out.Line("corr", fmt.Sprintf("%d.%s", idx, d.name), "CONV", []string{dec[2].Text(), cls, fmt.Sprintf("%d", w)}, exp)
					}
				}
			}
			if uerr != nil {
				r.out.Count("result:error")
				continue
			}
			r.out.Count("result:ok")
			got, ok := valueRat(reflect.ValueOf(v))
			key := srcClass + "->" + d.class
			if d.class == "bigdecimal" {
				// an apd.Decimal keeps its sign in Negative; a negative coefficient is a malformed value
				// (Sign, Cmp and arithmetic read it wrongly) even when it prints like the right number
				rv := reflect.ValueOf(v)
				for rv.Kind() == reflect.Ptr && !rv.IsNil() {
					rv = rv.Elem()
				}
				if dd, isDec := rv.Interface().(apd.Decimal); isDec && dd.Coeff.Sign() < 0 {
					r.out.Finding("C19", "malformed:"+key, fmt.Sprintf("%s unmarshals into %s as a decimal with a negative coefficient (Negative=%v): Sign() is %d", src.Text(), d.name, dd.Negative, dd.Sign()), text)
					continue
				}
			}
			if !finite {
				// NaN / infinity / nil cannot be an integer or big number: success would be a silent change
				if d.class == "int" || d.class == "uint" || d.class == "bigint" {
					r.out.Finding("C19", "nonfinite-accepted:"+key, fmt.Sprintf("%s unmarshals into %s without error, giving %s", src.Text(), d.name, dumpValue(v)), text)
				}
				continue
			}
			if srcRat == nil {
				continue
			}
			if !ok {
				if d.class == "bigfloat" && v != nil {
					r.out.Finding("C19", "inexact:"+key, fmt.Sprintf("%s unmarshals into %s as %s", src.Text(), d.name, dumpValue(v)), text)
				}
				continue
			}
			if got.Cmp(srcRat) != 0 {
				r.out.Finding("C19", "inexact:"+key, fmt.Sprintf("%s unmarshals into %s without error but stores %s (exact value %s)", src.Text(), d.name, got.RatString(), srcRat.RatString()), text)
			}
			if idx%97 == 0 {
				r.out.Sample(text + " = " + dumpValue(v))
			}
		}
		// the same conversions through a marker and a local reference: the marked value is built first (as
		// whatever Go value the event becomes) and then copied into the destination by the builders'
		// reference resolution, a separate conversion path (seeded change C19B3 let a negative integer
		// wrap into uint64 there)
		if !finite || srcRat == nil {
			return
		}
		for _, d := range convDests {
			if d.class != "int" && d.class != "uint" && d.class != "float" {
				continue
			}
			if d.class == "float" && srcClass != "int" {
				continue
			}
			dt := reflect.TypeOf(d.template)
			if dt.Kind() == reflect.Ptr {
				continue
			}
			sty := reflect.StructOf([]reflect.StructField{{Name: "A", Type: reflect.TypeOf((*interface{})(nil)).Elem()}, {Name: "B", Type: dt}})
			evs := []Event{{K: "bd"}, {K: "v"}, {K: "m"}}
			keyA, keyB := Event{K: "s", AT: 1, D: []byte("A")}, Event{K: "s", AT: 1, D: []byte("B")}
			if rng.P(1, 2) {
				evs = append(evs, keyA, Event{K: "mk", D: []byte("a")}, src, keyB, Event{K: "ref", D: []byte("a")})
			} else {
				evs = append(evs, keyB, Event{K: "ref", D: []byte("a")}, keyA, Event{K: "mk", D: []byte("a")}, src)
			}
			evs = append(evs, Event{K: "end"}, Event{K: "ed"})
			rdoc, err := cbeEncode(evs, cfg)
			if err != nil {
				continue
			}
			text := fmt.Sprintf("%s -> %s via reference", src.Text(), d.name)
			r.out.Case(text, true)
			r.out.Count("via-reference:" + d.class)
			v, uerr, pan := safeCall(func() (interface{}, error) { return ce.UnmarshalFromCBEDocument(rdoc, reflect.Zero(sty).Interface(), cfg) })
			if pan != nil {
				r.out.Finding("C19", "panic:"+d.name, fmt.Sprintf("unmarshaling %s lets a panic escape: %v", text, pan), text)
				continue
			}
			if uerr != nil || v == nil {
				continue
			}
			rv := reflect.ValueOf(v)
			for rv.Kind() == reflect.Ptr && !rv.IsNil() {
				rv = rv.Elem()
			}
			if rv.Kind() != reflect.Struct {
				continue
			}
			got, ok := valueRat(rv.Field(1))
			if ok && got.Cmp(srcRat) != 0 {
				r.out.Finding("C19", "inexact:"+srcClass+"->"+d.class+":via-reference", fmt.Sprintf("%s unmarshals without error but stores %s (exact value %s)", text, got.RatString(), srcRat.RatString()), text)
			}
		}
	})
}
