package main

import (
	"math/big"
	"fmt"
	"math"
	"reflect"
	"regexp"
	"strings"

	"github.com/kstenerud/go-concise-encoding/ce"
	"github.com/kstenerud/go-concise-encoding/ce/events"
	"github.com/kstenerud/go-concise-encoding/configuration"
	"github.com/kstenerud/go-concise-encoding/iterator"
)

func init() {
	runners["C05"] = runC05
	runners["C18"] = runC18
}

// iterateReal runs the real iterator over v into a recorder.
func iterateReal(v interface{}, cfg *configuration.Configuration) (evs []Event, err error) {
	rec := &Recorder{}
	var sess iterator.Session
	err = safely(func() {
		sess.Init(nil, cfg)
		sess.NewIterator(rec).Iterate(v)
	})
	return rec.Evs, err
}

var refSnake1 = regexp.MustCompile(`([A-Z]+)([A-Z][a-z])`)
var refSnake2 = regexp.MustCompile(`([a-z\d])([A-Z])`)

func refSnakeCase(name string) string {
	name = refSnake1.ReplaceAllString(name, "${1}_${2}")
	return strings.ToLower(refSnake2.ReplaceAllString(name, "${1}_${2}"))
}

var elemArrayTypes = map[reflect.Kind]events.ArrayType{
	reflect.Uint8: events.ArrayTypeUint8, reflect.Uint16: events.ArrayTypeUint16, reflect.Uint32: events.ArrayTypeUint32,
	reflect.Uint64: events.ArrayTypeUint64, reflect.Uint: events.ArrayTypeUint64,
	reflect.Int8: events.ArrayTypeInt8, reflect.Int16: events.ArrayTypeInt16, reflect.Int32: events.ArrayTypeInt32,
	reflect.Int64: events.ArrayTypeInt64, reflect.Int: events.ArrayTypeInt64,
	reflect.Float32: events.ArrayTypeFloat32, reflect.Float64: events.ArrayTypeFloat64,
}

// refEvents: an independent description of a core-universe value as events ("every list element,
// map entry and non-omitted struct field once, typed arrays carry exactly the elements").
// ok=false when the value is outside the universe this reference covers.
func refEvents(v reflect.Value, out *[]Event) bool {
	if !v.IsValid() {
		*out = append(*out, Event{K: "n"})
		return true
	}
	switch v.Type() {
	case tyTime, tyCTime, tyBigInt, tyBigFloat, tyDecimal, tyDFloat, tyURL, tyUID, tyMedia, tyNode, tyEdge:
		return false
	}
	switch v.Kind() {
	case reflect.Bool:
		*out = append(*out, Event{K: "b", B: v.Bool()})
	case reflect.Int, reflect.Int8, reflect.Int16, reflect.Int32, reflect.Int64:
		*out = append(*out, Event{K: "i", I: v.Int()})
	case reflect.Uint, reflect.Uint8, reflect.Uint16, reflect.Uint32, reflect.Uint64:
		*out = append(*out, Event{K: "pi", N: v.Uint()})
	case reflect.Float32, reflect.Float64:
		*out = append(*out, Event{K: "fl", F: v.Float()})
	case reflect.String:
		*out = append(*out, Event{K: "s", AT: events.ArrayTypeString, D: []byte(v.String())})
	case reflect.Interface, reflect.Ptr:
		if v.IsNil() {
			*out = append(*out, Event{K: "n"})
			return true
		}
		if v.Kind() == reflect.Ptr {
			switch v.Type().Elem() {
			case tyBigInt, tyBigFloat, tyDecimal, tyURL:
				return false
			}
		}
		return refEvents(v.Elem(), out)
	case reflect.Slice, reflect.Array:
		ek := v.Type().Elem().Kind()
		_, numericElem := elemArrayTypes[ek]
		if v.Kind() == reflect.Slice && v.IsNil() && !(numericElem || ek == reflect.Bool) {
			*out = append(*out, Event{K: "n"})
			return true
		}
		if ek == reflect.Bool {
			n := v.Len()
			data := make([]byte, (n+7)/8)
			for i := 0; i < n; i++ {
				if v.Index(i).Bool() {
					data[i/8] |= 1 << uint(i%8)
				}
			}
			*out = append(*out, Event{K: "a", AT: events.ArrayTypeBit, N: uint64(n), D: data})
			return true
		}
		if at, ok := elemArrayTypes[ek]; ok && v.Type().Elem().PkgPath() == "" {
			w := at.ElementSize() / 8
			data := make([]byte, 0, v.Len()*w)
			for i := 0; i < v.Len(); i++ {
				var bits uint64
				switch ek {
				case reflect.Float32:
					bits = uint64(math.Float32bits(float32(v.Index(i).Float())))
				case reflect.Float64:
					bits = math.Float64bits(v.Index(i).Float())
				case reflect.Int, reflect.Int8, reflect.Int16, reflect.Int32, reflect.Int64:
					bits = uint64(v.Index(i).Int())
				default:
					bits = v.Index(i).Uint()
				}
				for b := 0; b < w; b++ {
					data = append(data, byte(bits>>(8*uint(b))))
				}
			}
			*out = append(*out, Event{K: "a", AT: at, N: uint64(v.Len()), D: data})
			return true
		}
		*out = append(*out, Event{K: "l"})
		for i := 0; i < v.Len(); i++ {
			if !refEvents(v.Index(i), out) {
				return false
			}
		}
		*out = append(*out, Event{K: "end"})
	case reflect.Map:
		if v.IsNil() {
			*out = append(*out, Event{K: "n"})
			return true
		}
		*out = append(*out, Event{K: "m"})
		for _, k := range v.MapKeys() {
			if !refEvents(k, out) || !refEvents(v.MapIndex(k), out) {
				return false
			}
		}
		*out = append(*out, Event{K: "end"})
	case reflect.Struct:
		*out = append(*out, Event{K: "m"})
		// the fields of embedded structs are fields of the embedding struct (flattened, in place)
		type fieldVal struct {
			f  reflect.StructField
			fv reflect.Value
		}
		var flat []fieldVal
		var collect func(sv reflect.Value)
		collect = func(sv reflect.Value) {
			for i := 0; i < sv.NumField(); i++ {
				f := sv.Type().Field(i)
				if f.Anonymous && f.Type.Kind() == reflect.Struct {
					collect(sv.Field(i))
					continue
				}
				flat = append(flat, fieldVal{f, sv.Field(i)})
			}
		}
		collect(v)
		for _, x := range flat {
			f := x.f
			if f.PkgPath != "" {
				continue
			}
			fv := x.fv
			// default omit behaviour: omit empty (nil pointer/interface, empty map/slice/array/string)
			switch fv.Kind() {
			case reflect.Interface, reflect.Ptr:
				if fv.IsNil() {
					continue
				}
			case reflect.Map, reflect.Slice:
				if fv.IsNil() || fv.Len() == 0 {
					continue
				}
			case reflect.Array, reflect.String:
				if fv.Len() == 0 {
					continue
				}
			}
			*out = append(*out, Event{K: "s", AT: events.ArrayTypeString, D: []byte(refSnakeCase(f.Name))})
			if !refEvents(fv, out) {
				return false
			}
		}
		*out = append(*out, Event{K: "end"})
	default:
		return false
	}
	return true
}

// C05: marshaling emits a valid event stream that describes exactly the value.
func runC05(r *Run) {
	rc := defaultRuleCfg()
	cfg := rc.config()
	r.each(func(idx int, rng *Rng) {
		var tg *TyGen
		if idx%3 == 0 {
			tg = NewTyGen(rng, "all")
		} else {
			tg = NewTyGen(rng, "none")
		}
		depth := 1 + rng.Intn(3)
		ty := tg.GenType(depth)
		val := tg.GenValue(ty, depth)
		tg.ScanType(ty)
		fs := tg.Features()
		key := ""
		for _, p := range []string{"node", "edge"} {
			for _, f := range fs {
				if f == p {
					key = p
				}
			}
		}
		desc := fmt.Sprintf("%s = %s", ty.String(), dumpValue(val.Interface()))
		if len(desc) > 1500 {
			desc = desc[:1500]
		}
		r.out.Case(desc, true)
		r.out.Count("population:" + key)
		for _, f := range fs {
			r.out.Count("feature:" + f)
		}
		evs, err := iterateReal(val.Interface(), cfg)
		if err != nil {
			r.out.Finding("C05", joinKey(key, "iterate-error"), "the iterator fails on a supported value: "+shortErr(err), desc)
			return
		}
		text := EventsText(evs)
		if idx%60 == 0 {
			r.out.Sample(desc + " => " + text)
		}
		id := fmt.Sprintf("%d", idx)
		if key != "" {
			id += "|" + key
		}
		// (1) the events form a valid document (the marshal path itself never runs the rules)
		verdict, fwd := runRules(evs, cfg)
		r.out.Line("corr", id, "RULES", []string{rc.text(), text}, verdict+" "+EventsText(fwd))
		if verdict != "ACC" {
			r.out.Finding("C05", joinKey(key, "rules-reject"), "the events the marshaler produces are rejected by the rules validator: "+verdict, desc+" => "+text)
		}
		r.out.Line("prop", id, "WF.REL", []string{rc.text(), text, "ACC"}, "1")
		// (2) consequently every marshaled document decodes
		for _, format := range []string{"cbe", "cte"} {
			d, merr, pan := safeCall(func() (interface{}, error) {
				if format == "cbe" {
					return ce.MarshalToCBEDocument(val.Interface(), cfg)
				}
				return ce.MarshalToCTEDocument(val.Interface(), cfg)
			})
			if merr != nil || pan != nil {
				r.out.Finding("C05", joinKey(key, "marshal-error"), fmt.Sprintf("marshal to %s fails: %v %v", format, shortE(merr), pan), desc)
				continue
			}
			var derr error
			if format == "cbe" {
				_, derr = cbeDecode(d.([]byte), cfg, true)
			} else {
				_, derr = cteDecode(d.([]byte), cfg, true)
			}
			if derr != nil {
				r.out.Finding("C05", joinKey(key, "document-rejected"), fmt.Sprintf("the %s document the marshaler wrote does not decode with rules: %s", format, shortErr(derr)), desc+" doc="+docText(format, d.([]byte)))
			}
		}
		// (3) describes exactly the value: compare with the independent description
		var ref []Event
		ref = append(ref, Event{K: "bd"}, Event{K: "v"})
		if refEvents(val, &ref) {
			ref = append(ref, Event{K: "ed"})
			r.out.Count("described")
			r.out.Line("prop", id, "TREE.EQ", []string{"0", "0", text, EventsText(ref)}, "1")
		}
	})
}

// C18: marshaling never modifies the value being marshaled.
func runC18(r *Run) {
	cfg := configuration.New()
	r.each(func(idx int, rng *Rng) {
		tg := NewTyGen(rng, "all")
		var val reflect.Value
		var ty reflect.Type
		if idx%2 == 0 {
			// big numbers held by pointer, every sign x magnitude class around 2^63 and 2^64
			ty = reflect.TypeOf(struct {
				A interface{}
				B interface{}
				C interface{}
			}{})
			val = reflect.New(ty).Elem()
			val.Field(0).Set(reflect.ValueOf(tg.bigInt()))
			bf := tg.GenValue(tyBigFloat, 0).Interface()
			_ = bf
			val.Field(1).Set(tg.GenValue(reflect.PtrTo(tyBigFloat), 1))
			if rng.P(1, 2) {
				// a big float that is the rounded result of an operation: besides mantissa, exponent and
				// precision it carries an accuracy flag and a rounding mode, which are the caller's too
				// (seeded change C18A3 reset the accuracy through SetMode)
				f := new(big.Float).SetPrec(uint([]int{24, 53, 64, 100, 128}[rng.Intn(5)]))
				f.SetMode([]big.RoundingMode{big.ToNearestEven, big.ToZero, big.AwayFromZero, big.ToNegativeInf}[rng.Intn(4)])
				f.Quo(big.NewFloat(float64(1+rng.Intn(9))), big.NewFloat([]float64{3, 7, 10, -3, 1e30}[rng.Intn(5)]))
				val.Field(1).Set(reflect.ValueOf(f))
			}
			val.Field(2).Set(tg.GenValue(reflect.PtrTo(tyDecimal), 1))
		} else {
			depth := 1 + rng.Intn(3)
			ty = tg.GenType(depth)
			val = tg.GenValue(ty, depth)
		}
		dumpBigFloatFlags = true
		defer func() { dumpBigFloatFlags = false }()
		before := dumpValue(val.Interface())
		desc := fmt.Sprintf("%s = %s", ty.String(), before)
		if len(desc) > 1500 {
			desc = desc[:1500]
		}
		r.out.Case(desc, true)
		if idx%60 == 0 {
			r.out.Sample(desc)
		}
		for _, format := range []string{"cbe", "cte"} {
			_, _, _ = safeCall(func() (interface{}, error) {
				if format == "cbe" {
					return ce.MarshalToCBEDocument(val.Interface(), cfg)
				}
				return ce.MarshalToCTEDocument(val.Interface(), cfg)
			})
			after := dumpValue(val.Interface())
			r.out.Count("marshal:" + format)
			if after != before {
				r.out.Finding("C18", "mutated:"+format, fmt.Sprintf("marshaling to %s changed the marshaled value: before %s after %s", format, trunc(before, 300), trunc(after, 300)), desc)
				before = after
			}
		}
	})
}

func trunc(s string, n int) string {
	if len(s) > n {
		return s[:n]
	}
	return s
}
