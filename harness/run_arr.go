package main

import (
	"bytes"
	"fmt"
	"math"
	"strings"

	"github.com/kstenerud/go-concise-encoding/ce"
	"github.com/kstenerud/go-concise-encoding/configuration"
)

func init() {
	runners["C26"] = runC26
}

type arrHelper struct {
	name    string
	w       int
	toBytes func(bits []uint64) []byte           // build the typed slice from bit patterns, call <T>SliceAsBytes
	toBits  func(data []byte) []uint64           // call BytesTo<T>Slice, return the bit patterns
	marshal func(bits []uint64) interface{}      // the typed slice as a Go value
}

func natsCSV(v []uint64) string {
	if len(v) == 0 {
		return "-"
	}
	p := make([]string, len(v))
	for i, x := range v {
		p[i] = fmt.Sprintf("%d", x)
	}
	return strings.Join(p, ",")
}

var arrHelpers = []arrHelper{
	{"int8", 1, func(b []uint64) []byte { s := make([]int8, len(b)); for i, x := range b { s[i] = int8(x) }; return ce.Int8SliceAsBytes(s) },
		func(d []byte) []uint64 { s := ce.BytesToInt8Slice(d); o := make([]uint64, len(s)); for i, x := range s { o[i] = uint64(uint8(x)) }; return o },
		func(b []uint64) interface{} { s := make([]int8, len(b)); for i, x := range b { s[i] = int8(x) }; return s }},
	{"uint16", 2, func(b []uint64) []byte { s := make([]uint16, len(b)); for i, x := range b { s[i] = uint16(x) }; return ce.Uint16SliceAsBytes(s) },
		func(d []byte) []uint64 { s := ce.BytesToUint16Slice(d); o := make([]uint64, len(s)); for i, x := range s { o[i] = uint64(x) }; return o },
		func(b []uint64) interface{} { s := make([]uint16, len(b)); for i, x := range b { s[i] = uint16(x) }; return s }},
	{"int16", 2, func(b []uint64) []byte { s := make([]int16, len(b)); for i, x := range b { s[i] = int16(x) }; return ce.Int16SliceAsBytes(s) },
		func(d []byte) []uint64 { s := ce.BytesToInt16Slice(d); o := make([]uint64, len(s)); for i, x := range s { o[i] = uint64(uint16(x)) }; return o },
		func(b []uint64) interface{} { s := make([]int16, len(b)); for i, x := range b { s[i] = int16(x) }; return s }},
	{"uint32", 4, func(b []uint64) []byte { s := make([]uint32, len(b)); for i, x := range b { s[i] = uint32(x) }; return ce.Uint32SliceAsBytes(s) },
		func(d []byte) []uint64 { s := ce.BytesToUint32Slice(d); o := make([]uint64, len(s)); for i, x := range s { o[i] = uint64(x) }; return o },
		func(b []uint64) interface{} { s := make([]uint32, len(b)); for i, x := range b { s[i] = uint32(x) }; return s }},
	{"int32", 4, func(b []uint64) []byte { s := make([]int32, len(b)); for i, x := range b { s[i] = int32(x) }; return ce.Int32SliceAsBytes(s) },
		func(d []byte) []uint64 { s := ce.BytesToInt32Slice(d); o := make([]uint64, len(s)); for i, x := range s { o[i] = uint64(uint32(x)) }; return o },
		func(b []uint64) interface{} { s := make([]int32, len(b)); for i, x := range b { s[i] = int32(x) }; return s }},
	{"float32", 4, func(b []uint64) []byte { s := make([]float32, len(b)); for i, x := range b { s[i] = math.Float32frombits(uint32(x)) }; return ce.Float32SliceAsBytes(s) },
		func(d []byte) []uint64 { s := ce.BytesToFloat32Slice(d); o := make([]uint64, len(s)); for i, x := range s { o[i] = uint64(math.Float32bits(x)) }; return o },
		func(b []uint64) interface{} { s := make([]float32, len(b)); for i, x := range b { s[i] = math.Float32frombits(uint32(x)) }; return s }},
	{"uint64", 8, func(b []uint64) []byte { s := make([]uint64, len(b)); copy(s, b); return ce.Uint64SliceAsBytes(s) },
		func(d []byte) []uint64 { return ce.BytesToUint64Slice(d) },
		func(b []uint64) interface{} { s := make([]uint64, len(b)); copy(s, b); return s }},
	{"int64", 8, func(b []uint64) []byte { s := make([]int64, len(b)); for i, x := range b { s[i] = int64(x) }; return ce.Int64SliceAsBytes(s) },
		func(d []byte) []uint64 { s := ce.BytesToInt64Slice(d); o := make([]uint64, len(s)); for i, x := range s { o[i] = uint64(x) }; return o },
		func(b []uint64) interface{} { s := make([]int64, len(b)); for i, x := range b { s[i] = int64(x) }; return s }},
	{"float64", 8, func(b []uint64) []byte { s := make([]float64, len(b)); for i, x := range b { s[i] = math.Float64frombits(x) }; return ce.Float64SliceAsBytes(s) },
		func(d []byte) []uint64 { s := ce.BytesToFloat64Slice(d); o := make([]uint64, len(s)); for i, x := range s { o[i] = math.Float64bits(x) }; return o },
		func(b []uint64) interface{} { s := make([]float64, len(b)); for i, x := range b { s[i] = math.Float64frombits(x) }; return s }},
}

func eqU64(a, b []uint64) bool {
	if len(a) != len(b) {
		return false
	}
	for i := range a {
		if a[i] != b[i] {
			return false
		}
	}
	return true
}

// C26: array byte-conversion helpers are exact little-endian inverses.
func runC26(r *Run) {
	cfg := configuration.New()
	special := []uint64{0, 1, 0x7f, 0x80, 0xff, 0x7fff, 0x8000, 0xffff, 0x7fffffff, 0x80000000, 0xffffffff,
		0x7fa00001, 0x7fc00000, 0xffc12345, 0x7ff0000000000001, 0x7ff8000000000000, 0xfff4000000abcdef, 0x8000000000000000, math.MaxUint64, 0x0102030405060708}
	r.each(func(idx int, rng *Rng) {
		h := arrHelpers[idx%len(arrHelpers)]
		n := (idx / len(arrHelpers)) % 66
		mask := uint64(math.MaxUint64)
		if h.w < 8 {
			mask = (uint64(1) << uint(8*h.w)) - 1
		}
		bits := make([]uint64, n)
		for i := range bits {
			if rng.P(1, 3) {
				bits[i] = special[rng.Intn(len(special))] & mask
			} else {
				bits[i] = rng.Next() & mask
			}
		}
		id := fmt.Sprintf("%d", idx)
		text := fmt.Sprintf("%s[%d] %s", h.name, n, natsCSV(bits))
		// the helpers are total: a panic (an empty slice, say) is a failing input, not a dead harness
		defer func() {
			if rec := recover(); rec != nil {
				r.out.Finding("C26", "panic:"+h.name, fmt.Sprintf("the %s helper panics on a slice of %d elements: %v", h.name, n, rec), text)
			}
		}()
		r.out.Case(text, n > 0)
		r.out.Count("type:" + h.name)
		if idx%23 == 0 {
			r.out.Sample(text)
		}
		data := cloneBytes(h.toBytes(bits))
		// model correspondence (little-endian element order)
		r.out.Line("corr", id+".to", "ARR.TOLE", []string{fmt.Sprintf("%d", h.w), natsCSV(bits)}, hx(data))
		back := h.toBits(data)
		r.out.Line("corr", id+".from", "ARR.FROMLE", []string{fmt.Sprintf("%d", h.w), hx(data)}, natsCSV(back))
		// exact inverses, both directions (property, decided here)
		if !eqU64(back, bits) {
			r.out.Finding("C26", "bytes-to-slice-not-inverse:"+h.name, fmt.Sprintf("BytesTo%sSlice(%sSliceAsBytes(x)) != x: %v vs %v", h.name, h.name, back, bits), text)
		}
		raw := rng.Bytes(n * h.w)
		again := cloneBytes(h.toBytes(h.toBits(raw)))
		if !bytes.Equal(again, raw) {
			r.out.Finding("C26", "slice-to-bytes-not-inverse:"+h.name, fmt.Sprintf("%sSliceAsBytes(BytesTo%sSlice(b)) != b: %x vs %x", h.name, h.name, again, raw), text)
		}
		// a trailing partial element is ignored by bytes→slice
		if n > 0 && h.w > 1 {
			part := append(cloneBytes(raw), 0xee)
			r.out.Line("corr", id+".part", "ARR.FROMLE", []string{fmt.Sprintf("%d", h.w), hx(part)}, natsCSV(h.toBits(part)))
		}
		// the same bytes as the codecs use for typed arrays
		doc, err := ce.MarshalToCBEDocument(h.marshal(bits), cfg)
		if err == nil {
			evs, derr := cbeDecode(doc, cfg, false)
			if derr == nil {
				var arr []byte
				found := false
				for _, e := range evs {
					switch e.K {
					case "a":
						arr = append(arr, e.D...)
						found = true
					case "ab":
						found = true
					case "ad":
						arr = append(arr, e.D...)
					}
				}
				key := "codec-bytes-differ:" + h.name
				if h.name == "float32" && hasSNaN32(bits) {
					// reflect.Value.Float() widens to float64, which quiets a signalling NaN on amd64
					key = "codec-bytes-differ-snan:float32"
				}
				if !found || !bytes.Equal(arr, data) {
					r.out.Finding("C26", key, fmt.Sprintf("the CBE marshaler writes %x for the array but %sSliceAsBytes gives %x", arr, h.name, data), text)
				}
			}
		}
	})
}

func hasSNaN32(bits []uint64) bool {
	for _, b := range bits {
		if b&0x7f800000 == 0x7f800000 && b&0x007fffff != 0 && b&0x00400000 == 0 {
			return true
		}
	}
	return false
}
