package main

// C17: concurrent use of separate instances (and of sessions shared between them) is race-free
// and matches sequential use.  This runner is built with -race by bin/check; a detected data
// race is reported by the Go race runtime on stderr (bin/check turns it into a violation).
//
// Each case: a set of fresh reflect-made types and values (never seen by any cache), a number
// of goroutines and a GOMAXPROCS setting.  Every goroutine performs the same list of jobs in
// its own order; every job's result is compared with the result of running it alone.

import (
	"bytes"
	"math/big"
	"fmt"
	"reflect"
	"runtime"
	"strings"
	"sync"
	"time"

	"github.com/kstenerud/go-concise-encoding/builder"
	"github.com/kstenerud/go-concise-encoding/cbe"
	"github.com/kstenerud/go-concise-encoding/ce"
	"github.com/kstenerud/go-concise-encoding/ce/events"
	"github.com/kstenerud/go-concise-encoding/configuration"
	"github.com/kstenerud/go-concise-encoding/cte"
	"github.com/kstenerud/go-concise-encoding/iterator"
	"github.com/kstenerud/go-concise-encoding/rules"
)

func init() {
	runners["C17"] = runC17
}

type concJob struct {
	desc string
	run  func(env *concEnv) string
}

// what a goroutine owns (separate instances) and what it shares (sessions)
type concEnv struct {
	cfg      *configuration.Configuration
	itSess   *iterator.Session // shared
	buSess   *builder.Session  // shared
	cbeM     ce.Marshaler
	cteM     ce.Marshaler
	cbeU     ce.Unmarshaler
	cteU     ce.Unmarshaler
}

func newConcEnv(cfg *configuration.Configuration, it *iterator.Session, bu *builder.Session) *concEnv {
	return &concEnv{cfg: cfg, itSess: it, buSess: bu,
		cbeM: ce.NewCBEMarshaler(cfg), cteM: ce.NewCTEMarshaler(cfg),
		cbeU: ce.NewCBEUnmarshaler(cfg), cteU: ce.NewCTEUnmarshaler(cfg)}
}

func okOrErr(s string, err error) string {
	if err != nil {
		return "ERR"
	}
	return "ok " + s
}

// documents are compared as data: Go map iteration order is random
func docAsData(format string, doc []byte, cfg *configuration.Configuration) string {
	var evs []Event
	var err error
	if format == "cbe" {
		evs, err = cbeDecode(doc, cfg, false)
	} else {
		evs, err = cteDecode(doc, cfg, false)
	}
	if err != nil {
		return "undecodable " + hx(doc)
	}
	return EventsText(evs)
}

func sharedIterate(env *concEnv, v interface{}) (doc []byte, err error) {
	var buf bytes.Buffer
	enc := cbe.NewEncoder(env.cfg)
	enc.PrepareToEncode(&buf)
	err = safely(func() { env.itSess.NewIterator(enc).Iterate(v) })
	return buf.Bytes(), err
}

func sharedBuild(env *concEnv, doc []byte, template interface{}) (v interface{}, err error) {
	err = safely(func() {
		b := env.buSess.NewBuilderFor(template)
		r := rules.NewRules(b, env.cfg)
		var rcv events.DataEventReceiver = r
		if e := cbe.NewDecoder(env.cfg).DecodeDocument(doc, rcv); e != nil {
			panic(e)
		}
		v = b.GetBuiltObject()
	})
	return
}

func genConcJobs(rng *Rng, cfg *configuration.Configuration) []concJob {
	var jobs []concJob
	n := 3 + rng.Intn(5)
	for j := 0; j < n; j++ {
		tg := NewTyGen(rng, "none")
		depth := 1 + rng.Intn(3)
		var ty reflect.Type
		if rng.P(1, 5) {
			ty = freshUnsupported(rng).Type()
		} else {
			// wrap in a fresh struct type so that no cache has seen it
			inner := tg.GenType(depth)
			ty = reflect.StructOf([]reflect.StructField{
				{Name: fmt.Sprintf("F%d", rng.Intn(1<<30)), Type: inner},
				{Name: fmt.Sprintf("G%d", rng.Intn(1<<30)), Type: reflect.TypeOf(int32(0))},
			})
		}
		val := reflect.New(ty).Elem()
		if ty.Field(0).Type.Kind() != reflect.Chan && ty.Field(0).Type.Kind() != reflect.Func && ty.Field(0).Type.Kind() != reflect.Complex128 {
			val.Field(0).Set(tg.GenValue(ty.Field(0).Type, depth))
		}
		tg.ScanType(ty)
		if featureKey(tg.Features()) != "" {
			continue
		}
		v := val.Interface()
		tmpl := reflect.Zero(ty).Interface()
		tname := ty.String()
		cbeDoc, _ := ce.MarshalToCBEDocument(v, cfg)
		cteDoc, _ := ce.MarshalToCTEDocument(v, cfg)
		jobs = append(jobs,
			concJob{"marshal-cbe " + tname, func(env *concEnv) string {
				d, err := env.cbeM.MarshalToDocument(v)
				return okOrErr(docAsData("cbe", d, env.cfg), err)
			}},
			concJob{"marshal-cte " + tname, func(env *concEnv) string {
				d, err := env.cteM.MarshalToDocument(v)
				return okOrErr(docAsData("cte", d, env.cfg), err)
			}},
			concJob{"shared-session-iterate " + tname, func(env *concEnv) string {
				d, err := sharedIterate(env, v)
				return okOrErr(docAsData("cbe", d, env.cfg), err)
			}},
		)
		if cbeDoc != nil {
			jobs = append(jobs,
				concJob{"unmarshal-cbe " + tname, func(env *concEnv) string {
					x, err := env.cbeU.UnmarshalFromDocument(cbeDoc, tmpl)
					return okOrErr(dumpValue(x), err)
				}},
				concJob{"shared-session-build " + tname, func(env *concEnv) string {
					x, err := sharedBuild(env, cbeDoc, tmpl)
					return okOrErr(dumpValue(x), err)
				}},
				concJob{"one-shot-unmarshal-ce " + tname, func(env *concEnv) string {
					x, err := ce.UnmarshalFromCEDocument(cbeDoc, tmpl, env.cfg)
					return okOrErr(dumpValue(x), err)
				}},
			)
		}
		if cteDoc != nil {
			jobs = append(jobs, concJob{"unmarshal-cte " + tname, func(env *concEnv) string {
				x, err := env.cteU.UnmarshalFromDocument(cteDoc, tmpl)
				return okOrErr(dumpValue(x), err)
			}})
		}
	}
	// numeric conversions: every event form into every numeric destination (the package-level
	// singleton builders and the conversion helpers are shared by all sessions)
	for j := 0; j < 4; j++ {
		g := NewGen(rng, GenCfg{})
		src := numericSource(rng, g)
		if j == 0 {
			// an integer above 2^64 that is exactly a float: reaches the float builders as a big.Int
			v := new(big.Int).Lsh(big.NewInt(int64(1+rng.Intn(1000))), uint(64+rng.Intn(40)))
			src = Event{K: "bi", Big: v}
		}
		doc, err := cbeEncode([]Event{{K: "bd"}, {K: "v"}, src, {K: "ed"}}, cfg)
		if err != nil {
			continue
		}
		d := convDests[rng.Intn(len(convDests))]
		if j == 0 {
			d = convDests[10+rng.Intn(2)] // float32 / float64
		}
		jobs = append(jobs, concJob{"convert " + src.Text() + " -> " + d.name, func(env *concEnv) string {
			x, err := env.cbeU.UnmarshalFromDocument(doc, d.template)
			return okOrErr(dumpValue(x), err)
		}})
	}
	// event level: separate encoders / decoders / validators per goroutine
	for j := 0; j < 2; j++ {
		g := NewGen(rng, cteGenCfg())
		evs := g.Doc()
		if rng.P(1, 4) {
			evs, _ = mutate(rng, evs)
		}
		jobs = append(jobs,
			concJob{"rules+cbe-encode", func(env *concEnv) string {
				var buf bytes.Buffer
				enc := cbe.NewEncoder(env.cfg)
				enc.PrepareToEncode(&buf)
				n, err := playTo(evs, rules.NewRules(enc, env.cfg))
				return fmt.Sprintf("%s@%d %s", errness(err), n, hx(buf.Bytes()))
			}},
			concJob{"rules+cte-encode+decode", func(env *concEnv) string {
				var buf bytes.Buffer
				enc := cte.NewEncoder(env.cfg)
				enc.PrepareToEncode(&buf)
				n, err := playTo(evs, rules.NewRules(enc, env.cfg))
				back, derr := cteDecode(buf.Bytes(), env.cfg, true)
				return fmt.Sprintf("%s@%d %s %s %s", errness(err), n, hx(buf.Bytes()), errness(derr), EventsText(back))
			}},
		)
	}
	return jobs
}

var abortC17 bool

func runC17(r *Run) {
	cfg := configuration.New()
	defer runtime.GOMAXPROCS(runtime.GOMAXPROCS(0))
	r.each(func(idx int, rng *Rng) {
		if abortC17 {
			return // goroutines of a hung case are still alive: later cases would not be clean
		}
		jobs := genConcJobs(rng, cfg)
		if len(jobs) == 0 {
			return
		}
		procs := []int{1, 2, 4, 8, 16}[rng.Intn(5)]
		workers := []int{2, 3, 4, 8, 16, 32}[rng.Intn(6)]
		if r.Tier == "thorough" && rng.P(1, 4) {
			workers = 64
		}
		// sequential baseline: every job alone, on fresh instances and fresh sessions
		want := make([]string, len(jobs))
		for i, j := range jobs {
			env := newConcEnv(cfg, iterator.NewSession(nil, cfg), builder.NewSession(nil, cfg))
			want[i] = j.run(env)
		}
		runtime.GOMAXPROCS(procs)
		itS := iterator.NewSession(nil, cfg)
		buS := builder.NewSession(nil, cfg)
		type res struct {
			w, j int
			got  string
		}
		results := make(chan res, workers*len(jobs))
		var wg sync.WaitGroup
		start := make(chan struct{})
		for w := 0; w < workers; w++ {
			wg.Add(1)
			order := make([]int, len(jobs))
			for i := range order {
				order[i] = i
			}
			for i := len(order) - 1; i > 0; i-- {
				k := rng.Intn(i + 1)
				order[i], order[k] = order[k], order[i]
			}
			go func(w int, order []int) {
				defer wg.Done()
				env := newConcEnv(cfg, itS, buS)
				<-start
				for _, ji := range order {
					got := func() (s string) {
						defer func() {
							if rec := recover(); rec != nil {
								s = fmt.Sprintf("PANIC %v", rec)
							}
						}()
						return jobs[ji].run(env)
					}()
					results <- res{w, ji, got}
				}
			}(w, order)
		}
		close(start)
		done := make(chan struct{})
		go func() { wg.Wait(); close(done) }()
		// a deadlock makes no progress; a loaded machine does: wait as long as results keep arriving
		hung := false
		lastCount := -1
	waiting:
		for {
			select {
			case <-done:
				break waiting
			case <-time.After(120 * time.Second):
				if n := len(results); n == lastCount {
					hung = true
					break waiting
				} else {
					lastCount = n
				}
			}
		}
		if !hung {
			close(results) // the workers of a hung case may still send
		}
		descs := make([]string, len(jobs))
		for i, j := range jobs {
			descs[i] = j.desc
		}
		hist := fmt.Sprintf("GOMAXPROCS=%d goroutines=%d jobs=[%s]", procs, workers, trunc(strings.Join(descs, "; "), 1500))
		r.out.Case(hist, true)
		r.out.Count(fmt.Sprintf("procs:%d", procs))
		r.out.Count(fmt.Sprintf("goroutines:%d", workers))
		r.out.Add("jobs-run", workers*len(jobs))
		if hung {
			r.out.Finding("C17", "hang", "goroutines using separate instances / shared sessions stopped making progress (no job finished for 120 s)", hist)
			abortC17 = true
			return
		}
		for x := range results {
			kind := strings.Fields(jobs[x.j].desc)[0]
			if x.got != want[x.j] && strings.HasPrefix(x.got, "ok bd") && strings.HasPrefix(want[x.j], "ok bd") &&
				(strings.HasPrefix(kind, "marshal") || kind == "shared-session-iterate") {
				// same document up to the (random) iteration order of Go maps?  decided by the Lean tree equality
				r.out.Line("prop", fmt.Sprintf("%d|differs:%s", idx, kind), "TREE.EQ", []string{"0", "0", x.got[3:], want[x.j][3:]}, "1")
				r.out.Count("compared-as-data")
				continue
			}
			if x.got != want[x.j] {
				r.out.Finding("C17", "differs:"+strings.Fields(jobs[x.j].desc)[0],
					fmt.Sprintf("goroutine %d, job %q: concurrent result %s, run alone %s", x.w, jobs[x.j].desc, trunc(x.got, 300), trunc(want[x.j], 300)), hist)
				break
			}
		}
		if idx%53 == 0 {
			r.out.Sample(hist)
		}
	})
}
