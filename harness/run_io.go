package main

import (
	"bytes"
	"errors"
	"fmt"
	"io"
	"strings"

	"github.com/kstenerud/go-concise-encoding/cbe"
	"github.com/kstenerud/go-concise-encoding/ce"
	"github.com/kstenerud/go-concise-encoding/ce/events"
	"github.com/kstenerud/go-concise-encoding/configuration"
	"github.com/kstenerud/go-concise-encoding/cte"
	"github.com/kstenerud/go-concise-encoding/rules"
)

func init() {
	runners["C28"] = runC28
	runners["C29"] = runC29
}

// cteEncode runs the real CTE encoder over the events.
func cteEncode(evs []Event, cfg *configuration.Configuration) ([]byte, error) {
	enc := cte.NewEncoder(cfg)
	var buf bytes.Buffer
	enc.PrepareToEncode(&buf)
	_, err := playTo(evs, enc)
	return buf.Bytes(), err
}

// cteDecode runs the real CTE decoder into a recorder, optionally behind the rules.
func cteDecode(doc []byte, cfg *configuration.Configuration, withRules bool) ([]Event, error) {
	rec := &Recorder{}
	var rcv events.DataEventReceiver = rec
	if withRules {
		rcv = rules.NewRules(rec, cfg)
	}
	err := cte.NewDecoder(cfg).DecodeDocument(doc, rcv)
	return rec.Evs, err
}

func cteGenCfg() GenCfg {
	return GenCfg{MaxDepth: 5, Budget: 25, NoPadding: true, NoBoolEv: true, NoNaNPayload: true}
}

// patternReader delivers data according to a schedule of read sizes (0 = a (0, nil) read);
// optionally returns the final bytes together with io.EOF; optionally fails at an offset.
type patternReader struct {
	data        []byte
	sizes       []int
	i           int
	pos         int
	eofWithData bool
	failAt      int // -1: never; otherwise fail with failErr once pos reaches failAt
	failErr     error
	failWithData bool
	transient   bool // the failure is reported exactly once; later calls carry on with the data
	calls       int
}

func (p *patternReader) Read(b []byte) (int, error) {
	p.calls++
	if len(b) == 0 {
		return 0, nil
	}
	if p.failAt >= 0 && p.pos >= p.failAt {
		if p.transient {
			p.failAt = -1
		}
		return 0, p.failErr
	}
	s := 1 << 30
	if len(p.sizes) > 0 {
		s = p.sizes[p.i%len(p.sizes)]
		p.i++
	}
	if s == 0 {
		return 0, nil
	}
	rem := len(p.data) - p.pos
	if p.failAt >= 0 && p.failAt-p.pos < rem {
		rem = p.failAt - p.pos
	}
	if rem == 0 {
		return 0, io.EOF
	}
	n := s
	if n > len(b) {
		n = len(b)
	}
	if n > rem {
		n = rem
	}
	copy(b, p.data[p.pos:p.pos+n])
	p.pos += n
	if p.failAt >= 0 && p.pos >= p.failAt && p.failWithData {
		if p.transient {
			p.failAt = -1
		}
		return n, p.failErr
	}
	if p.pos == len(p.data) && p.eofWithData && p.failAt < 0 {
		return n, io.EOF
	}
	return n, nil
}

func randomSizes(rng *Rng) ([]int, string) {
	switch rng.Intn(6) {
	case 5:
		// the very first Read delivers nothing, without an error (allowed by io.Reader; seeded changes C27B3 /
		// C28B3 sniffed the format with a single Read and ignored the count)
		return []int{0, 1 + rng.Intn(5), 0, 1 + rng.Intn(40)}, "empty-first"
	case 0:
		return []int{1}, "one-byte"
	case 1:
		return []int{1, 0}, "one-byte+empty"
	case 2:
		n := 2 + rng.Intn(6)
		s := make([]int, n)
		for i := range s {
			s[i] = 1 + rng.Intn(7)
		}
		return s, "short"
	case 3:
		n := 2 + rng.Intn(6)
		s := make([]int, n)
		lastZero := false
		for i := range s {
			if !lastZero && rng.P(1, 3) {
				s[i] = 0
				lastZero = true
			} else {
				s[i] = 1 + rng.Intn(40)
				lastZero = false
			}
		}
		s[0] = 1 + rng.Intn(3)
		return s, "mixed+empty"
	default:
		return nil, "whole"
	}
}

type docCase struct {
	format string
	doc    []byte
	what   string
}

// genDocs: valid CBE and CTE documents plus mutated / truncated ones.
func genDocs(rng *Rng, cfg *configuration.Configuration) []docCase {
	var out []docCase
	g := NewGen(rng, cbeGenCfg("quick"))
	evs := g.Doc()
	if doc, err := cbeEncode(evs, cfg); err == nil {
		out = append(out, docCase{"cbe", doc, "valid"})
		if len(doc) > 3 {
			m := cloneBytes(doc)
			m[2+rng.Intn(len(m)-2)] ^= byte(1 << uint(rng.Intn(8)))
			out = append(out, docCase{"cbe", m, "bitflip"})
			out = append(out, docCase{"cbe", doc[:1+rng.Intn(len(doc)-1)], "truncated"})
		}
	}
	g2 := NewGen(rng, cteGenCfg())
	evs2 := g2.Doc()
	if doc, err := cteEncode(evs2, cfg); err == nil {
		out = append(out, docCase{"cte", doc, "valid"})
		if len(doc) > 3 {
			out = append(out, docCase{"cte", doc[:1+rng.Intn(len(doc)-1)], "truncated"})
		}
	}
	return out
}

func valueTextOld(v interface{}) string {
	s := fmt.Sprintf("%#v", v)
	if len(s) > 4000 {
		s = s[:4000]
	}
	return s
}

func okText(err error) string {
	if err != nil {
		return "ERR"
	}
	return "OK"
}

// C28: stream decoding does not depend on how the reader delivers bytes.
func runC28(r *Run) {
	cfg := configuration.New()
	r.each(func(idx int, rng *Rng) {
		for di, dc := range genDocs(rng, cfg) {
			doc := dc.doc
			text := dc.format + ":" + hx(doc)
			r.out.Case(text, len(doc) > 3)
			r.out.Count("doc:" + dc.format + ":" + dc.what)
			// in-memory reference
			var refVal interface{}
			var refErr error
			var refEvs string
			var refDecErr error
			rec := &Recorder{}
			if dc.format == "cbe" {
				refVal, refErr = ce.UnmarshalFromCBEDocument(doc, nil, cfg)
				refDecErr = cbe.NewDecoder(cfg).DecodeDocument(doc, rules.NewRules(rec, cfg))
			} else {
				refVal, refErr = ce.UnmarshalFromCTEDocument(doc, nil, cfg)
				refDecErr = cte.NewDecoder(cfg).DecodeDocument(doc, rules.NewRules(rec, cfg))
			}
			refEvs = EventsText(rec.Evs)
			for variant := 0; variant < 3; variant++ {
				sizes, pname := randomSizes(rng)
				eofWithData := rng.P(1, 2)
				if eofWithData {
					pname += "+data-with-EOF"
				}
				r.out.Count("pattern:" + pname)
				mk := func() io.Reader {
					return &patternReader{data: doc, sizes: sizes, eofWithData: eofWithData, failAt: -1}
				}
				type result struct {
					name string
					val  string
					ok   string
				}
				var results []result
				var v interface{}
				var err error
				if dc.format == "cbe" {
					v, err = ce.UnmarshalCBE(mk(), nil, cfg)
				} else {
					v, err = ce.UnmarshalCTE(mk(), nil, cfg)
				}
				results = append(results, result{"Unmarshal" + strings.ToUpper(dc.format) + "(reader)", valueText(v), okText(err)})
				v, err = ce.UnmarshalCE(mk(), nil, cfg)
				results = append(results, result{"UnmarshalCE(reader)", valueText(v), okText(err)})
				// a document with a local reference in map-key position does not unmarshal to the same untyped
				// value twice even from memory (Go's map iteration order decides which slot the reference
				// fills: finding C06/local-reference:ref-as-key), so the untyped values are not compared for
				// those; the events always are
				orderDependent := refInKeyPosition(rec.Evs)
				if orderDependent {
					r.out.Count("value-not-compared:local-reference")
				}
				for _, res := range results {
					if !orderDependent && (res.val != valueText(refVal) || res.ok != okText(refErr)) {
						r.out.Finding("C28", "unmarshal-differs:"+dc.format+":"+pname, fmt.Sprintf("%s with delivery %s %v gives %s %s, from memory %s %s",
							res.name, pname, sizes, res.val, res.ok, valueText(refVal), okText(refErr)), fmt.Sprintf("%s sizes=%v eofWithData=%v", text, sizes, eofWithData))
					}
				}
				// decoder level (events)
				rec2 := &Recorder{}
				var derr error
				if dc.format == "cbe" {
					derr = cbe.NewDecoder(cfg).Decode(mk(), rules.NewRules(rec2, cfg))
				} else {
					derr = cte.NewDecoder(cfg).Decode(mk(), rules.NewRules(rec2, cfg))
				}
				rec3 := &Recorder{}
				uerr := ce.NewCEDecoder(cfg).Decode(mk(), rules.NewRules(rec3, cfg))
				if EventsText(rec2.Evs) != refEvs || okText(derr) != okText(refDecErr) {
					r.out.Finding("C28", "decode-differs:"+dc.format+":"+pname, fmt.Sprintf("Decoder.Decode(reader) with delivery %s %v gives [%s] %s, from memory [%s] %s",
						pname, sizes, EventsText(rec2.Evs), okText(derr), refEvs, okText(refDecErr)), fmt.Sprintf("%s sizes=%v eofWithData=%v", text, sizes, eofWithData))
				}
				if EventsText(rec3.Evs) != refEvs || okText(uerr) != okText(refDecErr) {
					r.out.Finding("C28", "universal-decode-differs:"+dc.format+":"+pname, fmt.Sprintf("UniversalDecoder.Decode(reader) with delivery %s %v gives [%s] %s, from memory [%s] %s",
						pname, sizes, EventsText(rec3.Evs), okText(uerr), refEvs, okText(refDecErr)), fmt.Sprintf("%s sizes=%v eofWithData=%v", text, sizes, eofWithData))
				}
				// model of the reader layer: the bytes the adapter hands to the decoder are the document
				if dc.format == "cbe" {
					// the real adapter, read byte-wise, against the Lean model of it
					got, rerr := drainAdapter(cbe.VerifNewReaderAdapter(mk()), len(doc)+5)
					r.out.Line("corr", fmt.Sprintf("%d.%d.%d", idx, di, variant), "READER.ALL", []string{hx(doc), sizesText(sizes), b01(eofWithData)}, adapterResult(got, rerr))
					if !bytes.Equal(got, doc) || rerr != io.EOF {
						r.out.Finding("C28", "adapter-delivery:"+pname, fmt.Sprintf("the reader adapter hands the decoder %s (%v) for document %s under delivery %s %v", hx(got), rerr, hx(doc), pname, sizes), text)
					}
				}
			}
			if idx%50 == 0 && di == 0 {
				r.out.Sample(dc.format + " " + dc.what + ": " + hx(doc))
			}
		}
	})
}

// drainAdapter reads one byte at a time until an error.
func drainAdapter(rd io.Reader, max int) ([]byte, error) {
	var out []byte
	b := make([]byte, 1)
	for i := 0; i < max+200; i++ {
		n, err := rd.Read(b)
		if n > 0 {
			out = append(out, b[0])
		}
		if err != nil {
			return out, err
		}
	}
	return out, errors.New("no end")
}

func adapterResult(got []byte, err error) string {
	switch err {
	case io.EOF:
		return "OK " + hx(got)
	case errInjected, io.ErrUnexpectedEOF, io.ErrClosedPipe:
		return "ERR FAULT " + hx(got)
	case io.ErrNoProgress:
		return "ERR NOPROGRESS " + hx(got)
	}
	return "ERR OTHER " + hx(got)
}

func sizesText(s []int) string {
	if len(s) == 0 {
		return "-"
	}
	parts := make([]string, len(s))
	for i, v := range s {
		parts[i] = fmt.Sprintf("%d", v)
	}
	return strings.Join(parts, ",")
}

// ---------------------------------------------------------------------------------------
// C29: I/O failures are always reported.

var errInjected = errors.New("injected I/O failure")

type failingWriter struct {
	n       int // bytes accepted before failing
	written int
	short   bool // report a short write together with the error
	// mode 0: as `short` says, and every later write fails too
	// mode 1: the failing write claims the full count together with the error, later writes succeed
	// mode 2: the failing write reports the bytes that fit together with the error, later writes succeed
	mode   int
	failed bool
}

func (w *failingWriter) Write(p []byte) (int, error) {
	if w.mode != 0 && w.failed {
		w.written += len(p)
		return len(p), nil
	}
	if w.written+len(p) > w.n {
		k := w.n - w.written
		if k < 0 {
			k = 0
		}
		w.failed = true
		switch w.mode {
		case 1:
			w.written += len(p)
			return len(p), errInjected
		case 2:
			if k == 0 {
				k = 1 // progress and an error in the same call
			}
			w.written += k
			return k, errInjected
		}
		w.written += k
		if w.short {
			return k, errInjected
		}
		return 0, errInjected
	}
	w.written += len(p)
	return len(p), nil
}

func runC29(r *Run) {
	cfg := configuration.New()
	r.each(func(idx int, rng *Rng) {
		// --- write faults: marshal and encode
		val := genSimpleValue(rng, 3)
		cbeDoc, err1 := ce.MarshalToCBEDocument(val, cfg)
		cteDoc, err2 := ce.MarshalToCTEDocument(val, cfg)
		if err1 == nil && err2 == nil {
			for _, f := range []struct {
				name string
				size int
				fn   func(w io.Writer) error
			}{
				{"MarshalCBE", len(cbeDoc), func(w io.Writer) error { return ce.MarshalCBE(val, w, cfg) }},
				{"MarshalCTE", len(cteDoc), func(w io.Writer) error { return ce.MarshalCTE(val, w, cfg) }},
			} {
				for k := 0; k < f.size; k++ {
					for wm := 0; wm < 4; wm++ {
						short := wm == 1
						w := &failingWriter{n: k, short: short}
						if wm >= 2 {
							w.mode = wm - 1 // an error reported once, together with progress
						}
						var err error
						var pan interface{}
						func() {
							defer func() { pan = recover() }()
							err = f.fn(w)
						}()
						r.out.Count("write-fault:" + f.name)
						r.out.Case(fmt.Sprintf("%s@%d/%d short=%v %#v", f.name, k, f.size, short, val), true)
						if pan != nil {
							r.out.Finding("C29", "write-fault-panic:"+f.name, fmt.Sprintf("%s lets a panic escape when the writer fails after %d of %d bytes: %v", f.name, k, f.size, pan), fmt.Sprintf("%#v", val))
						} else if err == nil {
							r.out.Finding("C29", "write-fault-unreported:"+f.name, fmt.Sprintf("%s reports success although the writer failed after %d of %d bytes (writer mode %d: 0 = error and no bytes, 1 = short write and error, 2 = full count and error once, 3 = some bytes and error once)", f.name, k, f.size, wm), fmt.Sprintf("%#v", val))
						}
					}
				}
			}
		}
		// event-level encoders
		g := NewGen(rng, GenCfg{NoCustomText: true, MaxDepth: 3, Budget: 8, NoTimes: true})
		evs := g.Doc()
		if full, err := cbeEncode(evs, cfg); err == nil {
			for k := 0; k < len(full); k++ {
				enc := cbe.NewEncoder(cfg)
				enc.PrepareToEncode(&failingWriter{n: k, mode: k % 3})
				_, err := playTo(evs, enc)
				r.out.Count("write-fault:cbe.Encoder")
				if err == nil {
					r.out.Finding("C29", "write-fault-unreported:cbe.Encoder", fmt.Sprintf("CBE encoder swallows a write failure after %d of %d bytes", k, len(full)), EventsText(evs))
				}
			}
		}
		g3 := NewGen(rng, cteGenCfg())
		evs3 := g3.Doc()
		if full, err := cteEncode(evs3, cfg); err == nil {
			step := 1 + len(full)/60
			for k := 0; k < len(full); k += step {
				enc := cte.NewEncoder(cfg)
				enc.PrepareToEncode(&failingWriter{n: k, mode: k % 3})
				_, err := playTo(evs3, enc)
				r.out.Count("write-fault:cte.Encoder")
				if err == nil {
					r.out.Finding("C29", "write-fault-unreported:cte.Encoder", fmt.Sprintf("CTE encoder swallows a write failure after %d of %d bytes", k, len(full)), EventsText(evs3))
				}
			}
		}
		// --- read faults (non-EOF) at every position of valid documents
		for _, dc := range genDocs(rng, cfg) {
			if dc.what != "valid" {
				continue
			}
			doc := dc.doc
			step := 1 + len(doc)/80
			for k := 0; k <= len(doc); k += step {
				for mode := 0; mode < 4; mode++ {
					withData := mode&1 == 1
					transient := mode&2 == 2 // the reader reports the failure once and then carries on
					if withData && k == 0 {
						continue
					}
					sizes, _ := randomSizes(rng)
					// the failure is an error value of the caller's, or one of the standard ones a wrapped
					// reader (gzip, pipes, io.ReadFull) returns: none of them means "end of document"
					failErr := []error{errInjected, io.ErrUnexpectedEOF, io.ErrClosedPipe}[(k+mode)%3]
					mk := func() io.Reader {
						return &patternReader{data: doc, sizes: sizes, failAt: k, failErr: failErr, failWithData: withData, transient: transient}
					}
					if dc.format == "cbe" {
						got, rerr := drainAdapter(cbe.VerifNewReaderAdapter(mk()), len(doc)+5)
						r.out.Line("corr", fmt.Sprintf("%d.%d.%d", idx, k, mode), "READER.FAULT", []string{hx(doc), sizesText(sizes), fmt.Sprintf("%d", k), b01(withData)}, adapterResult(got, rerr))
						if rerr != failErr || !bytes.Equal(got, doc[:k]) {
							r.out.Finding("C29", "adapter-fault-lost", fmt.Sprintf("the reader adapter delivers %s and then %v for a source failing at offset %d", hx(got), rerr, k), hx(doc))
						}
					}
					type ep struct {
						name string
						fn   func() error
					}
					eps := []ep{}
					if dc.format == "cbe" {
						eps = append(eps, ep{"UnmarshalCBE", func() error { _, e := ce.UnmarshalCBE(mk(), nil, cfg); return e }},
							ep{"cbe.Decoder.Decode", func() error { return cbe.NewDecoder(cfg).Decode(mk(), events.DataEventReceiver(&Recorder{})) }})
					} else {
						eps = append(eps, ep{"UnmarshalCTE", func() error { _, e := ce.UnmarshalCTE(mk(), nil, cfg); return e }},
							ep{"cte.Decoder.Decode", func() error { return cte.NewDecoder(cfg).Decode(mk(), events.DataEventReceiver(&Recorder{})) }})
					}
					eps = append(eps, ep{"UnmarshalCE", func() error { _, e := ce.UnmarshalCE(mk(), nil, cfg); return e }},
						ep{"UniversalDecoder.Decode", func() error { return ce.NewCEDecoder(cfg).Decode(mk(), events.DataEventReceiver(&Recorder{})) }})
					for _, e := range eps {
						var err error
						var pan interface{}
						func() {
							defer func() { pan = recover() }()
							err = e.fn()
						}()
						r.out.Count("read-fault:" + e.name)
						r.out.Case(fmt.Sprintf("%s@%d %s", e.name, k, hx(doc)), true)
						if pan != nil {
							r.out.Finding("C29", "read-fault-panic:"+e.name, fmt.Sprintf("%s lets a panic escape when the reader fails at offset %d: %v", e.name, k, pan), dc.format+":"+hx(doc))
						} else if err == nil {
							r.out.Finding("C29", "read-fault-unreported:"+e.name, fmt.Sprintf("%s reports success although the reader failed with a non-EOF error at offset %d of %d (with data: %v, failure reported once only: %v)", e.name, k, len(doc), withData, transient), dc.format+":"+hx(doc))
						}
					}
				}
			}
		}
		if idx%50 == 0 {
			r.out.Sample(fmt.Sprintf("value %#v; cbe %s", val, hx(cbeDoc)))
		}
	})
}

// genSimpleValue: a Go value of plain kinds that both marshalers support.
func genSimpleValue(rng *Rng, depth int) interface{} {
	k := rng.Intn(9)
	if depth <= 0 && k >= 6 {
		k = rng.Intn(6)
	}
	switch k {
	case 0:
		return rng.P(1, 2)
	case 1:
		return int64(rng.Next()>>uint(rng.Intn(64))) * int64(1-2*rng.Intn(2))
	case 2:
		return []float64{0, 1.5, -2.25, 1e300, 0.1}[rng.Intn(5)]
	case 3:
		g := NewGen(rng, GenCfg{})
		return string(g.text(rng.Intn(20)))
	case 4:
		return rng.Bytes(rng.Intn(40))
	case 5:
		return nil
	case 6:
		n := rng.Intn(4)
		l := make([]interface{}, n)
		for i := range l {
			l[i] = genSimpleValue(rng, depth-1)
		}
		return l
	case 7:
		n := rng.Intn(4)
		m := map[interface{}]interface{}{}
		for i := 0; i < n; i++ {
			m[fmt.Sprintf("k%d", rng.Intn(100))] = genSimpleValue(rng, depth-1)
		}
		return m
	default:
		n := rng.Intn(30)
		a := make([]uint16, n)
		for i := range a {
			a[i] = uint16(rng.Next())
		}
		return a
	}
}

func valueText(v interface{}) string { return dumpValue(v) }
