package main

import (
	"math/big"
	"bytes"
	"fmt"
	"strings"

	"github.com/kstenerud/go-concise-encoding/cbe"
	"github.com/kstenerud/go-concise-encoding/ce"
	"github.com/kstenerud/go-concise-encoding/ce/events"
	"github.com/kstenerud/go-concise-encoding/configuration"
	"github.com/kstenerud/go-concise-encoding/cte"
	"github.com/kstenerud/go-concise-encoding/rules"
)

func init() {
	runners["C27"] = runC27
}

type decodeFn func(doc []byte, rcv events.DataEventReceiver) error

// decodeVia runs a decoder entry point with rules in front of a recorder; panics are findings.
func decodeVia(name string, doc []byte, fn decodeFn, cfg *configuration.Configuration) (evs string, errText string, panicked string) {
	rec := &Recorder{}
	rcv := rules.NewRules(rec, cfg)
	var err error
	func() {
		defer func() {
			if r := recover(); r != nil {
				panicked = fmt.Sprintf("%s: panic escaped: %v", name, r)
			}
		}()
		err = fn(doc, rcv)
	}()
	if err != nil {
		errText = "ERR"
	} else {
		errText = "OK"
	}
	return EventsText(rec.Evs), errText, panicked
}

type unmarshalFn func(doc []byte) (interface{}, error)

func unmarshalVia(name string, doc []byte, fn unmarshalFn) (val string, errText string, panicked string) {
	var v interface{}
	var err error
	func() {
		defer func() {
			if r := recover(); r != nil {
				panicked = fmt.Sprintf("%s: panic escaped: %v", name, r)
			}
		}()
		v, err = fn(doc)
	}()
	if err != nil {
		errText = "ERR"
	} else {
		errText = "OK"
	}
	return dumpValue(v), errText, panicked
}

// C27: format detection and version headers are handled consistently.
func runC27(r *Run) {
	cfg := configuration.New()
	bodiesCBE := [][]byte{{0x01}, {0x9a, 0x01, 0x9b}, {}, {0x9a}, {0xff}, {0x83, 'a', 'b', 'c'}}
	bodiesCTE := []string{" 1", " [1 2]", "", " [", " @", "\n\"abc\"", "1"}
	versionsCBE := [][]byte{{0}, {1}, {2}, {3}, {0x7f}, {0x80, 0x01}, {0x81, 0x00}, {0xac, 0x02}, {0x80, 0x00}, {0xff, 0xff, 0xff, 0xff, 0xff, 0xff, 0xff, 0xff, 0xff, 0x01}, {}}
	versionsCTE := []string{"0", "1", "2", "9", "00", "01", "10", "", "-1", "0x1"}
	n := 0
	emit := func(doc []byte, what string) {
		n++
		if r.Only >= 0 && n != r.Only {
			return
		}
		if r.Only < 0 && n%r.Of != r.Shard {
			return
		}
		id := fmt.Sprintf("%d", n)
		text := hx(doc)
		r.out.Case(text, len(doc) > 1)
		if n%97 == 0 {
			r.out.Sample(what + ": " + text)
		}
		first := -1
		if len(doc) > 0 {
			first = int(doc[0])
		}
		// expected detection according to the model's (extracted) tables
		detected := "none"
		if first == 'c' || first == 'C' {
			detected = "cte"
		} else if first == 0x81 {
			detected = "cbe"
		}
		if first >= 0 {
			r.out.Line("prop", id, "API.DETECT", []string{fmt.Sprintf("%d", first)}, detected+" "+detected)
		}
		// universal entry points
		uni := ce.NewCEDecoder(cfg)
		uEvs, uErr, p1 := decodeVia("UniversalDecoder.DecodeDocument", doc, func(d []byte, rc events.DataEventReceiver) error { return uni.DecodeDocument(d, rc) }, cfg)
		uEvs2, uErr2, p2 := decodeVia("UniversalDecoder.Decode", doc, func(d []byte, rc events.DataEventReceiver) error { return uni.Decode(bytes.NewReader(d), rc) }, cfg)
		uVal, uvErr, p3 := unmarshalVia("UnmarshalFromCEDocument", doc, func(d []byte) (interface{}, error) { return ce.UnmarshalFromCEDocument(d, nil, cfg) })
		uVal2, uvErr2, p4 := unmarshalVia("UnmarshalCE", doc, func(d []byte) (interface{}, error) { return ce.UnmarshalCE(bytes.NewReader(d), nil, cfg) })
		// the same through a reader whose first Read delivers nothing (allowed by io.Reader): the format is
		// still the document's (seeded change C27B3 sniffed it with one Read and ignored the count)
		slow := func(d []byte) *patternReader {
			return &patternReader{data: d, sizes: []int{0, 1 + n%3, 0, 40}, failAt: -1}
		}
		sEvs2, sErr2, p5 := decodeVia("UniversalDecoder.Decode(empty first read)", doc, func(d []byte, rc events.DataEventReceiver) error { return uni.Decode(slow(d), rc) }, cfg)
		sVal2, svErr2, p6 := unmarshalVia("UnmarshalCE(empty first read)", doc, func(d []byte) (interface{}, error) { return ce.UnmarshalCE(slow(d), nil, cfg) })
		if sEvs2 != uEvs2 || sErr2 != uErr2 {
			r.out.Finding("C27", "detection-depends-on-delivery:UniversalDecoder.Decode", fmt.Sprintf("a reader whose first Read returns (0, nil) gives %s %s, a plain reader %s %s", sErr2, trunc(sEvs2, 200), uErr2, trunc(uEvs2, 200)), text)
		}
		if sVal2 != uVal2 || svErr2 != uvErr2 {
			r.out.Finding("C27", "detection-depends-on-delivery:UnmarshalCE", fmt.Sprintf("a reader whose first Read returns (0, nil) gives %s %s, a plain reader %s %s", svErr2, trunc(sVal2, 200), uvErr2, trunc(uVal2, 200)), text)
		}
		for _, p := range []string{p1, p2, p3, p4, p5, p6} {
			if p != "" {
				r.out.Finding("C27", "panic:"+strings.SplitN(p, ":", 2)[0], p, text)
			}
		}
		var sEvs, sErr, sVal, svErr string
		switch detected {
		case "cte":
			sEvs, sErr, _ = decodeVia("cte", doc, func(d []byte, rc events.DataEventReceiver) error { return cte.NewDecoder(cfg).DecodeDocument(d, rc) }, cfg)
			sVal, svErr, _ = unmarshalVia("cte", doc, func(d []byte) (interface{}, error) { return ce.UnmarshalFromCTEDocument(d, nil, cfg) })
		case "cbe":
			sEvs, sErr, _ = decodeVia("cbe", doc, func(d []byte, rc events.DataEventReceiver) error { return cbe.NewDecoder(cfg).DecodeDocument(d, rc) }, cfg)
			sVal, svErr, _ = unmarshalVia("cbe", doc, func(d []byte) (interface{}, error) { return ce.UnmarshalFromCBEDocument(d, nil, cfg) })
		default:
			// no format detected: every universal entry point must fail
			if uErr == "OK" || uErr2 == "OK" || uvErr == "OK" || uvErr2 == "OK" {
				r.out.Finding("C27", "undetected-accepted", "a document whose first byte is neither a CTE header letter nor the CBE signature is accepted by a universal entry point", text)
			}
			return
		}
		r.out.Count("detected:" + detected)
		if uEvs != sEvs || uErr != sErr {
			r.out.Finding("C27", "decode-document-differs:"+detected, fmt.Sprintf("UniversalDecoder.DecodeDocument gives [%s] %s but the %s decoder gives [%s] %s", uEvs, uErr, detected, sEvs, sErr), text)
		}
		if uEvs2 != sEvs || uErr2 != sErr {
			r.out.Finding("C27", "decode-reader-differs:"+detected, fmt.Sprintf("UniversalDecoder.Decode(reader) gives [%s] %s but the %s decoder gives [%s] %s", uEvs2, uErr2, detected, sEvs, sErr), text)
		}
		if uVal != sVal || uvErr != svErr {
			r.out.Finding("C27", "unmarshal-document-differs:"+detected, fmt.Sprintf("UnmarshalFromCEDocument gives %s %s but the %s unmarshaler gives %s %s", uVal, uvErr, detected, sVal, svErr), text)
		}
		if uVal2 != sVal || uvErr2 != svErr {
			r.out.Finding("C27", "unmarshal-reader-differs:"+detected, fmt.Sprintf("UnmarshalCE(reader) gives %s %s but the %s unmarshaler gives %s %s", uVal2, uvErr2, detected, sVal, svErr), text)
		}
	}
	// every first byte × a few continuations
	for b := 0; b < 256; b++ {
		for _, v := range versionsCBE[:3] {
			for _, body := range bodiesCBE[:2] {
				emit(append(append([]byte{byte(b)}, v...), body...), "first-byte")
			}
		}
		emit(append([]byte{byte(b)}, []byte("0 1")...), "first-byte-cte-tail")
		emit(append([]byte{byte(b)}, []byte("1 [1]")...), "first-byte-cte-tail")
		emit([]byte{byte(b)}, "single-byte")
	}
	emit([]byte{}, "empty")
	// versions × bodies, CBE
	for _, v := range versionsCBE {
		for _, body := range bodiesCBE {
			emit(append(append([]byte{0x81}, v...), body...), "cbe-version")
		}
	}
	// versions × bodies, CTE, both header letters
	for _, h := range []string{"c", "C"} {
		for _, v := range versionsCTE {
			for _, body := range bodiesCTE {
				emit([]byte(h+v+body), "cte-version")
			}
		}
	}
	// version acceptance: 0 and 1 alike, every other version rejected (model: API.VERSION)
	if r.Shard == 0 {
		for v := 0; v <= 300; v++ {
			// CBE
			doc := append([]byte{0x81}, ulebBytes(uint64(v))...)
			doc = append(doc, 0x01)
			_, e, _ := decodeVia("cbe", doc, func(d []byte, rc events.DataEventReceiver) error { return cbe.NewDecoder(cfg).DecodeDocument(d, rc) }, cfg)
			r.out.Line("prop", fmt.Sprintf("vb%d", v), "API.VERSION", []string{"cbe", fmt.Sprintf("%d", v)}, map[string]string{"OK": "1", "ERR": "0"}[e])
			if v <= 99 {
				cdoc := []byte(fmt.Sprintf("c%d 1", v))
				_, e2, _ := decodeVia("cte", cdoc, func(d []byte, rc events.DataEventReceiver) error { return cte.NewDecoder(cfg).DecodeDocument(d, rc) }, cfg)
				r.out.Line("prop", fmt.Sprintf("vt%d", v), "API.VERSION", []string{"cte", fmt.Sprintf("%d", v)}, map[string]string{"OK": "1", "ERR": "0"}[e2])
			}
		}
		// versions that do not fit 64 bits (10 and more ULEB128 bytes), CBE and CTE
		for _, k := range []uint{62, 63, 64, 65, 70, 77, 126, 127, 128, 140} {
			for d := int64(-1); d <= 1; d++ {
				v := new(big.Int).Lsh(big.NewInt(1), k)
				v.Add(v, big.NewInt(d))
				var ub []byte
				for t := new(big.Int).Set(v); ; {
					b := byte(new(big.Int).And(t, big.NewInt(0x7f)).Uint64())
					t.Rsh(t, 7)
					if t.Sign() != 0 {
						ub = append(ub, b|0x80)
					} else {
						ub = append(ub, b)
						break
					}
				}
				doc := append(append([]byte{0x81}, ub...), 0x01)
				_, e, _ := decodeVia("cbe", doc, func(d []byte, rc events.DataEventReceiver) error { return cbe.NewDecoder(cfg).DecodeDocument(d, rc) }, cfg)
				r.out.Line("prop", "vbig"+v.String(), "API.VERSION", []string{"cbe", v.String()}, map[string]string{"OK": "1", "ERR": "0"}[e])
				emit(doc, "cbe-version-big")
				cdoc := []byte("c" + v.String() + " 1")
				_, e2, _ := decodeVia("cte", cdoc, func(d []byte, rc events.DataEventReceiver) error { return cte.NewDecoder(cfg).DecodeDocument(d, rc) }, cfg)
				r.out.Line("prop", "vtbig"+v.String(), "API.VERSION", []string{"cte", v.String()}, map[string]string{"OK": "1", "ERR": "0"}[e2])
			}
		}
		// encoders / marshalers write version 0
		for _, val := range []interface{}{1, "a", []int{1}, map[string]int{"a": 1}, nil} {
			d1, err1 := ce.MarshalToCBEDocument(val, cfg)
			d2, err2 := ce.MarshalToCTEDocument(val, cfg)
			if err1 != nil || len(d1) < 2 || d1[0] != 0x81 || d1[1] != 0 {
				r.out.Finding("C27", "marshal-version:cbe", fmt.Sprintf("CBE marshaler does not write signature+version 0: %s %v", hx(d1), err1), fmt.Sprintf("%#v", val))
			}
			if err2 != nil || !strings.HasPrefix(string(d2), "c0") {
				r.out.Finding("C27", "marshal-version:cte", fmt.Sprintf("CTE marshaler does not write c0: %q %v", string(d2), err2), fmt.Sprintf("%#v", val))
			}
		}
	}
	r.out.Add("documents", n)
}

func ulebBytes(v uint64) []byte {
	var out []byte
	for {
		b := byte(v & 0x7f)
		v >>= 7
		if v != 0 {
			out = append(out, b|0x80)
		} else {
			out = append(out, b)
			return out
		}
	}
}
